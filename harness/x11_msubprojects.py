"""X11 - the `meson subprojects` command family (download, update, checkout, foreach, purge, packagefiles).

Rule book: specs/msubprojects/MSubprojects.tla (written from Subprojects.md, Commands.md, the wrap manual, the release
notes 0.56 / 0.58 / 0.59 / 0.60 and unittests/subprojectscommandtests.py).

1. TLC model-checks the laws on three bounded families of worlds (MSubprojects_MC: files / git / mixed) and the
   time-unfolded `foreach -j N` machine (MSubprojectsPar) against the declarative report / schedule laws.
2. (A) spec -> code: the model run exports its world, its command and environment alphabets, and one witness history
   for every distinct world within HistDepth steps; TLC `-simulate` adds longer histories.  Every witness is replayed on
   a real source tree (real wrap files, `file://` archives, local git upstreams) through the real command; from the
   world it reaches a seeded sample of the whole command alphabet is run, each command from a restored snapshot.
   After *every* command the tree is projected back to the vocabulary of the specification.
   (B) code -> spec: seeded random worlds (other shapes than the model's: several wraps of each kind, a main project
   that is itself a git repository, ...) and random histories with random spellings of the options (-j /
   --num-processes, --sourcedir, --types lists, --rebase, ...), forced schedules of `foreach -j N` (a gate script holds
   every task until the controller releases it: fifo / lifo), and wide worlds (hundreds of subprojects, many failing).
   All recorded sessions are judged by TLC with TraceMSubprojects (the same operators); the verdict names the failing
   clause.  Python only renders, drives and projects.
"""
from __future__ import annotations

import copy
import json
import random
import shutil
import sys
import typing as T
from concurrent.futures import ProcessPoolExecutor
from pathlib import Path

from . import common
from .common import Check, MachineryError, SPECS, run_tlc, scratch
from . import msubp_run
from .msubp_world import World, WorldError, initial_state, REMOTE_BRANCHES

PROP = 'X11'
FAM = SPECS / 'msubprojects'
EV0 = {'op': '', 'w': '', 'b': '', 'rev': '', 'how': ''}
CMD0 = {'c': '', 'sel': {'k': 'all', 'v': ''}, 'types': [], 'reset': False, 'b': False, 'branch': '', 'confirm': False,
        'cache': False, 'save': False, 'fail': [], 'j': 0, 'gated': False}
MODEL_KEYS = ('c', 'sel', 'types', 'reset', 'b', 'branch', 'confirm', 'cache', 'save', 'fail', 'j', 'gated')


# ---------------------------------------------------------------------------
# rendering helpers (no verdicts here)

def full_cmd(cmd: T.Dict[str, T.Any]) -> T.Dict[str, T.Any]:
    """the command in the vocabulary of the specification (uniform record for TLC)"""
    out = copy.deepcopy(CMD0)
    for k in MODEL_KEYS:
        if k in cmd:
            out[k] = copy.deepcopy(cmd[k])
    out['sel'] = {'k': cmd.get('sel', {}).get('k', 'all'), 'v': cmd.get('sel', {}).get('v', '')}
    out['types'] = sorted(out['types'])
    out['fail'] = sorted(out['fail'])
    out['j'] = int(out['j'] or 0)
    out['gated'] = bool(out['gated'])
    return out


def cmdform(c: T.Dict[str, T.Any]) -> str:
    s = c['c']
    if c['c'] == 'update' and c.get('reset'):
        s += ' --reset'
    elif c['c'] == 'checkout':
        s += (' -b' if c.get('b') else '') + (' ' + c['branch'] if c.get('branch') else ' (wrap revision)')
    elif c['c'] == 'purge':
        s += (' --confirm' if c.get('confirm') else '') + (' --include-cache' if c.get('cache') else '')
    elif c['c'] == 'packagefiles':
        s += ' --save' if c.get('save') else ' --apply'
    return s


def env_applicable(ev: T.Dict[str, T.Any], w: T.Dict[str, T.Any]) -> bool:
    """Can the harness perform this environment event now?  (Its agreement with EnvEnabled of the specification is
    checked by TLC on every event that was applied: Machinery.EnvNotEnabled.)"""
    op, kind = ev['op'], w['kind']
    is_file = kind in ('file', 'redirect')
    git_here = kind == 'git' and w['dir'] == 'present' and w['repo']
    if op == 'editwrap':
        return is_file and w['live'] and w['wv'] == 1
    if op == 'setrev':
        return kind == 'git' and w['live'] and ev['rev'] in REMOTE_BRANCHES and ev['rev'] != w['rev']
    if op == 'editoverlay':
        return is_file and w['ov'] == 1
    if op == 'upcommit':
        return kind == 'git' and ev['b'] in REMOTE_BRANCHES and len(w['up'][ev['b']]) < 4
    if op == 'localcommit':
        return git_here and w['cur'] in ('master', 'dev', 'topic') and w['nloc'] < 6 and w['dirty'] in ('clean', 'tracked', 'untracked')
    if op == 'dirty':
        return git_here and w['dirty'] == 'clean'
    if op == 'detach':
        return git_here and w['cur'] in ('master', 'dev', 'topic')
    if op == 'localmod':
        return kind != 'git' and w['dir'] == 'present' and not w['mod']
    if op == 'plaindir':
        return kind == 'git' and w['dir'] == 'absent'
    return False


def expected_runs(world: World, cmd: T.Dict[str, T.Any]) -> int:
    """How many gate scripts a `foreach` is going to start - a *hint* for the controller of a gated run (it only saves
    waiting time; the verdict about who ran is TLC's)."""
    import fnmatch
    pats = msubp_run.pattern_of(cmd.get('sel', {'k': 'all'}))
    n = 0
    for name, w in world.state.items():
        visible = (w['dir'] == 'present') if w['kind'] == 'none' else w['live']
        if not visible or w['dir'] != 'present':
            continue
        if pats and not any(fnmatch.fnmatch(name, p) for p in pats):
            continue
        tn = {'file': 'file', 'git': 'git', 'redirect': 'file'}.get(w['kind'], 'none')
        if cmd.get('types') and tn not in cmd['types']:
            continue
        n += 1
    return n


def dress(cmd: T.Dict[str, T.Any], rnd: random.Random, nwraps: int) -> T.Dict[str, T.Any]:
    """Choose the spelling of a model command on the command line (everything the rule book says is irrelevant)."""
    c = dict(cmd)
    c.setdefault('j', rnd.choice([0, 0, 1, 2, 3, 8]))
    c['shortj'] = rnd.random() < 0.6
    c['cwd'] = rnd.random() < 0.7
    c['explicit_sourcedir'] = rnd.random() < 0.3
    if c.get('types'):
        ts = list(c['types'])
        rnd.shuffle(ts)
        c['types_text'] = rnd.choice([',', ', ', ' ,', ' , ']).join(ts)
    if c['c'] == 'update' and rnd.random() < 0.25:
        c['rebase'] = True          # [SP] "the `--rebase` argument is deprecated and has no effect"
    if c['c'] == 'foreach' and 'gated' not in c:
        if rnd.random() < 0.6:
            c['gated'] = True
            c['j'] = rnd.choice([1, 2, 2, 3])
            c['policy'] = rnd.choice(['fifo', 'lifo'])
        else:
            c['gated'] = False
    return c


# ---------------------------------------------------------------------------
# one session of the real command (worker process)

def do_cmd(world: World, ctl: Path, cmd: T.Dict[str, T.Any], mode: str) -> T.Dict[str, T.Any]:
    if cmd['c'] == 'foreach' and cmd.get('gated'):
        n = expected_runs(world, cmd)
        cmd = dict(cmd, hint_total=n, hint_par=max(1, int(cmd.get('j') or 1)))
    r = msubp_run.run_command(world, ctl, cmd, mode=mode, timeout=900.0 + 6.0 * len(world.order))
    try:
        obs = world.project()
    except (WorldError, OSError) as e:
        raise MachineryError(f'projection failed after {r["argv"]}: {e}') from e
    text = r['text']
    toks = msubp_run.tokens(world, cmd, text)
    rc = r['rc']
    rec = {'k': 'cmd', 'cmd': full_cmd(cmd), 'ev': dict(EV0),
           'rc': 255 if rc is None or rc < 0 or rc > 255 else rc,
           'crash': msubp_run.crashed(text, rc),
           'crash_site': msubp_run.crash_site(text) if msubp_run.crashed(text, rc) else '',
           'failed': msubp_run.failed_names(text),
           'heads': [t[0] for t in toks if t[1] == 'head'],
           'toks': [t for t in toks if t[0] != '' or t[1] in ('failed', 'error')],
           'runs': msubp_run.schedule(world, r['events']),
           'ws': obs['ws'], 'foreign': obs['foreign'],
           # for people (replay files), not for TLC
           'argv': r['argv'], 'mode': mode, 'releases': r['releases'],
           'text': '\n'.join(msubp_run.clean_lines(text))[-3000:]}
    world.adopt(obs)
    return rec


def do_env(world: World, ev: T.Dict[str, T.Any]) -> T.Optional[T.Dict[str, T.Any]]:
    w = world.state.get(ev['w'])
    if w is None or not env_applicable(ev, w):
        return None
    try:
        world.apply_env(ev)
        obs = world.project()
    except (WorldError, OSError) as e:
        raise MachineryError(f'environment event {ev} failed: {e}') from e
    rec = {'k': 'env', 'cmd': copy.deepcopy(CMD0), 'ev': {k: ev.get(k, '') for k in EV0}, 'rc': 0, 'crash': False,
           'failed': [], 'heads': [], 'toks': [], 'runs': [], 'ws': obs['ws'], 'foreign': obs['foreign']}
    world.adopt(obs)
    return rec


def run_session(job: T.Dict[str, T.Any]) -> T.Dict[str, T.Any]:
    """job: {id, specs, maingit, steps: [{k: cmd|env, ...}], tails: [cmd], mode, seed} -> {cases: [...], stats}"""
    mode = job.get('mode', 'fork')
    cases: T.List[T.Dict[str, T.Any]] = []
    with scratch('x11-') as d:
        world = World(d / 'w', job['specs'], maingit=bool(job.get('maingit')))
        try:
            world.build()
            init = world.project()
        except (WorldError, OSError) as e:
            raise MachineryError(f'could not build the world of {job["id"]}: {e}') from e
        expect = [initial_state(s) for s in job['specs']]
        if init['ws'] != expect or init['foreign'] != 0:
            raise MachineryError(f'the fresh world of {job["id"]} does not project to its initial abstract state')
        world.adopt(init)
        ctl = d / 'ctl'
        ctl.mkdir()
        main = {'id': job['id'], 'init': init['ws'], 'steps': [], 'job': job['id']}
        for st in job['steps']:
            rec = do_cmd(world, ctl, st['cmd'], mode) if st['k'] == 'cmd' else do_env(world, st['ev'])
            if rec is not None:
                main['steps'].append(rec)
        if main['steps']:
            cases.append(main)
        tails = job.get('tails') or []
        if tails:
            snap = d / 'snap'
            shutil.copytree(world.src, snap, symlinks=True)
            state0 = copy.deepcopy(world.state)
            before = [copy.deepcopy(world.state[n]) for n in world.order]
            for k, cmd in enumerate(tails):
                if k > 0:
                    shutil.rmtree(world.src)
                    shutil.copytree(snap, world.src, symlinks=True)
                    world.state = copy.deepcopy(state0)
                rec = do_cmd(world, ctl, cmd, mode)
                cases.append({'id': f'{job["id"]}#t{k}', 'init': before, 'steps': [rec], 'job': job['id']})
    return {'cases': cases}


# ---------------------------------------------------------------------------
# TLC: model runs, export, judge

def mc_cfg(fam: str, maxup: int, maxlocal: int, maxstash: int, histdepth: int, mode: str) -> str:
    """mode: 'laws' (all properties), 'export' (witnesses of every world within histdepth steps), 'sim'"""
    lines = []
    for ln in (FAM / 'MSubprojects_MC.cfg').read_text().splitlines():
        s = ln.strip()
        if s.startswith('CONSTANTS Family'):
            ln = f'CONSTANTS Family = "{fam}"'
        elif s.startswith('MaxUp'):
            ln = f' MaxUp = {maxup}'
        elif s.startswith('MaxLocal'):
            ln = f' MaxLocal = {maxlocal}'
        elif s.startswith('MaxStash'):
            ln = f' MaxStash = {maxstash}'
        elif s.startswith('HistDepth'):
            ln = f' HistDepth = {histdepth}'
        elif s.startswith('PROPERTY') and mode != 'laws':
            continue
        elif s.startswith('POSTCONDITION') and mode == 'sim':
            continue
        lines.append(ln)
    if mode == 'export':
        lines += ['INVARIANT EmitWitness', 'CONSTRAINT LevelBound']
    elif mode == 'sim':
        lines += ['INVARIANT EmitFull']
    return '\n'.join(lines) + '\n'


def norm_hist(h: T.List[T.Dict[str, T.Any]]) -> T.List[T.Dict[str, T.Any]]:
    out = []
    for e in h:
        if e['k'] == 'cmd':
            c = e['cmd']
            out.append({'k': 'cmd', 'cmd': {'c': c['c'], 'sel': {'k': c['sel']['k'], 'v': c['sel']['v']},
                                            'types': sorted(c['types']), 'reset': bool(c['reset']), 'b': bool(c['b']),
                                            'branch': c['branch'], 'confirm': bool(c['confirm']), 'cache': bool(c['cache']),
                                            'save': bool(c['save']), 'fail': sorted(c['fail'])}})
        else:
            out.append({'k': 'env', 'ev': {k: e['ev'][k] for k in EV0}})
    return out


def world_specs(alpha: T.Dict[str, T.Any]) -> T.List[T.Dict[str, T.Any]]:
    """the model's initial world -> the specs the world builder wants; checked against initial_state()"""
    specs = []
    for w in alpha['world']:
        s = {'name': w['name'], 'grp': w['grp'], 'kind': w['kind'], 'ov': w['ov']}
        mine = initial_state(s)
        theirs = dict(w)
        if mine != theirs:
            diff = sorted(k for k in set(mine) | set(theirs) if mine.get(k) != theirs.get(k))
            raise MachineryError(f'the initial world of the model and of the harness differ for {w["name"]}: {diff}')
        specs.append(s)
    return specs


def judge(chk: Check, cases: T.List[T.Dict[str, T.Any]], jobs: T.Dict[str, T.Dict[str, T.Any]], label: str) -> None:
    if not cases:
        return
    by_id = {c['id']: c for c in cases}
    if len(by_id) != len(cases):
        raise MachineryError('duplicate case ids')
    slim_keys = ('k', 'cmd', 'ev', 'rc', 'crash', 'failed', 'heads', 'toks', 'runs', 'ws', 'foreign')

    def slim(c: T.Dict[str, T.Any]) -> T.Dict[str, T.Any]:
        return {'id': c['id'], 'init': c['init'], 'steps': [{k: s[k] for k in slim_keys} for s in c['steps']]}

    for part_no, part in enumerate(common.size_chunks(cases, 4000, project=slim, max_bytes=12_000_000)):
        with scratch('x11j-') as d:
            tf = d / 'cases.json'
            tf.write_text(json.dumps([slim(c) for c in part]))
            res = run_tlc(FAM, 'TraceMSubprojects', env={'TRACE_FILE': str(tf)}, timeout=3000)
            if not res.clean:
                raise MachineryError('TraceMSubprojects did not complete cleanly:\n' + res.stdout[-2500:])
            if res.distinct != 2 * len(part):
                raise MachineryError(f'TraceMSubprojects judged {res.distinct // 2} of {len(part)} cases')
            bad = res.json_lines()
            nlines = sum(1 for ln in res.stdout.splitlines() if ln.strip().startswith('"{'))
            if nlines != len(bad):
                res1 = run_tlc(FAM, 'TraceMSubprojects', env={'TRACE_FILE': str(tf)}, timeout=3000, workers=1)
                bad = res1.json_lines()
        chk.add_tlc(f'TraceMSubprojects[{label}#{part_no}]', res, model=False)
        chk.traces += len(part)
        for v in bad:
            c = by_id.get(v['id'])
            if c is None:
                raise MachineryError('verdict for an unknown case: ' + repr(v))
            step = c['steps'][v['step'] - 1] if 0 < v['step'] <= len(c['steps']) else None
            if v['clause'].startswith('Machinery.'):
                raise MachineryError(f"case {v['id']} step {v['step']}: {v['clause']} {v['w']} {v['detail']} "
                                     f"(the harness' model of the environment disagrees with the specification)")
            kind = ''
            if v['w']:
                kind = next((w['kind'] for w in c['init'] if w['name'] == v['w']), '')
            sig = f"{v['clause']}|{cmdform(step['cmd']) if step else ''}|{kind}|{v['detail']}"
            if step and step.get('crash'):
                sig += '|' + (step.get('crash_site') or 'crash')
            if v['clause'].startswith('ExitStatus.') and step:
                sig += f"|failed={len(step['failed'])}"
            before = c['init'] if v['step'] <= 1 else c['steps'][v['step'] - 2]['ws']
            chk.violation(sig, {'verdict': v, 'case': c['id'], 'job': jobs.get(c.get('job', ''), None),
                                'state_before': before, 'step': step,
                                'steps_so_far': [{'k': s['k'], 'cmd': cmdform(s['cmd']) if s['k'] == 'cmd' else '', 'ev': s['ev'],
                                                  'argv': s.get('argv')} for s in c['steps'][:v['step']]]})


def run_jobs(chk: Check, jobs: T.List[T.Dict[str, T.Any]], label: str) -> T.List[T.Dict[str, T.Any]]:
    # longest first (a world of hundreds of subprojects is long whatever its number of steps)
    jobs = sorted(jobs, key=lambda j: -(len(j['steps']) + len(j.get('tails') or []) + len(j['specs']) // 6))
    cases: T.List[T.Dict[str, T.Any]] = []
    with ProcessPoolExecutor(max_workers=common.NCPU) as ex:
        for out in ex.map(run_session, jobs, chunksize=1):
            cases += out['cases']
    ncmd = 0
    for c in cases:
        prev = c['init']
        for s in c['steps']:
            if s['k'] == 'cmd':
                ncmd += 1
                changed = sorted({k for a, b in zip(prev, s['ws']) for k in a if a[k] != b[k]})
                if changed or s['rc'] != 0:
                    chk.nontriv(cmdform(s['cmd']) + '|' + '+'.join(changed) + ('|failed' if s['rc'] != 0 else ''))
            prev = s['ws']
    chk.evaluations += ncmd
    chk.extra[f'commands_run_{label}'] = chk.extra.get(f'commands_run_{label}', 0) + ncmd
    chk.extra[f'sessions_{label}'] = chk.extra.get(f'sessions_{label}', 0) + len(jobs)
    for c in cases[:: max(1, len(cases) // 3)][:3]:
        chk.sample({'case': c['id'], 'steps': [{'k': s['k'], 'argv': s.get('argv'), 'ev': s['ev'] if s['k'] == 'env' else None,
                                                'rc': s['rc'], 'failed': s['failed'],
                                                'after': [{k: w[k] for k in ('name', 'kind', 'dir', 'src', 'aov', 'cache', 'cur', 'dirty', 'stash')}
                                                          for w in s['ws']]} for s in c['steps'][:3]]}, limit=9)
    return cases


# ---------------------------------------------------------------------------
# (B) random worlds and histories

def random_world(rnd: random.Random) -> T.Tuple[T.List[T.Dict[str, T.Any]], bool]:
    letters = list('abcdefghk')
    rnd.shuffle(letters)
    n = rnd.choice([1, 2, 2, 3, 3, 4, 5])
    specs: T.List[T.Dict[str, T.Any]] = []
    groups = letters[:max(1, min(3, n))]
    used = set()
    for _ in range(n):
        g = rnd.choice(groups)
        while True:
            name = g + rnd.choice('pqrstuvw') + rnd.choice(['', '', 'x', '2'])
            if name not in used and name + '-host' not in used:
                break
        used.add(name)
        kind = rnd.choice(['file', 'file', 'git', 'git', 'git', 'redirect', 'none'])
        s = {'name': name, 'grp': g, 'kind': kind, 'ov': rnd.choice([0, 1]) if kind in ('file', 'redirect') else 0}
        specs.append(s)
        if kind == 'redirect':      # the subproject that carries the real wrap file is a directory without a wrap
            used.add(name + '-host')
            specs.append({'name': name + '-host', 'grp': g, 'kind': 'none', 'ov': 0})
    return specs, rnd.random() < 0.5


def random_cmd(rnd: random.Random, specs: T.List[T.Dict[str, T.Any]]) -> T.Dict[str, T.Any]:
    names = [s['name'] for s in specs]
    c = rnd.choice(['download', 'download', 'update', 'update', 'update', 'checkout', 'checkout', 'foreach', 'foreach',
                    'purge', 'purge', 'packagefiles'])
    r = rnd.random()
    if r < 0.55:
        sel = {'k': 'all', 'v': ''}
    elif r < 0.8:
        sel = {'k': 'name', 'v': rnd.choice(names + ['zz'])}
    else:
        sel = {'k': 'grp', 'v': rnd.choice(sorted({s['grp'] for s in specs}) + ['y'])}
    r = rnd.random()
    if r < 0.65:
        types: T.List[str] = []
    elif r < 0.97:
        types = sorted(rnd.sample(['file', 'git', 'hg', 'svn', 'redirect'], rnd.choice([1, 1, 2, 3])))
    else:
        types = sorted(rnd.sample(['file', 'git'], 1) + ['bogus'])
    cmd: T.Dict[str, T.Any] = {'c': c, 'sel': sel, 'types': types}
    if c == 'update':
        cmd['reset'] = rnd.random() < 0.4
    elif c == 'checkout':
        form = rnd.choice([(False, ''), (False, ''), (False, 'master'), (False, 'dev'), (False, 'topic'), (False, 'nonexist'),
                           (True, 'topic'), (True, 'topic'), (True, 'dev')])
        cmd['b'], cmd['branch'] = form
        if not cmd['branch']:
            cmd['sel'] = {'k': 'all', 'v': ''}       # names of subprojects come after a branch name
    elif c == 'foreach':
        cmd['fail'] = sorted(rnd.sample(names, rnd.choice([0, 0, 1, 1, 2]) if len(names) > 1 else rnd.choice([0, 1])))
    elif c == 'purge':
        cmd['confirm'] = rnd.random() < 0.6
        cmd['cache'] = rnd.random() < 0.5
    elif c == 'packagefiles':
        cmd['save'] = rnd.random() < 0.5
    return cmd


def random_event(rnd: random.Random, specs: T.List[T.Dict[str, T.Any]]) -> T.Dict[str, T.Any]:
    s = rnd.choice(specs)
    if s['kind'] == 'git':
        op = rnd.choice(['upcommit', 'upcommit', 'localcommit', 'dirty', 'dirty', 'detach', 'setrev', 'plaindir'])
    elif s['kind'] == 'none':
        op = 'localmod'
    else:
        op = rnd.choice(['editwrap', 'editoverlay', 'localmod'])
    ev = dict(EV0, op=op, w=s['name'])
    if op == 'upcommit':
        ev['b'] = rnd.choice(['master', 'master', 'dev'])
    elif op == 'setrev':
        ev['rev'] = rnd.choice(['master', 'dev'])
    elif op == 'dirty':
        ev['how'] = rnd.choice(['tracked', 'untracked'])
    return ev


def random_job(seed: int, idx: int, nsteps: int) -> T.Dict[str, T.Any]:
    rnd = random.Random(seed * 1_000_003 + idx)
    specs, maingit = random_world(rnd)
    dl = {'k': 'cmd', 'cmd': dress({'c': 'download', 'sel': {'k': 'all', 'v': ''}, 'types': []}, rnd, len(specs))}
    steps: T.List[T.Dict[str, T.Any]] = []
    r = rnd.random()
    if r < 0.5:             # everything fetched
        steps = [dl]
    elif r < 0.65:          # fetched, then cleaned up (the cache may stay)
        steps = [dl, {'k': 'cmd', 'cmd': dress({'c': 'purge', 'sel': {'k': 'all', 'v': ''}, 'types': [], 'confirm': True,
                                                'cache': rnd.random() < 0.4}, rnd, len(specs))}]
    elif r < 0.8:           # [SP] "the subproject directory is not a git repository but has a `[wrap-git]`"
        steps = [{'k': 'env', 'ev': dict(EV0, op='plaindir', w=s['name'])} for s in specs if s['kind'] == 'git' and rnd.random() < 0.7]
        if rnd.random() < 0.5:
            steps.append(dl)
    while len(steps) < nsteps:
        if rnd.random() < 0.4:
            # environment events that do not apply in the state the session is in are skipped by the worker
            steps.append({'k': 'env', 'ev': random_event(rnd, specs)})
        else:
            steps.append({'k': 'cmd', 'cmd': dress(random_cmd(rnd, specs), rnd, len(specs))})
    return {'id': f'B{seed}.{idx}', 'specs': specs, 'maingit': maingit, 'steps': steps, 'tails': [],
            'mode': 'cli' if rnd.random() < 0.12 else 'fork', 'seed': seed * 1_000_003 + idx}


def wide_job(seed: int, idx: int, n: int, nfail: int) -> T.Dict[str, T.Any]:
    """hundreds of subprojects, many of them failing: the exit status must still say so"""
    rnd = random.Random(seed * 7919 + idx)
    specs = [{'name': f'n{k:03d}', 'grp': 'n', 'kind': 'none', 'ov': 0} for k in range(n)]
    failing = sorted(rnd.sample([s['name'] for s in specs], nfail))
    cmd = {'c': 'foreach', 'sel': {'k': 'all', 'v': ''}, 'types': [], 'fail': failing, 'gated': False,
           'j': rnd.choice([0, 4, 16]), 'shortj': True, 'cwd': True}
    return {'id': f'W{seed}.{idx}.{n}.{nfail}', 'specs': specs, 'maingit': False, 'steps': [{'k': 'cmd', 'cmd': cmd}],
            'tails': [], 'mode': 'cli', 'seed': seed}


# ---------------------------------------------------------------------------

def main(chk: Check) -> None:
    quick = chk.tier == 'quick'
    rnd = random.Random(chk.seed)
    import time
    t0 = time.time()
    phase: T.Dict[str, float] = {}
    chk.extra['phase_wall_s'] = phase
    chk.rule = ('a command step is non-trivial when it changed the projected state of some subproject or reported a failure; '
                'counted as distinct (command form, set of changed fields, failed or not)')

    import os
    skip = set(filter(None, os.environ.get('X11_DEV_SKIP', '').split(',')))     # development aid only: mc, A, B
    if skip:
        chk.assumptions.append('DEVELOPMENT RUN: phases skipped: ' + ','.join(sorted(skip)))
    # ---- 1. the laws, model-checked -------------------------------------------------------------------------
    bounds = {'files': (2, 1, 1), 'git': (2, 0, 1) if quick else (2, 1, 1), 'mixed': (1, 0, 0) if quick else (2, 0, 1)}
    for fam in ('files', 'git', 'mixed') if 'mc' not in skip else ():
        mu, ml, ms = bounds[fam]
        res = run_tlc(FAM, 'MSubprojects_MC', cfg_text=mc_cfg(fam, mu, ml, ms, 0, 'laws'), timeout=3000, allow_violation=False)
        chk.add_tlc(f'MSubprojects_MC[{fam},MaxUp={mu},MaxLocal={ml},MaxStash={ms}]', res)
    par = (FAM / 'MSubprojectsPar.cfg').read_text()
    pars = [('2of4', par)] if quick else [('2of4', par), ('3of4', par.replace('J = 2', 'J = 3')), ('1of4', par.replace('J = 2', 'J = 1'))]
    for name, cfg in pars if 'mc' not in skip else ():
        res = run_tlc(FAM, 'MSubprojectsPar', cfg_text=cfg, timeout=1200, allow_violation=False)
        chk.add_tlc(f'MSubprojectsPar[{name}]', res)
    # the report law is not vacuous: the sloppy machine breaks it, and some run reaches the full width
    res = run_tlc(FAM, 'MSubprojectsPar', cfg_text=par.replace('Sloppy = FALSE', 'Sloppy = TRUE'), timeout=1200)
    if res.invariant_violated != 'PReportOK':
        raise MachineryError('the sloppy foreach machine was expected to violate PReportOK, got ' + repr(res.invariant_violated))
    res = run_tlc(FAM, 'MSubprojectsPar', cfg_text=par + 'INVARIANT NeverFullWidth\n', timeout=1200)
    if res.invariant_violated != 'NeverFullWidth':
        raise MachineryError('no run of the foreach machine reaches J tasks at once')

    phase['model_checking'] = round(time.time() - t0, 1)
    t0 = time.time()
    # ---- 2. (A) spec -> code ---------------------------------------------------------------------------------
    depth = 3 if quick else 4
    n_wit = {'files': 22, 'git': 26, 'mixed': 20} if quick else {'files': 260, 'git': 260, 'mixed': 260}
    n_tail = 3 if quick else 6
    n_sim = 3 if quick else 40
    sim_len = 10 if quick else 14
    jobs: T.List[T.Dict[str, T.Any]] = []
    chk.extra['witness_worlds'] = {}
    for fam in ('files', 'git', 'mixed') if 'A' not in skip else ():
        res = run_tlc(FAM, 'MSubprojects_MC', cfg_text=mc_cfg(fam, 2, 1, 1, depth, 'export'), workers=1, timeout=3000,
                      allow_violation=False, collect=['alphabet.json'])
        chk.add_tlc(f'MSubprojects_MC[{fam},export,HistDepth={depth}]', res)
        if 'alphabet.json' not in res.collected:
            raise MachineryError('the model run did not export its alphabet')
        alpha = json.loads(res.collected['alphabet.json'])
        specs = world_specs(alpha)
        hists = [norm_hist(x['hist']) for x in res.json_lines() if x['fam'] == fam]
        if not hists:
            raise MachineryError(f'no witness histories exported for {fam}')
        chk.extra['witness_worlds'][fam] = len(hists)
        chk.extra.setdefault('alphabet', {})[fam] = {'commands': len(alpha['commands']), 'env': len(alpha['env'])}
        alphabet = [norm_hist([{'k': 'cmd', 'cmd': c}])[0]['cmd'] for c in alpha['commands']]
        alphabet.sort(key=lambda c: json.dumps(c, sort_keys=True))
        order = list(range(len(hists)))
        rnd.shuffle(order)
        # deepest witnesses first: they pass through the worlds of their prefixes
        order.sort(key=lambda k: -len(hists[k]))
        chosen = order[:n_wit[fam]]
        if len(chosen) == len(hists):
            chk.extra.setdefault('all_witnesses_replayed', []).append(fam)
        for k in chosen:
            jr = random.Random(chk.seed * 9176 + hash_str(fam) + k)
            steps = [{'k': 'cmd', 'cmd': dress(e['cmd'], jr, len(specs))} if e['k'] == 'cmd' else e for e in hists[k]]
            tails = [dress(c, jr, len(specs)) for c in stratified(alphabet, n_tail, jr)]
            jobs.append({'id': f'A.{fam}.{k}', 'specs': specs, 'maingit': jr.random() < 0.4, 'steps': steps, 'tails': tails,
                         'mode': 'cli' if jr.random() < 0.08 else 'fork', 'seed': chk.seed})
        # longer behaviours of the model
        res = run_tlc(FAM, 'MSubprojects_MC', cfg_text=mc_cfg(fam, 2, 1, 1, sim_len, 'sim'), workers=1, timeout=3000,
                      simulate=f'num={n_sim}', depth=sim_len + 1, tlc_seed=chk.seed + 1)
        if res.invariant_violated or res.deadlock:
            raise MachineryError('simulation of MSubprojects_MC reported a problem:\n' + res.stdout[-1500:])
        seen = set()
        for x in res.json_lines():
            h = norm_hist(x['hist'])
            key = json.dumps(h, sort_keys=True)
            if key in seen or len(seen) >= n_sim:
                continue
            seen.add(key)
            jr = random.Random(chk.seed * 31337 + hash_str(fam) + len(seen))
            steps = [{'k': 'cmd', 'cmd': dress(e['cmd'], jr, len(specs))} if e['k'] == 'cmd' else e for e in h]
            jobs.append({'id': f'A.{fam}.sim{len(seen)}', 'specs': specs, 'maingit': jr.random() < 0.4, 'steps': steps,
                         'tails': [], 'mode': 'fork', 'seed': chk.seed})
    jobmap = {j['id']: j for j in jobs}
    phase['A_export'] = round(time.time() - t0, 1)
    t0 = time.time()
    cases = run_jobs(chk, jobs, 'A')
    phase['A_replay'] = round(time.time() - t0, 1)
    t0 = time.time()
    judge(chk, cases, jobmap, 'A')
    phase['A_judge'] = round(time.time() - t0, 1)
    t0 = time.time()

    # ---- 3. (B) code -> spec ---------------------------------------------------------------------------------
    n_b = 40 if quick else 420
    if 'B' in skip:
        n_b = 0
    jobs = [random_job(chk.seed, k, random.Random(chk.seed * 77 + k).choice([5, 7, 9, 12])) for k in range(n_b)]
    wides = [(40, 3), (300, 256)] if quick else [(40, 3), (260, 255), (300, 256), (300, 257), (520, 512)]
    jobs += [wide_job(chk.seed, k, n, f) for k, (n, f) in enumerate(wides) if 'B' not in skip]
    jobmap = {j['id']: j for j in jobs}
    cases = run_jobs(chk, jobs, 'B')
    phase['B_run'] = round(time.time() - t0, 1)
    t0 = time.time()
    judge(chk, cases, jobmap, 'B')
    phase['B_judge'] = round(time.time() - t0, 1)
    chk.extra['gated_foreach_runs'] = sum(1 for c in cases for s in c['steps'] if s['k'] == 'cmd' and s['cmd']['gated'])

    chk.exhaustive = False
    chk.assumptions += [
        'git histories are linear and every commit adds its own file, so rebases never conflict (conflicts, force pushes, '
        'tags / commit ids as revision, depth, submodules, push-url and a changed url are not generated)',
        'wrap kinds file, git, redirect and directories without a wrap; hg and svn wraps are not generated (no tools), '
        'wrapdb, patch_url / patch_filename archives and diff_files are not generated',
        'one subprojects directory named `subprojects`; subproject directories differ from the wrap names (directory = <name>-d)',
        'an `update` without --reset of an extracted wrap-file tree, of a subproject that was named but is not fetched, and a '
        '`checkout` in a directory that is not a git repository may report success or failure (documents silent); the tree must be unchanged',
        'whether `packagefiles --save` takes meson\'s own .meson-subproject-wrap-hash.txt along into the overlay is not judged; '
        '`packagefiles` with both or neither of --apply / --save is not generated',
        'what `update` leaves in the remote-tracking refs is not fixed by the documents (fetched or not)',
        'output is projected to tokens (announcement of a subproject, the two lines of the harness\' command, "Deleting" lines, '
        'the closing list of failed subprojects); message texts are not compared',
        'forced schedules: the gate script holds every foreach task until released (fifo / lifo), so J tasks are in their '
        'directories at once; the order of the blocks in the report is not prescribed',
        'the thorough tier replays all witness worlds within 4 steps only when there are at most as many as its budget '
        '(see witness_worlds / all_witnesses_replayed) and a seeded sample of the command alphabet from each',
    ]


def stratified(alphabet: T.List[T.Dict[str, T.Any]], n: int, rnd: random.Random) -> T.List[T.Dict[str, T.Any]]:
    """n commands of the model's alphabet, from n different forms of command (download, update --reset, ...) when there
    are that many: every form gets its share of the replays whatever the number of selections / --types it comes with"""
    by_form: T.Dict[str, T.List[T.Dict[str, T.Any]]] = {}
    for c in alphabet:
        by_form.setdefault(cmdform(c), []).append(c)
    forms = sorted(by_form)
    rnd.shuffle(forms)
    out = []
    k = 0
    while len(out) < n and forms:
        out.append(rnd.choice(by_form[forms[k % len(forms)]]))
        k += 1
    return out


def hash_str(s: str) -> int:
    return sum((i + 1) * ord(ch) for i, ch in enumerate(s)) * 1009


def replay(chk: Check, data: T.Dict[str, T.Any]) -> None:
    job = data['detail'].get('job')
    if not job:
        raise MachineryError('the replay file carries no job')
    out = run_session(job)
    judge(chk, out['cases'], {job['id']: job}, 'replay')


if __name__ == '__main__':
    sys.exit(common.run_check(main, PROP, replay=replay))
