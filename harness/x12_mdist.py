"""X12 - `meson dist` (release archives).

1. TLC model-checks specs/mdist/MDist_MC for six families of configurations (flat project with scripts, subprojects of
   every kind, a failing script, a git submodule, a subproject released separately, the test cycle): the operational
   state machine (MDistProc) equals the declarative rule book (MDist!Dist) for every order of adding subprojects, and
   the laws (dirty gate, nothing uncommitted leaks, --allow-dirty packages the commit, all formats agree, checksum only
   on success, scripts in order with the documented environment, exactly the used subprojects, the test cycle sees the
   archive, only the subdirectory of a separately released subproject) hold in every state.  Every run exports its
   bounded input space (source states x options x earlier content of meson-dist).
2. (A) spec -> code: every exported (source state, options, earlier content) - a seeded stratified sample in the quick
   tier - is rendered as real git repositories (harness/x12_world.py), configured with the real `meson setup` and
   released with the real `meson dist`; archives are read back with tarfile / zipfile, scripts and the stand-in for
   ninja log what they were given.
3. (B) code -> spec: seeded random worlds (more files, nested directories, symbolic links, exec bits, a submodule,
   subprojects of every kind, scripts with random edits) and histories of developer actions (edit, stage, commit, chmod,
   delete, touch, bump a submodule ...) interleaved with `meson dist` runs with random options in ONE build directory;
   the source state is read back from the real repositories before every run.
All verdicts come from TLC (specs/mdist/TraceMDist.tla, which applies MDist!Dist to the observed state and names the
first failing clause).
"""
from __future__ import annotations

import json
import os
import random
import sys
import time
import typing as T
from concurrent.futures import ProcessPoolExecutor, ThreadPoolExecutor
from pathlib import Path

from . import common
from . import x12_world as xw
from .common import Check, MachineryError, SPECS, run_tlc, scratch

PROP = 'X12'
FAM = SPECS / 'mdist'
FAMILIES = ('flat', 'subs', 'fail', 'mods', 'subroot', 'tests')
# quick tier: share of the exported (source, options, earlier) triples of a family that is run
QUICK_SHARE = {'flat': 0.14, 'subs': 0.3, 'fail': 1.0, 'mods': 0.5, 'subroot': 0.5, 'tests': 0.3}
OLD_MEMBERS = {'old': 'old0'}     # MDist_MC!OldMd: the gztar archive of an earlier successful run


def canon(x: T.Any) -> str:
    return json.dumps(x, sort_keys=True)


def canon_src(s: T.Dict[str, T.Any]) -> str:
    def tr(seq: T.Sequence[T.Dict[str, T.Any]]) -> T.List[T.Any]:
        return sorted([e['p'], e['k'], e['c'], bool(e['x'])] for e in seq)
    return canon({'main': {k: tr(s['main'][k]) for k in ('head', 'index', 'wt')},
                  'mods': [{'path': m['path'], **{k: tr(m[k]) for k in ('rec', 'idx', 'head', 'wt')}} for m in s['mods']],
                  'own': sorted([o['name'], tr(o['head']), tr(o['index']), tr(o['wt'])] for o in s['own']),
                  'plain': sorted([o['name'], tr(o['wt'])] for o in s['plain'])})


def strip_obs(obs: T.Dict[str, T.Any]) -> T.Dict[str, T.Any]:
    o = {k: v for k, v in obs.items() if k != 'out'}
    o['ran'] = [{k: v for k, v in r.items() if k != 'me'} for r in obs['ran']]
    return o


# ---------------------------------------------------------------------------
# (A) the model's input space through the real command

def _worker_a(args: T.Tuple[str, T.Dict[str, T.Any], T.List[T.Tuple[str, T.Dict[str, T.Any], T.Dict[str, T.Any], int]]]
              ) -> T.List[T.Dict[str, T.Any]]:
    fam, cfg, jobs = args
    out = []
    with scratch('x12a-') as d:
        w = xw.World(d, cfg, common.REPO)
        last = None
        for cid, src, opt, earlier in jobs:
            try:
                key = canon_src(src)
                if key != last:
                    w.render(src)
                    if last is None:
                        w.setup()
                    got = canon_src(w.project_source())
                    if got != key:
                        return [{'id': cid, 'machinery': 'environment-model disagreement: the rendered repositories read back as\n'
                                 + got + '\nwanted\n' + key}]
                    last = key
                w.clear_dist()
                if earlier:
                    w.seed_archive('gztar', OLD_MEMBERS)
                before = w.archives()
                obs = w.run_dist(opt)
            except xw.WorldError as e:
                return [{'id': cid, 'machinery': str(e)}]
            out.append({'id': cid, 'kind': 'A', 'family': fam, 'cfg': cfg,
                        'evs': [{'src': src, 'opt': opt, 'before': before, 'obs': strip_obs(obs)}],
                        'outs': [obs['out']], 'earlier': earlier})
    return out


# ---------------------------------------------------------------------------
# (B) random worlds and histories

NAMES = ('rel', 'my-proj', 'dist script')
VERSIONS = ('1.0', '0.3.1', '2')
FILE_POOL = (('a',), ('b.c',), ('sp ace',), ('d', 'e'), ('d', 'f', 'g'), ('h', 'i.txt'), ('tool.sh',), ('README',))
STATUS_W = (('clean', 10), ('mod', 2), ('staged', 2), ('staged2', 1), ('reverted', 1), ('del', 1), ('rmcached', 1),
            ('untracked', 3), ('new', 1), ('chmod', 1), ('absent', 1))
MOD_STATUS_W = (('clean', 6), ('wtdirty', 1), ('untracked', 1), ('newcommit', 1), ('stagedbump', 1), ('bumpmore', 1))


def wchoice(rnd: random.Random, ws: T.Sequence[T.Tuple[str, int]]) -> str:
    return rnd.choices([a for a, _ in ws], [b for _, b in ws])[0]


def layers(p: T.Tuple[str, ...], st: str, n: str, x: bool) -> T.Dict[str, T.List[T.Dict[str, T.Any]]]:
    """One path in status st (the catalogue of MDist_MC!StX) -> its entries in the three layers."""
    def e(c: str, xx: bool = x) -> T.List[T.Dict[str, T.Any]]:
        return [{'p': list(p), 'k': 'file', 'c': c, 'x': xx}]
    e0, e1, e2, no = e(n + '0'), e(n + '1'), e(n + '2'), []
    return {'clean': dict(head=e0, index=e0, wt=e0), 'mod': dict(head=e0, index=e0, wt=e1),
            'staged': dict(head=e0, index=e1, wt=e1), 'staged2': dict(head=e0, index=e1, wt=e2),
            'reverted': dict(head=e0, index=e1, wt=e0), 'del': dict(head=e0, index=e0, wt=no),
            'rmcached': dict(head=e0, index=no, wt=no), 'untracked': dict(head=no, index=no, wt=e1),
            'new': dict(head=no, index=e1, wt=e1), 'chmod': dict(head=e0, index=e0, wt=e(n + '0', not x)),
            'absent': dict(head=no, index=no, wt=no)}[st]


def join(parts: T.Sequence[T.Dict[str, T.List[T.Dict[str, T.Any]]]]) -> T.Dict[str, T.List[T.Dict[str, T.Any]]]:
    return {k: [e for part in parts for e in part[k]] for k in ('head', 'index', 'wt')}


def link_layers(p: T.Tuple[str, ...], target: str) -> T.Dict[str, T.List[T.Dict[str, T.Any]]]:
    e = [{'p': list(p), 'k': 'link', 'c': target, 'x': False}]
    return dict(head=e, index=e, wt=e)


def gen_world(rnd: random.Random) -> T.Tuple[T.Dict[str, T.Any], T.Dict[str, T.Any]]:
    """A random (cfg, src); the share of worlds in which a script file itself is modified / untracked is kept small."""
    name, version = rnd.choice(NAMES), rnd.choice(VERSIONS)
    subroot = rnd.random() < 0.15
    root = ['subprojects', 'lib'] if subroot else []
    pre = tuple(root)
    parts = [layers(('meson.build',), 'clean', 'mb', False)]
    if subroot:
        parts.append(layers(pre + ('meson.build',), 'clean', 'libmb', False))
        parts.append(layers(('subprojects', 'other', 'meson.build'), 'clean', 'othmb', False))
        parts.append(layers(('top.txt',), wchoice(rnd, STATUS_W), 'top', False))
    files = rnd.sample(FILE_POOL, rnd.randint(2, 6))
    for p in files:
        st = wchoice(rnd, STATUS_W) if rnd.random() < 0.5 else 'clean'
        parts.append(layers(pre + p, st, ''.join(p).replace(' ', '').replace('.', ''), p[-1].endswith('.sh')))
    if rnd.random() < 0.4:
        parts.append(link_layers(pre + ('lnk',), rnd.choice(['meson.build', 'nowhere', 'd'])))
    if rnd.random() < 0.15:
        parts.append(link_layers(pre + ('d', 'up'), '../meson.build'))
    # subprojects
    subs: T.List[T.Dict[str, T.Any]] = []
    own, plain = [], []
    scripts: T.List[T.Dict[str, T.Any]] = []
    nsub = 0 if subroot else rnd.choice([0, 0, 1, 2, 3])
    kinds = [rnd.choice(['own', 'plain', 'same']) for _ in range(nsub)]

    setver_used: T.List[bool] = []

    def gen_acts(owner_files: T.Sequence[T.Tuple[str, ...]], k: int) -> T.List[T.Dict[str, T.Any]]:
        acts = []
        for j in range(rnd.randint(0, 3)):
            op = wchoice(rnd, (('add', 5), ('rm', 2), ('rmtree', 1), ('setver', 1)))
            if op == 'setver':
                # one version rewrite per world: the content id of a rewritten meson.build is <id>><version>, and what
                # is read back from an archive only shows the last rewrite
                if setver_used:
                    continue
                setver_used.append(True)
            base = rnd.choice(['proj', 'dist'])
            if op == 'add':
                p = rnd.choice([('gen', f'g{k}{j}.txt'), (f'n{k}{j}',)] + [q for q in owner_files if base == 'proj'])
                acts.append({'op': 'add', 'base': base, 'p': list(p), 'c': f'gen{k}{j}'})
            elif op == 'rm':
                cand = [q for q in owner_files] if base == 'proj' else [q for q in files]
                if cand:
                    acts.append({'op': 'rm', 'base': base, 'p': list(rnd.choice(cand)), 'c': ''})
            elif op == 'rmtree':
                acts.append({'op': 'rmtree', 'base': base, 'p': [rnd.choice(['d', 'h', 'gen'])], 'c': ''})
            else:
                acts.append({'op': 'setver', 'base': 'proj', 'p': [], 'c': rnd.choice(['9.9', '1.0-rc1'])})
        return acts

    for i, kind in enumerate(kinds):
        sname = f's{i}{kind[0]}'
        used = rnd.random() < 0.75
        sd = ('subprojects', sname)
        subs.append({'name': sname, 'dir': list(sd), 'kind': kind, 'used': used})
        sfiles = [('meson.build',), ('x',), ('inc', 'y.h')]
        sparts = [layers(('meson.build',), 'clean', sname + 'mb', False)]
        has_script = used and rnd.random() < 0.5
        sst = 'clean'
        if kind == 'own':
            sst = wchoice(rnd, (('clean', 6), ('mod', 2), ('staged', 1), ('untracked', 2), ('new', 1), ('del', 1)))
        elif kind == 'same':
            sst = wchoice(rnd, (('clean', 6), ('mod', 1), ('untracked', 2)))
        sparts.append(layers(('x',), sst, sname + 'x', False))
        sparts.append(layers(('inc', 'y.h'), 'clean', sname + 'y', False))
        if has_script:
            sparts.append(layers(('s.sh',), 'clean', sname + 's', True))
        j = join(sparts)
        if kind == 'own':
            own.append({'name': sname, **j})
        elif kind == 'plain':
            plain.append({'name': sname, 'wt': j['head']})
        else:
            parts.append({k: [dict(e, p=list(sd) + e['p']) for e in j[k]] for k in ('head', 'index', 'wt')})
        if has_script:
            scripts.append({'id': f'{sname}-1', 'owner': sname, 'file': ['s.sh'], 'acts': gen_acts([('x',)], i + 3),
                            'rc': 0 if rnd.random() < 0.9 else 4})
    # main scripts, interleaved with the subprojects' ones only in a realisable way: the generated meson.build calls
    # subproject() where the first script of that subproject stands
    nms = rnd.choice([0, 1, 1, 2, 3])
    if nms:
        sst = wchoice(rnd, (('clean', 16), ('mod', 1), ('untracked', 1)))
        parts.append(layers(pre + ('ds.sh',), sst, 'ds', True))
        mains = [{'id': f'm{k}', 'owner': '', 'file': ['ds.sh'], 'acts': gen_acts(files, k), 'rc': 0 if rnd.random() < 0.9 else 3}
                 for k in range(nms)]
        pos = sorted(rnd.randint(0, len(scripts)) for _ in mains)
        merged: T.List[T.Dict[str, T.Any]] = []
        for k, sc in enumerate(scripts + [None]):      # type: ignore[list-item]
            merged += [m for m, q in zip(mains, pos) if q == k]
            if sc is not None:
                merged.append(sc)
        scripts = merged
    main = join(parts)
    mods = []
    if not subroot and rnd.random() < 0.3:
        mp = rnd.choice([['sm'], ['ext', 'sm']])
        st = wchoice(rnd, MOD_STATUS_W)
        def t(c: str, extra: T.Sequence[T.Dict[str, T.Any]] = ()) -> T.List[T.Dict[str, T.Any]]:
            return [{'p': ['l'], 'k': 'file', 'c': c, 'x': False}, {'p': ['sub', 'm.c'], 'k': 'file', 'c': 'smc0', 'x': False}] + list(extra)
        t0, t1, t2 = t('l0'), t('l1'), t('l2')
        u = t('l0', [{'p': ['u'], 'k': 'file', 'c': 'u1', 'x': False}])
        mods.append({'path': mp, **{'clean': dict(rec=t0, idx=t0, head=t0, wt=t0), 'wtdirty': dict(rec=t0, idx=t0, head=t0, wt=t1),
                                     'untracked': dict(rec=t0, idx=t0, head=t0, wt=u), 'newcommit': dict(rec=t0, idx=t0, head=t1, wt=t1),
                                     'stagedbump': dict(rec=t0, idx=t1, head=t1, wt=t1),
                                     'bumpmore': dict(rec=t0, idx=t1, head=t2, wt=t2)}[st]})
        for k in ('head', 'index', 'wt'):
            main[k] = main[k] + [{'p': ['.gitmodules'], 'k': 'file', 'c': 'gm0', 'x': False}]
    cfg = {'name': name, 'version': version, 'root': root, 'subs': subs, 'scripts': scripts}
    src = {'main': main, 'mods': mods, 'own': own, 'plain': plain}
    return cfg, src


def gen_opt(rnd: random.Random, has_links: bool) -> T.Dict[str, T.Any]:
    r = rnd.random()
    if r < 0.04:
        formats = rnd.choice([['tar'], ['zip', ''], [''], ['gztar', 'rar'], ['zip', 'zip']])
    else:
        formats = rnd.sample(['xztar', 'bztar', 'gztar', 'zip'], rnd.choice([1, 1, 2, 2, 3, 4]))
    tests = wchoice(rnd, (('none', 11), ('pass', 5), ('build', 1), ('test', 1), ('install', 2)))
    if tests != 'none' and has_links and formats[0] == 'zip':
        # the documents do not say how a zip file represents symbolic links: the test cycle is not run on a zip
        # archive of a tree with links
        tests = 'none'
    return {'formats': formats, 'dirty': rnd.random() < 0.45, 'subs': rnd.random() < 0.5, 'tests': tests}


def _worker_b(args: T.Tuple[int, int, int]) -> T.Dict[str, T.Any]:
    seed, wi, nev = args
    rnd = random.Random(f'{seed}:B:{wi}')
    cfg, src0 = gen_world(rnd)
    cid = f'B{wi}'
    with scratch('x12b-') as d:
        try:
            w = xw.World(d, cfg, common.REPO)
            if w.realised_script_order() != [sc['id'] for sc in cfg['scripts']
                                             if sc['owner'] == '' or any(s['name'] == sc['owner'] and s['used'] for s in cfg['subs'])]:
                return {'id': cid, 'machinery': 'generated script order is not realisable'}
            w.render(src0)
            w.setup()
            evs, outs, muts = [], [], []
            for k in range(nev):
                mut = w.mutate(rnd, k) if k else {'op': 'none'}
                src = w.project_source()
                has_links = any(e['k'] == 'link' for e in src['main']['head'])
                opt = gen_opt(rnd, has_links)
                before = w.archives()
                obs = w.run_dist(opt)
                evs.append({'src': src, 'opt': opt, 'before': before, 'obs': strip_obs(obs)})
                outs.append(obs['out'])
                muts.append(mut)
                if rnd.random() < 0.3:
                    w.clear_dist()
        except xw.WorldError as e:
            return {'id': cid, 'machinery': str(e)}
    return {'id': cid, 'kind': 'B', 'cfg': cfg, 'evs': evs, 'outs': outs, 'muts': muts, 'wi': wi, 'nev': nev}


# ---------------------------------------------------------------------------
# judging

def signature(c: T.Dict[str, T.Any], v: T.Dict[str, T.Any]) -> str:
    """clause + TLC's note (which layer a leak came from, which format, which kind of script ...): names the rule and
    the class of input, not the particular world."""
    f = v['fails'][0]
    return f"{f['clause']}|{f['note']}"


def judge(chk: Check, cases: T.List[T.Dict[str, T.Any]], label: str, per: int = 400) -> None:
    by_id = {c['id']: c for c in cases}
    for part_no, part in enumerate(common.size_chunks(cases, per, project=lambda c: c['evs'])):
        slim = [{'id': c['id'], 'cfg': c['cfg'], 'evs': c['evs']} for c in part]
        with scratch('x12j-') as d:
            tf = d / 'cases.json'
            tf.write_text(json.dumps(slim))
            res = run_tlc(FAM, 'TraceMDist', cfg_text='SPECIFICATION Spec\nCHECK_DEADLOCK FALSE\n',
                          env={'TRACE_FILE': str(tf)}, timeout=3000)
            if not res.clean:
                raise MachineryError('TraceMDist did not complete cleanly:\n' + res.stdout[-2500:])
            if res.distinct != 2 * len(part):
                raise MachineryError(f'TraceMDist judged {res.distinct // 2} of {len(part)} cases')
            bad = res.json_lines()
            if bad:
                res1 = run_tlc(FAM, 'TraceMDist', cfg_text='SPECIFICATION Spec\nCHECK_DEADLOCK FALSE\n',
                               env={'TRACE_FILE': str(tf)}, timeout=3000, workers=1)
                bad = res1.json_lines()
        chk.add_tlc(f'TraceMDist[{label}#{part_no}]', res, model=False)
        for v in bad:
            c = by_id[v['id']]
            f = v['fails'][0]
            ev = c['evs'][f['step'] - 1]
            detail: T.Dict[str, T.Any] = {'verdict': v, 'kind': c['kind'], 'cfg': c['cfg'], 'step': f['step'], 'options': ev['opt'],
                                          'source': ev['src'], 'before': ev['before'], 'observed': ev['obs'],
                                          'output_tail': c['outs'][f['step'] - 1]}
            if c['kind'] == 'A':
                detail.update({'family': c['family'], 'earlier': c['earlier']})
            else:
                detail.update({'world': c['wi'], 'events': c['nev'], 'mutations': c['muts']})
            chk.violation(signature(c, v), detail)


def collect(chk: Check, futs: T.Sequence[T.Any], flat: bool) -> T.List[T.Dict[str, T.Any]]:
    out: T.List[T.Dict[str, T.Any]] = []
    for fu in futs:
        r = fu.result()
        for c in (r if flat else [r]):
            if 'machinery' in c:
                raise MachineryError(f"{c['id']}: {c['machinery']}")
            out.append(c)
    return out


def nontrivial(chk: Check, c: T.Dict[str, T.Any]) -> None:
    for ev in c['evs']:
        s, o, obs = ev['src'], ev['opt'], ev['obs']
        dirty = canon(s['main']['head']) != canon(s['main']['index']) or canon(s['main']['index']) != canon(s['main']['wt']) \
            or any(canon(m['rec']) != canon(m['wt']) or canon(m['rec']) != canon(m['idx']) or canon(m['rec']) != canon(m['head'])
                   for m in s['mods']) or any(canon(r['head']) != canon(r['wt']) for r in s['own'])
        if dirty or obs['ran'] or obs['tests'] or len(o['formats']) > 1 or o['subs'] or ev['before']:
            chk.nontriv(canon([c['cfg']['name'], c['cfg']['scripts'], s, o, len(ev['before'])]))


def model_check(chk: Check) -> T.Dict[str, T.Dict[str, T.Any]]:
    base = (FAM / 'MDist_MC.cfg').read_text()

    def one(fam: str) -> T.Tuple[str, common.TLCResult]:
        return fam, run_tlc(FAM, 'MDist_MC', cfg_text=base.replace('Family = "flat"', f'Family = "{fam}"'),
                            collect=['mdist_space.json'], workers=4, timeout=3000, allow_violation=False)
    spaces = {}
    with ThreadPoolExecutor(max_workers=3) as tp:
        for fam, res in tp.map(one, FAMILIES):
            chk.add_tlc(f'MDist_MC[{fam}]', res)
            if 'mdist_space.json' not in res.collected:
                raise MachineryError(f'MDist_MC[{fam}] did not export its input space')
            spaces[fam] = json.loads(res.collected['mdist_space.json'])
    return spaces


def a_jobs(chk: Check, spaces: T.Dict[str, T.Dict[str, T.Any]]) -> T.List[T.Tuple[str, T.Dict[str, T.Any], T.List[T.Any]]]:
    """Tasks of (family, cfg, [(id, source, options, earlier)]) - grouped by source state so that a world is rendered once."""
    quick = chk.tier == 'quick'
    rnd = random.Random(f'{chk.seed}:A')
    tasks = []
    sizes = {}
    for fam in FAMILIES:
        sp = spaces[fam]
        per_src: T.List[T.List[T.Any]] = []
        n = 0
        for si, s in enumerate(sp['sources']):
            combos = [(oi, e) for oi in range(len(sp['options'])) for e in range(sp['earlier'])]
            if quick and QUICK_SHARE[fam] < 1:
                k = max(1, round(len(combos) * QUICK_SHARE[fam]))
                combos = sorted(rnd.sample(combos, k))
            per_src.append([(f'A:{fam}:{si}:{oi}:{e}', s, sp['options'][oi], e) for oi, e in combos])
            n += len(combos)
        sizes[fam] = {'sources': len(sp['sources']), 'options': len(sp['options']), 'earlier': sp['earlier'], 'run': n}
        # tests-family runs are several times as expensive
        target = 8 if fam == 'tests' else 24
        cur: T.List[T.Any] = []
        for grp in per_src:
            cur += grp
            if len(cur) >= target:
                tasks.append((fam, sp['cfg'], cur))
                cur = []
        if cur:
            tasks.append((fam, sp['cfg'], cur))
    chk.extra['a_space'] = sizes
    # long tasks first
    tasks.sort(key=lambda t: -len(t[2]) * (4 if t[0] == 'tests' else 1))
    return tasks


def main(chk: Check) -> None:
    quick = chk.tier == 'quick'
    n_worlds = 40 if quick else 420
    n_ev = 4 if quick else 5
    chk.rule = ('A: every (source state, options, earlier content of meson-dist) of the six model families exported by TLC '
                '(quick: a seeded stratified sample); B: seeded random worlds x histories of developer actions and `meson dist` '
                'runs.  Non-trivial = distinct (configuration, source state, options) where the repository is dirty, a script or '
                'the test cycle ran, several formats / --include-subprojects were asked for, or meson-dist was not empty.')
    t0 = time.time()
    phases: T.Dict[str, float] = {}
    chk.extra['phase_s'] = phases
    if not os.access(xw.NINJA_STUB, os.X_OK):
        raise MachineryError(f'{xw.NINJA_STUB} is not executable')
    with ProcessPoolExecutor(max_workers=common.NCPU) as ex:
        fut_b = [ex.submit(_worker_b, (chk.seed, wi, n_ev)) for wi in range(n_worlds)]
        spaces = model_check(chk)
        phases['model_checking'] = round(time.time() - t0, 1)
        tasks = a_jobs(chk, spaces)
        fut_a = [ex.submit(_worker_a, t) for t in tasks]
        acases = collect(chk, fut_a, True)
        phases['a_done_at'] = round(time.time() - t0, 1)
        bcases = collect(chk, fut_b, False)
        phases['b_done_at'] = round(time.time() - t0, 1)
    chk.traces += len(acases) + sum(len(c['evs']) for c in bcases)
    chk.evaluations += sum(len(ev['obs']['arch']) + len(ev['obs']['ran']) + len(ev['obs']['tests']) for c in acases + bcases for ev in c['evs'])
    chk.extra['a_runs'] = len(acases)
    chk.extra['b_worlds'] = len(bcases)
    chk.extra['b_runs'] = sum(len(c['evs']) for c in bcases)
    for c in acases + bcases:
        nontrivial(chk, c)
    allev = [ev for c in acases + bcases for ev in c['evs']]
    chk.extra['runs_by_outcome'] = {
        'exit 0': sum(1 for ev in allev if ev['obs']['rc'] == 0), 'exit != 0': sum(1 for ev in allev if ev['obs']['rc'] != 0),
        'with scripts run': sum(1 for ev in allev if ev['obs']['ran']), 'with test cycle': sum(1 for ev in allev if ev['obs']['tests']),
        'archives read back': sum(len(ev['obs']['arch']) for ev in allev)}
    for c in (acases[len(acases) // 3:][:1] + bcases[:1]):
        ev = c['evs'][-1]
        chk.sample({'id': c['id'], 'project': c['cfg']['name'], 'options': ev['opt'], 'exit': ev['obs']['rc'],
                    'archives': [{'name': a['name'], 'members': ['/'.join(f['p']) for f in a['files']][:12], 'checksum': bool(a['sumhex'])}
                                 for a in ev['obs']['arch']],
                    'scripts': [r['id'] for r in ev['obs']['ran']], 'stages': [t['stage'] for t in ev['obs']['tests']]})
    judge(chk, acases, 'A')
    judge(chk, bcases, 'B', per=150)
    phases['judged_at'] = round(time.time() - t0, 1)
    chk.exhaustive = not quick
    chk.assumptions += [
        'Mercurial repositories are not exercised (no hg binary in the sandbox); Creating-releases.md describes the git behaviour',
        'what counts as an uncommitted change: the staging area differs from the latest commit, or a tracked file differs from the '
        'staging area (content, type, exec bit, deletion), in the main repository, in a submodule (recorded commit staged but not '
        'committed / another commit checked out / tracked file modified) or - with --include-subprojects - in a used subproject '
        'that is a repository of its own; untracked files and time stamps are not changes (dist_impl)',
        'symbolic links: a zip archive is not compared at link paths and the test cycle is not run on a zip archive of a tree with '
        'links (the documents do not say how zip represents links); plain (non-repository) subproject directories hold regular '
        'files only; submodules are checked out in every generated world (no uninitialised submodule), nested one level',
        'scripts are generated so that a release never deletes meson.build or a script file another project part needs; a dist '
        'script lives in the root directory of its project; empty directories are never left behind by a generated script '
        '(git does not track them and the documents say nothing about them)',
        'the staging directory left in meson-dist by a failed script, and meson-private/dist-* left by a failed test cycle, are not '
        'judged; exit status: only zero / non-zero; warnings and message texts are not compared',
        'one subproject level (no nested subprojects, no wrap files redirecting to another directory); the test cycle is observed '
        'through a stand-in for ninja (stage, files of the unpacked source, wrap_mode, DESTDIR), not by compiling anything',
    ]


def replay(chk: Check, data: T.Dict[str, T.Any]) -> None:
    det = data['detail']
    if det['kind'] == 'A':
        r = _worker_a((det['family'], det['cfg'], [('replay', det['source'], det['options'], det['earlier'])]))
    else:
        r = [_worker_b((data['seed'], det['world'], det['events']))]
    for c in r:
        if 'machinery' in c:
            raise MachineryError(c['machinery'])
    judge(chk, r, 'replay')


if __name__ == '__main__':
    sys.exit(common.run_check(main, PROP, replay=replay))
