"""X12 - concrete worlds for the `meson dist` rule book (specs/mdist/MDist.tla).

An abstract world is (cfg, src) in the vocabulary of the specification:

* ``cfg``  what `meson setup` fixes: project name / version, the directory of the released project inside the
  repository (``root``), the subprojects (name, directory, kind own | plain | same, used) and the dist scripts in the
  order ``add_dist_script()`` is called;
* ``src``  the source state: the three layers (head, index, wt) of the main repository as lists of
  ``{p: [components], k: file|link, c: content id | link target, x: exec bit}``, its git submodules (rec, idx, head, wt),
  subprojects that are repositories of their own, and plain subproject directories.

This module

* renders an abstract world to real git repositories (``World.render``) - plain ``git init/add/commit/submodule`` -
  whose files carry their content id in the first line, generates the ``meson.build`` files and the (generic) dist
  scripts from ``cfg`` and runs the real ``meson setup`` (ninja being tools/ninja-stub-x12);
* applies *environment events* (what a developer does between two releases: edit, stage, commit, chmod, delete,
  create, bump a submodule ...) with plain file operations and plain git (``World.mutate``);
* projects the real repositories back to the abstract vocabulary by reading them with git plumbing
  (``World.project_source``) and the archives / checksum files in ``meson-dist`` with tarfile / zipfile
  (``World.archives``);
* runs the real ``meson dist`` once and records everything observable (``World.run_dist``).

Nothing here decides whether meson behaved correctly; that is the trace specification's job (TraceMDist.tla).
"""
from __future__ import annotations

import hashlib
import io
import json
import os
import re
import shutil
import stat
import subprocess
import tarfile
import typing as T
import zipfile
from pathlib import Path

VERIF = Path(__file__).resolve().parent.parent
NINJA_STUB = str(VERIF / 'tools' / 'ninja-stub-x12')
PYTHON = os.environ.get('VERIF_PYTHON', '/venv/bin/python')

Entry = T.Dict[str, T.Any]               # {k, c, x}
Tree = T.Dict[T.Tuple[str, ...], Entry]  # path -> entry

EXT = {'xztar': '.tar.xz', 'bztar': '.tar.bz2', 'gztar': '.tar.gz', 'zip': '.zip'}
EXT_FMT = {v: k for k, v in EXT.items()}
ENV_VARS = {'dist': 'MESON_DIST_ROOT', 'pdist': 'MESON_PROJECT_DIST_ROOT', 'src': 'MESON_SOURCE_ROOT',
            'psrc': 'MESON_PROJECT_SOURCE_ROOT', 'bld': 'MESON_BUILD_ROOT', 'pbld': 'MESON_PROJECT_BUILD_ROOT'}


class WorldError(Exception):
    """The harness could not build / read the world (machinery, never a violation)."""


# ---------------------------------------------------------------------------
# the generic dist script: every generated script file is three lines that load this text

SCRIPT_LIB = r'''
import json, os, shlex, shutil, subprocess, sys
me = os.path.abspath(sys.argv[0])
sid = sys.argv[1]
def first_id(path):
    try:
        with open(path, 'rb') as f:
            for ln in f.read().split(b'\n')[:3]:
                if ln.startswith(b'# id:'):
                    return ln[5:].split()[0].decode()
    except OSError:
        pass
    return '?'
dist = os.environ.get('MESON_DIST_ROOT', '')
sees = []
if dist and os.path.isdir(dist):
    for dp, dn, fn in os.walk(dist):
        for n in fn:
            sees.append(os.path.relpath(os.path.join(dp, n), dist).split(os.sep))
        for n in dn:
            if os.path.islink(os.path.join(dp, n)):
                sees.append(os.path.relpath(os.path.join(dp, n), dist).split(os.sep))
rw = os.environ.get('MESONREWRITE', '')
try:
    rwl = shlex.split(rw)
except ValueError:
    rwl = []
rec = {'id': sid, 'me': me, 'tag': first_id(me), 'cwd': os.getcwd(), 'sees': sorted(sees),
       'env': {k: os.environ.get(k) for k in ('MESON_DIST_ROOT', 'MESON_PROJECT_DIST_ROOT', 'MESON_SOURCE_ROOT',
                                             'MESON_PROJECT_SOURCE_ROOT', 'MESON_BUILD_ROOT', 'MESON_PROJECT_BUILD_ROOT')},
       'rw': bool(rwl) and rwl[-1] == 'rewrite' and all(os.path.exists(x) for x in rwl[:-1])}
with open(os.environ['X12_SCRIPT_LOG'], 'a', encoding='utf-8') as f:
    f.write(json.dumps(rec) + '\n')
with open(os.environ['X12_SCRIPT_PLAN'], encoding='utf-8') as f:
    plan = json.load(f)[sid]
def prune(d, stop):
    while os.path.abspath(d) != os.path.abspath(stop) and os.path.isdir(d) and not os.listdir(d):
        os.rmdir(d)
        d = os.path.dirname(d)
for a in plan['acts']:
    base = os.environ['MESON_PROJECT_DIST_ROOT'] if a['base'] == 'proj' else os.environ['MESON_DIST_ROOT']
    q = os.path.join(base, *a['p'])
    if a['op'] == 'add':
        os.makedirs(os.path.dirname(q), exist_ok=True)
        mode = None
        if os.path.islink(q):
            os.unlink(q)
        elif os.path.isfile(q):
            mode = os.stat(q).st_mode & 0o777
        with open(q, 'w', encoding='utf-8') as f:
            f.write('id:' + a['c'] + '\n')
        os.chmod(q, mode if mode is not None else 0o644)
    elif a['op'] == 'rm':
        if os.path.lexists(q):
            os.unlink(q)
            prune(os.path.dirname(q), dist)
    elif a['op'] == 'rmtree':
        if os.path.isdir(q) and not os.path.islink(q):
            shutil.rmtree(q)
            prune(os.path.dirname(q), dist)
    elif a['op'] == 'setver':
        if os.path.isfile(os.path.join(q, 'meson.build')):
            r = subprocess.run(rwl + ['--sourcedir=' + q, 'kwargs', 'set', 'project', '/', 'version', a['c']],
                               stdout=subprocess.PIPE, stderr=subprocess.STDOUT)
            if r.returncode != 0:
                sys.stderr.write(r.stdout.decode(errors='replace'))
                sys.exit(97)
sys.exit(plan['rc'])
'''

SCRIPT_BODY = "import os\nexec(compile(open(os.environ['X12_SCRIPT_LIB']).read(), 'x12_script_lib', 'exec'))\n"

ID_RE = re.compile(rb'^(?:# )?id:(\S+)(?: v:(\S*))?\s*$')


def content_id(data: bytes) -> str:
    """Content id of a generated file: the id in its first lines; a meson.build whose project version is no longer the
    one it was generated with is <id>><version> (what `$MESONREWRITE kwargs set project / version` does to it)."""
    for ln in data.split(b'\n')[:3]:
        m = ID_RE.match(ln)
        if m:
            cid = m.group(1).decode()
            if m.group(2) is not None:
                mv = re.search(rb"version\s*:\s*'([^']*)'", data)
                actual = mv.group(1).decode() if mv else ''
                if actual != m.group(2).decode():
                    cid += '>' + actual
            return cid
    return '?' + hashlib.sha1(data).hexdigest()[:10]


def tree_of(seq: T.Sequence[T.Dict[str, T.Any]]) -> Tree:
    return {tuple(e['p']): {'k': e['k'], 'c': e['c'], 'x': bool(e['x'])} for e in seq}


def seq_of(tree: Tree) -> T.List[T.Dict[str, T.Any]]:
    return [{'p': list(p), 'k': e['k'], 'c': e['c'], 'x': bool(e['x'])} for p, e in sorted(tree.items())]


def git_env(home: Path) -> T.Dict[str, str]:
    e = {k: v for k, v in os.environ.items() if not k.startswith('GIT_')}
    e.update({
        'HOME': str(home), 'GIT_CONFIG_GLOBAL': os.devnull, 'GIT_CONFIG_NOSYSTEM': '1',
        'GIT_AUTHOR_NAME': 'x12', 'GIT_AUTHOR_EMAIL': 'x12@example.com', 'GIT_COMMITTER_NAME': 'x12',
        'GIT_COMMITTER_EMAIL': 'x12@example.com', 'GIT_TERMINAL_PROMPT': '0', 'LC_ALL': 'C',
        'GIT_CONFIG_COUNT': '5',
        'GIT_CONFIG_KEY_0': 'protocol.file.allow', 'GIT_CONFIG_VALUE_0': 'always',
        'GIT_CONFIG_KEY_1': 'init.defaultBranch', 'GIT_CONFIG_VALUE_1': 'main',
        'GIT_CONFIG_KEY_2': 'advice.detachedHead', 'GIT_CONFIG_VALUE_2': 'false',
        'GIT_CONFIG_KEY_3': 'commit.gpgsign', 'GIT_CONFIG_VALUE_3': 'false',
        'GIT_CONFIG_KEY_4': 'core.fileMode', 'GIT_CONFIG_VALUE_4': 'true',
    })
    return e


class World:
    def __init__(self, base: Path, cfg: T.Dict[str, T.Any], repo: Path):
        self.base = base
        self.cfg = cfg
        self.meson_repo = repo
        self.repo = base / 'src'
        self.up = base / 'upstream'
        self.bld = base / 'bld'
        self.home = base / 'home'
        self.home.mkdir(parents=True, exist_ok=True)
        self.env = git_env(self.home)
        self.root = tuple(cfg['root'])
        self.srcdir = self.repo.joinpath(*self.root)
        self.lib = base / 'x12_script_lib.py'
        self.lib.write_text(SCRIPT_LIB)
        self.plan = base / 'x12_plan.json'
        self.plan.write_text(json.dumps({sc['id']: {'acts': sc['acts'], 'rc': sc['rc']} for sc in cfg['scripts']}))
        self.subdir = {s['name']: tuple(s['dir']) for s in cfg['subs']}
        # repository-relative paths of the script files and of the directories that hold a generated project
        self.script_paths = set()
        for sc in cfg['scripts']:
            d = self.root + (self.subdir[sc['owner']] if sc['owner'] else ())
            self.script_paths.add(d + tuple(sc['file']))
        self.mods: T.List[T.Tuple[str, ...]] = []
        self.modshas: T.Dict[T.Tuple[str, ...], T.Dict[str, str]] = {}

    # -- running things -----------------------------------------------------
    def git(self, cwd: Path, *args: str, check: bool = True) -> str:
        p = subprocess.run(['git', *args], cwd=cwd, env=self.env, stdout=subprocess.PIPE, stderr=subprocess.PIPE)
        if check and p.returncode != 0:
            raise WorldError(f'git {" ".join(args)} in {cwd} failed: {p.stderr.decode(errors="replace")[-800:]}')
        return p.stdout.decode('utf-8', errors='surrogateescape')

    def run_env(self, extra: T.Optional[T.Dict[str, str]] = None) -> T.Dict[str, str]:
        e = dict(self.env)
        e.update({'NINJA': NINJA_STUB, 'X12_SCRIPT_LIB': str(self.lib), 'X12_SCRIPT_PLAN': str(self.plan),
                  'PYTHONDONTWRITEBYTECODE': '1'})
        for k in ('DESTDIR', 'MESON_FORCE_BACKTRACE', 'X12_NINJA_FAIL', 'X12_NINJA_LOG'):
            e.pop(k, None)
        if extra:
            e.update(extra)
        return e

    # -- generated file contents ---------------------------------------------
    def meson_text(self, d: T.Tuple[str, ...], c: str) -> str:
        """meson.build of the project in repository directory d (same text in every layer except for the id line)."""
        cfg = self.cfg
        if d == self.root:
            name, ver = cfg['name'], cfg['version']
            lines = []
            called = set()
            for sc in cfg['scripts']:
                if sc['owner'] == '':
                    lines.append("meson.add_dist_script('%s', '%s')" % ('/'.join(sc['file']), sc['id']))
                elif sc['owner'] not in called:
                    called.add(sc['owner'])
                    lines.append("subproject('%s', required: false)" % sc['owner'])
            for s in cfg['subs']:
                if s['used'] and s['name'] not in called:
                    called.add(s['name'])
                    lines.append("subproject('%s', required: false)" % s['name'])
        else:
            owner = [n for n, sd in self.subdir.items() if self.root + sd == d]
            if owner:
                name, ver = owner[0], '1'
                lines = ["meson.add_dist_script('%s', '%s')" % ('/'.join(sc['file']), sc['id'])
                         for sc in cfg['scripts'] if sc['owner'] == owner[0]]
            else:
                name, ver, lines = 'p' + re.sub(r'\W', '', c), '0', []
        return "# id:%s v:%s\nproject('%s', version: '%s')\n%s" % (c, ver, name, ver, ''.join(ln + '\n' for ln in lines))

    def realised_script_order(self) -> T.List[str]:
        """The order in which the generated meson.build files call add_dist_script(); must be cfg.scripts' order."""
        out: T.List[str] = []
        called = set()
        for sc in self.cfg['scripts']:
            if sc['owner'] == '':
                out.append(sc['id'])
            elif sc['owner'] not in called:
                called.add(sc['owner'])
                used = any(s['name'] == sc['owner'] and s['used'] for s in self.cfg['subs'])
                if used:
                    out += [s2['id'] for s2 in self.cfg['scripts'] if s2['owner'] == sc['owner']]
        return out

    def file_bytes(self, p: T.Tuple[str, ...], e: Entry) -> bytes:
        if p[-1] == 'meson.build':
            return self.meson_text(p[:-1], e['c']).encode()
        if p in self.script_paths:
            return ('#!%s\n# id:%s\n%s' % (PYTHON, e['c'], SCRIPT_BODY)).encode()
        if p[-1] == '.gitmodules':
            return ('# id:%s\n' % e['c']).encode()
        return ('id:%s\n' % e['c']).encode()

    # -- rendering -------------------------------------------------------------
    def apply_tree(self, top: Path, prefix: T.Tuple[str, ...], old: Tree, new: Tree) -> None:
        """Make the files below `top` (repository directory `prefix`) go from tree `old` to tree `new`."""
        for p in sorted(old):
            if p not in new or new[p] != old[p]:
                f = top.joinpath(*p)
                if f.is_symlink() or f.exists():
                    f.unlink()
                d = f.parent
                while d != top and d.is_dir() and not any(d.iterdir()):
                    d.rmdir()
                    d = d.parent
        for p in sorted(new):
            if p in old and old[p] == new[p]:
                continue
            e = new[p]
            f = top.joinpath(*p)
            f.parent.mkdir(parents=True, exist_ok=True)
            if e['k'] == 'link':
                os.symlink(e['c'], f)
            else:
                f.write_bytes(self.file_bytes(prefix + p, e))
                f.chmod(0o755 if e['x'] else 0o644)

    def _commit_all(self, d: Path, msg: str) -> str:
        self.git(d, 'add', '-A')
        self.git(d, 'commit', '-q', '--allow-empty', '-m', msg)
        return self.git(d, 'rev-parse', 'HEAD').strip()

    def render_repo(self, d: Path, prefix: T.Tuple[str, ...], r: T.Dict[str, T.Any],
                    mods: T.Sequence[T.Dict[str, T.Any]] = ()) -> None:
        head, index, wt = tree_of(r['head']), tree_of(r['index']), tree_of(r['wt'])
        d.mkdir(parents=True, exist_ok=True)
        self.git(d, 'init', '-q')
        self.apply_tree(d, prefix, {}, head)
        for m in mods:
            mp = tuple(m['path'])
            up = self.up.joinpath(*mp)
            up.mkdir(parents=True)
            self.git(up, 'init', '-q')
            shas: T.Dict[str, str] = {}
            cur: Tree = {}
            for layer in ('rec', 'idx', 'head'):
                t = tree_of(m[layer])
                key = json.dumps(seq_of(t))
                if key not in shas:
                    self.apply_tree(up, prefix + mp, cur, t)
                    cur = t
                    shas[key] = self._commit_all(up, layer)
                shas[layer] = shas[key]
            self.git(d, 'submodule', '--quiet', 'add', str(up), '/'.join(mp))
            self.git(d.joinpath(*mp), 'checkout', '-q', shas['rec'])
            self.modshas[mp] = shas
            self.mods.append(mp)
        self._commit_all(d, 'head')
        self.apply_tree(d, prefix, head, index)
        for m in mods:
            mp = tuple(m['path'])
            self.git(d.joinpath(*mp), 'checkout', '-q', self.modshas[mp]['idx'])
        self.git(d, 'add', '-A')
        self.apply_tree(d, prefix, index, wt)
        for m in mods:
            mp = tuple(m['path'])
            self.git(d.joinpath(*mp), 'checkout', '-q', self.modshas[mp]['head'])
            self.apply_tree(d.joinpath(*mp), prefix + mp, tree_of(m['head']), tree_of(m['wt']))

    def render(self, src: T.Dict[str, T.Any]) -> None:
        for d in (self.repo, self.up):
            if d.exists():
                shutil.rmtree(d)
        self.mods = []
        self.modshas = {}
        self.render_repo(self.repo, (), src['main'], src['mods'])
        for o in src['own']:
            sd = self.root + self.subdir[o['name']]
            self.render_repo(self.repo.joinpath(*sd), sd, o)
        for pl in src['plain']:
            sd = self.root + self.subdir[pl['name']]
            self.apply_tree(self.repo.joinpath(*sd), sd, {}, tree_of(pl['wt']))

    # -- environment events ------------------------------------------------------
    def _special(self, p: T.Tuple[str, ...]) -> bool:
        return p[-1] in ('meson.build', '.gitmodules') or p in self.script_paths or p[-1].endswith('.wrap')

    def mutate(self, rnd: T.Any, k: int) -> T.Dict[str, T.Any]:
        """One thing a developer does between two releases, done with plain file operations and plain git."""
        cfg = self.cfg
        own = [s for s in cfg['subs'] if s['kind'] == 'own']
        plain = [s for s in cfg['subs'] if s['kind'] == 'plain']
        index, links = self.index_tree(self.repo)
        tracked = sorted(p for p, e in index.items() if e['k'] == 'file' and self.repo.joinpath(*p).is_file()
                         and not self.repo.joinpath(*p).is_symlink())
        plainfiles = sorted(p for p in tracked if not self._special(p))
        ops = [('none', 2), ('touch', 2), ('edit', 4), ('stage', 3), ('commit', 3), ('commit-all', 3), ('untracked', 2),
               ('chmod', 1), ('delete', 1), ('rmcached', 1), ('reset', 2), ('edit-script', 1)]
        if own:
            ops += [('own-edit', 2), ('own-commit-all', 2), ('own-untracked', 1)]
        if plain:
            ops += [('plain-edit', 1)]
        if links:
            ops += [('sm-edit', 1), ('sm-commit', 1), ('sm-stage', 1), ('sm-untracked', 1)]
        op = rnd.choices([a for a, _ in ops], [b for _, b in ops])[0]
        fresh = f'z{k}'
        what: T.Dict[str, T.Any] = {'op': op}

        def rewrite(top: Path, prefix: T.Tuple[str, ...], p: T.Tuple[str, ...], c: str) -> None:
            f = top.joinpath(*p)
            mode = f.stat().st_mode & 0o777
            f.write_bytes(self.file_bytes(prefix + p, {'k': 'file', 'c': c, 'x': bool(mode & 0o100)}))
            f.chmod(mode)

        if op == 'touch' and tracked:
            p = rnd.choice(tracked)
            os.utime(self.repo.joinpath(*p), (1_700_000_000 + k, 1_700_000_000 + k))
            what['p'] = list(p)
        elif op == 'edit' and plainfiles:
            p = rnd.choice(plainfiles)
            rewrite(self.repo, (), p, fresh)
            what['p'] = list(p)
        elif op == 'edit-script':
            cand = sorted(p for p in tracked if p in self.script_paths or p[-1] == 'meson.build')
            if cand:
                p = rnd.choice(cand)
                rewrite(self.repo, (), p, fresh)
                what['p'] = list(p)
        elif op == 'stage':
            self.git(self.repo, 'add', '-u')
        elif op == 'commit':
            self.git(self.repo, 'commit', '-q', '--allow-empty', '-m', f'c{k}')
        elif op == 'commit-all':
            self.git(self.repo, 'add', '-u')
            self.git(self.repo, 'commit', '-q', '--allow-empty', '-m', f'c{k}')
        elif op == 'untracked':
            p = rnd.choice([(f'u{k}',), ('d', f'u{k}'), (f'newdir{k}', 'u')])
            f = self.srcdir.joinpath(*p)
            f.parent.mkdir(parents=True, exist_ok=True)
            f.write_text(f'id:{fresh}\n')
            what['p'] = list(p)
        elif op == 'chmod' and plainfiles:
            p = rnd.choice(plainfiles)
            f = self.repo.joinpath(*p)
            f.chmod((f.stat().st_mode & 0o777) ^ 0o111)
            what['p'] = list(p)
        elif op == 'delete' and plainfiles:
            p = rnd.choice(plainfiles)
            self.repo.joinpath(*p).unlink()
            what['p'] = list(p)
        elif op == 'rmcached' and plainfiles:
            p = rnd.choice(plainfiles)
            self.git(self.repo, 'rm', '-q', '-f', '--cached', '--', '/'.join(p))
            what['p'] = list(p)
        elif op == 'reset':
            self.git(self.repo, 'reset', '-q', '--hard')
        elif op.startswith('own-'):
            s = rnd.choice(own)
            sd = self.root + tuple(s['dir'])
            top = self.repo.joinpath(*sd)
            what['sub'] = s['name']
            if op == 'own-edit':
                rewrite(top, sd, ('x',), fresh) if (top / 'x').is_file() else (top / 'x').write_text(f'id:{fresh}\n')
            elif op == 'own-untracked':
                (top / f'u{k}').write_text(f'id:{fresh}\n')
            else:
                self.git(top, 'add', '-A')
                self.git(top, 'commit', '-q', '--allow-empty', '-m', f'c{k}')
        elif op == 'plain-edit':
            s = rnd.choice(plain)
            sd = self.root + tuple(s['dir'])
            (self.repo.joinpath(*sd) / 'x').write_text(f'id:{fresh}\n')
            what['sub'] = s['name']
        elif op.startswith('sm-'):
            mp = sorted(links)[0]
            md = self.repo.joinpath(*mp)
            if op == 'sm-edit':
                (md / 'l').write_text(f'id:{fresh}\n')
            elif op == 'sm-untracked':
                (md / f'u{k}').write_text(f'id:{fresh}\n')
            elif op == 'sm-commit':
                self.git(md, 'add', '-A')
                if self.git(md, 'status', '--porcelain').strip():
                    self.git(md, 'commit', '-q', '-m', f'c{k}')
            else:
                self.git(self.repo, 'add', '--', '/'.join(mp))
        return what

    def setup(self) -> None:
        if self.bld.exists():
            shutil.rmtree(self.bld)
        p = subprocess.run([PYTHON, str(self.meson_repo / 'meson.py'), 'setup', str(self.bld), str(self.srcdir)],
                           env=self.run_env(), stdout=subprocess.PIPE, stderr=subprocess.STDOUT, cwd=self.base)
        if p.returncode != 0:
            raise WorldError('meson setup failed:\n' + p.stdout.decode(errors='replace')[-3000:])

    # -- projection of the real source state -----------------------------------
    def _blobs(self, d: Path, shas: T.Iterable[str]) -> T.Dict[str, bytes]:
        shas = sorted(set(shas))
        if not shas:
            return {}
        p = subprocess.run(['git', 'cat-file', '--batch'], cwd=d, env=self.env, input=''.join(s + '\n' for s in shas).encode(),
                           stdout=subprocess.PIPE, stderr=subprocess.PIPE)
        if p.returncode != 0:
            raise WorldError('git cat-file failed: ' + p.stderr.decode(errors='replace'))
        out: T.Dict[str, bytes] = {}
        buf = p.stdout
        i = 0
        for s in shas:
            j = buf.index(b'\n', i)
            hdr = buf[i:j].split()
            if len(hdr) != 3:
                raise WorldError('git cat-file: ' + buf[i:j].decode(errors='replace'))
            n = int(hdr[2])
            out[s] = buf[j + 1:j + 1 + n]
            i = j + 1 + n + 1
        return out

    def _listing(self, d: Path, text: str, index: bool) -> T.Tuple[Tree, T.Dict[T.Tuple[str, ...], str]]:
        ents = []
        for rec in text.split('\0'):
            if not rec:
                continue
            meta, path = rec.split('\t', 1)
            f = meta.split()
            mode, sha = (f[0], f[1]) if index else (f[0], f[2])
            ents.append((mode, sha, tuple(path.split('/'))))
        blobs = self._blobs(d, [sha for mode, sha, _ in ents if mode != '160000'])
        tree: Tree = {}
        links: T.Dict[T.Tuple[str, ...], str] = {}
        for mode, sha, p in ents:
            if mode == '160000':
                links[p] = sha
            elif mode == '120000':
                tree[p] = {'k': 'link', 'c': blobs[sha].decode(errors='replace'), 'x': False}
            else:
                tree[p] = {'k': 'file', 'c': content_id(blobs[sha]), 'x': mode == '100755'}
        return tree, links

    def commit_tree(self, d: Path, rev: str) -> T.Tuple[Tree, T.Dict[T.Tuple[str, ...], str]]:
        return self._listing(d, self.git(d, 'ls-tree', '-r', '-z', rev), False)

    def index_tree(self, d: Path) -> T.Tuple[Tree, T.Dict[T.Tuple[str, ...], str]]:
        return self._listing(d, self.git(d, 'ls-files', '-s', '-z'), True)

    @staticmethod
    def disk_tree(d: Path, exclude: T.Collection[Path] = ()) -> Tree:
        tree: Tree = {}
        ex = {str(x) for x in exclude}
        for dp, dn, fn in os.walk(d):
            keep = []
            for n in dn:
                full = os.path.join(dp, n)
                if os.path.islink(full):
                    fn.append(n)
                elif n != '.git' and full not in ex:
                    keep.append(n)
            dn[:] = keep
            for n in fn:
                if n in ('.git', '.wraplock'):      # .wraplock: written by `meson setup` into subprojects/
                    continue
                full = os.path.join(dp, n)
                p = tuple(os.path.relpath(full, d).split(os.sep))
                if os.path.islink(full):
                    tree[p] = {'k': 'link', 'c': os.readlink(full), 'x': False}
                else:
                    st = os.stat(full)
                    with open(full, 'rb') as f:
                        tree[p] = {'k': 'file', 'c': content_id(f.read()), 'x': bool(st.st_mode & stat.S_IXUSR)}
        return tree

    def project_source(self) -> T.Dict[str, T.Any]:
        """The abstract source state, read from the real repositories."""
        cfg = self.cfg
        head, hl = self.commit_tree(self.repo, 'HEAD')
        index, il = self.index_tree(self.repo)
        subdirs = [self.repo.joinpath(*(self.root + tuple(s['dir']))) for s in cfg['subs'] if s['kind'] in ('own', 'plain')]
        moddirs = [self.repo.joinpath(*mp) for mp in set(hl) | set(il)]
        wt = self.disk_tree(self.repo, subdirs + moddirs)
        mods = []
        for mp in sorted(set(hl) | set(il)):
            md = self.repo.joinpath(*mp)
            if mp not in hl or mp not in il or not (md / '.git').exists():
                raise WorldError(f'submodule {mp} is not in all layers; not part of the generated input space')
            mods.append({'path': list(mp),
                         'rec': seq_of(self.commit_tree(md, hl[mp])[0]), 'idx': seq_of(self.commit_tree(md, il[mp])[0]),
                         'head': seq_of(self.commit_tree(md, 'HEAD')[0]), 'wt': seq_of(self.disk_tree(md))})
        own, plain = [], []
        for s in cfg['subs']:
            sd = self.repo.joinpath(*(self.root + tuple(s['dir'])))
            if s['kind'] == 'own':
                own.append({'name': s['name'], 'head': seq_of(self.commit_tree(sd, 'HEAD')[0]),
                            'index': seq_of(self.index_tree(sd)[0]), 'wt': seq_of(self.disk_tree(sd))})
            elif s['kind'] == 'plain':
                plain.append({'name': s['name'], 'wt': seq_of(self.disk_tree(sd))})
        return {'main': {'head': seq_of(head), 'index': seq_of(index), 'wt': seq_of(wt)}, 'mods': mods, 'own': own, 'plain': plain}

    # -- meson-dist ---------------------------------------------------------------
    @property
    def distdir(self) -> Path:
        return self.bld / 'meson-dist'

    def top(self) -> str:
        return self.cfg['name'] + '-' + self.cfg['version']

    def archives(self) -> T.List[T.Dict[str, T.Any]]:
        out = []
        if not self.distdir.is_dir():
            return out
        for f in sorted(self.distdir.iterdir()):
            fmt = next((EXT_FMT[e] for e in EXT_FMT if f.name.endswith(e)), None)
            if fmt is None or not f.is_file():
                continue
            data = f.read_bytes()
            files: T.List[T.Dict[str, T.Any]] = []
            dirs: T.List[T.List[str]] = []
            tops = set()
            try:
                if fmt == 'zip':
                    with zipfile.ZipFile(io.BytesIO(data)) as z:
                        for zi in z.infolist():
                            parts = [x for x in zi.filename.split('/') if x]
                            tops.add(parts[0])
                            if zi.filename.endswith('/'):
                                if len(parts) > 1:
                                    dirs.append(parts[1:])
                            else:
                                files.append({'p': parts[1:], 'k': 'file', 'c': content_id(z.read(zi)),
                                              'x': bool((zi.external_attr >> 16) & stat.S_IXUSR)})
                else:
                    with tarfile.open(fileobj=io.BytesIO(data), mode='r:*') as tf:
                        for ti in tf.getmembers():
                            parts = [x for x in ti.name.split('/') if x and x != '.']
                            tops.add(parts[0])
                            if ti.isdir():
                                if len(parts) > 1:
                                    dirs.append(parts[1:])
                            elif ti.issym():
                                files.append({'p': parts[1:], 'k': 'link', 'c': ti.linkname, 'x': False})
                            elif ti.isfile():
                                fo = tf.extractfile(ti)
                                assert fo is not None
                                files.append({'p': parts[1:], 'k': 'file', 'c': content_id(fo.read()),
                                              'x': bool(ti.mode & stat.S_IXUSR)})
                            else:
                                files.append({'p': parts[1:], 'k': 'other', 'c': '', 'x': False})
            except (tarfile.TarError, zipfile.BadZipFile, OSError, EOFError) as e:
                files, dirs, tops = [{'p': ['<unreadable archive>'], 'k': 'other', 'c': type(e).__name__, 'x': False}], [], set()
            sumhex, sumname = '', ''
            sf = f.with_name(f.name + '.sha256sum')
            if sf.exists():
                m = re.fullmatch(r'([0-9a-f]{64}) \*(.*)\n', sf.read_text(errors='replace'))
                sumhex, sumname = (m.group(1), m.group(2)) if m else ('?', '?')
            out.append({'name': f.name, 'fmt': fmt, 'sha': hashlib.sha256(data).hexdigest(), 'sumhex': sumhex,
                        'sumname': sumname, 'files': sorted(files, key=lambda e: e['p']), 'dirs': sorted(dirs),
                        'top': sorted(tops)})
        return out

    def seed_archive(self, fmt: str, members: T.Dict[str, str], with_sum: bool = True) -> None:
        """An archive left by an earlier successful run: <top>/<name> holding content id members[name]."""
        self.distdir.mkdir(parents=True, exist_ok=True)
        name = self.top() + EXT[fmt]
        mode = {'gztar': 'w:gz', 'xztar': 'w:xz', 'bztar': 'w:bz2'}[fmt]
        with tarfile.open(self.distdir / name, mode) as tf:
            ti = tarfile.TarInfo(self.top())
            ti.type = tarfile.DIRTYPE
            ti.mode = 0o755
            tf.addfile(ti)
            for n, c in members.items():
                data = ('id:%s\n' % c).encode()
                ti = tarfile.TarInfo(self.top() + '/' + n)
                ti.size = len(data)
                ti.mode = 0o644
                tf.addfile(ti, io.BytesIO(data))
        if with_sum:
            h = hashlib.sha256((self.distdir / name).read_bytes()).hexdigest()
            (self.distdir / (name + '.sha256sum')).write_text(f'{h} *{name}\n')

    def clear_dist(self) -> None:
        if self.distdir.exists():
            shutil.rmtree(self.distdir)

    # -- snapshots (what must not change) -----------------------------------------
    @staticmethod
    def snapshot(d: Path, skip: T.Callable[[str], bool]) -> T.Dict[str, T.Tuple[T.Any, ...]]:
        snap: T.Dict[str, T.Tuple[T.Any, ...]] = {}
        for dp, dn, fn in os.walk(d):
            rel = os.path.relpath(dp, d)
            dn[:] = [n for n in dn if not skip(os.path.normpath(os.path.join(rel, n)))]
            for n in fn + [x for x in dn if os.path.islink(os.path.join(dp, x))]:
                r = os.path.normpath(os.path.join(rel, n))
                if skip(r):
                    continue
                full = os.path.join(dp, n)
                st = os.lstat(full)
                if stat.S_ISLNK(st.st_mode):
                    snap[r] = ('l', os.readlink(full))
                elif stat.S_ISREG(st.st_mode):
                    with open(full, 'rb') as f:
                        snap[r] = ('f', st.st_mode & 0o777, hashlib.sha1(f.read()).hexdigest())
            for n in dn:
                snap[os.path.normpath(os.path.join(rel, n)) + '/'] = ('d',)
        return snap

    @staticmethod
    def _src_skip(r: str) -> bool:
        return '.git' in r.split(os.sep) or r.split(os.sep)[-1] == '.wraplock'

    @staticmethod
    def _bld_skip(r: str) -> bool:
        parts = r.split(os.sep)
        return (parts[0] == 'meson-dist'
                or parts[:1] == ['meson-private'] and len(parts) > 1 and parts[1] in ('dist-unpack', 'dist-build', 'dist-install'))

    # -- one run of the real command --------------------------------------------------
    def dist_argv(self, opt: T.Dict[str, T.Any]) -> T.List[str]:
        argv = ['--formats', ','.join(opt['formats'])]
        if opt['dirty']:
            argv.append('--allow-dirty')
        if opt['subs']:
            argv.append('--include-subprojects')
        if opt['tests'] == 'none':
            argv.append('--no-tests')
        return argv

    def run_dist(self, opt: T.Dict[str, T.Any], timeout: int = 1200) -> T.Dict[str, T.Any]:
        slog = self.base / 'x12_scripts.log'
        nlog = self.base / 'x12_ninja.log'
        for f in (slog, nlog):
            if f.exists():
                f.unlink()
        extra = {'X12_SCRIPT_LOG': str(slog), 'X12_NINJA_LOG': str(nlog)}
        if opt['tests'] in ('build', 'test', 'install'):
            extra['X12_NINJA_FAIL'] = opt['tests']
        s0 = self.snapshot(self.repo, self._src_skip)
        b0 = self.snapshot(self.bld, self._bld_skip)
        cmd = [PYTHON, str(self.meson_repo / 'meson.py'), 'dist', '-C', str(self.bld)] + self.dist_argv(opt)
        try:
            p = subprocess.run(cmd, env=self.run_env(extra), cwd=self.base, stdout=subprocess.PIPE, stderr=subprocess.STDOUT,
                               timeout=timeout)
        except subprocess.TimeoutExpired as e:
            raise WorldError(f'meson dist timed out: {cmd}') from e
        out = p.stdout.decode(errors='replace')
        s1 = self.snapshot(self.repo, self._src_skip)
        b1 = self.snapshot(self.bld, self._bld_skip)
        # an error meson reports itself is "ERROR: ..."; a crash is a Python traceback (of meson dist itself or of the
        # meson setup of its test cycle)
        crash = 'Traceback (most recent call last)' in out or 'Unhandled python exception' in out
        crashtype = ''
        if crash:
            for ln in out.splitlines():
                m = re.match(r'^(?:[\w.]*\.)?(\w+(?:Error|Exception|Exit|Interrupt))\b', ln)
                if m:
                    crashtype = m.group(1)
        ran = []
        if slog.exists():
            for ln in slog.read_text().splitlines():
                r = json.loads(ln)
                env = {}
                for k, var in ENV_VARS.items():
                    base = self.srcdir if k in ('src', 'psrc') else self.bld
                    v = r['env'].get(var)
                    if v is None:
                        env[k] = ['<unset>']
                    else:
                        rel = os.path.relpath(v, base)
                        env[k] = [] if rel == '.' else (['<outside>', v] if rel.startswith('..') else rel.split(os.sep))
                ran.append({'id': r['id'], 'tag': r['tag'], 'env': env, 'rw': r['rw'], 'sees': r['sees'], 'me': r['me']})
        tests = []
        if nlog.exists():
            for ln in nlog.read_text().splitlines():
                r = json.loads(ln)
                if 'error' in r:
                    raise WorldError('ninja stand-in could not read the build directory: ' + r['error'])
                tests.append({'stage': r['stage'], 'files': r['files'], 'offline': r['wrap_mode'] == 'nodownload',
                              'destdir': r['destdir']})
        return {'rc': p.returncode, 'crash': crash, 'crashtype': crashtype, 'arch': self.archives(), 'ran': ran, 'tests': tests,
                'srcdiff': sorted(k for k in set(s0) | set(s1) if s0.get(k) != s1.get(k)),
                'blddiff': sorted(k for k in set(b0) | set(b1) if b0.get(k) != b1.get(k)),
                'out': out[-2500:]}
