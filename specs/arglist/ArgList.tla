------------------------------- MODULE ArgList -------------------------------
(***************************************************************************)
(* Compiler argument lists (property C13): the *eager* meaning, written    *)
(* from the statement of the property, the class documentation of          *)
(* CompilerArgs ("arguments added ... override previous arguments",        *)
(* Dedup.OVERRIDDEN / UNIQUE / NO_DEDUP) and the project's own tests       *)
(* (unittests/internaltests.py test_compiler_args_class_... ).                *)
(*                                                                         *)
(* A list is a plain sequence of arguments; every operation has an         *)
(* immediate effect on it.  Nothing is pending, nothing is flushed.        *)
(*                                                                         *)
(* An argument is a record                                                 *)
(*   p  1 = "-I"/"-L" style: a batch of them goes in front of everything   *)
(*      added earlier; 0 = goes to the end                                  *)
(*   d  "over"   an identical later occurrence overrides an earlier one     *)
(*      "unique" once-only: a repeat is dropped                            *)
(*      "none"   position and multiplicity matter, never touched           *)
(*   g  1 = a library for the purposes of --start-group/--end-group;       *)
(*      2 = the documentation leaves open whether it counts as one (an     *)
(*      option whose value merely ends like a library file name, see       *)
(*      ArgListClassify!GroupOf): both readings are accepted (NativeSet)   *)
(*   s  1 = -isystem<default dir> / -isystem=<default dir>,                *)
(*      2 = a bare "-isystem", 3 = a bare default include directory        *)
(*   ab 1 = the text is an absolute path (append_direct may de-dup it)     *)
(*   m  0 ordinary, 1/2 the start/end-group markers, 9 an argument the     *)
(*      harness could not name (never produced by the specification)       *)
(*   id distinguishes arguments of one kind                                *)
(* Two arguments are "identical" iff the records are equal.                *)
(***************************************************************************)
EXTENDS Integers, Sequences, FiniteSets

Arg(p, d, g, s, ab, id) == [p |-> p, d |-> d, g |-> g, s |-> s, ab |-> ab, m |-> 0, id |-> id]
StartGroup == [p |-> 0, d |-> "none", g |-> 0, s |-> 0, ab |-> 0, m |-> 1, id |-> 0]
EndGroup   == [p |-> 0, d |-> "none", g |-> 0, s |-> 0, ab |-> 0, m |-> 2, id |-> 0]
Alien      == [p |-> 0, d |-> "none", g |-> 0, s |-> 0, ab |-> 0, m |-> 9, id |-> 0]

IsPre(a)  == a.p = 1
IsPost(a) == a.p = 0
IsOver(a) == a.d = "over"
IsUniq(a) == a.d = "unique"

Elems(s) == { s[i] : i \in 1..Len(s) }
Has(L, a) == \E i \in 1..Len(L) : L[i] = a
Count(L, a) == Cardinality({ i \in 1..Len(L) : L[i] = a })
Reversed(s) == [i \in 1..Len(s) |-> s[Len(s) + 1 - i]]

\* the subsequence of s at the positions i with keep(i)
Pick(s, keep(_)) ==
    LET F[i \in 0..Len(s)] == IF i = 0 THEN <<>>
                              ELSE IF keep(i) THEN Append(F[i - 1], s[i]) ELSE F[i - 1]
    IN F[Len(s)]

\* ---- `L += batch` (also append(x) = `+= <<x>>`, extend(b) = `+= b`) -------------------------
\* members of the batch that are really added: a repeat of a once-only argument (already in the
\* list, or added earlier in the same batch) is dropped
RECURSIVE Keep(_, _, _)
Keep(L, b, acc) ==
    IF b = <<>> THEN acc
    ELSE LET a == Head(b) IN
         IF IsUniq(a) /\ (Has(L, a) \/ Has(acc, a)) THEN Keep(L, Tail(b), acc)
         ELSE Keep(L, Tail(b), Append(acc, a))

Iadd(L, b) ==
    LET k    == Keep(L, b, <<>>)
        \* the batch's -I/-L arguments, in their own order, in front of everything added earlier;
        \* all other arguments behind, in the order added
        raw  == SelectSeq(k, IsPre) \o L \o SelectSeq(k, IsPost)
        \* the override-type arguments this batch (re)states
        over == { a \in Elems(k) : IsOver(a) }
        \* of identical override-type arguments only the highest-precedence occurrence survives:
        \* the front-most for -I/-L, the last for -D/-U/-isystem
        survives(i) == LET a == raw[i] IN
                       a \in over => IF IsPre(a) THEN ~ \E j \in 1..(i - 1) : raw[j] = a
                                     ELSE ~ \E j \in (i + 1)..Len(raw) : raw[j] = a
    IN Pick(raw, survives)

\* ---- operations that add "without any reordering or de-dup" -------------------------------------
\* append_direct: as is, "except for absolute paths to libraries, etc, which can always be de-duped"
AppendDirect(L, a) == IF a.ab = 1 THEN Iadd(L, <<a>>) ELSE Append(L, a)
RECURSIVE ExtendDirect(_, _)
ExtendDirect(L, b) == IF b = <<>> THEN L ELSE ExtendDirect(AppendDirect(L, Head(b)), Tail(b))

\* list.insert semantics (index clamped, negative counts from the end), no de-dup
Insert(L, i, a) ==
    LET j == IF i < 0 THEN (IF Len(L) + i < 0 THEN 0 ELSE Len(L) + i) ELSE (IF i > Len(L) THEN Len(L) ELSE i)
    IN SubSeq(L, 1, j) \o <<a>> \o SubSeq(L, j + 1, Len(L))

\* MutableSequence.remove: first occurrence
RemoveOne(L, a) ==
    IF ~ Has(L, a) THEN L
    ELSE LET j == CHOOSE i \in 1..Len(L) : L[i] = a /\ \A h \in 1..(i - 1) : L[h] # a
         IN SubSeq(L, 1, j - 1) \o SubSeq(L, j + 1, Len(L))

\* ---- to_native (GNU-like linker: group the libraries; drop -isystem of default directories) -----
\* S = the arguments of unspecified status (g = 2) that are read as libraries
GroupsWith(L, S) ==
    LET libs == { i \in 1..Len(L) : L[i].g = 1 \/ L[i] \in S } IN
    IF Cardinality(libs) < 2 THEN L
    ELSE LET lo == CHOOSE i \in libs : \A j \in libs : i <= j
             hi == CHOOSE i \in libs : \A j \in libs : i >= j
         IN SubSeq(L, 1, lo - 1) \o <<StartGroup>> \o SubSeq(L, lo, hi) \o <<EndGroup>> \o SubSeq(L, hi + 1, Len(L))

StripDefaultSystemDirs(L) ==
    LET removed(i) == \/ L[i].s = 1
                      \/ L[i].s = 2 /\ i < Len(L) /\ L[i + 1].s = 3
                      \/ L[i].s = 3 /\ i > 1 /\ L[i - 1].s = 2
        keep(i) == ~ removed(i)
    IN Pick(L, keep)

Groups(L) == GroupsWith(L, {})

NativeOf(L, gnu) == StripDefaultSystemDirs(IF gnu THEN Groups(L) ELSE L)
\* every acceptable result of to_native: one reading per argument TEXT of unspecified status
MaybeLibs(L) == { L[i] : i \in { j \in 1..Len(L) : L[j].g = 2 } }
NativeSet(L, gnu) ==
    IF gnu THEN { StripDefaultSystemDirs(GroupsWith(L, S)) : S \in SUBSET MaybeLibs(L) }
    ELSE { StripDefaultSystemDirs(L) }

\* ---- the object store: a sequence of lists; operations name an object by index ------------------
\* op = [k, o, b, i]: kind, object, batch (sequence of arguments), integer operand
Op(k, o, b, i) == [k |-> k, o |-> o, b |-> b, i |-> i]
NoRet == <<>>

Mutators  == {"iadd", "xdirect", "insert", "remove"}
Creators  == {"new", "copy", "add", "radd"}
Readers   == {"read", "rev", "native"}      \* return a list of arguments
IntReaders == {"len"}                        \* return <<n>>

\* result of one operation: the new store and what the call returns
\* (lists for readers, <<n>> for len, <<0/1>> for remove = absent/removed, <<>> otherwise)
Step(objs, op, gnu) ==
    LET L == objs[op.o]
        put(x) == [objs EXCEPT ![op.o] = x]
    IN CASE op.k = "iadd"    -> [objs |-> put(Iadd(L, op.b)), ret |-> NoRet]
         [] op.k = "xdirect" -> [objs |-> put(ExtendDirect(L, op.b)), ret |-> NoRet]
         [] op.k = "insert"  -> [objs |-> put(Insert(L, op.i, op.b[1])), ret |-> NoRet]
         [] op.k = "remove"  -> [objs |-> put(RemoveOne(L, op.b[1])), ret |-> <<IF Has(L, op.b[1]) THEN 1 ELSE 0>>]
         [] op.k = "new"     -> [objs |-> Append(objs, op.b), ret |-> NoRet]          \* no de-dup on construction
         [] op.k = "copy"    -> [objs |-> Append(objs, L), ret |-> NoRet]
         [] op.k = "add"     -> [objs |-> Append(objs, Iadd(L, op.b)), ret |-> NoRet]  \* L + b
         [] op.k = "radd"    -> [objs |-> Append(objs, Iadd(op.b, L)), ret |-> NoRet]  \* b + L
         [] op.k = "read"    -> [objs |-> objs, ret |-> L]
         [] op.k = "rev"     -> [objs |-> objs, ret |-> Reversed(L)]
         [] op.k = "native"  -> [objs |-> objs, ret |-> NativeOf(L, gnu)]              \* to_native(copy=True)
         [] op.k = "len"     -> [objs |-> objs, ret |-> <<Len(L)>>]

\* ---- the laws of the statement, as properties of `+=` on a list L and a batch b -----------------
\* "no argument is lost or invented"
NothingInventedOrLost(L, b) ==
    LET R == Iadd(L, b) IN
    /\ \A i \in 1..Len(R) : Has(L, R[i]) \/ Has(b, R[i])
    /\ \A a \in Elems(L) \cup Elems(b) : Has(R, a)

\* "arguments that cannot be de-duplicated keep their relative order and multiplicity"
\* (and once-only arguments are never moved either)
NoDedupOrderAndMultiplicityKept(L, b) ==
    LET R == Iadd(L, b)
        nd(a)    == a.d = "none"
        ndpost(a) == a.d = "none" /\ IsPost(a)
        ndpre(a) == a.d = "none" /\ IsPre(a)
        firstU(i) == IsUniq(b[i]) /\ ~ Has(L, b[i]) /\ \A j \in 1..(i - 1) : b[j] # b[i]
    IN /\ \A a \in Elems(L) \cup Elems(b) : nd(a) => Count(R, a) = Count(L, a) + Count(b, a)
       /\ SelectSeq(R, ndpost) = SelectSeq(L, ndpost) \o SelectSeq(b, ndpost)
       /\ SelectSeq(R, ndpre) = SelectSeq(b, ndpre) \o SelectSeq(L, ndpre)
       /\ SelectSeq(R, IsUniq) = SelectSeq(L, IsUniq) \o Pick(b, firstU)

\* "for duplicated settings the later-added one takes effect": the later-added override-type
\* argument occurs exactly once, at higher precedence (behind for append-type, in front for
\* prepend-type) than every setting of the same type that was there before and is not restated
Pos(R, a) == CHOOSE i \in 1..Len(R) : R[i] = a
LaterSettingWins(L, b) ==
    LET R == Iadd(L, b) IN
    \A a \in Elems(b) : IsOver(a) =>
        /\ Count(R, a) = 1
        /\ \A x \in Elems(L) \ Elems(b) : (IsOver(x) /\ x.p = a.p) =>
              \A i \in 1..Len(R) : R[i] = x => IF IsPre(a) THEN Pos(R, a) < i ELSE Pos(R, a) > i
        \* within the batch: append-type in order of last mention, prepend-type in order of first mention
        /\ \A x \in Elems(b) : (IsOver(x) /\ x.p = a.p /\ x # a) =>
              LET lastA == CHOOSE i \in 1..Len(b) : b[i] = a /\ \A j \in (i + 1)..Len(b) : b[j] # a
                  lastX == CHOOSE i \in 1..Len(b) : b[i] = x /\ \A j \in (i + 1)..Len(b) : b[j] # x
                  fstA  == CHOOSE i \in 1..Len(b) : b[i] = a /\ \A j \in 1..(i - 1) : b[j] # a
                  fstX  == CHOOSE i \in 1..Len(b) : b[i] = x /\ \A j \in 1..(i - 1) : b[j] # x
              IN IF IsPre(a) THEN (fstA < fstX) = (Pos(R, a) < Pos(R, x))
                 ELSE (lastA < lastX) = (Pos(R, a) < Pos(R, x))

=============================================================================
