---------------------------- MODULE ArgListClasses ----------------------------
(***************************************************************************)
(* Argument lists of DIFFERENT classes living side by side (property C13,  *)
(* law ClassificationIsPerClass).                                          *)
(*                                                                         *)
(* How an argument is treated (prepended? overriding? once-only?) is a     *)
(* property of the list class, given by the class tables                   *)
(*   CompilerArgs       (rustc, static linkers, nvcc, cython ...): nothing *)
(*                      is prepended or overridden; only library FILES     *)
(*                      (.a .so .dll .lib .dylib, libX.so.N) are once-only *)
(*   CLikeCompilerArgs  -I -L prepend+override; -D -U -isystem override;   *)
(*                      -l*, -Wl,-l*, -Wl,-rpath*, library files, -pthread *)
(*                      -pipe -c ... once-only                             *)
(*   DCompilerArgs      -I prepend+override; -L prepend only; library      *)
(*                      files once-only                                    *)
(* How a class treats a text whose spelling matches SEVERAL of its rules   *)
(* (-DSUFFIX=.so: an override-type prefix and a library suffix) is fixed   *)
(* by module ArgListClassify (precedence bare > override > once > rest).   *)
(* A *word* is an argument text, abstractly its shape (ArgListClassify:    *)
(* pfx, bare, exact, sfx, ab); an object of class cl sees word number n as *)
(* ViewArg(cl, w, n), a record of module ArgList, and every operation on   *)
(* the object follows ArgList!Step with that view.  What other lists of    *)
(* other classes did with the same words before is irrelevant.             *)
(***************************************************************************)
EXTENDS ArgList, ArgListClassify

Classes == <<"base", "clike", "d">>

\* word number n as an object of class cl sees it (id = n keeps different words different)
ViewArg(cl, w, n) ==
    LET k == Classify(cl, w) IN [p |-> k.p, d |-> k.d, g |-> k.g, s |-> 0, ab |-> w.ab, m |-> 0, id |-> n]
ViewArgs(cl, words, s) == [j \in 1..Len(s) |-> IF s[j] \in 1..Len(words) THEN ViewArg(cl, words[s[j]], s[j]) ELSE Alien]

\* one operation on a store of lists `objs` with classes `cls`; op.b holds word numbers; for "new", op.i is the
\* class (index into Classes) of the list that is created; copy, +, radd keep the class of their list
TargetClass(cls, op) == IF op.k = "new" THEN Classes[op.i] ELSE cls[op.o]
StepC(objs, cls, op, words) ==
    LET cl == TargetClass(cls, op)
        r  == Step(objs, [op EXCEPT !.b = ViewArgs(cl, words, op.b)], FALSE)
    IN [objs |-> r.objs, cls |-> IF op.k \in Creators THEN Append(cls, cl) ELSE cls, ret |-> r.ret]
=============================================================================
