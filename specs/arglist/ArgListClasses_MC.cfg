SPECIFICATION Spec
CONSTANTS
 WordSel = {1, 2, 3, 4}
 MaxBatch = 1
 MaxDepth = 4
 OpKinds = {"iadd", "read"}
INVARIANT ClassificationIsPerClass
INVARIANT ClassesDiffer
CHECK_DEADLOCK FALSE
POSTCONDITION EmitSpace
