SPECIFICATION Spec
CONSTANTS
 WordSel = {1, 2, 10, 11}
 MaxBatch = 1
 MaxDepth = 4
 OpKinds = {"iadd", "read"}
INVARIANT ClassificationIsPerClass
INVARIANT ClassesDiffer
INVARIANT StatementLaterSettingWins
INVARIANT UnprefixedNeverMoved
CHECK_DEADLOCK FALSE
POSTCONDITION EmitSpace
