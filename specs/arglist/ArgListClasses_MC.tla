--------------------------- MODULE ArgListClasses_MC ---------------------------
(* Three lists, one of each class, created in any order, receive the same words  *)
(* in every interleaving up to MaxDepth operations.  ClassificationIsPerClass:   *)
(* every list is exactly what its own operations alone produce for its class.    *)
EXTENDS ArgListClasses, TLC, Json, IOUtils, SequencesExt
CONSTANTS WordSel, MaxBatch, MaxDepth, OpKinds
VARIABLES objs, cls, hist, depth
vars == <<objs, cls, hist, depth>>

W(pfx, sfx, ab) == [pfx |-> pfx, bare |-> 0, exact |-> "none", sfx |-> sfx, ab |-> ab]
WordTable == <<
    W("I", "none", 0),                \* 1  -Iinc
    W("D", "none", 0),                \* 2  -DFOO
    W("l", "none", 0),                \* 3  -lfoo
    W("L", "none", 0),                \* 4  -Llib
    W("none", "a", 0),                \* 5  libfoo.a
    W("none", "none", 0),             \* 6  -O2
    [W("none", "none", 0) EXCEPT !.exact = "once"],   \* 7  -pthread
    W("isys", "none", 0),             \* 8  -isystemdir
    W("none", "so", 1),               \* 9  /abs/libbar.so
    \* texts matched by several rules of a class at once
    W("D", "so", 0),                  \* 10 -DSUFFIX=.so     clike: override-type; base, d: a library file name
    W("L", "a", 0),                   \* 11 -L/opt/vendor.a  clike: prepend+override; d: prepend, once-only; base: once-only
    W("I", "vso", 0),                 \* 12 -I/x/libinc.so.1 clike, d: prepend+override; base: once-only
    W("l", "a", 0),                   \* 13 -l:libfoo.a      clike: once-only by prefix and suffix; base, d: by suffix
    [W("D", "none", 0) EXCEPT !.bare = 1]             \* 14 "-D" alone
>>
SeqsOver(S, n) == UNION { [1..k -> S] : k \in 0..n }
Batches == SeqsOver(WordSel, MaxBatch)
Perms == { p \in [1..3 -> 1..3] : \A i, j \in 1..3 : i # j => p[i] # p[j] }

K(kind, set) == IF kind \in OpKinds THEN set ELSE {}
Ops == UNION {
    K("iadd",    { Op("iadd", o, b, 0)    : o \in 1..3, b \in Batches }),
    K("xdirect", { Op("xdirect", o, b, 0) : o \in 1..3, b \in Batches }),
    K("insert",  { Op("insert", o, <<w>>, 0) : o \in 1..3, w \in WordSel }),
    K("read",    { Op("read", o, <<>>, 0) : o \in 1..3 }) }

\* the store starts with three empty lists whose classes are a permutation of the three classes
Init == /\ \E p \in Perms : cls = [i \in 1..3 |-> Classes[p[i]]]
        /\ objs = << <<>>, <<>>, <<>> >> /\ hist = << <<>>, <<>>, <<>> >> /\ depth = 0
Next == /\ depth < MaxDepth
        /\ \E op \in Ops :
              LET r == StepC(objs, cls, op, WordTable) IN
              /\ objs' = r.objs /\ cls' = r.cls
              /\ hist' = [hist EXCEPT ![op.o] = Append(@, op)]
        /\ depth' = depth + 1
Spec == Init /\ [][Next]_vars

\* the list of object o, computed from its own operations alone, in a store where it is the only list
RECURSIVE Alone(_, _, _)
Alone(cl, ops, L) ==
    IF ops = <<>> THEN L
    ELSE Alone(cl, Tail(ops), StepC(<<L>>, <<cl>>, [Head(ops) EXCEPT !.o = 1], WordTable).objs[1])
ClassificationIsPerClass == \A o \in 1..3 : objs[o] = Alone(cls[o], hist[o], <<>>)

\* the statement of the property, worded with the SPELLING of an argument instead of its classification:
\* after `list += <<w>>` with w spelled as an override-type argument of the list's class (-I -L -D -U -isystem
\* for C-like lists, -I for D lists; whatever the value looks like), w occurs exactly once, in front of
\* (prepend spelling) / behind (otherwise) every other override-spelled argument of the same side that was in
\* the list before - "for duplicated settings the later-added one takes effect"
PosId(R, n) == CHOOSE i \in 1..Len(R) : R[i].id = n
OverrideSpelled(c, n) == WordTable[n].pfx \in OverPfx(c) /\ WordTable[n].bare = 0
FrontSpelled(c, n) == WordTable[n].pfx \in PrependPfx(c)
StatementLaterSettingWins ==
    \A o \in 1..3 : (hist[o] # <<>> /\ hist[o][Len(hist[o])].k = "iadd") =>
        LET c  == cls[o]
            op == hist[o][Len(hist[o])]
            R  == objs[o]
        IN \A j \in 1..Len(op.b) : LET n == op.b[j] IN OverrideSpelled(c, n) =>
              /\ Cardinality({ i \in 1..Len(R) : R[i].id = n }) = 1
              /\ \A i \in 1..Len(R) :
                    (R[i].id # n /\ OverrideSpelled(c, R[i].id) /\ FrontSpelled(c, R[i].id) = FrontSpelled(c, n)
                     /\ \A h \in 1..Len(op.b) : op.b[h] # R[i].id)
                    => IF FrontSpelled(c, n) THEN PosId(R, n) < i ELSE PosId(R, n) > i
\* a text NOT spelled with a table or prepend prefix of the class is never moved or removed by a later +=
\* (library file names, also those that look like options of another compiler family)
UnprefixedNeverMoved ==
    \A o \in 1..3 : (hist[o] # <<>> /\ hist[o][Len(hist[o])].k = "iadd") =>
        LET c      == cls[o]
            before == Alone(c, SubSeq(hist[o], 1, Len(hist[o]) - 1), <<>>)
            plain(a) == WordTable[a.id].pfx \notin (TablePfx(c) \cup PrependPfx(c))
        IN SelectSeq(before, plain) = SubSeq(SelectSeq(objs[o], plain), 1, Len(SelectSeq(before, plain)))

\* the classes really differ on the shared words: the same single += gives different lists
ClassesDiffer ==
    LET one(cl, b) == StepC(<< <<>> >>, <<cl>>, Op("iadd", 1, b, 0), WordTable).objs[1] IN
    /\ Len(one("clike", <<2, 2>>)) = 1 /\ Len(one("base", <<2, 2>>)) = 2 /\ Len(one("d", <<2, 2>>)) = 2
    /\ Len(one("clike", <<4, 4>>)) = 1 /\ Len(one("d", <<4, 4>>)) = 2
    /\ one("clike", <<6, 1>>)[1].id = 1 /\ one("base", <<6, 1>>)[1].id = 6 /\ one("d", <<6, 1>>)[1].id = 1
    \* also on the texts matched by several rules
    /\ Len(one("clike", <<10, 10>>)) = 1 /\ Len(one("base", <<10, 10>>)) = 1 /\ Len(one("d", <<10, 10>>)) = 1
    /\ one("clike", <<10, 2, 10>>)[2].id = 10 /\ one("base", <<10, 2, 10>>)[1].id = 10 /\ one("d", <<10, 2, 10>>)[1].id = 10
    /\ one("clike", <<2, 11>>)[1].id = 11 /\ one("d", <<2, 11>>)[1].id = 11 /\ one("base", <<2, 11>>)[1].id = 2

IdxOp(op) == [k |-> op.k, o |-> op.o, b |-> op.b, i |-> op.i]
EmitSpace == TLCGet("stats").diameter >= 0 /\
             JsonSerialize("cspace.json", [words |-> WordTable, classes |-> Classes,
                                           perms |-> SetToSeq({ [i \in 1..3 |-> p[i]] : p \in Perms }),
                                           ops |-> SetToSeq({ IdxOp(op) : op \in Ops })])
=============================================================================
