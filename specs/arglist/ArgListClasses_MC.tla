--------------------------- MODULE ArgListClasses_MC ---------------------------
(* Three lists, one of each class, created in any order, receive the same words  *)
(* in every interleaving up to MaxDepth operations.  ClassificationIsPerClass:   *)
(* every list is exactly what its own operations alone produce for its class.    *)
EXTENDS ArgListClasses, TLC, Json, IOUtils, SequencesExt
CONSTANTS WordSel, MaxBatch, MaxDepth, OpKinds
VARIABLES objs, cls, hist, depth
vars == <<objs, cls, hist, depth>>

WordTable == <<
    [f |-> "I", ab |-> 0],        \* 1
    [f |-> "D", ab |-> 0],        \* 2
    [f |-> "l", ab |-> 0],        \* 3
    [f |-> "L", ab |-> 0],        \* 4
    [f |-> "lib", ab |-> 0],      \* 5
    [f |-> "plain", ab |-> 0],    \* 6
    [f |-> "once", ab |-> 0],     \* 7
    [f |-> "isys", ab |-> 0],     \* 8
    [f |-> "lib", ab |-> 1]       \* 9
>>
SeqsOver(S, n) == UNION { [1..k -> S] : k \in 0..n }
Batches == SeqsOver(WordSel, MaxBatch)
Perms == { p \in [1..3 -> 1..3] : \A i, j \in 1..3 : i # j => p[i] # p[j] }

K(kind, set) == IF kind \in OpKinds THEN set ELSE {}
Ops == UNION {
    K("iadd",    { Op("iadd", o, b, 0)    : o \in 1..3, b \in Batches }),
    K("xdirect", { Op("xdirect", o, b, 0) : o \in 1..3, b \in Batches }),
    K("insert",  { Op("insert", o, <<w>>, 0) : o \in 1..3, w \in WordSel }),
    K("read",    { Op("read", o, <<>>, 0) : o \in 1..3 }) }

\* the store starts with three empty lists whose classes are a permutation of the three classes
Init == /\ \E p \in Perms : cls = [i \in 1..3 |-> Classes[p[i]]]
        /\ objs = << <<>>, <<>>, <<>> >> /\ hist = << <<>>, <<>>, <<>> >> /\ depth = 0
Next == /\ depth < MaxDepth
        /\ \E op \in Ops :
              LET r == StepC(objs, cls, op, WordTable) IN
              /\ objs' = r.objs /\ cls' = r.cls
              /\ hist' = [hist EXCEPT ![op.o] = Append(@, op)]
        /\ depth' = depth + 1
Spec == Init /\ [][Next]_vars

\* the list of object o, computed from its own operations alone, in a store where it is the only list
RECURSIVE Alone(_, _, _)
Alone(cl, ops, L) ==
    IF ops = <<>> THEN L
    ELSE Alone(cl, Tail(ops), StepC(<<L>>, <<cl>>, [Head(ops) EXCEPT !.o = 1], WordTable).objs[1])
ClassificationIsPerClass == \A o \in 1..3 : objs[o] = Alone(cls[o], hist[o], <<>>)

\* the classes really differ on the shared words: the same single += gives different lists
ClassesDiffer ==
    LET one(cl, b) == StepC(<< <<>> >>, <<cl>>, Op("iadd", 1, b, 0), WordTable).objs[1] IN
    /\ Len(one("clike", <<2, 2>>)) = 1 /\ Len(one("base", <<2, 2>>)) = 2 /\ Len(one("d", <<2, 2>>)) = 2
    /\ Len(one("clike", <<4, 4>>)) = 1 /\ Len(one("d", <<4, 4>>)) = 2
    /\ one("clike", <<6, 1>>)[1].id = 1 /\ one("base", <<6, 1>>)[1].id = 6 /\ one("d", <<6, 1>>)[1].id = 1

IdxOp(op) == [k |-> op.k, o |-> op.o, b |-> op.b, i |-> op.i]
EmitSpace == TLCGet("stats").diameter >= 0 /\
             JsonSerialize("cspace.json", [words |-> WordTable, classes |-> Classes,
                                           perms |-> SetToSeq({ [i \in 1..3 |-> p[i]] : p \in Perms }),
                                           ops |-> SetToSeq({ IdxOp(op) : op \in Ops })])
=============================================================================
