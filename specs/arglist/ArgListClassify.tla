--------------------------- MODULE ArgListClassify ---------------------------
(***************************************************************************)
(* How an argument list class classifies an argument TEXT (property C13).  *)
(*                                                                         *)
(* The class tables (the documented public contract of arglist.py:         *)
(* prepend_prefixes, dedup2_* "must be de-duped by returning 2" =           *)
(* Dedup.OVERRIDDEN, dedup1_* "by returning 1" = Dedup.UNIQUE, the Dedup    *)
(* docstring, the comment on bare prefixes) are several independent rules, *)
(* and one text can match several of them at once:                         *)
(*    -DMODULE_SUFFIX=.so     an override-type prefix AND a library suffix *)
(*    -Ithird_party/zlib.a    a prepend+override prefix AND a suffix       *)
(*    -L/usr/lib/libz.so.1    an override prefix AND the lib*.so.N pattern *)
(*    -l:libfoo.a             a once-only prefix AND a library suffix      *)
(*    -l                      a once-only prefix that IS the whole text    *)
(* The statement of the property speaks of "override-type arguments        *)
(* (-I -L -D -U -isystem)" and of "once-only arguments (-lfoo, a library   *)
(* file, -pthread ...)": what an argument means to the compiler is decided *)
(* by how it starts, a library FILE is a text without such a prefix.       *)
(* Hence the precedence, highest first:                                    *)
(*   1 bare      the text IS a table prefix ("-D" "FOO"): never touched -  *)
(*               "defined by what comes after them" (comment in _can_dedup)*)
(*   2 override  the text starts with an override-type prefix of the class *)
(*               (Dedup.OVERRIDDEN: "-DFOO ... -UFOO ... the same is true  *)
(*               for include paths and library paths with -I and -L")      *)
(*   3 once      a once-only name, a once-only prefix, a library file      *)
(*               suffix or the versioned lib*.so.N pattern (Dedup.UNIQUE)  *)
(*   4 rest      Dedup.NO_DEDUP                                            *)
(* Whether the text is put in front (prepend_prefixes) is independent of   *)
(* all that and depends on the prefix alone.                               *)
(*                                                                         *)
(* A *shape* is what the rules can see of a text:                          *)
(*   pfx   the prefix it starts with: "I" "L" "D" "U" "isys" (-I -L -D -U  *)
(*         -isystem), "l" "wll" "rpath" "rlink" (-l  -Wl,-l  -Wl,-rpath,   *)
(*         -Wl,-rpath-link,), "wl" (-Wl,<anything else>: in no table),     *)
(*         "none" (anything else, e.g. /I /D -O -f)                        *)
(*   bare  1 = the text is exactly that prefix                             *)
(*   exact "once" = one of the names -c -S -E -pipe -pthread               *)
(*         -Wl,--export-dynamic; "none"                                    *)
(*   sfx   how it ends: "a" "so" "lib" "dll" "dylib"; "vso" = a versioned  *)
(*         UNIX shared library [dir/]lib*.so.N[.N[.N]]; "sov" = *.so.N     *)
(*         without the lib name; "none"                                    *)
(*   ab    1 = an absolute path                                            *)
(***************************************************************************)
EXTENDS Integers, Sequences, FiniteSets

OverrideSpellings == {"I", "L", "D", "U", "isys"}
OnceSpellings     == {"l", "wll", "rpath", "rlink"}
PfxNames    == OverrideSpellings \cup OnceSpellings \cup {"wl", "none"}
LibSuffixes == {"a", "so", "lib", "dll", "dylib"}
SfxNames    == LibSuffixes \cup {"vso", "sov", "none"}

Shapes == [pfx : PfxNames, bare : {0, 1}, exact : {"once", "none"}, sfx : SfxNames, ab : {0, 1}]
\* the combinations a text can have
ValidShape(s) ==
    /\ s.bare = 1 => s.pfx \notin {"none", "wl"} /\ s.sfx = "none" /\ s.exact = "none"
    /\ s.exact = "once" => s.pfx \in {"none", "wl"} /\ s.sfx = "none"
    /\ s.ab = 1 => s.pfx = "none" /\ s.exact = "none"          \* a text that starts with "-" is not a path
ValidShapes == { s \in Shapes : ValidShape(s) }

\* ---- the class tables ----------------------------------------------------------------------------
ClassNames == {"base", "clike", "d"}
PrependPfx(cl) == CASE cl = "clike" -> {"I", "L"} [] cl = "d" -> {"I", "L"} [] OTHER -> {}
OverPfx(cl)    == CASE cl = "clike" -> {"I", "L", "D", "U", "isys"} [] cl = "d" -> {"I"} [] OTHER -> {}
OncePfx(cl)    == CASE cl = "clike" -> {"l", "wll", "rpath", "rlink"} [] OTHER -> {}
HasOnceNames(cl) == cl = "clike"
TablePfx(cl)   == OverPfx(cl) \cup OncePfx(cl)
\* library file suffixes and the lib*.so.N pattern belong to the base class, every class has them
OnceSuffixes   == LibSuffixes \cup {"vso"}

\* ---- the rules and their precedence --------------------------------------------------------------
Matches(r, cl, s) ==
    CASE r = "bare"     -> s.bare = 1 /\ s.pfx \in TablePfx(cl)
      [] r = "override" -> s.pfx \in OverPfx(cl)
      [] r = "once"     -> \/ s.exact = "once" /\ HasOnceNames(cl)
                           \/ s.pfx \in OncePfx(cl)
                           \/ s.sfx \in OnceSuffixes
      [] r = "rest"     -> TRUE
Verdict(r) == CASE r = "bare" -> "none" [] r = "override" -> "over" [] r = "once" -> "unique" [] r = "rest" -> "none"
RuleOrder == <<"bare", "override", "once", "rest">>

FirstMatch(order, cl, s) ==
    order[CHOOSE k \in 1..Len(order) : Matches(order[k], cl, s) /\ \A h \in 1..(k - 1) : ~ Matches(order[h], cl, s)]
DedupBy(order, cl, s) == Verdict(FirstMatch(order, cl, s))
DedupOf(cl, s)   == DedupBy(RuleOrder, cl, s)
PrependOf(cl, s) == IF s.pfx \in PrependPfx(cl) THEN 1 ELSE 0

\* a library for the purposes of --start-group/--end-group ("circular dependencies between static
\* libraries ... symbols ... provided by object files or shared libraries"; the pinned tests group -lfoo,
\* -Wl,-ldl and /abs/libbaz.a): -l / -Wl,-l by their prefix, static and UNIX shared library files.
\* 2 = the documentation does not say: a text with another prefix (an option) whose value merely ends like
\* such a file name may or may not be taken for a library; both readings are accepted.
GroupOf(cl, s) ==
    IF cl # "clike" THEN 0
    ELSE IF s.pfx \in {"l", "wll"} THEN 1
    ELSE IF s.sfx \notin {"a", "so", "vso", "sov"} THEN 0
    ELSE IF s.pfx = "none" THEN 1
    ELSE IF s.pfx = "wl" THEN (IF s.sfx = "a" THEN 2 ELSE 0)     \* -Wl,dir/libx.so is an option for the linker
    ELSE 2

Classify(cl, s) == [p |-> PrependOf(cl, s), d |-> DedupOf(cl, s), g |-> GroupOf(cl, s)]

\* ---- the same, said declaratively -------------------------------------------------------------------
MeaningOf(cl, s) ==
    LET bareTable == s.bare = 1 /\ s.pfx \in TablePfx(cl)
        override  == s.pfx \in OverPfx(cl) /\ ~ bareTable
        once      == /\ ~ bareTable /\ ~ override
                     /\ (s.exact = "once" /\ HasOnceNames(cl)) \/ s.pfx \in OncePfx(cl) \/ s.sfx \in OnceSuffixes
    IN IF override THEN "over" ELSE IF once THEN "unique" ELSE "none"

\* ---- laws (checked for every class x valid shape by ArgListClassify_MC) --------------------------------
\* the ordered rule list and the declarative reading are the same function
LawOrderIsMeaning(cl, s) == DedupOf(cl, s) = MeaningOf(cl, s)
\* a text that is exactly a table prefix is never de-duplicated
LawBarePrefixNeverDeduped(cl, s) == (s.bare = 1 /\ s.pfx \in TablePfx(cl)) => DedupOf(cl, s) = "none"
\* an override-type prefix decides: whatever follows it - a library suffix, the lib*.so.N pattern - the
\* argument is override-type
LawOverridePrefixWins(cl, s) == (s.pfx \in OverPfx(cl) /\ s.bare = 0) => DedupOf(cl, s) = "over"
\* under a table prefix of the class the value (how the text ends) never changes the classification
LawValueIrrelevantUnderTablePrefix(cl, s) ==
    s.pfx \in TablePfx(cl) =>
        \A x \in SfxNames : LET t == [s EXCEPT !.sfx = x] IN
            ValidShape(t) => DedupOf(cl, t) = DedupOf(cl, s) /\ PrependOf(cl, t) = PrependOf(cl, s)
\* a text without a table prefix of the class is once-only exactly when it is a once-only name or ends like a library file
LawFilesAndNamesOnce(cl, s) ==
    s.pfx \notin TablePfx(cl) => (DedupOf(cl, s) = "unique" <=> ((s.exact = "once" /\ HasOnceNames(cl)) \/ s.sfx \in OnceSuffixes))
\* prepending depends on the prefix alone (bare or not, whatever the value)
LawPrependByPrefixAlone(cl, s) ==
    \A t \in ValidShapes : t.pfx = s.pfx => PrependOf(cl, t) = PrependOf(cl, s)
\* a class without tables (base) knows library files only; what the D class does not list is not override-type
LawClassTablesOnly(cl, s) ==
    /\ cl = "base" => PrependOf(cl, s) = 0 /\ DedupOf(cl, s) # "over"
    /\ cl = "d" => (DedupOf(cl, s) = "over" <=> (s.pfx = "I" /\ s.bare = 0))

\* ---- the precedence is really needed and really total (constant-level, ASSUMEd by the MC module) -----------
\* texts matched by more than one of the three proper rules
Overlap(cl) == { s \in ValidShapes : Cardinality({ r \in {"bare", "override", "once"} : Matches(r, cl, s) }) >= 2 }
Swap(order, a, b) == [k \in 1..Len(order) |-> IF order[k] = a THEN b ELSE IF order[k] = b THEN a ELSE order[k]]
\* exchanging two rules changes the verdict of some text, and only of texts in the overlap
SwapMatters(cl, a, b) ==
    LET o2 == Swap(RuleOrder, a, b) IN
    /\ \E s \in Overlap(cl) : DedupBy(o2, cl, s) # DedupOf(cl, s)
    /\ \A s \in ValidShapes \ Overlap(cl) : DedupBy(o2, cl, s) = DedupOf(cl, s)
PrecedenceMatters ==
    /\ SwapMatters("clike", "bare", "override")     \* "-D" alone
    /\ SwapMatters("clike", "override", "once")     \* -DX=.so, -Idir.a, -L/x/liby.so.1
    /\ SwapMatters("clike", "bare", "once")         \* "-l" alone
    /\ SwapMatters("d", "override", "once")         \* -Idir.a under the D tables
    /\ Overlap("base") = {}

\* ---- examples pinned by the class documentation and unittests/internaltests.py ----------------------------
Sh(pfx, bare, exact, sfx, ab) == [pfx |-> pfx, bare |-> bare, exact |-> exact, sfx |-> sfx, ab |-> ab]
Kd(p, d, g) == [p |-> p, d |-> d, g |-> g]
PinnedExamples ==
    /\ Classify("clike", Sh("D", 0, "none", "none", 0)) = Kd(0, "over", 0)          \* -DFOO / -UFOO (Dedup docstring)
    /\ Classify("clike", Sh("I", 0, "none", "none", 0)) = Kd(1, "over", 0)          \* -Ifoo  (test_compiler_args_class_clike)
    /\ Classify("clike", Sh("L", 0, "none", "none", 0)) = Kd(1, "over", 0)          \* -Lfoodir
    /\ Classify("clike", Sh("l", 0, "none", "none", 0)) = Kd(0, "unique", 1)        \* -lbar: "adding the same library again does nothing"
    /\ Classify("clike", Sh("wll", 0, "none", "none", 0)) = Kd(0, "unique", 1)      \* -Wl,-ldl "is detected as a library"
    /\ Classify("clike", Sh("none", 0, "once", "none", 0)) = Kd(0, "unique", 0)     \* -c, -pipe (Dedup docstring)
    /\ Classify("clike", Sh("wl", 0, "once", "none", 0)) = Kd(0, "unique", 0)       \* -Wl,--export-dynamic: not in the group
    /\ Classify("clike", Sh("none", 0, "none", "a", 1)) = Kd(0, "unique", 1)        \* /libbaz.a (test_compiler_args_class_gnuld)
    /\ Classify("clike", Sh("none", 0, "none", "none", 0)) = Kd(0, "none", 0)       \* -O2 -O2 stays twice
    /\ Classify("clike", Sh("D", 1, "none", "none", 0)) = Kd(0, "none", 0)          \* "-D" "FOO" "-D" "BAR"
    /\ Classify("clike", Sh("isys", 0, "none", "none", 0)) = Kd(0, "over", 0)       \* -isystem is appended (class comment)
    /\ Classify("d", Sh("I", 0, "none", "none", 0)) = Kd(1, "over", 0)              \* test_compiler_args_class_d
    /\ Classify("d", Sh("L", 0, "none", "none", 0)) = Kd(1, "none", 0)
    /\ Classify("base", Sh("I", 0, "none", "none", 0)) = Kd(0, "none", 0)
    /\ Classify("base", Sh("none", 0, "none", "so", 0)) = Kd(0, "unique", 0)
    \* the arguments of this module's headline
    /\ Classify("clike", Sh("D", 0, "none", "so", 0)).d = "over"
    /\ Classify("clike", Sh("I", 0, "none", "a", 0)) = Kd(1, "over", 2)
    /\ Classify("clike", Sh("L", 0, "none", "vso", 0)).d = "over"
    /\ Classify("clike", Sh("l", 0, "none", "a", 0)) = Kd(0, "unique", 1)
    /\ Classify("base", Sh("D", 0, "none", "so", 0)).d = "unique"                  \* no -D in the base tables: a file name
    /\ Classify("d", Sh("L", 0, "none", "a", 0)) = Kd(1, "unique", 0)               \* -L is only a prepend prefix for D
=============================================================================
