SPECIFICATION Spec
INVARIANT InvOrderIsMeaning
INVARIANT InvBarePrefixNeverDeduped
INVARIANT InvOverridePrefixWins
INVARIANT InvValueIrrelevantUnderTablePrefix
INVARIANT InvFilesAndNamesOnce
INVARIANT InvPrependByPrefixAlone
INVARIANT InvClassTablesOnly
CHECK_DEADLOCK FALSE
POSTCONDITION EmitTable
