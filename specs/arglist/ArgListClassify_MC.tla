------------------------- MODULE ArgListClassify_MC -------------------------
(* Every class x every valid shape is one initial state; the laws of ArgListClassify are invariants.  *)
(* The classification table (class, shape) -> kind is exported for the harness, which only knows which  *)
(* shape a concrete text has: the kind of every text it feeds to the implementation is taken from here.  *)
EXTENDS ArgListClassify, TLC, Json, SequencesExt
VARIABLES cl, s
vars == <<cl, s>>

ASSUME PrecedenceMatters
ASSUME PinnedExamples

Init == cl \in ClassNames /\ s \in ValidShapes
Next == UNCHANGED vars
Spec == Init /\ [][Next]_vars

InvOrderIsMeaning == LawOrderIsMeaning(cl, s)
InvBarePrefixNeverDeduped == LawBarePrefixNeverDeduped(cl, s)
InvOverridePrefixWins == LawOverridePrefixWins(cl, s)
InvValueIrrelevantUnderTablePrefix == LawValueIrrelevantUnderTablePrefix(cl, s)
InvFilesAndNamesOnce == LawFilesAndNamesOnce(cl, s)
InvPrependByPrefixAlone == LawPrependByPrefixAlone(cl, s)
InvClassTablesOnly == LawClassTablesOnly(cl, s)

EmitTable == TLCGet("stats").diameter >= 0 /\
             JsonSerialize("classify.json",
                 SetToSeq({ [cl |-> c, s |-> x, k |-> Classify(c, x)] : c \in ClassNames, x \in ValidShapes }))
=============================================================================
