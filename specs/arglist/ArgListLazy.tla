------------------------------ MODULE ArgListLazy ------------------------------
(***************************************************************************)
(* The implementation-shaped design of CompilerArgs: a flushed container   *)
(* plus two pending queues (`pre`, `post`) that `+=` only appends to, a    *)
(* flag saying that an override-type argument is pending, and a flush that *)
(* every read / copy / direct operation performs first.                    *)
(*                                                                         *)
(* ArgListLazy_MC proves (TLC, bounded) that this design refines the eager *)
(* meaning ArgList under the mapping  obj |-> Flush(obj).c : every         *)
(* operation returns the same value and leaves the mapped store equal.     *)
(* The rule book that judges the code stays ArgList; this module documents *)
(* why a lazily flushed structure can have the eager meaning, and which    *)
(* obligations it has (every read flushes or computes from the flushed     *)
(* view - including len(); a copy shares nothing; the once-only test looks *)
(* at the container and both queues).                                      *)
(***************************************************************************)
EXTENDS ArgList

Fresh(L) == [c |-> L, pre |-> <<>>, post |-> <<>>, chk |-> FALSE]

\* `x += b`: classify each member; once-only members already anywhere in the object are skipped,
\* an override-type member arms the check, prepend-type members of the batch are queued (in batch
\* order) in front of the `pre` queue, everything else at the end of `post`
RECURSIVE LAddLoop(_, _, _)
LAddLoop(x, b, tp) ==
    IF b = <<>> THEN [x EXCEPT !.pre = tp \o x.pre]
    ELSE LET a    == Head(b)
             skip == IsUniq(a) /\ (Has(x.c, a) \/ Has(x.pre, a) \/ Has(x.post, a))
             x1   == IF IsOver(a) THEN [x EXCEPT !.chk = TRUE] ELSE x
         IN IF skip THEN LAddLoop(x, Tail(b), tp)
            ELSE IF IsPre(a) THEN LAddLoop(x1, Tail(b), Append(tp, a))
            ELSE LAddLoop([x1 EXCEPT !.post = Append(x1.post, a)], Tail(b), tp)
LIadd(x, b) == LAddLoop(x, b, <<>>)

\* merge the queues into the container: first mention wins in `pre`, last mention wins in `post`,
\* container entries restated by either queue are dropped
Flush(x) ==
    IF ~ x.chk THEN Fresh(x.pre \o x.c \o x.post)
    ELSE LET preset  == { a \in Elems(x.pre) : IsOver(a) }
             postset == { a \in Elems(x.post) : IsOver(a) }
             keepPre(i)  == ~ (IsOver(x.pre[i]) /\ \E j \in 1..(i - 1) : x.pre[j] = x.pre[i])
             keepPost(i) == ~ (IsOver(x.post[i]) /\ \E j \in (i + 1)..Len(x.post) : x.post[j] = x.post[i])
             keepC(i)    == x.c[i] \notin (preset \cup postset)
         IN Fresh(Pick(x.pre, keepPre) \o Pick(x.c, keepC) \o Pick(x.post, keepPost))

LAppendDirect(x, a) ==
    LET f == Flush(x) IN IF a.ab = 1 THEN LIadd(f, <<a>>) ELSE [f EXCEPT !.c = Append(f.c, a)]
RECURSIVE LExtendDirectLoop(_, _)
LExtendDirectLoop(x, b) == IF b = <<>> THEN x ELSE LExtendDirectLoop(LAppendDirect(x, Head(b)), Tail(b))
LExtendDirect(x, b) == LExtendDirectLoop(Flush(x), b)

LStep(lz, op, gnu) ==
    LET x == lz[op.o]
        f == Flush(x)
        put(y) == [lz EXCEPT ![op.o] = y]
    IN CASE op.k = "iadd"    -> [objs |-> put(LIadd(x, op.b)), ret |-> NoRet]
         [] op.k = "xdirect" -> [objs |-> put(LExtendDirect(x, op.b)), ret |-> NoRet]
         [] op.k = "insert"  -> [objs |-> put([f EXCEPT !.c = Insert(f.c, op.i, op.b[1])]), ret |-> NoRet]
         [] op.k = "remove"  -> [objs |-> put([f EXCEPT !.c = RemoveOne(f.c, op.b[1])]),
                                 ret |-> <<IF Has(f.c, op.b[1]) THEN 1 ELSE 0>>]
         [] op.k = "new"     -> [objs |-> Append(lz, Fresh(op.b)), ret |-> NoRet]
         [] op.k = "copy"    -> [objs |-> Append(put(f), Fresh(f.c)), ret |-> NoRet]
         [] op.k = "add"     -> [objs |-> Append(put(f), LIadd(Fresh(f.c), op.b)), ret |-> NoRet]
         [] op.k = "radd"    -> [objs |-> Append(put(f), LIadd(Fresh(op.b), f.c)), ret |-> NoRet]
         [] op.k = "read"    -> [objs |-> put(f), ret |-> f.c]
         [] op.k = "rev"     -> [objs |-> put(f), ret |-> Reversed(f.c)]
         [] op.k = "native"  -> [objs |-> put(f), ret |-> NativeOf(f.c, gnu)]
         [] op.k = "len"     -> [objs |-> lz, ret |-> <<Len(f.c)>>]     \* obligation: the flushed length

\* the refinement mapping
Abs(lz) == [o \in 1..Len(lz) |-> Flush(lz[o]).c]

=============================================================================
