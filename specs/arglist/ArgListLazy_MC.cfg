SPECIFICATION Spec
CONSTANTS
 ArgSel = {1, 2, 3, 4, 5}
 OneSel = {1, 3, 5}
 MaxBatch = 2
 MaxDepth = 3
 MaxObjs = 2
 OpKinds = {"iadd", "xdirect", "insert", "remove", "read", "rev", "len", "native", "new", "copy", "add", "radd"}
 Gnu = TRUE
INVARIANT LazyRefinesEager
INVARIANT QueuesWellFormed
INVARIANT FlushIdempotent
CHECK_DEADLOCK FALSE
POSTCONDITION EmitSpace
