---------------------------- MODULE ArgListLazy_MC ----------------------------
(* Refinement, checked in lock step: the same operation is applied to the lazy *)
(* object store and to the eager store; after every operation the return       *)
(* values are equal and the lazy store, mapped through Flush, equals the eager *)
(* one.  Exhaustive over all operation sequences up to MaxDepth.               *)
EXTENDS ArgListLazy, ArgListSpace, IOUtils
VARIABLES lz, eg, rl, re, depth
vars == <<lz, eg, rl, re, depth>>

Init == lz = << Fresh(<<>>) >> /\ eg = << <<>> >> /\ rl = <<>> /\ re = <<>> /\ depth = 0
Next == /\ depth < MaxDepth
        /\ \E op \in Ops(Len(eg)) :
              LET a == LStep(lz, op, Gnu)
                  e == Step(eg, op, Gnu)
              IN lz' = a.objs /\ rl' = a.ret /\ eg' = e.objs /\ re' = e.ret
        /\ depth' = depth + 1
Spec == Init /\ [][Next]_vars

LazyRefinesEager == rl = re /\ Abs(lz) = eg
\* a copy shares nothing, a flushed object has empty queues, the check flag is armed whenever an
\* override-type argument is pending
QueuesWellFormed ==
    \A o \in 1..Len(lz) :
        /\ \A i \in 1..Len(lz[o].pre) : IsPre(lz[o].pre[i])
        /\ \A i \in 1..Len(lz[o].post) : IsPost(lz[o].post[i])
        /\ (\E a \in Elems(lz[o].pre) \cup Elems(lz[o].post) : IsOver(a)) => lz[o].chk
\* flushing is idempotent
FlushIdempotent == \A o \in 1..Len(lz) : Flush(Flush(lz[o])) = Flush(lz[o])

EmitSpace == TLCGet("stats").diameter >= 0 /\ JsonSerialize("space.json", SpaceJson)
=============================================================================
