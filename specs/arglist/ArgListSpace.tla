---------------------------- MODULE ArgListSpace ----------------------------
(***************************************************************************)
(* The bounded operation space shared by the two model-checking modules    *)
(* and (through the exported JSON) by the implementation replay: a table   *)
(* of representative arguments, batches up to MaxBatch members, and the    *)
(* operations applicable when n objects are alive.                         *)
(***************************************************************************)
EXTENDS ArgList, TLC, Json, SequencesExt

CONSTANTS ArgSel,      \* indices into AlphaSeq used by += / direct / new / add / radd batches
          OneSel,      \* indices used by the single-argument operations (insert, remove)
          MaxBatch, MaxDepth, MaxObjs,
          OpKinds,     \* subset of the operation kinds
          Gnu          \* TRUE: the compiler's linker is GNU-like (library grouping)

\* one or two representatives per kind of argument (the concrete spelling is chosen by the harness)
AlphaSeq == <<
    Arg(1, "over",   0, 0, 0, 1),    \*  1  -I<dir> / -L<dir>
    Arg(1, "over",   0, 0, 0, 2),    \*  2  a second one
    Arg(0, "over",   0, 0, 0, 1),    \*  3  -D / -U / -isystem<dir>
    Arg(0, "unique", 1, 0, 0, 1),    \*  4  -lfoo / libfoo.a / -Wl,-lfoo (once-only, a library)
    Arg(0, "none",   0, 0, 0, 1),    \*  5  -O2, an object file ... (never de-duplicated)
    Arg(0, "unique", 1, 0, 1, 2),    \*  6  /abs/libbar.a (once-only, library, absolute path)
    Arg(1, "none",   0, 0, 0, 1),    \*  7  a bare "-I" / "-L" (prepended, never de-duplicated)
    Arg(0, "over",   0, 0, 0, 2),    \*  8  a second -D / -U
    Arg(0, "over",   0, 1, 0, 9),    \*  9  -isystem<default dir>
    Arg(0, "none",   0, 2, 0, 9),    \* 10  bare -isystem
    Arg(0, "none",   0, 3, 1, 9),    \* 11  <default dir> on its own
    Arg(0, "unique", 0, 0, 0, 3),    \* 12  -pthread / -pipe (once-only, not a library)
    Arg(0, "none",   0, 0, 1, 2),    \* 13  /abs/obj.o
    \* arguments matched by several classification rules (ArgListClassify): the prefix decides
    Arg(0, "over",   2, 0, 0, 3),    \* 14  -DSUFFIX=.so / -isystem/sdk/libfw.so.1 (override-type; library-like value)
    Arg(1, "over",   2, 0, 0, 3),    \* 15  -Ithird_party/zlib.a / -L/usr/lib/libz.so.1
    Arg(0, "unique", 2, 0, 0, 4)     \* 16  -Wl,-rpath,/opt/x.a (once-only by its prefix)
>>

InsertIdx == {0, 1, -1}   \* indices tried by insert (front, second, before the last)

Idx(a) == CHOOSE i \in 1..Len(AlphaSeq) : AlphaSeq[i] = a
SeqsOver(S, n) == UNION { [1..k -> S] : k \in 0..n }
Batches == SeqsOver({ AlphaSeq[i] : i \in ArgSel }, MaxBatch)
Ones == { <<AlphaSeq[i]>> : i \in OneSel }

K(kind, set) == IF kind \in OpKinds THEN set ELSE {}

\* operations applicable with n live objects
Ops(n) ==
    UNION {
      K("iadd",    { Op("iadd", o, b, 0)    : o \in 1..n, b \in Batches }),
      K("xdirect", { Op("xdirect", o, b, 0) : o \in 1..n, b \in Batches }),
      K("insert",  { Op("insert", o, b, i)  : o \in 1..n, b \in Ones, i \in InsertIdx }),
      K("remove",  { Op("remove", o, b, 0)  : o \in 1..n, b \in Ones }),
      K("read",    { Op("read", o, <<>>, 0)   : o \in 1..n }),
      K("rev",     { Op("rev", o, <<>>, 0)    : o \in 1..n }),
      K("native",  { Op("native", o, <<>>, 0) : o \in 1..n }),
      K("len",     { Op("len", o, <<>>, 0)    : o \in 1..n }),
      IF n >= MaxObjs THEN {} ELSE UNION {
        K("new",   { Op("new", 1, b, 0)  : b \in Batches }),
        K("copy",  { Op("copy", o, <<>>, 0) : o \in 1..n }),
        K("add",   { Op("add", o, b, 0)  : o \in 1..n, b \in Batches }),
        K("radd",  { Op("radd", o, b, 0) : o \in 1..n, b \in Batches }) } }

\* the same space with arguments as indices into AlphaSeq, for the implementation replay
IdxOp(op) == [k |-> op.k, o |-> op.o, b |-> [j \in 1..Len(op.b) |-> Idx(op.b[j])], i |-> op.i]
SpaceJson == [alpha |-> AlphaSeq,
              markers |-> <<StartGroup, EndGroup>>,
              ops   |-> [n \in 1..MaxObjs |-> SetToSeq({ IdxOp(op) : op \in Ops(n) })]]
=============================================================================
