SPECIFICATION Spec
CONSTANTS
 ArgSel = {1, 2, 3, 4, 5, 7}
 OneSel = {1}
 MaxBatch = 2
 MaxList = 3
 MaxDepth = 1
 MaxObjs = 1
 OpKinds = {"iadd"}
 Gnu = TRUE
INVARIANT InvNothingInventedOrLost
INVARIANT InvNoDedupOrderAndMultiplicityKept
INVARIANT InvLaterSettingWins
INVARIANT InvReaddIdempotent
INVARIANT InvDirectIsPlainAppend
INVARIANT InvNativeShape
INVARIANT InvNativeSetHasNativeOf
INVARIANT InvSystemDirsRemovedExactly
CHECK_DEADLOCK FALSE
