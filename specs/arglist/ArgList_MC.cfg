SPECIFICATION Spec
CONSTANTS
 ArgSel = {1, 2, 3, 4, 5, 7}
 OneSel = {1, 3, 5}
 MaxBatch = 2
 MaxDepth = 3
 MaxObjs = 2
 OpKinds = {"iadd", "xdirect", "insert", "remove", "read", "new", "copy", "add", "radd"}
 Gnu = TRUE
INVARIANT InvNothingInventedOrLost
INVARIANT InvNoDedupOrderAndMultiplicityKept
INVARIANT InvLaterSettingWins
INVARIANT InvReaddIsIdempotentOnDedupable
INVARIANT InvNativeShape
INVARIANT TypeOK
CHECK_DEADLOCK FALSE
