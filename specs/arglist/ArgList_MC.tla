------------------------------ MODULE ArgList_MC ------------------------------
(* The eager rule book alone: for every list L over the argument table (any    *)
(* list can be built with the constructor / the direct operations, duplicates  *)
(* included), every batch b, and every chain of up to MaxDepth further `+=`,    *)
(* the three laws of the statement hold for `L += b`.                           *)
EXTENDS ArgListSpace
CONSTANT MaxList
VARIABLES L, b, depth
vars == <<L, b, depth>>

Table == { AlphaSeq[i] : i \in ArgSel }
Init == L \in SeqsOver(Table, MaxList) /\ b \in Batches /\ depth = 0
Next == /\ depth < MaxDepth
        /\ L' = Iadd(L, b)
        /\ b' \in Batches
        /\ depth' = depth + 1
Spec == Init /\ [][Next]_vars

InvNothingInventedOrLost == NothingInventedOrLost(L, b)
InvNoDedupOrderAndMultiplicityKept == NoDedupOrderAndMultiplicityKept(L, b)
InvLaterSettingWins == LaterSettingWins(L, b)
\* adding the same batch again neither adds nor removes anything for the arguments the rules apply
\* to, and a third time changes nothing at all
InvReaddIdempotent ==
    LET R1 == Iadd(L, b)
        R2 == Iadd(R1, b)
        dedupable(a) == a.d # "none"
    IN \/ \E a \in Elems(b) : ~ dedupable(a)
       \/ (/\ \A a \in Elems(R1) \cup Elems(R2) : Count(R2, a) = Count(R1, a)
           /\ Iadd(R2, b) = R2)
\* the direct operations add exactly what they are given, at the end, unless it is an absolute path
InvDirectIsPlainAppend ==
    (\A a \in Elems(b) : a.ab = 0) => ExtendDirect(L, b) = L \o b
\* to_native adds at most one start/end marker pair enclosing every library and removes only
\* -isystem of default directories
InvNativeShape ==
    LET N == NativeOf(L, Gnu)
        plain(a) == a.m = 0
        nosys(a) == a.s = 0
    IN /\ SelectSeq(SelectSeq(N, plain), nosys) = SelectSeq(L, nosys)
       /\ Count(N, StartGroup) = Count(N, EndGroup) /\ Count(N, StartGroup) <= 1
       /\ (Count(N, StartGroup) = 1 =>
             \A i \in 1..Len(N) : N[i].g = 1 => Pos(N, StartGroup) < i /\ i < Pos(N, EndGroup))
       /\ (Cardinality({ i \in 1..Len(L) : L[i].g = 1 }) >= 2 /\ Gnu) => Count(N, StartGroup) = 1
=============================================================================
