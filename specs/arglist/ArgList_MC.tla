------------------------------ MODULE ArgList_MC ------------------------------
(* The eager rule book alone: for every list L over the argument table (any    *)
(* list can be built with the constructor / the direct operations, duplicates  *)
(* included), every batch b, and every chain of up to MaxDepth further `+=`,    *)
(* the three laws of the statement hold for `L += b`.                           *)
EXTENDS ArgListSpace
CONSTANT MaxList
VARIABLES L, b, depth
vars == <<L, b, depth>>

Table == { AlphaSeq[i] : i \in ArgSel }
Init == L \in SeqsOver(Table, MaxList) /\ b \in Batches /\ depth = 0
Next == /\ depth < MaxDepth
        /\ L' = Iadd(L, b)
        /\ b' \in Batches
        /\ depth' = depth + 1
Spec == Init /\ [][Next]_vars

InvNothingInventedOrLost == NothingInventedOrLost(L, b)
InvNoDedupOrderAndMultiplicityKept == NoDedupOrderAndMultiplicityKept(L, b)
InvLaterSettingWins == LaterSettingWins(L, b)
\* adding the same batch again neither adds nor removes anything for the arguments the rules apply
\* to, and a third time changes nothing at all
InvReaddIdempotent ==
    LET R1 == Iadd(L, b)
        R2 == Iadd(R1, b)
        dedupable(a) == a.d # "none"
    IN \/ \E a \in Elems(b) : ~ dedupable(a)
       \/ (/\ \A a \in Elems(R1) \cup Elems(R2) : Count(R2, a) = Count(R1, a)
           /\ Iadd(R2, b) = R2)
\* the direct operations add exactly what they are given, at the end, unless it is an absolute path
InvDirectIsPlainAppend ==
    (\A a \in Elems(b) : a.ab = 0) => ExtendDirect(L, b) = L \o b
\* to_native adds at most one start/end marker pair enclosing every library and removes only
\* -isystem of default directories
InvNativeShape ==
    \A N \in NativeSet(L, Gnu) :
    LET plain(a) == a.m = 0
        nosys(a) == a.s = 0
        libs     == { i \in 1..Len(L) : L[i].g = 1 }
    IN /\ SelectSeq(SelectSeq(N, plain), nosys) = SelectSeq(L, nosys)
       /\ Count(N, StartGroup) = Count(N, EndGroup) /\ Count(N, StartGroup) <= 1
       /\ (Count(N, StartGroup) = 1 =>
             /\ \A i \in 1..Len(N) : N[i].g = 1 => Pos(N, StartGroup) < i /\ i < Pos(N, EndGroup)
             \* the group starts and ends at an argument that is, or may be read as, a library
             /\ N[Pos(N, StartGroup) + 1].g \in {1, 2} /\ N[Pos(N, EndGroup) - 1].g \in {1, 2})
       /\ (Cardinality(libs) >= 2 /\ Gnu) => Count(N, StartGroup) = 1
       /\ (Cardinality(libs) + Cardinality({ i \in 1..Len(L) : L[i].g = 2 }) < 2 \/ ~ Gnu) => Count(N, StartGroup) = 0
\* -isystem of a default include directory: all three spellings are removed (the bare "-isystem" together with the
\* directory that follows it), nothing else is; grouping does not change what is removed
InvSystemDirsRemovedExactly ==
    LET N     == NativeOf(L, FALSE)
        pairs == { i \in 1..(Len(L) - 1) : L[i].s = 2 /\ L[i + 1].s = 3 }
        ones  == { i \in 1..Len(L) : L[i].s = 1 }
        plain(a) == a.m = 0
    IN /\ \A i \in 1..Len(N) : N[i].s # 1
       /\ Len(L) - Len(N) = Cardinality(ones) + 2 * Cardinality(pairs)
       \* a bare -isystem that is not followed by a default directory, and a default directory that does not
       \* follow a bare -isystem, stay
       /\ Count(N, AlphaSeq[10]) = Count(L, AlphaSeq[10]) - Cardinality(pairs)
       /\ SelectSeq(NativeOf(L, TRUE), plain) = N
       /\ (\A i \in 1..Len(L) : L[i].s = 0) => N = L
\* the reading without any optional library is always among the accepted ones, and without arguments of
\* unspecified status there is exactly one accepted result
InvNativeSetHasNativeOf ==
    /\ NativeOf(L, Gnu) \in NativeSet(L, Gnu)
    /\ MaybeLibs(L) = {} => NativeSet(L, Gnu) = { NativeOf(L, Gnu) }
=============================================================================
