------------------------------ MODULE ArgList_MC ------------------------------
(* The eager rule book alone: every list reachable by the bounded operation   *)
(* space satisfies the three laws of the statement for every further batch.   *)
EXTENDS ArgListSpace
VARIABLES objs, ret, depth
vars == <<objs, ret, depth>>

Init == objs = << <<>> >> /\ ret = <<>> /\ depth = 0
Next == /\ depth < MaxDepth
        /\ \E op \in Ops(Len(objs)) :
              LET r == Step(objs, op, Gnu) IN objs' = r.objs /\ ret' = r.ret
        /\ depth' = depth + 1
Spec == Init /\ [][Next]_vars

LawBatches == SeqsOver({ AlphaSeq[i] : i \in ArgSel }, MaxBatch + 1)

InvNothingInventedOrLost == \A o \in 1..Len(objs) : \A b \in LawBatches : NothingInventedOrLost(objs[o], b)
InvNoDedupOrderAndMultiplicityKept ==
    \A o \in 1..Len(objs) : \A b \in LawBatches : NoDedupOrderAndMultiplicityKept(objs[o], b)
InvLaterSettingWins == \A o \in 1..Len(objs) : \A b \in LawBatches : LaterSettingWins(objs[o], b)
\* adding the same batch twice changes nothing more (the override/once-only rules are idempotent
\* on the arguments they apply to): after `+= b; += b` every de-dupable member of b occurs once
InvReaddIsIdempotentOnDedupable ==
    \A o \in 1..Len(objs) : \A b \in Batches :
        LET R == Iadd(Iadd(objs[o], b), b) IN
        \A a \in Elems(b) : (IsOver(a) => Count(R, a) = 1)
                            /\ (IsUniq(a) => Count(R, a) = (IF Count(objs[o], a) = 0 THEN 1 ELSE Count(objs[o], a)))
\* to_native only ever adds one start and one end marker around all libraries and removes only
\* default system directories
InvNativeShape ==
    \A o \in 1..Len(objs) :
        LET L == objs[o]
            N == NativeOf(L, Gnu)
            plain(a) == a.m = 0
            nosys(a) == a.s = 0
        IN /\ SelectSeq(SelectSeq(N, plain), nosys) = SelectSeq(L, nosys)
           /\ Count(N, StartGroup) = Count(N, EndGroup) /\ Count(N, StartGroup) <= 1
           /\ (Count(N, StartGroup) = 1 =>
                 \A i \in 1..Len(N) : N[i].g = 1 => Pos(N, StartGroup) < i /\ i < Pos(N, EndGroup))
TypeOK == Len(objs) \in 1..MaxObjs /\ depth \in 0..MaxDepth
=============================================================================
