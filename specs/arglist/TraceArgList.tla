----------------------------- MODULE TraceArgList -----------------------------
(***************************************************************************)
(* Trace validation for C13.  A case is one history of operations executed *)
(* on real CLikeCompilerArgs objects: the operations (arguments as indices *)
(* into the table `alpha` of the batch), what every call returned, and the *)
(* content of every live object at the end (observed only then, so that    *)
(* pending queues are not disturbed by the observer).  The case is         *)
(* accepted iff the eager rule book ArgList!Step, folded over the          *)
(* operations, returns the same values and ends in the same lists.         *)
(*   rets[k]  what operation k returned: a list for read/rev/native,       *)
(*            <<n>> for len and remove, <<>> otherwise, <<-1>> = it raised *)
(*   fin = 0  obs[o] = [l |-> list(o), n |-> o.to_native(copy=True),       *)
(*                      l2 |-> list(o) again]                              *)
(*   fin = 1  obs[o] = [n |-> o.to_native()] (in place, first observation) *)
(***************************************************************************)
EXTENDS ArgList, TLC, Json, IOUtils

T == JsonDeserialize(IOEnv.TRACE_FILE)
Alpha == T.alpha
Cases == T.cases

VARIABLES i, done
vars == <<i, done>>

ToArg(n) == IF n \in 1..Len(Alpha) THEN Alpha[n] ELSE Alien
ToArgs(s) == [j \in 1..Len(s) |-> ToArg(s[j])]
ToOp(x) == Op(x.k, x.o, ToArgs(x.b), x.i)
IdxOf(a) == IF \E n \in 1..Len(Alpha) : Alpha[n] = a THEN CHOOSE n \in 1..Len(Alpha) : Alpha[n] = a ELSE 0
ToIdx(s) == [j \in 1..Len(s) |-> IdxOf(s[j])]

V(c, clause, step, obj, exp, got) ==
    [id |-> c.id, clause |-> clause, step |-> step, obj |-> obj, expected |-> exp, got |-> got]

Final(c, objs) ==
    LET gnu == c.gnu = 1
        badL(o)  == c.fin = 0 /\ ToArgs(c.obs[o].l) # objs[o]
        badN(o)  == ToArgs(c.obs[o].n) # NativeOf(objs[o], gnu)
        badL2(o) == c.fin = 0 /\ ToArgs(c.obs[o].l2) # objs[o]
        bad(o)   == badL(o) \/ badN(o) \/ badL2(o)
    IN IF Len(c.obs) # Len(objs) THEN V(c, "ObjectCount", Len(c.ops) + 1, 0, <<Len(objs)>>, <<Len(c.obs)>>)
       ELSE IF \E o \in 1..Len(objs) : bad(o)
       THEN LET o == CHOOSE o \in 1..Len(objs) : bad(o) /\ \A h \in 1..(o - 1) : ~ bad(h) IN
            IF badL(o) THEN V(c, "FinalList", Len(c.ops) + 1, o, ToIdx(objs[o]), c.obs[o].l)
            ELSE IF badN(o) THEN V(c, IF c.fin = 0 THEN "FinalNativeCopy" ELSE "FinalNativeInPlace", Len(c.ops) + 1, o,
                                   ToIdx(NativeOf(objs[o], gnu)), c.obs[o].n)
            ELSE V(c, "ListChangedByNativeCopy", Len(c.ops) + 1, o, ToIdx(objs[o]), c.obs[o].l2)
       ELSE V(c, "ok", 0, 0, <<>>, <<>>)

RECURSIVE Walk(_, _, _)
Walk(c, objs, k) ==
    IF k > Len(c.ops) THEN Final(c, objs)
    ELSE LET op  == ToOp(c.ops[k])
             got == c.rets[k]
         IN IF op.o \notin 1..Len(objs) THEN V(c, "HarnessBadObject", k, op.o, <<>>, <<>>)
            ELSE LET r == Step(objs, op, c.gnu = 1) IN
                 IF op.k \in Readers
                 THEN IF ToArgs(got) = r.ret THEN Walk(c, r.objs, k + 1)
                      ELSE IF op.k = "rev" /\ got = <<-1>> THEN V(c, "ReversedRaised", k, op.o, ToIdx(r.ret), got)
                      ELSE V(c, "ReadReturn", k, op.o, ToIdx(r.ret), got)
                 ELSE IF got = r.ret THEN Walk(c, r.objs, k + 1)
                      ELSE IF op.k = "len" /\ Len(got) = 1 /\ got[1] > r.ret[1]
                           THEN V(c, "LenMoreThanEagerLength", k, op.o, r.ret, got)
                      ELSE V(c, "CallReturn", k, op.o, r.ret, got)

Judge(c) == Walk(c, << <<>> >>, 1)

Init == i \in 1..Len(Cases) /\ done = FALSE
Next == /\ ~ done
        /\ done' = TRUE
        /\ i' = i
        /\ LET v == Judge(Cases[i]) IN v.clause = "ok" \/ PrintT(ToJson(v))
Spec == Init /\ [][Next]_vars
=============================================================================
