----------------------------- MODULE TraceArgList -----------------------------
(***************************************************************************)
(* Trace validation for C13.  A case is one history of operations executed *)
(* on real CLikeCompilerArgs objects: the operations (arguments as indices *)
(* into the table `alpha` of the batch), what every call returned, and the *)
(* content of every live object at the end (observed only then, so that    *)
(* pending queues are not disturbed by the observer).  The case is         *)
(* accepted iff the eager rule book ArgList!Step, folded over the          *)
(* operations, returns the same values and ends in the same lists.         *)
(* A case is a record (short field names: TLC's JSON reader is the         *)
(* bottleneck of a batch)                                                  *)
(*   id       number of the case in the batch                              *)
(*   s        the history as a path through the exported operation space   *)
(*            (s[k] = index into T.ops[n] with n the number of live        *)
(*            objects before operation k), or                              *)
(*   ops      the history as explicit operations [k, o, b, i]              *)
(*   g, f     gnu (0/1), fin (0/1)                                         *)
(*   r[k]     what operation k returned: a list for read/rev/native,       *)
(*            <<n>> for len and remove, <<>> otherwise, <<-1>> = it raised *)
(*   f = 0    o[j] = << list(obj j), obj.to_native(copy=True),             *)
(*                      list(obj j) again >>                               *)
(*   f = 1    o[j] = << <<>>, obj.to_native() (in place), <<>> >>          *)
(*   f = 2    o[j] = << the list, <<>>, <<>> >>  (a command line of         *)
(*            build.ninja projected onto the arguments of the history)     *)
(***************************************************************************)
EXTENDS ArgListClasses, TLC, Json, IOUtils

T == JsonDeserialize(IOEnv.TRACE_FILE)
Alpha == T.alpha
Cases == T.cases

VARIABLES i, done
vars == <<i, done>>

ToArg(n) == IF n \in 1..Len(Alpha) THEN Alpha[n] ELSE Alien
ToArgs(s) == [j \in 1..Len(s) |-> ToArg(s[j])]
ToOp(x) == Op(x.k, x.o, ToArgs(x.b), x.i)
IdxOf(a) == IF \E n \in 1..Len(Alpha) : Alpha[n] = a THEN CHOOSE n \in 1..Len(Alpha) : Alpha[n] = a ELSE 0
ToIdx(s) == [j \in 1..Len(s) |-> IdxOf(s[j])]

V(c, clause, step, obj, exp, got) ==
    [id |-> c.id, clause |-> clause, step |-> step, obj |-> obj, expected |-> exp, got |-> got]

\* number of operations of the case
NOps(c) == Len(c.r)
\* operation k of the case when n objects are alive
OpAt(c, k, n) == IF "s" \in DOMAIN c THEN ToOp(T.ops[n][c.s[k]]) ELSE ToOp(c.ops[k])

\* verdicts of the final observation (at most one per case: the first object that differs)
Final(c, objs) ==
    LET gnu == c.g = 1
        badL(o)  == c.f \in {0, 2} /\ ToArgs(c.o[o][1]) # objs[o]
        badN(o)  == c.f # 2 /\ ToArgs(c.o[o][2]) \notin NativeSet(objs[o], gnu)
        badL2(o) == c.f = 0 /\ ToArgs(c.o[o][3]) # objs[o]
        bad(o)   == badL(o) \/ badN(o) \/ badL2(o)
    IN IF Len(c.o) # Len(objs) THEN <<V(c, "ObjectCount", NOps(c) + 1, 0, <<Len(objs)>>, <<Len(c.o)>>)>>
       ELSE IF \E o \in 1..Len(objs) : bad(o)
       THEN LET o == CHOOSE o \in 1..Len(objs) : bad(o) /\ \A h \in 1..(o - 1) : ~ bad(h) IN
            IF badL(o) THEN <<V(c, "FinalList", NOps(c) + 1, o, ToIdx(objs[o]), c.o[o][1])>>
            ELSE IF badN(o) THEN <<V(c, IF c.f = 0 THEN "FinalNativeCopy" ELSE "FinalNativeInPlace", NOps(c) + 1, o,
                                     ToIdx(NativeOf(objs[o], gnu)), c.o[o][2])>>
            ELSE <<V(c, "ListChangedByNativeCopy", NOps(c) + 1, o, ToIdx(objs[o]), c.o[o][3])>>
       ELSE <<>>

\* fold the rule book over the history.  The eager state does not depend on what the implementation
\* returned, so the walk continues after a wrong return value and every deviation of the case is
\* reported (acc), not only the first one.
RECURSIVE Walk(_, _, _, _)
Walk(c, objs, k, acc) ==
    IF k > NOps(c) THEN acc \o Final(c, objs)
    ELSE LET op  == OpAt(c, k, Len(objs))
             got == c.r[k]
         IN IF op.o \notin 1..Len(objs) THEN Append(acc, V(c, "HarnessBadObject", k, op.o, <<>>, <<>>))
            ELSE LET r == Step(objs, op, c.g = 1)
                     v == IF op.k \in Readers
                          THEN IF ToArgs(got) = r.ret \/ (op.k = "native" /\ ToArgs(got) \in NativeSet(objs[op.o], c.g = 1)) THEN <<>>
                               ELSE IF op.k = "rev" /\ got = <<-1>> THEN <<V(c, "ReversedRaised", k, op.o, ToIdx(r.ret), got)>>
                               ELSE <<V(c, "ReadReturn", k, op.o, ToIdx(r.ret), got)>>
                          ELSE IF got = r.ret THEN <<>>
                               ELSE IF op.k = "len" /\ Len(got) = 1 /\ got[1] > r.ret[1]
                                    THEN <<V(c, "LenMoreThanEagerLength", k, op.o, r.ret, got)>>
                               ELSE <<V(c, "CallReturn", k, op.o, r.ret, got)>>
                 IN Walk(c, r.objs, k + 1, acc \o v)

\* ---- histories over lists of several classes (ArgListClasses) ------------------------------------------
\* the batch file has `words` (the shared words) and `cops` (an operation table); a case has
\*   cl  the classes (indices into Classes) of the lists that exist at the start, in order
\*   s   the history as indices into T.cops   (or)   ops  explicit operations (b = word numbers)
\*   r   what every call returned (lists as word numbers), o[j] = << list(obj j) >> at the end
\* ClassificationIsPerClass: every list is what ArgListClasses!StepC gives for its own class
COpAt(c, k) == IF "s" \in DOMAIN c THEN T.cops[c.s[k]] ELSE c.ops[k]
COp(x) == Op(x.k, x.o, x.b, x.i)
RECURSIVE WalkC(_, _, _, _, _)
WalkC(c, objs, cls, k, acc) ==
    IF k > Len(c.r)
    THEN IF Len(c.o) # Len(objs) THEN Append(acc, V(c, "ObjectCount", k, 0, <<Len(objs)>>, <<Len(c.o)>>))
         ELSE acc \o LET bad(o) == ViewArgs(cls[o], T.words, c.o[o][1]) # objs[o] IN
                     IF \E o \in 1..Len(objs) : bad(o)
                     THEN LET o == CHOOSE o \in 1..Len(objs) : bad(o) /\ \A h \in 1..(o - 1) : ~ bad(h)
                          IN <<V(c, "ClassificationIsPerClass", k, o, [j \in 1..Len(objs[o]) |-> objs[o][j].id], c.o[o][1])>>
                     ELSE <<>>
    ELSE LET op == COp(COpAt(c, k))
             got == c.r[k]
         IN IF op.o \notin 1..Len(objs) THEN Append(acc, V(c, "HarnessBadObject", k, op.o, <<>>, <<>>))
            ELSE LET r == StepC(objs, cls, op, T.words)
                     v == IF op.k \in Readers
                          THEN IF ViewArgs(cls[op.o], T.words, got) = r.ret THEN <<>>
                               ELSE <<V(c, "ClassificationIsPerClass", k, op.o, [j \in 1..Len(r.ret) |-> r.ret[j].id], got)>>
                          ELSE IF got = r.ret THEN <<>> ELSE <<V(c, "CallReturn", k, op.o, r.ret, got)>>
                 IN WalkC(c, r.objs, r.cls, k + 1, acc \o v)
JudgeClasses(c) == WalkC(c, [j \in 1..Len(c.cl) |-> <<>>], [j \in 1..Len(c.cl) |-> Classes[c.cl[j]]], 1, <<>>)

\* the deviations of one case (<<>> = accepted)
Judge(c) == IF "cl" \in DOMAIN c THEN JudgeClasses(c) ELSE Walk(c, << <<>> >>, 1, <<>>)

Init == i \in 1..Len(Cases) /\ done = FALSE
Next == /\ ~ done
        /\ done' = TRUE
        /\ i' = i
        /\ LET vs == Judge(Cases[i]) IN vs = <<>> \/ PrintT(ToJson(vs))
Spec == Init /\ [][Next]_vars
=============================================================================
