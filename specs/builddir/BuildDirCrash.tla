--------------------------- MODULE BuildDirCrash ---------------------------
(***************************************************************************)
(* C09 - a killed meson command never bricks the build directory.          *)
(*                                                                          *)
(* The build directory is a set of named state files.  A mutating command  *)
(* (`setup`, `setup --reconfigure`, `setup --wipe`, `configure`) is a      *)
(* *script*: a sequence of atomic file-system operations.  The process may *)
(* be killed between any two operations (`Crash`); what is on disk then is *)
(* the result of the executed prefix.  `Recover` is the follow-up           *)
(* `meson setup [--reconfigure]`: what it reads, in which order, and what   *)
(* it tolerates.  The property:                                             *)
(*                                                                          *)
(*   Recoverable     from every crash state the follow-up succeeds          *)
(*   ValuesOldOrNew  and the option values it ends with are those from      *)
(*                   before the interrupted command or those the command    *)
(*                   was setting - never anything else.                     *)
(*                                                                          *)
(* plus the write-protocol laws the design relies on (core data is never   *)
(* torn, is made durable before it is installed, is rolled back when the   *)
(* command fails; build.ninja is never torn).                               *)
(*                                                                          *)
(* The module is parameterised by the scripts: BuildDirCrash_MC explores a *)
(* family of *designs* (which file is written atomically, in which order,  *)
(* how `--wipe` keeps the recorded command line), TraceBuildDirCrash feeds *)
(* the scripts *recorded from the real commands* (strace) and the          *)
(* observations of real kill/recover runs.                                  *)
(***************************************************************************)
EXTENDS Naturals, Sequences, FiniteSets

CONSTANT StrictCmdline    \* TRUE: the reader of cmd_line.txt raises on a file without its sections
                          \* (torn file); FALSE: it treats a torn file as "no options recorded"
CONSTANT FirstRunReadsCmdline  \* TRUE: a first configuration (no coredata.dat) also takes the machine files
                          \* recorded in cmd_line.txt; FALSE: only its -D options

-----------------------------------------------------------------------------
(* File contents.                                                           *)
(*   st   absent | dir | empty (created/truncated, no data yet) |           *)
(*        partial (some but not all data) | full                            *)
(*   ver  which generation of option values the content carries:           *)
(*        old (before the command) | new (what the command is setting) |   *)
(*        none                                                              *)
(*   sy   the data has been fsync'ed                                        *)

(*   own  the content was produced by the run that is executing (a file found  *)
(*        at the start of a run - the pre-state, or what a killed run left to   *)
(*        its follow-up - is not own until the run truncates it)                *)
(*   st = garbled: data appended to content the run did not produce itself      *)
C(st, ver, sy) == [st |-> st, ver |-> ver, sy |-> sy, own |-> TRUE]
Found(st, ver) == [st |-> st, ver |-> ver, sy |-> TRUE, own |-> FALSE]
Absent == C("absent", "none", TRUE)
IsDir  == C("dir", "none", TRUE)
Garbled == [st |-> "garbled", ver |-> "new", sy |-> FALSE, own |-> FALSE]
Torn(c) == c.st \in {"empty", "partial", "garbled"}

Core     == "meson-private/coredata.dat"
CoreTmp  == "meson-private/coredata.dat~"
CorePrev == "meson-private/coredata.dat.prev"
Cmdl     == "meson-private/cmd_line.txt"
BuildDat == "meson-private/build.dat"
\* the private copy of a machine file that was given as a pipe (meson-private/<uuid>.native.ini,
\* name normalised by the harness): the *only* copy; coredata.dat and cmd_line.txt name it
MFile    == "meson-private/$PIPED.native.ini"
Ninja    == "build.ninja"
NinjaTmp == "build.ninja~"

-----------------------------------------------------------------------------
(* Operations: records [op, f, g].                                          *)
(*   creat f      open(O_CREAT|O_TRUNC): f exists and is empty              *)
(*   append f     open(O_CREAT|O_APPEND): created empty when absent         *)
(*   write f      one write() of the next chunk of new content              *)
(*   copy f g     one chunk copied into f from g (sendfile/copy_file_range) *)
(*   fsync f | close f | rename f g (f -> g) | unlink f | mkdir f | rmdir f *)
(*   anything else (read-only opens, failed calls) changes nothing          *)

Op(op, f, g) == [op |-> op, f |-> f, g |-> g]
DataOps == {"write", "copy"}
Delimiters == DataOps \cup {"close", "creat"}

\* index of the first operation at or after j on file f whose kind is in S (0: none)
RECURSIVE NextOf(_, _, _, _)
NextOf(ops, j, f, S) ==
    IF j > Len(ops) THEN 0
    ELSE IF ops[j].f = f /\ ops[j].op \in S THEN j
    ELSE NextOf(ops, j + 1, f, S)

\* a chunk completes the file when no further chunk follows before the file is closed for good (a file
\* that is closed and opened again for appending - build.ninja~ - is still being written)
LastChunk(ops, i) ==
    LET f == ops[i].f
        j == NextOf(ops, i + 1, f, Delimiters)
        r == IF j = 0 THEN 0 ELSE NextOf(ops, j + 1, f, {"append", "creat", "rename", "unlink", "write", "copy"})
    IN j = 0 \/ (ops[j].op \notin DataOps /\ ~(ops[j].op = "close" /\ r # 0 /\ ops[r].op = "append"))

Apply(fs, ops, i) ==
    LET o == ops[i]
        after == IF LastChunk(ops, i) THEN "full" ELSE "partial"
    IN CASE o.op = "creat"  -> [fs EXCEPT ![o.f] = C("empty", "new", FALSE)]
         [] o.op = "append" -> IF fs[o.f].st = "absent" THEN [fs EXCEPT ![o.f] = C("empty", "new", FALSE)] ELSE fs
         \* data written without a truncation by this run lands behind whatever the file held (O_APPEND)
         [] o.op = "write"  -> [fs EXCEPT ![o.f] = IF ~fs[o.f].own /\ fs[o.f].st \in {"partial", "full", "garbled"}
                                                   THEN Garbled ELSE C(after, "new", FALSE)]
         [] o.op = "copy"   -> [fs EXCEPT ![o.f] = C(after, fs[o.g].ver, FALSE)]
         [] o.op = "fsync"  -> [fs EXCEPT ![o.f] = [fs[o.f] EXCEPT !.sy = TRUE]]
         [] o.op = "rename" ->
               \* a source the script never produced (a file outside the watched set) is complete new content
               LET src == IF fs[o.f].st = "absent" THEN C("full", "new", FALSE) ELSE fs[o.f]
               IN IF o.f = o.g THEN fs ELSE [fs EXCEPT ![o.f] = Absent, ![o.g] = src]
         [] o.op \in {"unlink", "rmdir"} -> [fs EXCEPT ![o.f] = Absent]
         [] o.op = "mkdir"  -> [fs EXCEPT ![o.f] = IsDir]
         [] OTHER -> fs

-----------------------------------------------------------------------------
(* Scripts: [kind, fresh, failed, usesM, usesE, pre, ops, recover]          *)
(*   kind    setup | reconfigure | configure | wipe                         *)
(*   fresh   the directory was not configured before (old values = the     *)
(*           defaults)                                                      *)
(*   failed  the command ends with an error by itself (not killed)         *)
(*   pre     the state files before the command: sequence of [f, st, ver]  *)
(*           (ver is "old", or "older" for a left-over of an earlier run)  *)

NamesOf(sc) == ({ sc.pre[j].f : j \in 1..Len(sc.pre) }
                \cup { sc.ops[j].f : j \in 1..Len(sc.ops) }
                \cup { sc.ops[j].g : j \in 1..Len(sc.ops) }
                \cup {Core, Cmdl}) \ {""}

PreState(sc) ==
    [n \in NamesOf(sc) |->
        IF \E j \in 1..Len(sc.pre) : sc.pre[j].f = n
        THEN LET j == CHOOSE j \in 1..Len(sc.pre) : sc.pre[j].f = n
             IN IF sc.pre[j].st = "dir" THEN IsDir ELSE Found(sc.pre[j].st, sc.pre[j].ver)
        ELSE Absent]

RECURSIVE Run(_, _)
Run(sc, k) == IF k = 0 THEN PreState(sc) ELSE Apply(Run(sc, k - 1), sc.ops, k)

-----------------------------------------------------------------------------
(* Recover: `meson setup` on the crashed directory, with `--reconfigure`    *)
(* exactly when the directory counts as configured (coredata.dat exists).   *)
(*  1. validate_dirs accepts an empty, a partial (meson-private without     *)
(*     coredata.dat) and a configured directory.                            *)
(*  2. coredata.dat is loaded: absent -> a first configuration; readable -> *)
(*     its values are kept; unreadable -> regenerate from scratch with the  *)
(*     options recorded in cmd_line.txt, and if there is no cmd_line.txt    *)
(*     give up ("try --wipe").                                              *)
(*  3. cmd_line.txt, when it exists, is read in every case (it feeds the    *)
(*     first configuration); a torn file makes a strict reader raise.       *)
(* Option values live in three places, hence three classes of options:     *)
(*   d  given with -D: in coredata.dat and in cmd_line.txt [options]        *)
(*   m  set by a machine file (--native-file): in coredata.dat; cmd_line.txt *)
(*      [properties] only records *which* files                             *)
(*   e  taken from the environment of the first run: only in coredata.dat   *)
(*  4. Whenever machine files are taken from the core data or from          *)
(*     cmd_line.txt and the directory holds the private copy of a piped     *)
(*     machine file, that copy is read: missing -> the follow-up fails;     *)
(*     torn -> the values it set are gone.                                  *)
(* Result: ok, whether --reconfigure applies, and per class the generation  *)
(* of values the directory ends with ("default": nothing recorded survived).*)

Out(ok, reconf, vd, vm, ve, why) == [ok |-> ok, reconf |-> reconf, vd |-> vd, vm |-> vm, ve |-> ve, why |-> why]

\* does the follow-up take a list of machine files from the core data or from cmd_line.txt
ReadsMachineFiles(fs) ==
    LET c == fs[Core]
        l == fs[Cmdl]
    IN \/ c.st = "full"
       \/ (c.st = "absent" /\ l.st = "full" /\ FirstRunReadsCmdline)
       \/ (c.st \notin {"full", "absent"} /\ l.st = "full")

RecoverOutcome(fs) ==
    LET c == fs[Core]
        l == fs[Cmdl]
        reconf == c.st # "absent"
        recorded == IF l.st = "full" THEN l.ver ELSE "default"
        reads == ReadsMachineFiles(fs)
        piped == MFile \in DOMAIN fs
        gone  == piped /\ reads /\ fs[MFile].st = "absent"
        M(v)  == IF piped /\ reads /\ Torn(fs[MFile]) THEN "default" ELSE v
    IN IF Torn(l) /\ StrictCmdline THEN Out(FALSE, reconf, "none", "none", "none", "cmdline-unreadable")
       ELSE IF gone THEN Out(FALSE, reconf, "none", "none", "none", "machine-file-missing")
       ELSE IF c.st = "full" THEN Out(TRUE, TRUE, c.ver, M(c.ver), c.ver, "coredata")
       ELSE IF c.st = "absent"
            THEN Out(TRUE, FALSE, recorded, IF FirstRunReadsCmdline THEN M(recorded) ELSE "default", "default",
                     IF l.st = "full" THEN "cmdline" ELSE "first")
       ELSE IF l.st = "absent" THEN Out(FALSE, TRUE, "none", "none", "none", "coredata-unreadable")
       ELSE Out(TRUE, TRUE, recorded, M(recorded), "default", "regenerated")

\* What the follow-up leaves behind.  Scripts carry `recover`: the operations of the follow-up configure run
\* (recorded from the real `meson setup --reconfigure`; in the design model the design's own configure run).
\* It starts from what the killed run left - nothing of which it produced itself - and must not leave a
\* state file torn; in particular it must truncate a stale temporary file rather than append to it.
Handover(fs) == [n \in DOMAIN fs |-> IF fs[n].st \in {"absent", "dir"} THEN fs[n] ELSE [fs[n] EXCEPT !.own = FALSE]]
RECURSIVE Fold(_, _, _)
Fold(fs, ops, k) == IF k = 0 THEN fs ELSE Apply(Fold(fs, ops, k - 1), ops, k)
\* operations of the follow-up on files the script does not know are skipped
KnownOps(fs, ops) == SelectSeq(ops, LAMBDA o : o.f \in DOMAIN fs /\ (o.g = "" \/ o.g \in DOMAIN fs))
PostRecover(sc, fs) == LET ops == KnownOps(fs, sc.recover) IN Fold(Handover(fs), ops, Len(ops))
\* files that exist only as temporaries of an interrupted writer may stay torn if the follow-up never touches them
\* (data can land behind stale content only through an open without truncation: without an `append`
\* in the follow-up there is nothing to fold)
RecoveryClean(sc, fs) == \/ \A j \in 1..Len(sc.recover) : sc.recover[j].op # "append"
                         \/ LET post == PostRecover(sc, fs) IN \A n \in DOMAIN fs : post[n].st # "garbled"

\* scripts say which classes carry a non-default value (usesM, usesE; class d always does)
GenAllowed(sc, v) == v \in {"old", "new"} \/ (v = "default" /\ sc.fresh)
ValueAllowed(sc, o) == /\ GenAllowed(sc, o.vd)
                       /\ sc.usesM => GenAllowed(sc, o.vm)
                       /\ sc.usesE => GenAllowed(sc, o.ve)
\* the classes whose values are lost (for reports)
Lost(sc, o) == (IF ~GenAllowed(sc, o.vd) THEN <<"d">> ELSE <<>>)
               \o (IF sc.usesM /\ ~GenAllowed(sc, o.vm) THEN <<"m">> ELSE <<>>)
               \o (IF sc.usesE /\ ~GenAllowed(sc, o.ve) THEN <<"e">> ELSE <<>>)

-----------------------------------------------------------------------------
(* The laws, as predicates of a script and the state after a prefix.        *)

Recoverable(fs)        == RecoverOutcome(fs).ok
ValuesOldOrNew(sc, fs) == RecoverOutcome(fs).ok => ValueAllowed(sc, RecoverOutcome(fs))
RecoveryIsClean(sc, fs) == RecoverOutcome(fs).ok => RecoveryClean(sc, fs)
\* core data and build.ninja go through a temporary name: the installed name is never torn
CoreNeverTorn(fs)      == ~Torn(fs[Core])
NinjaNeverTorn(fs)     == Ninja \in DOMAIN fs => ~Torn(fs[Ninja])
\* new core data is fsync'ed before it is renamed into place
CoreDurable(fs)        == (fs[Core].st = "full" /\ fs[Core].ver = "new") => fs[Core].sy
\* a command that fails by itself leaves the core data it found (or none)
RolledBack(sc, fs)     == /\ fs[Core].st = PreState(sc)[Core].st
                          /\ fs[Core].st = "full" => fs[Core].ver = "old"

\* first violated law at the state after k operations of sc ("ok" when none).
\* For a command that fails by itself only the final state is a crash state of interest (the
\* value it was setting is not a valid configuration), and there it must be rolled back.
Verdict(sc, k, fs) ==
    LET crashable == ~sc.failed \/ k = Len(sc.ops)
    IN IF ~CoreNeverTorn(fs) THEN "CoreNeverTorn"
       ELSE IF ~NinjaNeverTorn(fs) THEN "NinjaNeverTorn"
       ELSE IF ~CoreDurable(fs) THEN "CoreDurable"
       ELSE IF sc.failed /\ k = Len(sc.ops) /\ ~RolledBack(sc, fs) THEN "RolledBack"
       ELSE IF crashable /\ ~Recoverable(fs) THEN "Recoverable"
       ELSE IF crashable /\ ~ValuesOldOrNew(sc, fs) THEN "ValuesOldOrNew"
       ELSE IF crashable /\ ~RecoveryIsClean(sc, fs) THEN "RecoveryClean"
       ELSE "ok"

-----------------------------------------------------------------------------
(* The state machine: run a script, crash anywhere, recover.                *)

CONSTANT Scripts            \* the set of scripts
VARIABLES sc, pc, fs, phase, out
vars == <<sc, pc, fs, phase, out>>
NoOut == Out(TRUE, FALSE, "none", "none", "none", "")

Init == /\ sc \in Scripts
        /\ pc = 0
        /\ fs = PreState(sc)
        /\ phase = "running"
        /\ out = NoOut

Step == /\ phase = "running"
        /\ pc < Len(sc.ops)
        /\ fs' = Apply(fs, sc.ops, pc + 1)
        /\ pc' = pc + 1
        /\ UNCHANGED <<sc, phase, out>>

\* killed between two operations (a failing command is only looked at after it has ended)
Crash == /\ phase = "running"
         /\ ~sc.failed \/ pc = Len(sc.ops)
         /\ phase' = "crashed"
         /\ UNCHANGED <<sc, pc, fs, out>>

Recover == /\ phase = "crashed"
           /\ out' = RecoverOutcome(fs)
           /\ phase' = "recovered"
           /\ UNCHANGED <<sc, pc, fs>>

Next == Step \/ Crash \/ Recover
Spec == Init /\ [][Next]_vars

InvRecoverable    == phase = "recovered" => out.ok
InvValuesOldOrNew == (phase = "recovered" /\ out.ok) => ValueAllowed(sc, out)
InvCoreNeverTorn  == CoreNeverTorn(fs)
InvNinjaNeverTorn == NinjaNeverTorn(fs)
InvCoreDurable    == CoreDurable(fs)
InvRecoveryClean  == (phase = "recovered" /\ out.ok) => RecoveryClean(sc, fs)
InvRolledBack     == (phase = "crashed" /\ sc.failed) => RolledBack(sc, fs)
\* the incremental machine and the fold used by trace validation agree
InvRunIsFold      == fs = Run(sc, pc)
=============================================================================
