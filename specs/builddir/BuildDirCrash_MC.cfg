SPECIFICATION Spec
CONSTANTS
 StrictCmdline = TRUE
 FirstRunReadsCmdline = FALSE
 MaxChunks = 2
 Family = "all"
 Scripts <- MCScripts
INVARIANT SafeIsRecoverable
INVARIANT SafeIsOldOrNew
INVARIANT SafeRecoveryIsClean
INVARIANT AtomicCoreNeverTorn
INVARIANT AtomicNinjaNeverTorn
INVARIANT SyncedCoreDurable
INVARIANT RollbackRestores
INVARIANT AtomicCmdlNeverTorn
INVARIANT VerdictAgrees
INVARIANT InvRunIsFold
CHECK_DEADLOCK FALSE
POSTCONDITION Stats
