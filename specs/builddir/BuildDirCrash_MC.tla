------------------------- MODULE BuildDirCrash_MC -------------------------
(***************************************************************************)
(* Exhaustive model: a family of write-protocol *designs* for the four      *)
(* mutating commands.  A design fixes, independently,                       *)
(*   coreP / cmdlP / ninjaP  atomic (temporary name, then rename) or        *)
(*                           inplace (truncate the real name and rewrite)   *)
(*   sync      core data is fsync'ed before the rename                      *)
(*   order     in which order a configure run writes its files              *)
(*   wipeKeeps `--wipe` leaves cmd_line.txt where it is / copies it to a    *)
(*             directory outside the build directory, deletes, moves back   *)
(*   rollback  a failing run restores the core data it found                *)
(*   backup    coredata.dat.prev is a copy / coredata.dat is renamed to it  *)
(*   ninjaTrunc the generator truncates build.ninja~ before it writes       *)
(*   piped     a machine file was given as a pipe: meson-private holds the *)
(*             only copy; keepsIni: `--wipe` leaves that copy in place      *)
(*   usesM/E   the directory holds values set by a machine file / taken    *)
(*             from the environment of the first run                        *)
(*   chunks    every file is written with 1..MaxChunks write() calls        *)
(* on every directory history.  TLC runs every script, crashes it after     *)
(* every prefix and recovers.                                               *)
(*                                                                          *)
(* Theorems checked (cfg BuildDirCrash_MC.cfg):  every *safe* design -       *)
(* core data and cmd_line.txt atomic, backup by copy, wipe keeps the        *)
(* command line inside the directory (and, when values came from machine    *)
(* files, a first run that reads them back), rollback - satisfies           *)
(* Recoverable and ValuesOldOrNew for every order, chunking and history;    *)
(* the protocol laws hold for the designs that claim them.  The cfg         *)
(* BuildDirCrash_MC_Legacy.cfg restricts the family to the protocol the     *)
(* real commands used before fixes a762557 / 3af8f2a (cmd_line.txt in       *)
(* place, wipe backup outside) and is *expected* to violate NoBrick and     *)
(* NoLostValues (non-vacuity of the model).                                 *)
(***************************************************************************)
EXTENDS BuildDirCrash, TLC

CONSTANTS MaxChunks, Family    \* Family: "all" | "legacy"

Install   == "meson-private/install.dat"
IntroOpts == "meson-info/intro-buildoptions.json"
IntroTmp  == "meson-info/tmp_dump.json"
CmdlTmp   == "meson-private/cmd_line.txt~"
Backup    == "$TMP/cmd_line.txt"
BackupIni == "$TMP/piped.native.ini"
Priv      == "meson-private"
Info      == "meson-info"

Protocols == {"atomic", "inplace"}
Orders    == {"core-first", "core-last", "cmdline-first"}
Kinds     == {"setup", "reconfigure", "configure", "wipe", "setup-fail", "reconfigure-fail"}

Designs ==
    { d \in [kind : Kinds, hist : {"fresh", "partial", "configured", "configured-prev"},
             coreP : Protocols, cmdlP : Protocols, ninjaP : Protocols, sync : BOOLEAN,
             order : Orders, wipeKeeps : BOOLEAN, rollback : BOOLEAN, ninja : BOOLEAN, chunks : 1..MaxChunks,
             backup : {"copy", "rename"}, usesM : BOOLEAN, usesE : BOOLEAN, piped : BOOLEAN, keepsIni : BOOLEAN, ninjaTrunc : BOOLEAN] :
        /\ d.kind \in {"setup", "setup-fail"} <=> d.hist \in {"fresh", "partial"}
        /\ d.kind # "wipe" => d.wipeKeeps                         \* irrelevant dimensions are fixed
        /\ d.kind \notin {"setup-fail", "reconfigure-fail"} => d.rollback
        /\ ~d.ninja => (d.ninjaP = "atomic" /\ d.ninjaTrunc)
        /\ ~d.ninjaTrunc => (d.chunks = 1 /\ ~d.usesM)
        /\ d.ninja => (d.order = "core-first" /\ ~d.usesE)       \* build.ninja plays no part in recovery
        /\ d.kind = "configure" => (~d.ninja /\ d.order # "core-last")
        /\ d.hist \in {"fresh", "partial"} => d.backup = "copy"   \* nothing to back up
        \* a machine file given as a pipe: its private copy sets the class-m values
        /\ d.piped => (d.usesM /\ ~d.ninja /\ ~d.usesE /\ d.backup = "copy")
        /\ (d.kind # "wipe" \/ ~d.piped) => d.keepsIni
        \* values from the environment of the first run: a wipe is itself a new first run
        /\ d.usesE => d.kind \in {"reconfigure", "configure", "reconfigure-fail"}
        /\ Family = "legacy" => (/\ d.coreP = "atomic" /\ d.cmdlP = "inplace" /\ d.ninjaP = "atomic" /\ d.sync
                                 /\ d.order = (IF d.kind = "configure" THEN "cmdline-first" ELSE "core-first")
                                 /\ (d.kind = "wipe" => ~d.wipeKeeps) /\ d.rollback /\ d.backup = "copy" /\ ~d.piped /\ d.ninjaTrunc) }

\* backup by rename leaves a window without coredata.dat; a wipe removes coredata.dat by design, so a
\* directory whose values came from machine files survives a killed wipe only with a first run that
\* reads them back from cmd_line.txt
SafeDesign(d) == /\ d.coreP = "atomic" /\ d.cmdlP = "atomic" /\ d.wipeKeeps /\ d.rollback /\ d.backup = "copy"
                 /\ (d.kind = "wipe" /\ d.usesM) => FirstRunReadsCmdline
                 /\ d.keepsIni
                 /\ d.ninjaTrunc

-----------------------------------------------------------------------------
W(f, n) == [j \in 1..n |-> Op("write", f, "")]
InPlace(f, n) == <<Op("creat", f, "")>> \o W(f, n) \o <<Op("close", f, "")>>
AtomicW(f, tmp, n, sync) == <<Op("creat", tmp, "")>> \o W(tmp, n)
                            \o (IF sync THEN <<Op("fsync", tmp, "")>> ELSE <<>>)
                            \o <<Op("close", tmp, ""), Op("rename", tmp, f)>>
WriteP(p, f, tmp, n, sync) == IF p = "atomic" THEN AtomicW(f, tmp, n, sync) ELSE InPlace(f, n)
\* the generator of build.ninja writes a header, closes the file and opens it again for appending
\* (trunc = FALSE: also the first session opens for appending - nothing truncates a stale file)
TwoSessions(f, n, trunc) == <<Op(IF trunc THEN "creat" ELSE "append", f, ""), Op("write", f, ""), Op("close", f, ""), Op("append", f, "")>>
                            \o W(f, n) \o <<Op("close", f, "")>>
WriteNinja(p, n, trunc) == IF p = "atomic" THEN TwoSessions(NinjaTmp, n, trunc) \o <<Op("rename", NinjaTmp, Ninja)>>
                           ELSE TwoSessions(Ninja, n, trunc)
CopyF(src, dst) == <<Op("read", src, ""), Op("creat", dst, ""), Op("copy", dst, src), Op("close", dst, ""), Op("close", src, "")>>

SaveCore(d, hasCore) ==
    IF hasCore /\ d.backup = "rename"
    THEN IF d.coreP = "atomic"
         THEN <<Op("creat", CoreTmp, "")>> \o W(CoreTmp, d.chunks) \o (IF d.sync THEN <<Op("fsync", CoreTmp, "")>> ELSE <<>>)
              \o <<Op("close", CoreTmp, ""), Op("rename", Core, CorePrev), Op("rename", CoreTmp, Core)>>
         ELSE <<Op("rename", Core, CorePrev)>> \o InPlace(Core, d.chunks)
    ELSE (IF hasCore THEN CopyF(Core, CorePrev) ELSE <<>>) \o WriteP(d.coreP, Core, CoreTmp, d.chunks, d.sync)
Backend(d)  == InPlace(Install, 1)
               \o (IF d.ninja THEN WriteNinja(d.ninjaP, d.chunks, d.ninjaTrunc) ELSE <<>>)
SaveBuild(d) == InPlace(BuildDat, d.chunks)
SaveCmdl(d)  == WriteP(d.cmdlP, Cmdl, CmdlTmp, 1, FALSE)
Intro(d)     == AtomicW(IntroOpts, IntroTmp, d.chunks, FALSE)
Dirs         == <<Op("mkdir", Priv, ""), Op("mkdir", Info, "")>>

\* one configure run (setup / reconfigure / the second half of wipe)
Configure(d, hasCore) ==
    CASE d.order = "core-first"    -> SaveCore(d, hasCore) \o Backend(d) \o SaveBuild(d) \o SaveCmdl(d) \o Intro(d)
      [] d.order = "core-last"     -> Backend(d) \o SaveBuild(d) \o SaveCmdl(d) \o Intro(d) \o SaveCore(d, hasCore)
      [] d.order = "cmdline-first" -> SaveCmdl(d) \o SaveCore(d, hasCore) \o Backend(d) \o SaveBuild(d) \o Intro(d)

\* `meson configure -D...`
MConf(d) == IF d.order = "cmdline-first" THEN SaveCmdl(d) \o SaveCore(d, TRUE) \o Intro(d)
            ELSE SaveCore(d, TRUE) \o SaveCmdl(d) \o Intro(d)

\* a configure run that fails in the backend, after the core data was written
FailingConfigure(d, hasCore) ==
    SaveCore(d, hasCore)
    \o (IF d.ninja THEN <<Op("creat", NinjaTmp, ""), Op("write", NinjaTmp, "")>> ELSE <<>>)
    \o (IF ~d.rollback THEN <<>>
        ELSE IF hasCore THEN <<Op("rename", CorePrev, Core)>> ELSE <<Op("unlink", Core, "")>>)

Victims(d) == <<BuildDat, Install, IntroOpts>> \o (IF d.ninja THEN <<Ninja>> ELSE <<>>)
              \o (IF d.hist = "configured-prev" THEN <<CorePrev>> ELSE <<>>)
Unlinks(fsq) == [j \in 1..Len(fsq) |-> Op("unlink", fsq[j], "")]

\* `--wipe` parks copies of cmd_line.txt (and of the private machine-file copy) in a temporary directory
\* outside, removes the tree - leaving in place what it `keeps` - and moves the copies back
Wipe(d) ==
    LET ini == d.piped
        parkIni == IF ini THEN CopyF(MFile, BackupIni) ELSE <<>>
        dropIni == IF ini /\ ~d.keepsIni THEN <<MFile>> ELSE <<>>
        backIni == IF ini THEN <<Op("rename", BackupIni, MFile)>> ELSE <<>>
    IN IF d.wipeKeeps
       THEN CopyF(Cmdl, Backup) \o parkIni
            \o (IF d.order = "core-last" THEN Unlinks(dropIni \o Victims(d) \o <<Core>>) ELSE Unlinks(<<Core>> \o Victims(d) \o dropIni))
            \o <<Op("rename", Backup, Cmdl)>> \o backIni
            \o Configure(d, FALSE)
       ELSE CopyF(Cmdl, Backup) \o parkIni
            \o (IF d.order = "core-last" THEN Unlinks(<<Cmdl>> \o dropIni \o Victims(d) \o <<Core>>)
                ELSE Unlinks(<<Core>> \o Victims(d) \o <<Cmdl>> \o dropIni))
            \o (IF ini /\ d.keepsIni THEN <<>> ELSE <<Op("rmdir", Priv, "")>>)
            \o <<Op("rmdir", Info, ""), Op("mkdir", Priv, ""), Op("rename", Backup, Cmdl)>> \o backIni
            \o <<Op("mkdir", Info, "")>>
            \o Configure(d, FALSE)

PreOf(d) ==
    CASE d.hist = "fresh"   -> <<>>
      [] d.hist = "partial" -> <<[f |-> Priv, st |-> "dir", ver |-> "none"]>>
      [] OTHER -> <<[f |-> Priv, st |-> "dir", ver |-> "none"], [f |-> Info, st |-> "dir", ver |-> "none"], [f |-> Core, st |-> "full", ver |-> "old"],
                    [f |-> Cmdl, st |-> "full", ver |-> "old"], [f |-> BuildDat, st |-> "full", ver |-> "old"], [f |-> Install, st |-> "full", ver |-> "old"],
                    [f |-> IntroOpts, st |-> "full", ver |-> "old"]>>
                  \o (IF d.ninja THEN <<[f |-> Ninja, st |-> "full", ver |-> "old"]>> ELSE <<>>)
                  \o (IF d.hist = "configured-prev" THEN <<[f |-> CorePrev, st |-> "full", ver |-> "older"]>> ELSE <<>>)
                  \o (IF d.piped THEN <<[f |-> MFile, st |-> "full", ver |-> "old"]>> ELSE <<>>)

ScriptOf(d) ==
    [design |-> d, kind |-> d.kind, fresh |-> d.hist \in {"fresh", "partial"},
     failed |-> d.kind \in {"setup-fail", "reconfigure-fail"}, usesM |-> d.usesM, usesE |-> d.usesE, pre |-> PreOf(d),
     \* the follow-up is a configure run of the same design
     recover |-> Configure(d, TRUE),
     ops |-> CASE d.kind = "setup"       -> (IF d.hist = "fresh" THEN Dirs ELSE <<Op("mkdir", Info, "")>>)
                                            \o (IF d.piped THEN InPlace(MFile, 1) ELSE <<>>) \o Configure(d, FALSE)
               [] d.kind = "setup-fail"  -> (IF d.hist = "fresh" THEN Dirs ELSE <<Op("mkdir", Info, "")>>) \o FailingConfigure(d, FALSE)
               [] d.kind = "reconfigure" -> Configure(d, TRUE)
               [] d.kind = "reconfigure-fail" -> FailingConfigure(d, TRUE)
               [] d.kind = "configure"   -> MConf(d)
               [] d.kind = "wipe"        -> Wipe(d)]

-----------------------------------------------------------------------------
(* The machine is the one of BuildDirCrash (Init / Step / Crash / Recover); *)
(* its parameter Scripts is the set of the scripts of all designs (cfg:     *)
(* Scripts <- MCScripts); every script carries its design.                  *)
MCScripts == { ScriptOf(d) : d \in Designs }
design == sc.design

\* the property, for the safe designs
SafeIsRecoverable    == (SafeDesign(design) /\ phase = "recovered") => out.ok
SafeIsOldOrNew       == (SafeDesign(design) /\ phase = "recovered" /\ out.ok) => ValueAllowed(sc, out)
\* the protocol laws hold for the designs that claim them
\* the follow-up of a safe design leaves no state file with new data appended to stale data; a design
\* that never truncates its temporary build.ninja does (checked as NoGarbledManifest, expected to fail)
SafeRecoveryIsClean  == (SafeDesign(design) /\ phase = "recovered" /\ out.ok) => RecoveryClean(sc, fs)
AtomicCoreNeverTorn  == design.coreP = "atomic" => CoreNeverTorn(fs)
AtomicNinjaNeverTorn == design.ninjaP = "atomic" => NinjaNeverTorn(fs)
SyncedCoreDurable    == (design.coreP = "atomic" /\ design.sync) => CoreDurable(fs)
RollbackRestores     == (design.rollback /\ design.coreP = "atomic" /\ phase = "crashed" /\ sc.failed) => RolledBack(sc, fs)
\* an atomically written file that is never deleted is readable in every crash state
AtomicCmdlNeverTorn  == design.cmdlP = "atomic" => ~Torn(fs[Cmdl])
\* Verdict (used by trace validation on single prefixes) agrees with the machine
VerdictAgrees        ==
    phase = "recovered" =>
        LET v == Verdict(sc, pc, fs)
        IN /\ (v = "ok") => (out.ok /\ ValueAllowed(sc, out))
           /\ (v = "Recoverable") => ~out.ok
           /\ (v = "ValuesOldOrNew") => (out.ok /\ ~ValueAllowed(sc, out))
           /\ (~out.ok) => v \in {"Recoverable", "CoreNeverTorn", "NinjaNeverTorn", "CoreDurable", "RolledBack"}

\* expected to FAIL for the legacy family: some crash state bricks the directory / loses values
NoBrick      == phase = "recovered" => out.ok
NoLostValues == (phase = "recovered" /\ out.ok) => ValueAllowed(sc, out)
NoGarbledManifest == (phase = "recovered" /\ out.ok /\ design.coreP = "atomic" /\ design.ninjaP = "atomic") => RecoveryClean(sc, fs)

\* statistics for the harness
Stats == TLCGet("stats").diameter >= 0 /\ PrintT(<<"designs", Cardinality(Designs), "safe", Cardinality({d \in Designs : SafeDesign(d)})>>)
=============================================================================
