SPECIFICATION Spec
CONSTANTS
 StrictCmdline = TRUE
 MaxChunks = 2
 Family = "asbuilt"
 Scripts <- MCScripts
INVARIANT NoBrick
CHECK_DEADLOCK FALSE
