SPECIFICATION Spec
CONSTANTS
 StrictCmdline = TRUE
 FirstRunReadsCmdline = FALSE
 MaxChunks = 2
 Family = "legacy"
 Scripts <- MCScripts
INVARIANT NoBrick
CHECK_DEADLOCK FALSE
