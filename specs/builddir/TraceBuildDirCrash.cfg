SPECIFICATION SpecKill
CONSTANTS
 Scripts <- ScriptSet
 StrictCmdline <- StrictFromEnv
CHECK_DEADLOCK FALSE
