------------------------- MODULE TraceBuildDirCrash -------------------------
(***************************************************************************)
(* Binding of BuildDirCrash to the real meson commands (C09).               *)
(*                                                                          *)
(* SCRIPT_FILE  the scripts *recorded* from the real commands with strace:  *)
(*              [id, kind, fresh, failed, pre, ops] (see BuildDirCrash).    *)
(* CASE_FILE    observations of the real code, one record per case.         *)
(*                                                                          *)
(* Three specifications (selected by the cfg):                              *)
(*                                                                          *)
(* SpecModel   the machine of BuildDirCrash over every recorded script:     *)
(*             one behaviour per script, one state per prefix; in every     *)
(*             state the crash is taken and Recover evaluated; the first    *)
(*             violated law of every prefix is printed (all of them, not    *)
(*             only the first), so that the harness can confirm each on     *)
(*             the real code.                                               *)
(* SpecKill    one case = the real command killed at the entry of           *)
(*             operation k+1 of script s, then the real follow-up           *)
(*             `meson setup [--reconfigure]`.  Recorded: the state files    *)
(*             found after the kill (crash), whether the follow-up          *)
(*             succeeded (ok), whether --reconfigure was used (reconf),     *)
(*             per option which of old/new/default values it has now        *)
(*             (labels), the state files after the follow-up (after; a      *)
(*             build.ninja that ninja could not load is "garbled"), whether *)
(*             build.ninja equals the one a reference reconfigure of the    *)
(*             recovered directory writes (manifest_same).                  *)
(*             Judged against Run(s, k) and RecoverOutcome.                 *)
(* SpecReplay  one case = an abstract crash state of the model written to   *)
(*             a real configured directory (files removed / truncated),     *)
(*             then the real follow-up: the reader model RecoverOutcome     *)
(*             must predict what the real code does.                        *)
(***************************************************************************)
EXTENDS BuildDirCrash, TLC, Json, IOUtils

ScriptSeq == JsonDeserialize(IOEnv.SCRIPT_FILE)
Cases     == JsonDeserialize(IOEnv.CASE_FILE)
\* parameters of BuildDirCrash (cfg: Scripts <- ScriptSet, StrictCmdline <- StrictFromEnv).  Whether the
\* real reader of cmd_line.txt is strict is measured by the harness on the real code (one replay case).
ScriptSet     == { ScriptSeq[j] : j \in 1..Len(ScriptSeq) }
StrictFromEnv == IOEnv.STRICT_CMDLINE = "1"
FirstRunFromEnv == IOEnv.FIRSTRUN_READS_CMDLINE = "1"

Range(s) == { s[j] : j \in 1..Len(s) }
Sig(x) == [core |-> x[Core].st, corever |-> x[Core].ver, cmdl |-> x[Cmdl].st, cmdlver |-> x[Cmdl].ver,
           mfile |-> IF MFile \in DOMAIN x THEN x[MFile].st ELSE "none"]

-----------------------------------------------------------------------------
(* SpecModel: Init and Step of BuildDirCrash, reporting instead of stopping *)

ModelVerdict(scr, n, x) ==
    LET v == Verdict(scr, n, x)
        o == RecoverOutcome(x)
    IN [mode |-> "model", id |-> scr.id, k |-> n, clause |-> v, kind |-> scr.kind, sig |-> Sig(x),
        predicted |-> o, lost |-> IF o.ok THEN Lost(scr, o) ELSE <<>>, nextop |-> IF n < Len(scr.ops) THEN scr.ops[n + 1] ELSE Op("end", "", "")]

InitModel == /\ Init
             /\ LET v == ModelVerdict(sc, 0, fs) IN v.clause = "ok" \/ PrintT(ToJson(v))
NextModel == /\ Step
             /\ LET v == ModelVerdict(sc, pc + 1, fs') IN v.clause = "ok" \/ PrintT(ToJson(v))
SpecModel == InitModel /\ [][NextModel]_vars

-----------------------------------------------------------------------------
(* SpecKill / SpecReplay *)

\* the projected real file x = [f, st, vers] agrees with the model state (a command that fails by
\* itself may close a file it has not finished: the model, which takes a closed file for complete,
\* is then allowed to be told "partial")
FileAgrees(x, m, aborted) ==
    /\ x.f \in DOMAIN m
    /\ \/ m[x.f].st = x.st
       \/ (aborted /\ m[x.f].st = "full" /\ x.st = "partial")
    /\ (x.st = "full" => m[x.f].ver \in Range(x.vers))

Disagreeing(c, m) == { j \in 1..Len(c.crash) : ~FileAgrees(c.crash[j], m, c.aborted) }

\* observed option values: every option must carry an old or a new value (for a fresh directory the
\* old values are the defaults; the harness then labels defaults as "old" too)
BadOptions(c) == { j \in 1..Len(c.labels) : Range(c.labels[j].is) \cap {"old", "new"} = {} }
\* ... and the generation the model predicts for the class of the option (d: given with -D, m: set by
\* a machine file, e: taken from the first run's environment) must be among its labels
PredFor(o, cls) == IF cls = "m" THEN o.vm ELSE IF cls = "e" THEN o.ve ELSE o.vd
Unpredicted(c, o) == { j \in 1..Len(c.labels) : PredFor(o, c.labels[j].cls) \notin Range(c.labels[j].is) }
SetToSortedClasses(S) == (IF "d" \in S THEN <<"d">> ELSE <<>>) \o (IF "m" \in S THEN <<"m">> ELSE <<>>) \o (IF "e" \in S THEN <<"e">> ELSE <<>>)
LostObserved(c) == SetToSortedClasses({ c.labels[j].cls : j \in BadOptions(c) })
\* state files left torn by the follow-up.  The private copy of a piped machine file that was being written
\* when a *first* setup was killed is an orphan - nothing names it, the pipe is gone - and not state of that run.
TornAfter(c, m) == { j \in 1..Len(c.after) : /\ c.after[j].st \in {"empty", "partial", "garbled"}
                                              /\ ~(c.after[j].f = MFile /\ ~ReadsMachineFiles(m)) }

V(c, clause, kind, m, note) ==
    [mode |-> "real", id |-> c.id, clause |-> clause, kind |-> kind, sig |-> Sig(m),
     predicted |-> RecoverOutcome(m), lost |-> IF clause = "ValuesOldOrNew" THEN LostObserved(c) ELSE <<>>, note |-> note]

JudgeState(c, scr, m) ==
    LET o == RecoverOutcome(m)
        crashable == ~scr.failed \/ c.final
    IN  IF Disagreeing(c, m) # {} \/ Len(c.crash) # Cardinality(DOMAIN m)
        THEN V(c, "CrashStateDiffers", scr.kind, m,
               ToString({ <<c.crash[j].f, c.crash[j].st, c.crash[j].vers,
                            IF c.crash[j].f \in DOMAIN m THEN m[c.crash[j].f] ELSE Absent>> : j \in Disagreeing(c, m) }))
        ELSE IF c.reconf # o.reconf THEN V(c, "CrashStateDiffers", scr.kind, m, "reconf")
        ELSE IF ~crashable THEN V(c, "ok", scr.kind, m, "")
        ELSE IF ~c.ok THEN V(c, "Recoverable", scr.kind, m, IF o.ok THEN "model-predicted-success" ELSE "model-predicted-failure")
        ELSE IF BadOptions(c) # {} THEN V(c, "ValuesOldOrNew", scr.kind, m, ToString({ c.labels[j] : j \in BadOptions(c) }))
        ELSE IF scr.failed /\ (\E j \in 1..Len(c.labels) : "old" \notin Range(c.labels[j].is))
             THEN V(c, "RolledBack", scr.kind, m, ToString({ c.labels[j] : j \in { n \in 1..Len(c.labels) : "old" \notin Range(c.labels[n].is) } }))
        ELSE IF TornAfter(c, m) # {} THEN V(c, "StateReadable", scr.kind, m, ToString({ c.after[j] : j \in TornAfter(c, m) }))
        ELSE IF ~c.manifest_same THEN V(c, "ManifestReproducible", scr.kind, m, "build.ninja differs from a reference reconfigure")
        ELSE IF ~o.ok THEN V(c, "ModelDisagrees", scr.kind, m, "model-predicted-failure")
        ELSE IF ~RecoveryClean(scr, m) THEN V(c, "ModelDisagrees", scr.kind, m, "model-predicted-garbled-file")
        ELSE IF Unpredicted(c, o) # {} THEN V(c, "ModelDisagrees", scr.kind, m,
                                                  ToString(<<o, { c.labels[j] : j \in Unpredicted(c, o) }>>))
        ELSE V(c, "ok", scr.kind, m, "")

JudgeKill(c) == LET scr == ScriptSeq[c.script] IN JudgeState(c, scr, Run(scr, c.k))
\* a replay case carries its own one-state script (pre = the abstract state, no operations); here the
\* reader model itself is what is judged: it must predict the real follow-up
JudgeReplay(c) ==
    LET scr == c.state
        m == PreState(scr)
        o == RecoverOutcome(m)
    IN  IF Disagreeing(c, m) # {} \/ Len(c.crash) # Cardinality(DOMAIN m)
        THEN V(c, "CrashStateDiffers", scr.kind, m, ToString({ c.crash[j] : j \in Disagreeing(c, m) }))
        ELSE IF c.reconf # o.reconf THEN V(c, "CrashStateDiffers", scr.kind, m, "reconf")
        ELSE IF ~c.ok /\ o.ok THEN V(c, "ReaderLessTolerant", scr.kind, m, "")
        ELSE IF c.ok /\ ~o.ok THEN V(c, "ModelDisagrees", scr.kind, m, "model-predicted-failure")
        ELSE IF ~c.ok THEN V(c, "ok", scr.kind, m, "")
        ELSE IF Unpredicted(c, o) # {} THEN V(c, "ReaderValues", scr.kind, m,
                                                  ToString(<<o, { c.labels[j] : j \in Unpredicted(c, o) }>>))
        ELSE V(c, "ok", scr.kind, m, "")

\* one initial state per case (pc = index of the case); the other variables of BuildDirCrash are idle
InitCases == /\ pc \in 1..Len(Cases) /\ phase = "todo"
             /\ sc = <<>> /\ fs = <<>> /\ out = NoOut
Judged(v) == /\ phase = "todo" /\ phase' = "judged" /\ UNCHANGED <<sc, pc, fs, out>>
             /\ (v.clause = "ok" \/ PrintT(ToJson(v)))
NextKill   == Judged(JudgeKill(Cases[pc]))
NextReplay == Judged(JudgeReplay(Cases[pc]))
SpecKill   == InitCases /\ [][NextKill]_vars
SpecReplay == InitCases /\ [][NextReplay]_vars
=============================================================================
