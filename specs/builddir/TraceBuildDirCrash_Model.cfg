SPECIFICATION SpecModel
CONSTANTS
 Scripts <- ScriptSet
 StrictCmdline <- StrictFromEnv
CHECK_DEADLOCK FALSE
