SPECIFICATION SpecModel
CONSTANTS
 Scripts <- ScriptSet
 StrictCmdline <- StrictFromEnv
 FirstRunReadsCmdline <- FirstRunFromEnv
CHECK_DEADLOCK FALSE
