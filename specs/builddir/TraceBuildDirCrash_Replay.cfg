SPECIFICATION SpecReplay
CONSTANTS
 Scripts <- ScriptSet
 StrictCmdline <- StrictFromEnv
 FirstRunReadsCmdline <- FirstRunFromEnv
CHECK_DEADLOCK FALSE
