SPECIFICATION SpecReplay
CONSTANTS
 Scripts <- ScriptSet
 StrictCmdline <- StrictFromEnv
CHECK_DEADLOCK FALSE
