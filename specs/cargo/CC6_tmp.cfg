SPECIFICATION Spec
CONSTANTS MaxTok = 6
INVARIANT ParserEqualsGrammar
INVARIANT ValuesAgree
INVARIANT TrailingCommaHarmless
INVARIANT LaxExtendsStrict
INVARIANT Laws
INVARIANT EmptyLists
INVARIANT AllowedShape
INVARIANT LexRoundTrip
CHECK_DEADLOCK FALSE
POSTCONDITION Emit
