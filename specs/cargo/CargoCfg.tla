------------------------------ MODULE CargoCfg ------------------------------
(***************************************************************************)
(* cfg() expressions of Cargo's `[target.'cfg(..)'.dependencies]` keys     *)
(* (property C20), after the Rust reference, "Conditional compilation":    *)
(*                                                                          *)
(*   predicate := name | name "=" string                                   *)
(*              | "all" "(" list? ")" | "any" "(" list? ")"                *)
(*              | "not" "(" predicate ")"                                  *)
(*   list      := predicate ( "," predicate )* ","?                        *)
(*                                                                          *)
(* name: [A-Za-z_][A-Za-z0-9_]*; string: "..." without escapes; blanks     *)
(* separate tokens.  Value against a configuration (a set of names, some   *)
(* with a value): a name holds iff it is set, name = "v" iff it is set to  *)
(* v, all/any/not are conjunction/disjunction/negation (all() is true,     *)
(* any() is false).  Anything else is malformed and must be rejected.      *)
(*                                                                          *)
(* Two formulations: a recursive-descent parser that builds a tree         *)
(* (`Parse`, `Eval`) and a declarative span grammar (`IsPred`, `Value`);   *)
(* CargoCfg_MC proves them equal on every token sequence up to a bound.    *)
(*                                                                          *)
(* Two places where the sources disagree are left open (`Allowed`):        *)
(*   - a trailing comma in a list (the grammar and Cargo accept it; the    *)
(*     project pins `all(unix,)` as invalid): value or rejection;          *)
(*   - `all` / `any` / `not` not followed by "(" (Cargo rejects, rustc     *)
(*     reads a plain name): rejection or the value of that reading.        *)
(***************************************************************************)
EXTENDS Integers, Sequences, FiniteSets

\* ---- tokens -------------------------------------------------------------------
\* t: "id" | "str" | "(" | ")" | "," | "=" | "bad" ; s: the text of an identifier or string
Tok(t, s) == [t |-> t, s |-> s]
KwAll == <<97, 108, 108>>
KwAny == <<97, 110, 121>>
KwNot == <<110, 111, 116>>
IsKw(tok) == tok.t = "id" /\ tok.s \in {KwAll, KwAny, KwNot}

CfIsDigit(c) == c >= 48 /\ c <= 57
CfIsAlpha(c) == (c >= 65 /\ c <= 90) \/ (c >= 97 /\ c <= 122)
IdStart(c) == CfIsAlpha(c) \/ c = 95
IdRest(c) == IdStart(c) \/ CfIsDigit(c)
QUOTE == 34

RECURSIVE IdEnd(_, _), StrEnd(_, _)
IdEnd(s, i) == IF i < Len(s) /\ IdRest(s[i + 1]) THEN IdEnd(s, i + 1) ELSE i      \* last character of the identifier starting at or before i
StrEnd(s, i) == IF i > Len(s) THEN 0 ELSE IF s[i] = QUOTE THEN i ELSE StrEnd(s, i + 1)   \* closing quote at or after i, 0 if none

RECURSIVE LexFrom(_, _, _)
LexFrom(s, i, acc) ==
    IF i > Len(s) THEN acc
    ELSE LET c == s[i] IN
         IF c = 32 THEN LexFrom(s, i + 1, acc)
         ELSE IF c = 40 THEN LexFrom(s, i + 1, Append(acc, Tok("(", <<>>)))
         ELSE IF c = 41 THEN LexFrom(s, i + 1, Append(acc, Tok(")", <<>>)))
         ELSE IF c = 44 THEN LexFrom(s, i + 1, Append(acc, Tok(",", <<>>)))
         ELSE IF c = 61 THEN LexFrom(s, i + 1, Append(acc, Tok("=", <<>>)))
         ELSE IF c = QUOTE THEN
              LET e == StrEnd(s, i + 1)
              IN IF e = 0 THEN Append(acc, Tok("bad", <<c>>))                          \* unterminated string
                 ELSE LexFrom(s, e + 1, Append(acc, Tok("str", SubSeq(s, i + 1, e - 1))))
         ELSE IF IdStart(c) THEN LET e == IdEnd(s, i) IN LexFrom(s, e + 1, Append(acc, Tok("id", SubSeq(s, i, e))))
         ELSE Append(acc, Tok("bad", <<c>>))                                           \* a character no token starts with
Lex(s) == LexFrom(s, 1, <<>>)
LexOk(toks) == \A i \in 1..Len(toks) : toks[i].t # "bad"

\* ---- formulation 1: recursive descent, building a tree ------------------------------------
\* lax: read all/any/not without a following "(" as a plain name
\* result: [ok, ast, next, trail]  (trail: a trailing comma was used somewhere)
Fail == [ok |-> FALSE, ast |-> <<>>, next |-> 0, trail |-> FALSE]
Good(ast, next, trail) == [ok |-> TRUE, ast |-> ast, next |-> next, trail |-> trail]
At(toks, i) == IF i <= Len(toks) THEN toks[i] ELSE Tok("eof", <<>>)

RECURSIVE PPred(_, _, _), PList(_, _, _, _, _)
PPred(toks, i, lax) ==
    LET t == At(toks, i)
        t1 == At(toks, i + 1)
    IN IF t.t # "id" THEN Fail
       ELSE IF IsKw(t) /\ (t1.t = "(" \/ ~lax) THEN
            IF t1.t # "(" THEN Fail
            ELSE IF t.s = KwNot THEN
                 LET r == PPred(toks, i + 2, lax)
                 IN IF r.ok /\ At(toks, r.next).t = ")" THEN Good([k |-> "not", x |-> r.ast], r.next + 1, r.trail) ELSE Fail
            ELSE LET kind == IF t.s = KwAll THEN "all" ELSE "any"
                 IN IF At(toks, i + 2).t = ")" THEN Good([k |-> kind, xs |-> <<>>], i + 3, FALSE)
                    ELSE LET r == PList(toks, i + 2, lax, <<>>, FALSE)
                         IN IF r.ok THEN Good([k |-> kind, xs |-> r.ast], r.next, r.trail) ELSE Fail
       ELSE IF t1.t = "=" THEN
            (IF At(toks, i + 2).t = "str" THEN Good([k |-> "eq", n |-> t.s, v |-> At(toks, i + 2).s], i + 3, FALSE) ELSE Fail)
       ELSE Good([k |-> "name", n |-> t.s], i + 1, FALSE)

\* predicates up to and including the closing ")"
PList(toks, i, lax, acc, trail) ==
    LET r == PPred(toks, i, lax)
    IN IF ~r.ok THEN Fail
       ELSE LET t == At(toks, r.next)
                acc2 == Append(acc, r.ast)
                tr == trail \/ r.trail
            IN IF t.t = ")" THEN Good(acc2, r.next + 1, tr)
               ELSE IF t.t # "," THEN Fail
               ELSE IF At(toks, r.next + 1).t = ")" THEN Good(acc2, r.next + 2, TRUE)       \* trailing comma
               ELSE PList(toks, r.next + 1, lax, acc2, tr)

Parse(toks, lax) == IF ~LexOk(toks) THEN Fail
                    ELSE LET r == PPred(toks, 1, lax) IN IF r.ok /\ r.next = Len(toks) + 1 THEN r ELSE Fail

\* configuration: a sequence of [n |-> name, v |-> value]; a name set without a value has v = <<>>
IsSet(cfg, n) == \E i \in 1..Len(cfg) : cfg[i].n = n
IsSetTo(cfg, n, v) == \E i \in 1..Len(cfg) : cfg[i].n = n /\ cfg[i].v = v

RECURSIVE Eval(_, _)
Eval(ast, cfg) ==
    CASE ast.k = "name" -> IsSet(cfg, ast.n)
      [] ast.k = "eq"   -> IsSetTo(cfg, ast.n, ast.v)
      [] ast.k = "not"  -> ~Eval(ast.x, cfg)
      [] ast.k = "all"  -> \A i \in 1..Len(ast.xs) : Eval(ast.xs[i], cfg)
      [] ast.k = "any"  -> \E i \in 1..Len(ast.xs) : Eval(ast.xs[i], cfg)

\* ---- formulation 2: declarative span grammar (strict reading, no trailing comma) -----------------
RECURSIVE IsPred(_, _, _), IsList(_, _, _), Value(_, _, _, _), ListValues(_, _, _, _)
IsPred(toks, i, j) ==
    \/ j = i /\ toks[i].t = "id" /\ ~IsKw(toks[i])
    \/ j = i + 2 /\ toks[i].t = "id" /\ ~IsKw(toks[i]) /\ toks[i + 1].t = "=" /\ toks[j].t = "str"
    \/ /\ j >= i + 2 /\ IsKw(toks[i]) /\ toks[i + 1].t = "(" /\ toks[j].t = ")"
       /\ IF toks[i].s = KwNot THEN j > i + 2 /\ IsPred(toks, i + 2, j - 1)
          ELSE j = i + 2 \/ IsList(toks, i + 2, j - 1)
IsList(toks, i, j) ==
    \/ i <= j /\ IsPred(toks, i, j)
    \/ \E c \in (i + 1)..(j - 1) : toks[c].t = "," /\ IsPred(toks, i, c - 1) /\ IsList(toks, c + 1, j)

\* the split of a list is unique when it exists (commas at nesting depth 0), so CHOOSE is a function here
ListValues(toks, i, j, cfg) ==
    IF IsPred(toks, i, j) THEN <<Value(toks, i, j, cfg)>>
    ELSE LET c == CHOOSE c \in (i + 1)..(j - 1) : toks[c].t = "," /\ IsPred(toks, i, c - 1) /\ IsList(toks, c + 1, j)
         IN <<Value(toks, i, c - 1, cfg)>> \o ListValues(toks, c + 1, j, cfg)
Value(toks, i, j, cfg) ==
    IF j = i THEN IsSet(cfg, toks[i].s)
    ELSE IF toks[i + 1].t = "=" THEN IsSetTo(cfg, toks[i].s, toks[j].s)
    ELSE IF toks[i].s = KwNot THEN ~Value(toks, i + 2, j - 1, cfg)
    ELSE LET vs == IF j = i + 2 THEN <<>> ELSE ListValues(toks, i + 2, j - 1, cfg)
         IN IF toks[i].s = KwAll THEN \A n \in 1..Len(vs) : vs[n] ELSE \E n \in 1..Len(vs) : vs[n]

WellFormed(toks) == LexOk(toks) /\ Len(toks) >= 1 /\ IsPred(toks, 1, Len(toks))

\* ---- what an implementation may answer ("T", "F", or "E" = rejected with the project's error) ---------
BoolAns(b) == IF b THEN "T" ELSE "F"
AllowedWith(strict, lax, cfg) ==
    IF strict.ok THEN {BoolAns(Eval(strict.ast, cfg))} \cup (IF strict.trail THEN {"E"} ELSE {})
    ELSE IF lax.ok THEN {"E", BoolAns(Eval(lax.ast, cfg))}
    ELSE {"E"}
Allowed(toks, cfg) == AllowedWith(Parse(toks, FALSE), Parse(toks, TRUE), cfg)

\* "cfg(" ... ")" -> the text between, or <<0>> (never a valid expression) when the text is not of that form
CfgPrefix == <<99, 102, 103, 40>>
IsCfgText(s) == Len(s) >= 5 /\ SubSeq(s, 1, 4) = CfgPrefix /\ s[Len(s)] = 41
Inner(s) == SubSeq(s, 5, Len(s) - 1)

\* features of an expression that explain a verdict (used to key findings)
Delims == {32, 40, 41, 44, 61}
StringHasDelimiter(toks) == \E i \in 1..Len(toks) : toks[i].t = "str" /\ \E n \in 1..Len(toks[i].s) : toks[i].s[n] \in Delims
HasBadChar(toks) == ~LexOk(toks)
=============================================================================
