------------------------------ MODULE CargoCfg_MC ------------------------------
(***************************************************************************)
(* Model: every sequence of up to MaxTok tokens over the alphabet          *)
(*   all any not ( ) , = a notify "x" "all"                                *)
(* (a name that merely starts with an operator word and a string value     *)
(* spelled like one: neither is an operator)                               *)
(* is classified the same way by the recursive-descent parser and by the   *)
(* declarative span grammar, both give the same value under every          *)
(* configuration of a and b, and lexing the rendered text gives the        *)
(* tokens back.  The alphabet and the configurations are exported for the  *)
(* implementation harness.                                                 *)
(***************************************************************************)
EXTENDS CargoCfg, TLC, Json, IOUtils, SequencesExt
CONSTANT MaxTok
VARIABLES toks
vars == <<toks>>

X == <<120>>
Y == KwAll                     \* the string value "all"
NameA == <<97>>
NameB == <<110, 111, 116, 105, 102, 121>>     \* notify
Alphabet == { Tok("id", KwAll), Tok("id", KwAny), Tok("id", KwNot), Tok("(", <<>>), Tok(")", <<>>), Tok(",", <<>>), Tok("=", <<>>),
              Tok("id", NameA), Tok("id", NameB), Tok("str", X), Tok("str", Y) }
\* a and notify each: unset, set without a value, set to "x", set to "all"
Settings(n) == { <<>>, <<[n |-> n, v |-> <<>>]>>, <<[n |-> n, v |-> X]>>, <<[n |-> n, v |-> Y]>> }
Configs == { sa \o sb : sa \in Settings(NameA), sb \in Settings(NameB) }

Init == toks = <<>>
Next == Len(toks) < MaxTok /\ \E t \in Alphabet : toks' = Append(toks, t)
Spec == Init /\ [][Next]_vars

strict == Parse(toks, FALSE)
lax == Parse(toks, TRUE)

\* the parser accepts (without using a trailing comma) exactly the sequences the grammar derives
ParserEqualsGrammar == (strict.ok /\ ~strict.trail) <=> WellFormed(toks)
\* and gives the value the grammar assigns, under every configuration
ValuesAgree == WellFormed(toks) => \A cfg \in Configs : Eval(strict.ast, cfg) = Value(toks, 1, Len(toks), cfg)
\* a trailing comma changes nothing but the flag: dropping it leaves a well-formed expression with the same value
TrailingCommaHarmless ==
    (strict.ok /\ strict.trail) =>
        \E i \in 1..(Len(toks) - 1) :
            /\ toks[i].t = "," /\ toks[i + 1].t = ")"
            /\ LET without == SubSeq(toks, 1, i - 1) \o SubSeq(toks, i + 1, Len(toks))
                   r == Parse(without, FALSE)
               IN r.ok /\ \A cfg \in Configs : Eval(r.ast, cfg) = Eval(strict.ast, cfg)
\* the lax reading only adds expressions, never changes one
LaxExtendsStrict == strict.ok => (lax.ok /\ lax.ast = strict.ast)
\* Boolean structure
Laws == strict.ok => \A cfg \in Configs :
            LET wrap(kw, inner) == <<Tok("id", kw), Tok("(", <<>>)>> \o inner \o <<Tok(")", <<>>)>>
                val(ts) == Eval(Parse(ts, FALSE).ast, cfg)
                v == Eval(strict.ast, cfg)
            IN /\ val(wrap(KwNot, toks)) = ~v
               /\ val(wrap(KwAll, toks)) = v
               /\ val(wrap(KwAny, toks)) = v
               /\ val(wrap(KwAll, toks \o <<Tok(",", <<>>)>> \o wrap(KwNot, toks))) = FALSE
               /\ val(wrap(KwAny, toks \o <<Tok(",", <<>>)>> \o wrap(KwNot, toks))) = TRUE
EmptyLists == /\ Eval(Parse(<<Tok("id", KwAll), Tok("(", <<>>), Tok(")", <<>>)>>, FALSE).ast, <<>>) = TRUE
              /\ Eval(Parse(<<Tok("id", KwAny), Tok("(", <<>>), Tok(")", <<>>)>>, FALSE).ast, <<>>) = FALSE
\* the answer set is never empty and always contains a rejection or a value, never both for a plain well-formed expression
AllowedShape == \A cfg \in Configs : LET al == Allowed(toks, cfg) IN
                    /\ al # {} /\ al \subseteq {"T", "F", "E"}
                    /\ WellFormed(toks) => (Cardinality(al) = 1 /\ "E" \notin al)
                    /\ (~strict.ok /\ ~lax.ok) => al = {"E"}

\* text: tokens separated by single blanks lex back to themselves; blanks around punctuation are optional
TokText(t) == CASE t.t = "id" -> t.s [] t.t = "str" -> <<QUOTE>> \o t.s \o <<QUOTE>>
                [] t.t = "(" -> <<40>> [] t.t = ")" -> <<41>> [] t.t = "," -> <<44>> [] t.t = "=" -> <<61>>
RECURSIVE Spaced(_), Tight(_, _)
Spaced(ts) == IF ts = <<>> THEN <<>> ELSE IF Len(ts) = 1 THEN TokText(ts[1]) ELSE TokText(ts[1]) \o <<32>> \o Spaced(Tail(ts))
\* no blank except between two identifiers
Tight(ts, i) == IF i > Len(ts) THEN <<>>
                ELSE (IF i > 1 /\ ts[i].t = "id" /\ ts[i - 1].t = "id" THEN <<32>> ELSE <<>>) \o TokText(ts[i]) \o Tight(ts, i + 1)
LexRoundTrip == Lex(Spaced(toks)) = toks /\ Lex(Tight(toks, 1)) = toks /\ Lex(<<32>> \o Spaced(toks) \o <<32, 32>>) = toks

Emit == TLCGet("stats").diameter >= 0
        /\ JsonSerialize("cfg_space.json", [alphabet |-> SetToSeq(Alphabet), configs |-> SetToSeq(Configs)])
=============================================================================
