------------------------------ MODULE CargoReq ------------------------------
(***************************************************************************)
(* Cargo version requirements (property C20), from "Specifying             *)
(* Dependencies" in the Cargo book:                                        *)
(*                                                                          *)
(*   req        := comparator ( "," comparator )*        all must hold     *)
(*   comparator := [op] partial | "*" | partial ".*"                       *)
(*   op         := "^" (default) | "~" | "=" | ">" | ">=" | "<" | "<="     *)
(*                                                                          *)
(* Two formulations of when a comparator accepts a version:                *)
(*   - `Within`: the interval tables of the Cargo book (every comparator   *)
(*     is a lower and/or an upper bound in SemVer precedence), and         *)
(*   - `Crate`: the field-by-field matcher of Cargo's `semver` crate.      *)
(* Cargo_MC proves them equal wherever C20 makes a claim (`InScope`).      *)
(*                                                                          *)
(* `Meson` is the rule the code under test must follow: the Cargo rule     *)
(* with the two deviations pinned in unittests/cargotests.py               *)
(*   D1  a partial `=` / `>` comparator is padded with zeros               *)
(*       (`= 1` is exactly 1.0.0, `> 1` is `> 1.0.0`), and                 *)
(*   D2  a caret requirement whose numbers are all zero means `< 1.0.0`    *)
(*       (`^0.0.0`, `^0.0` and `^0` alike).                                *)
(***************************************************************************)
EXTENDS SemVer

SPACE == 32
COMMA == 44
STAR == 42

\* ---- parsing ------------------------------------------------------------------------
RECURSIVE TrimLeft(_), TrimRight(_)
TrimLeft(s) == IF s # <<>> /\ s[1] = SPACE THEN TrimLeft(Tail(s)) ELSE s
TrimRight(s) == IF s # <<>> /\ s[Len(s)] = SPACE THEN TrimRight(SubSeq(s, 1, Len(s) - 1)) ELSE s
Trim(s) == TrimRight(TrimLeft(s))

\* a comparator: op, and the partial version it names (n of major.minor.patch written, pre-release identifiers)
Cmpr(op, v) == [op |-> op, ok |-> v.ok, n |-> v.n, nums |-> v.nums, pre |-> v.pre]
AnyVersion == [op |-> "*", ok |-> TRUE, n |-> 0, nums |-> <<0, 0, 0>>, pre |-> <<>>]

ParseComparator(text0) ==
    LET t == Trim(text0)
        c1 == IF Len(t) >= 1 THEN t[1] ELSE 0
        c2 == IF Len(t) >= 2 THEN t[2] ELSE 0
        rest(k) == TrimLeft(SubSeq(t, k + 1, Len(t)))
        L == Len(t)
    IN CASE t = <<STAR>> -> AnyVersion
         [] L >= 2 /\ t[L] = STAR /\ t[L - 1] = DOT ->                   \* "1.*", "1.2.*": as tilde on what is written
               Cmpr("~", ParseSemVer(SubSeq(t, 1, L - 2)))
         [] c1 = 62 /\ c2 = 61 -> Cmpr(">=", ParseSemVer(rest(2)))
         [] c1 = 60 /\ c2 = 61 -> Cmpr("<=", ParseSemVer(rest(2)))
         [] c1 = 62 /\ c2 # 61 -> Cmpr(">", ParseSemVer(rest(1)))
         [] c1 = 60 /\ c2 # 61 -> Cmpr("<", ParseSemVer(rest(1)))
         [] c1 = 61 -> Cmpr("=", ParseSemVer(rest(1)))
         [] c1 = 94 -> Cmpr("^", ParseSemVer(rest(1)))
         [] c1 = 126 -> Cmpr("~", ParseSemVer(rest(1)))
         [] OTHER -> Cmpr("^", ParseSemVer(t))

\* a requirement: the comparators between commas; the empty requirement accepts everything
ParseReq(text) ==
    IF Trim(text) = <<>> THEN <<>>
    ELSE LET parts == Split(text, COMMA) IN [i \in 1..Len(parts) |-> ParseComparator(parts[i])]
ReqOk(req) == \A i \in 1..Len(req) : req[i].ok

\* ---- formulation 1: the interval tables of the Cargo book ------------------------------------
Rel3(a, b, c) == Release(a, b, c)
AsVersion(c) == [ok |-> TRUE, n |-> 3, nums |-> c.nums, pre |-> c.pre]      \* missing parts are zero

\* the release just above everything the comparator's written parts can reach
BumpMajor(c) == Rel3(c.nums[1] + 1, 0, 0)
BumpMinor(c) == Rel3(c.nums[1], c.nums[2] + 1, 0)
BumpPatch(c) == Rel3(c.nums[1], c.nums[2], c.nums[3] + 1)
BumpLast(c) == IF c.n = 1 THEN BumpMajor(c) ELSE IF c.n = 2 THEN BumpMinor(c) ELSE BumpPatch(c)

AllZero(c) == c.nums = <<0, 0, 0>>

\* ^1.2.3 := >=1.2.3, <2.0.0   ^0.2.3 := >=0.2.3, <0.3.0   ^0.0.3 := >=0.0.3, <0.0.4
\* ^1.2 := <2.0.0   ^0.2 := <0.3.0   ^0.0 := <0.1.0   ^1 := <2.0.0   ^0 := <1.0.0
CaretUpper(c, pinned) ==
    IF pinned /\ AllZero(c) THEN Rel3(1, 0, 0)                                \* D2
    ELSE IF c.nums[1] > 0 \/ c.n = 1 THEN BumpMajor(c)
    ELSE IF c.nums[2] > 0 \/ c.n = 2 THEN BumpMinor(c)
    ELSE BumpPatch(c)
\* ~1.2.3 := >=1.2.3, <1.3.0   ~1.2 := >=1.2.0, <1.3.0   ~1 := >=1.0.0, <2.0.0  (and 1.2.* / 1.*)
TildeUpper(c) == IF c.n >= 2 THEN BumpMinor(c) ELSE BumpMajor(c)

Ge(v, w) == CmpSem(v, w) >= 0
Gt(v, w) == CmpSem(v, w) > 0
Lt(v, w) == CmpSem(v, w) < 0
Le(v, w) == CmpSem(v, w) <= 0

\* pinned = FALSE: Cargo;  pinned = TRUE: with the two deviations
Within(c, v, pinned) ==
    LET x == AsVersion(c)
        full == c.n = 3 \/ (pinned /\ c.op \in {"=", ">"})                    \* D1: read a partial = / > as padded
    IN CASE c.op = "*"  -> TRUE
         [] c.op = "^"  -> Ge(v, x) /\ Lt(v, CaretUpper(c, pinned))
         [] c.op = "~"  -> Ge(v, x) /\ Lt(v, TildeUpper(c))
         [] c.op = ">=" -> Ge(v, x)
         [] c.op = "<"  -> Lt(v, x)
         [] c.op = "="  -> IF full THEN CmpSem(v, x) = 0 ELSE Ge(v, x) /\ Lt(v, BumpLast(c))      \* =1.2 := >=1.2.0, <1.3.0
         [] c.op = ">"  -> IF full THEN Gt(v, x) ELSE Ge(v, BumpLast(c))                          \* >1.2 := >=1.3.0
         [] c.op = "<=" -> IF c.n = 3 THEN Le(v, x) ELSE Lt(v, BumpLast(c))                       \* <=1.2 := <1.3.0

\* a pre-release version is only ever matched by a requirement that has a pre-release comparator on the same
\* major.minor.patch
PreGate(req, v) == HasPre(v) => \E i \in 1..Len(req) : HasPre(req[i]) /\ req[i].n = 3 /\ req[i].nums = v.nums
NamesPre(req) == \E i \in 1..Len(req) : HasPre(req[i])

Accepts(req, v, pinned) == PreGate(req, v) /\ \A i \in 1..Len(req) : Within(req[i], v, pinned)
Cargo(req, v) == Accepts(req, v, FALSE)
Meson(req, v) == Accepts(req, v, TRUE)

\* ---- formulation 2: the matcher of the `semver` crate (field by field) ---------------------------
Has2(c) == c.n >= 2
Has3(c) == c.n >= 3
CrExact(c, v) == /\ v.nums[1] = c.nums[1]
                 /\ (Has2(c) => v.nums[2] = c.nums[2])
                 /\ (Has3(c) => v.nums[3] = c.nums[3])
                 /\ CmpPre(v.pre, c.pre) = 0
CrGreater(c, v) == IF v.nums[1] # c.nums[1] THEN v.nums[1] > c.nums[1]
                   ELSE IF ~Has2(c) THEN FALSE
                   ELSE IF v.nums[2] # c.nums[2] THEN v.nums[2] > c.nums[2]
                   ELSE IF ~Has3(c) THEN FALSE
                   ELSE IF v.nums[3] # c.nums[3] THEN v.nums[3] > c.nums[3]
                   ELSE CmpPre(v.pre, c.pre) > 0
CrLess(c, v) == IF v.nums[1] # c.nums[1] THEN v.nums[1] < c.nums[1]
                ELSE IF ~Has2(c) THEN FALSE
                ELSE IF v.nums[2] # c.nums[2] THEN v.nums[2] < c.nums[2]
                ELSE IF ~Has3(c) THEN FALSE
                ELSE IF v.nums[3] # c.nums[3] THEN v.nums[3] < c.nums[3]
                ELSE CmpPre(v.pre, c.pre) < 0
CrTilde(c, v) == IF v.nums[1] # c.nums[1] THEN FALSE
                 ELSE IF Has2(c) /\ v.nums[2] # c.nums[2] THEN FALSE
                 ELSE IF Has3(c) /\ v.nums[3] # c.nums[3] THEN v.nums[3] > c.nums[3]
                 ELSE CmpPre(v.pre, c.pre) >= 0
CrCaret(c, v) ==
    IF v.nums[1] # c.nums[1] THEN FALSE
    ELSE IF ~Has2(c) THEN TRUE
    ELSE IF ~Has3(c) THEN (IF c.nums[1] > 0 THEN v.nums[2] >= c.nums[2] ELSE v.nums[2] = c.nums[2])
    ELSE IF c.nums[1] > 0 /\ v.nums[2] # c.nums[2] THEN v.nums[2] > c.nums[2]
    ELSE IF c.nums[1] > 0 /\ v.nums[3] # c.nums[3] THEN v.nums[3] > c.nums[3]
    ELSE IF c.nums[1] = 0 /\ c.nums[2] > 0 /\ v.nums[2] # c.nums[2] THEN FALSE
    ELSE IF c.nums[1] = 0 /\ c.nums[2] > 0 /\ v.nums[3] # c.nums[3] THEN v.nums[3] > c.nums[3]
    ELSE IF c.nums[1] = 0 /\ c.nums[2] = 0 /\ (v.nums[2] # c.nums[2] \/ v.nums[3] # c.nums[3]) THEN FALSE
    ELSE CmpPre(v.pre, c.pre) >= 0
CrMatch(c, v) == CASE c.op = "*"  -> TRUE
                   [] c.op = "="  -> CrExact(c, v)
                   [] c.op = ">"  -> CrGreater(c, v)
                   [] c.op = ">=" -> CrExact(c, v) \/ CrGreater(c, v)
                   [] c.op = "<"  -> CrLess(c, v)
                   [] c.op = "<=" -> CrExact(c, v) \/ CrLess(c, v)
                   [] c.op = "~"  -> CrTilde(c, v)
                   [] c.op = "^"  -> CrCaret(c, v)
Crate(req, v) == /\ \A i \in 1..Len(req) : CrMatch(req[i], v)
                 /\ PreGate(req, v)

\* ---- where C20 makes a claim ------------------------------------------------------------------
\* every release version; a pre-release version against a requirement naming no pre-release (never accepted);
\* and a pre-release version whose major.minor.patch is named by a pre-release comparator, provided every
\* other comparator is written in full and is a plain comparison or sits on the same major.minor.patch (there
\* the implied upper bounds of ^, ~ and of partial comparators cannot come into play, and the Cargo book and
\* the crate say the same).
InScope(req, v) ==
    \/ ~HasPre(v)
    \/ ~NamesPre(req)
    \/ /\ \E i \in 1..Len(req) : HasPre(req[i]) /\ req[i].nums = v.nums
       /\ \A i \in 1..Len(req) : req[i].n = 3 /\ (req[i].op \in {">=", ">", "<", "<=", "="} \/ req[i].nums = v.nums)

\* the comparators on which the pinned rule differs from Cargo's
IsD1(c) == c.op \in {"=", ">"} /\ c.n < 3
IsD2(c) == c.op = "^" /\ AllZero(c) /\ c.n >= 2
=============================================================================
