SPECIFICATION Spec
CONSTANTS ReqNums = {0, 1, 2}
 VerNums = {0, 1, 2, 3}
 ReqPres <- ReqPresSmall
 VerPres <- VerPresSmall
INVARIANT BookEqualsCrate
INVARIANT DeviationsExactlyPinned
INVARIANT PreReleaseNeedsPre
INVARIANT CommaIsConjunction
INVARIANT Inclusions
INVARIANT TildeVsCaret
INVARIANT ExactMatchesOne
INVARIANT Shapes
INVARIANT GridAdequate
INVARIANT RoundTrip
INVARIANT EmptyAndStar
CHECK_DEADLOCK FALSE
POSTCONDITION Emit
