------------------------------ MODULE CargoReq_MC ------------------------------
(***************************************************************************)
(* Model: laws of Cargo requirements (C20) for every comparator over a     *)
(* bounded component domain against every version of a bounded grid:       *)
(* the Cargo book's interval tables equal the semver crate's matcher       *)
(* wherever C20 makes a claim, the pinned rule differs from Cargo's        *)
(* exactly on the two pinned comparator classes, a pre-release never       *)
(* satisfies a requirement naming none, caret/tilde inclusions, `=`        *)
(* matches one release, text round trip.  Comparators and versions are     *)
(* exported for the implementation harness.                                *)
(***************************************************************************)
EXTENDS CargoReq, TLC, Json, IOUtils, SequencesExt
CONSTANTS ReqNums,     \* numbers used in comparators
          VerNums,     \* numbers used in versions (a superset, so that bumped bounds are inside the grid)
          ReqPres,     \* pre-release lists of comparators (texts, only on full versions)
          VerPres      \* pre-release lists of versions
VARIABLES c, done
vars == <<c, done>>

T(s) == [i \in 1..Len(s) |-> Ident(s[i])]
a_ == <<97>>
b_ == <<98>>
ReqPresSmall == { <<>>, T(<<a_>>) }
ReqPresFull == { <<>>, T(<<a_>>), T(<<b_, <<49>>>>) }                       \* - a b.1
VerPresSmall == { <<>>, T(<<a_>>), T(<<b_>>) }
VerPresFull == { <<>>, T(<<a_>>), T(<<b_>>), T(<<b_, <<50>>>>), T(<<<<49>>>>) }   \* - a b b.2 1

OpsAll == {"^", "~", "=", ">", ">=", "<", "<="}
Partial(n, x, y, z, p) == [ok |-> TRUE, n |-> n, nums |-> <<x, IF n >= 2 THEN y ELSE 0, IF n >= 3 THEN z ELSE 0>>, pre |-> p]
Partials == { Partial(1, x, 0, 0, <<>>) : x \in ReqNums }
            \cup { Partial(2, x, y, 0, <<>>) : x \in ReqNums, y \in ReqNums }
            \cup { Partial(3, x, y, z, p) : x \in ReqNums, y \in ReqNums, z \in ReqNums, p \in ReqPres }
Comparators == {AnyVersion} \cup { Cmpr(op, v) : op \in OpsAll, v \in Partials }
Versions == { [ok |-> TRUE, n |-> 3, nums |-> <<x, y, z>>, pre |-> p] : x \in VerNums, y \in VerNums, z \in VerNums, p \in VerPres }
Releases == { v \in Versions : ~HasPre(v) }
\* second comparators for the laws about lists
Seconds == { Cmpr(op, Partial(3, 1, y, 0, p)) : op \in {">=", "<", "^"}, y \in {0, 1}, p \in ReqPres }

Init == c \in Comparators /\ done = FALSE
Next == ~done /\ done' = TRUE /\ c' = c
Spec == Init /\ [][Next]_vars

With(op) == [c EXCEPT !.op = op]
Shorter(n) == Cmpr(c.op, Partial(n, c.nums[1], c.nums[2], c.nums[3], <<>>))

\* the Cargo book and the semver crate agree wherever C20 makes a claim
BookEqualsCrate == done =>
    /\ \A v \in Versions : InScope(<<c>>, v) => (Cargo(<<c>>, v) = Crate(<<c>>, v))
    /\ \A d \in Seconds : \A v \in Versions : InScope(<<c, d>>, v) => (Cargo(<<c, d>>, v) = Crate(<<c, d>>, v))
\* the pinned rule is Cargo's except on the two pinned comparator classes - and there it really differs
DeviationsExactlyPinned == done =>
    /\ (\E v \in Releases : Meson(<<c>>, v) # Cargo(<<c>>, v)) <=> (IsD1(c) \/ IsD2(c))
    /\ IsD1(c) => \A v \in Releases : Meson(<<c>>, v) = Cargo(<<Cmpr(c.op, Partial(3, c.nums[1], c.nums[2], 0, <<>>))>>, v)
    /\ IsD2(c) => \A v \in Releases : Meson(<<c>>, v) = (v.nums[1] = 0)
\* a pre-release never satisfies a requirement that names no pre-release
PreReleaseNeedsPre == done =>
    \A v \in Versions : (HasPre(v) /\ ~HasPre(c)) =>
        /\ ~Meson(<<c>>, v) /\ ~Cargo(<<c>>, v)
        /\ \A d \in Seconds : ~HasPre(d) => ~Meson(<<c, d>>, v)
\* a list is the conjunction of its comparators on releases
CommaIsConjunction == done =>
    \A d \in Seconds : \A v \in Releases : Meson(<<c, d>>, v) = (Meson(<<c>>, v) /\ Meson(<<d>>, v))
\* ^x.y.z within ^x.y within ^x ; ~x.y.z within ~x.y within ~x
Inclusions == (done /\ c.op \in {"^", "~"} /\ c.n = 3 /\ ~HasPre(c)) =>
    \A v \in Releases : /\ Cargo(<<c>>, v) => Cargo(<<Shorter(2)>>, v)
                        /\ Cargo(<<Shorter(2)>>, v) => Cargo(<<Shorter(1)>>, v)
\* tilde within caret from 1.0.0 on, caret within tilde below
TildeVsCaret == (done /\ c.op = "~" /\ ~HasPre(c)) =>
    \A v \in Releases : IF c.nums[1] >= 1 THEN Cargo(<<c>>, v) => Cargo(<<With("^")>>, v)
                        ELSE Cargo(<<With("^")>>, v) => Cargo(<<c>>, v)
\* = on a full version matches exactly that release
ExactMatchesOne == (done /\ c.op = "=" /\ c.n = 3 /\ ~HasPre(c)) =>
    { v \in Releases : Cargo(<<c>>, v) } = { v \in Releases : v.nums = c.nums }
\* lower bounds are upward closed and upper bounds downward closed on releases
Shapes == done => \A v, w \in Releases : CmpSem(v, w) < 0 =>
    /\ (c.op \in {">", ">="} /\ Cargo(<<c>>, v)) => Cargo(<<c>>, w)
    /\ (c.op \in {"<", "<="} /\ Cargo(<<c>>, w)) => Cargo(<<c>>, v)
\* every comparator accepts something and (except *) rejects something on the release grid: the grid is big enough
GridAdequate == (done /\ ~HasPre(c)) =>
                        /\ (c.op \notin {"<"} \/ c.nums # <<0, 0, 0>>) => \E v \in Releases : Cargo(<<c>>, v)
                        /\ (c.op # "*" /\ ~(c.op = ">=" /\ AllZero(c))) => \E v \in Releases : ~Cargo(<<c>>, v)

\* ---- text -----------------------------------------------------------------------------
RECURSIVE Digits(_), JoinIds(_)
Digits(n) == IF n < 10 THEN <<48 + n>> ELSE Digits(n \div 10) \o <<48 + (n % 10)>>
IdText(x) == IF x.k = "n" /\ x.s = <<>> THEN <<48>> ELSE x.s
JoinIds(p) == IF Len(p) = 1 THEN IdText(p[1]) ELSE IdText(p[1]) \o <<DOT>> \o JoinIds(Tail(p))
RenderPartial(x) == Digits(x.nums[1]) \o (IF x.n >= 2 THEN <<DOT>> \o Digits(x.nums[2]) ELSE <<>>)
                                      \o (IF x.n >= 3 THEN <<DOT>> \o Digits(x.nums[3]) ELSE <<>>)
                                      \o (IF x.pre # <<>> THEN <<DASH>> \o JoinIds(x.pre) ELSE <<>>)
OpText(op) == CASE op = "^" -> <<94>> [] op = "~" -> <<126>> [] op = "=" -> <<61>> [] op = ">" -> <<62>>
                [] op = ">=" -> <<62, 61>> [] op = "<" -> <<60>> [] op = "<=" -> <<60, 61>>
RenderCmpr(x) == IF x.op = "*" THEN <<STAR>> ELSE OpText(x.op) \o RenderPartial(x)
RoundTrip == (done /\ c.op # "*") =>
    /\ ParseComparator(RenderCmpr(c)) = c
    /\ ParseComparator(<<SPACE>> \o OpText(c.op) \o <<SPACE, SPACE>> \o RenderPartial(c) \o <<SPACE>>) = c
    /\ c.op = "^" => ParseComparator(RenderPartial(c)) = c                                  \* bare version = caret
    /\ (c.op = "~" /\ c.n <= 2) => ParseComparator(RenderPartial(c) \o <<DOT, STAR>>) = c   \* 1.* = ~1, 1.2.* = ~1.2
    /\ \A d \in Seconds : ParseReq(RenderCmpr(c) \o <<COMMA, SPACE>> \o RenderCmpr(d)) = <<c, d>>
EmptyAndStar == /\ ParseReq(<<>>) = <<>> /\ ParseReq(<<SPACE>>) = <<>>
                /\ ParseReq(<<STAR>>) = <<AnyVersion>>
                /\ \A v \in Versions : ~HasPre(v) => Meson(<<>>, v) /\ Meson(<<AnyVersion>>, v)

Emit == TLCGet("stats").diameter >= 0
        /\ JsonSerialize("req_space.json", [comparators |-> SetToSeq(Comparators), versions |-> SetToSeq(Versions),
                                            seconds |-> SetToSeq(Seconds)])
=============================================================================
