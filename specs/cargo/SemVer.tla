------------------------------- MODULE SemVer -------------------------------
(***************************************************************************)
(* Semantic Versioning 2.0.0 as Cargo reads it (property C20).             *)
(*                                                                          *)
(*   version := core [ "-" pre ] [ "+" build ]                             *)
(*   core    := num [ "." num [ "." num ] ]      (missing parts are zero;   *)
(*              Cargo requirements and the project's tests use partial      *)
(*              versions such as "1" and "1.0")                             *)
(*   pre     := ident ( "." ident )*    ident := [0-9A-Za-z-]+              *)
(*                                                                          *)
(* Precedence (semver.org item 11): major, minor, patch numerically; a     *)
(* pre-release is below its release; pre-release identifiers are compared  *)
(* left to right - all-digit identifiers numerically, the others in ASCII  *)
(* order, a numeric one below an alphanumeric one; when all shared         *)
(* identifiers are equal the longer list is greater; build metadata is     *)
(* ignored.                                                                *)
(***************************************************************************)
EXTENDS Integers, Sequences, FiniteSets

DOT == 46
DASH == 45
PLUS == 43
SvIsDigit(c) == c >= 48 /\ c <= 57

SvCmpInt(x, y) == IF x < y THEN -1 ELSE IF x > y THEN 1 ELSE 0

\* ---- text helpers ------------------------------------------------------------
\* position of the first occurrence of ch in s at or after i, 0 when there is none
RECURSIVE FindFrom(_, _, _)
FindFrom(s, ch, i) == IF i > Len(s) THEN 0 ELSE IF s[i] = ch THEN i ELSE FindFrom(s, ch, i + 1)

\* split s at every ch
RECURSIVE SplitFrom(_, _, _)
SplitFrom(s, ch, i) ==
    LET p == FindFrom(s, ch, i)
    IN IF p = 0 THEN <<SubSeq(s, i, Len(s))>>
       ELSE <<SubSeq(s, i, p - 1)>> \o SplitFrom(s, ch, p + 1)
Split(s, ch) == SplitFrom(s, ch, 1)

AllDigits(s) == s # <<>> /\ \A i \in 1..Len(s) : SvIsDigit(s[i])

RECURSIVE SvNumFrom(_, _, _)
SvNumFrom(d, i, acc) == IF i > Len(d) THEN acc ELSE SvNumFrom(d, i + 1, acc * 10 + (d[i] - 48))
SvNum(d) == SvNumFrom(d, 1, 0)

RECURSIVE SvStripFrom(_, _)
SvStripFrom(d, i) == IF i > Len(d) THEN <<>> ELSE IF d[i] = 48 THEN SvStripFrom(d, i + 1) ELSE SubSeq(d, i, Len(d))

\* ---- parsing -------------------------------------------------------------------
\* a pre-release identifier: k = "n" numeric (s = digits without leading zeros, so any size is fine), k = "a" alphanumeric
Ident(t) == IF AllDigits(t) THEN [k |-> "n", s |-> SvStripFrom(t, 1)] ELSE [k |-> "a", s |-> t]

\* ok: well-formed; n: how many of major.minor.patch were written; nums: the three numbers; pre: identifiers
SvBad == [ok |-> FALSE, n |-> 0, nums |-> <<0, 0, 0>>, pre |-> <<>>]
ParseSemVer(text) ==
    LET plus == FindFrom(text, PLUS, 1)
        nobuild == IF plus = 0 THEN text ELSE SubSeq(text, 1, plus - 1)
        dash == FindFrom(nobuild, DASH, 1)
        core == IF dash = 0 THEN nobuild ELSE SubSeq(nobuild, 1, dash - 1)
        pretext == IF dash = 0 THEN <<>> ELSE SubSeq(nobuild, dash + 1, Len(nobuild))
        parts == Split(core, DOT)
        ids == IF dash = 0 THEN <<>> ELSE Split(pretext, DOT)
    IN IF Len(parts) > 3 \/ (\E i \in 1..Len(parts) : ~AllDigits(parts[i]) \/ Len(parts[i]) > 9)
          \/ (\E i \in 1..Len(ids) : ids[i] = <<>>)
       THEN SvBad
       ELSE [ok |-> TRUE, n |-> Len(parts),
             nums |-> [i \in 1..3 |-> IF i <= Len(parts) THEN SvNum(parts[i]) ELSE 0],
             pre |-> [i \in 1..Len(ids) |-> Ident(ids[i])]]

Release(a, b, c) == [ok |-> TRUE, n |-> 3, nums |-> <<a, b, c>>, pre |-> <<>>]
HasPre(v) == v.pre # <<>>
Triple(v) == v.nums

\* ---- precedence --------------------------------------------------------------------
RECURSIVE SvLexFrom(_, _, _)
SvLexFrom(x, y, i) ==
    IF i > Len(x) THEN (IF i > Len(y) THEN 0 ELSE -1)
    ELSE IF i > Len(y) THEN 1
    ELSE IF x[i] # y[i] THEN SvCmpInt(x[i], y[i])
    ELSE SvLexFrom(x, y, i + 1)

CmpIdent(x, y) ==
    IF x.k # y.k THEN (IF x.k = "n" THEN -1 ELSE 1)                    \* numeric below alphanumeric
    ELSE IF x.k = "n" THEN (IF Len(x.s) # Len(y.s) THEN SvCmpInt(Len(x.s), Len(y.s)) ELSE SvLexFrom(x.s, y.s, 1))
    ELSE SvLexFrom(x.s, y.s, 1)                                         \* ASCII order

RECURSIVE CmpPreFrom(_, _, _)
CmpPreFrom(p, q, i) ==
    IF i > Len(p) \/ i > Len(q) THEN SvCmpInt(Len(p), Len(q))           \* the larger set of fields wins
    ELSE LET c == CmpIdent(p[i], q[i]) IN IF c # 0 THEN c ELSE CmpPreFrom(p, q, i + 1)

CmpPre(p, q) == IF p = <<>> /\ q = <<>> THEN 0
                ELSE IF p = <<>> THEN 1                                  \* a release is above its pre-releases
                ELSE IF q = <<>> THEN -1
                ELSE CmpPreFrom(p, q, 1)

CmpTriple(x, y) == IF x[1] # y[1] THEN SvCmpInt(x[1], y[1])
                   ELSE IF x[2] # y[2] THEN SvCmpInt(x[2], y[2])
                   ELSE SvCmpInt(x[3], y[3])

CmpSem(a, b) == LET c == CmpTriple(a.nums, b.nums) IN IF c # 0 THEN c ELSE CmpPre(a.pre, b.pre)
=============================================================================
