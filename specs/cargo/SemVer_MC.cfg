SPECIFICATION Spec
CONSTANTS Nums = {0, 1}
 Pres <- PresSmall
INVARIANT Trichotomy
INVARIANT Reflexive
INVARIANT Transitive
INVARIANT EqualIffIdentical
INVARIANT NumbersFirst
INVARIANT PreBelowRelease
INVARIANT FirstIdentifierDecides
INVARIANT RoundTrip
INVARIANT BuildIgnored
INVARIANT PartialPadded
INVARIANT SpecExampleChain
CHECK_DEADLOCK FALSE
POSTCONDITION EmitDomain
