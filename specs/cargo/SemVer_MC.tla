------------------------------- MODULE SemVer_MC -------------------------------
(***************************************************************************)
(* Model: SemVer precedence (C20) is a total preorder with the properties  *)
(* of semver.org item 11 on every triple of a bounded domain (numbers from *)
(* Nums in each of major/minor/patch, pre-release lists from Pres), and    *)
(* parsing reads back what rendering writes (partial versions, build       *)
(* metadata).  The domain is exported for the implementation harness.      *)
(***************************************************************************)
EXTENDS SemVer, TLC, Json, IOUtils, SequencesExt
CONSTANTS Nums, Pres
VARIABLES a, done
vars == <<a, done>>

\* ready-made pre-release lists for the .cfg files: texts, split and classified by the spec itself
T(s) == [i \in 1..Len(s) |-> Ident(s[i])]
a_ == <<97>>
b_ == <<98>>
PresSmall == { <<>>, T(<<a_>>), T(<<a_, <<49>>>>), T(<<b_>>), T(<<<<49>>>>), T(<<<<49, 48>>>>), T(<<<<57>>>>) }                    \* - a a.1 b 1 10 9
PresFull == PresSmall \cup { T(<<a_, b_>>), T(<<b_, <<50>>>>), T(<<b_, <<49, 49>>>>), T(<<<<114, 99>>, <<49>>>>), T(<<<<50>>>>),
                             T(<<<<97, 45, 49>>>>), T(<<<<48, 97>>>>), T(<<a_, <<48, 98>>>>), T(<<a_, <<48>>>>) }
                             \* a.b b.2 b.11 rc.1 2 a-1 0a a.0b a.0

Domain == { [ok |-> TRUE, n |-> 3, nums |-> <<x, y, z>>, pre |-> p] : x \in Nums, y \in Nums, z \in Nums, p \in Pres }
DomSeq == SetToSeq(Domain)
N == Len(DomSeq)
C == [x \in 1..N |-> [y \in 1..N |-> CmpSem(DomSeq[x], DomSeq[y])]]

Init == a \in 1..N /\ done = FALSE
Next == ~done /\ done' = TRUE /\ a' = a
Spec == Init /\ [][Next]_vars
A == DomSeq[a]

Trichotomy == done => \A b \in 1..N : C[a][b] \in {-1, 0, 1} /\ C[a][b] = 0 - C[b][a]
Reflexive == done => C[a][a] = 0
Transitive == done =>
    \A b \in 1..N : C[a][b] <= 0 =>
        \A c \in 1..N : C[b][c] <= 0 => (C[a][c] <= 0 /\ ((C[a][b] < 0 \/ C[b][c] < 0) => C[a][c] < 0))
EqualIffIdentical == done => \A b \in 1..N : (C[a][b] = 0) <=> (A = DomSeq[b])
\* major, then minor, then patch decide before anything else
NumbersFirst == done => \A b \in 1..N : A.nums # DomSeq[b].nums => C[a][b] = CmpTriple(A.nums, DomSeq[b].nums)
\* a pre-release is below its release
PreBelowRelease == done => \A b \in 1..N : (A.nums = DomSeq[b].nums /\ HasPre(A) /\ ~HasPre(DomSeq[b])) => C[a][b] = -1
\* at the first differing identifier: numeric below alphanumeric, numerics as numbers, the others in ASCII order
FirstIdentifierDecides == done =>
    \A b \in 1..N : LET B == DomSeq[b]
                        L == IF Len(A.pre) <= Len(B.pre) THEN Len(A.pre) ELSE Len(B.pre)
                        diff == { i \in 1..L : A.pre[i] # B.pre[i] }
                    IN (A.nums = B.nums /\ HasPre(A) /\ HasPre(B)) =>
                        IF diff = {} THEN C[a][b] = SvCmpInt(Len(A.pre), Len(B.pre))        \* the larger set of fields wins
                        ELSE LET i == CHOOSE i \in diff : \A j \in diff : i <= j
                                 x == A.pre[i] y == B.pre[i]
                             IN /\ (x.k = "n" /\ y.k = "a") => C[a][b] = -1
                                /\ (x.k = "n" /\ y.k = "n") => C[a][b] = SvCmpInt(SvNum(x.s), SvNum(y.s))
                                /\ (x.k = "a" /\ y.k = "a") => C[a][b] = SvLexFrom(x.s, y.s, 1)

\* ---- text --------------------------------------------------------------------------
RECURSIVE Digits(_)
Digits(n) == IF n < 10 THEN <<48 + n>> ELSE Digits(n \div 10) \o <<48 + (n % 10)>>
IdText(x) == IF x.k = "n" /\ x.s = <<>> THEN <<48>> ELSE x.s
RECURSIVE JoinIds(_)
JoinIds(p) == IF Len(p) = 1 THEN IdText(p[1]) ELSE IdText(p[1]) \o <<DOT>> \o JoinIds(Tail(p))
RenderCore(v, n) == Digits(v.nums[1]) \o (IF n >= 2 THEN <<DOT>> \o Digits(v.nums[2]) ELSE <<>>)
                                      \o (IF n >= 3 THEN <<DOT>> \o Digits(v.nums[3]) ELSE <<>>)
RenderSem(v) == RenderCore(v, 3) \o (IF HasPre(v) THEN <<DASH>> \o JoinIds(v.pre) ELSE <<>>)

RoundTrip == done => ParseSemVer(RenderSem(A)) = A
BuildIgnored == done => /\ ParseSemVer(RenderSem(A) \o <<PLUS, 98, 46, 55>>) = A             \* +b.7
                        /\ ParseSemVer(RenderSem(A) \o <<PLUS, 48, 45, 49>>) = A            \* +0-1
\* missing minor / patch read as zero
PartialPadded == done => /\ (A.nums[3] = 0 /\ ~HasPre(A)) => CmpSem(ParseSemVer(RenderCore(A, 2)), A) = 0
                         /\ (A.nums[3] = 0 /\ A.nums[2] = 0 /\ ~HasPre(A)) => CmpSem(ParseSemVer(RenderCore(A, 1)), A) = 0
\* the chain printed on semver.org item 11
P(s) == ParseSemVer(s)
Chain == << <<49,46,48,46,48,45,97,108,112,104,97>>, <<49,46,48,46,48,45,97,108,112,104,97,46,49>>,
            <<49,46,48,46,48,45,97,108,112,104,97,46,98,101,116,97>>, <<49,46,48,46,48,45,98,101,116,97>>,
            <<49,46,48,46,48,45,98,101,116,97,46,50>>, <<49,46,48,46,48,45,98,101,116,97,46,49,49>>,
            <<49,46,48,46,48,45,114,99,46,49>>, <<49,46,48,46,48>> >>
SpecExampleChain == \A i \in 1..(Len(Chain) - 1) : CmpSem(P(Chain[i]), P(Chain[i + 1])) = -1

EmitDomain == TLCGet("stats").diameter >= 0 /\ JsonSerialize("semver_domain.json", DomSeq)
=============================================================================
