------------------------------ MODULE TraceCargo ------------------------------
(***************************************************************************)
(* Trace validation for C20.  The trace file holds                         *)
(*   vers    : a list of version strings (code points),                    *)
(*   configs : a list of configurations (lists of [n, v]),                 *)
(*   cases   : recorded calls of the real code:                            *)
(*     svrow  SemVer(vers[a]) compared with SemVer(vers[j]) for every j    *)
(*     svtri  three free version strings, all six ordered pairs            *)
(*     req    cargo_parse(r)(vers[j]) for every j -> positions accepted    *)
(*     cfg    eval_cfg(text, cfg) for every configuration -> T / F /       *)
(*            E (MesonException) / X (anything else)                       *)
(* All texts are parsed here (SemVer!ParseSemVer, CargoReq!ParseReq,       *)
(* CargoCfg!Lex/Parse).  One initial state per case; the judgement is made *)
(* in the single step so that all TLC workers share the batch.             *)
(***************************************************************************)
EXTENDS CargoReq, CargoCfg, TLC, Json, IOUtils

File == JsonDeserialize(IOEnv.TRACE_FILE)
Vers == File.vers
Cases == File.cases
N == Len(Vers)
J == 1..N
Parsed == [j \in J |-> ParseSemVer(Vers[j])]
V(j) == Parsed[j]

VARIABLES i, done
vars == <<i, done>>

Bit(code, b) == (code \div b) % 2 = 1
ExpectedCode(c) == IF c < 0 THEN 35 ELSE IF c = 0 THEN 26 ELSE 44      \* lt=1 le=2 gt=4 ge=8 eq=16 ne=32
WellFormedCode(code) ==
    /\ Cardinality({ b \in {1, 16, 4} : Bit(code, b) }) = 1
    /\ Bit(code, 2) = (Bit(code, 1) \/ Bit(code, 16))
    /\ Bit(code, 8) = (Bit(code, 4) \/ Bit(code, 16))
    /\ Bit(code, 32) = ~Bit(code, 16)
Mirror(xy, yx) == Bit(xy, 1) = Bit(yx, 4) /\ Bit(xy, 4) = Bit(yx, 1) /\ Bit(xy, 16) = Bit(yx, 16)
Trans(xy, yz, xz) == /\ (Bit(xy, 2) /\ Bit(yz, 2)) => Bit(xz, 2)
                     /\ (Bit(xy, 2) /\ Bit(yz, 2) /\ (Bit(xy, 1) \/ Bit(yz, 1))) => Bit(xz, 1)

AsSet(s) == { s[n] : n \in 1..Len(s) }
MinOf(S) == CHOOSE x \in S : \A y \in S : x <= y
Ok(c) == [id |-> c.id, clause |-> "ok"]

\* where two versions first differ, in terms that do not depend on the concrete numbers (keys findings)
IdKind(x) == IF x.k = "n" THEN "num" ELSE IF SvIsDigit(x.s[1]) THEN "alnum-leading-digit" ELSE "alnum"
WhereDiffer(a, b) ==
    IF a.nums # b.nums THEN [at |-> "core", idx |-> 0, kx |-> "", ky |-> ""]
    ELSE IF a.pre = <<>> \/ b.pre = <<>> THEN [at |-> "release-vs-pre", idx |-> 0, kx |-> "", ky |-> ""]
    ELSE LET L == IF Len(a.pre) <= Len(b.pre) THEN Len(a.pre) ELSE Len(b.pre)
             diff == { n \in 1..L : a.pre[n] # b.pre[n] }
         IN IF diff = {} THEN [at |-> "pre-length", idx |-> L, kx |-> "", ky |-> ""]
            ELSE LET n == MinOf(diff) IN [at |-> "pre", idx |-> n, kx |-> IdKind(a.pre[n]), ky |-> IdKind(b.pre[n])]

\* a comparator seen from a version: what kind it is and where the version's major.minor.patch lies relative to it
Shape(c, v) == [op |-> c.op, n |-> c.n, pre |-> HasPre(c), side |-> CmpTriple(v.nums, c.nums)]

\* Every rejected case lists one item per *class* of disagreement (with the first witness of that class), so that
\* a disagreement of a new kind is reported even when the same case also shows a recorded one.
OrderClass(a, b, code) == [expected |-> CmpSem(a, b), got |-> code % 64, where |-> WhereDiffer(a, b)]

Judge(c) ==
    CASE c.k = "svrow" ->
           LET a == V(c.a)
               bad == { j \in J : (c.codes[j] % 64) # ExpectedCode(CmpSem(a, V(j))) }
               cls(j) == OrderClass(a, V(j), c.codes[j])
           IN IF ~(\A j \in J : V(j).ok) THEN [id |-> c.id, clause |-> "spec-cannot-parse-version"]
              ELSE IF bad = {} THEN Ok(c)
              ELSE [id |-> c.id, clause |-> "SemVerOrder",
                    items |-> { [class |-> k, witness |-> MinOf({ j \in bad : cls(j) = k })] : k \in { cls(j) : j \in bad } }]
      [] c.k = "svtri" ->
           LET a == ParseSemVer(c.s[1]) b == ParseSemVer(c.s[2]) d == ParseSemVer(c.s[3])
               q == c.codes
               pairs == << <<a, b>>, <<b, a>>, <<b, d>>, <<d, b>>, <<a, d>>, <<d, a>> >>
               bad == { n \in 1..6 : (q[n] % 64) # ExpectedCode(CmpSem(pairs[n][1], pairs[n][2])) }
               cls(n) == OrderClass(pairs[n][1], pairs[n][2], q[n])
           IN IF ~(a.ok /\ b.ok /\ d.ok) THEN [id |-> c.id, clause |-> "spec-cannot-parse-version"]
              ELSE IF bad # {} THEN
                   [id |-> c.id, clause |-> "SemVerOrder",
                    items |-> { [class |-> k, witness |-> MinOf({ n \in bad : cls(n) = k })] : k \in { cls(n) : n \in bad } }]
              ELSE IF \E n \in 1..6 : ~WellFormedCode(q[n]) THEN [id |-> c.id, clause |-> "SemVerAxiomRelationsConsistent"]
              ELSE IF ~(Mirror(q[1], q[2]) /\ Mirror(q[3], q[4]) /\ Mirror(q[5], q[6])) THEN [id |-> c.id, clause |-> "SemVerAxiomMirror"]
              ELSE IF ~(Trans(q[1], q[3], q[5]) /\ Trans(q[4], q[2], q[6])) THEN [id |-> c.id, clause |-> "SemVerAxiomTransitive"]
              ELSE Ok(c)
      [] c.k = "req" ->
           LET req == ParseReq(c.r)
               acc == AsSet(c.acc)
               bad == { j \in J : InScope(req, V(j)) /\ ((j \in acc) # Meson(req, V(j))) }
               \* when the rule rejects: the comparators that reject; when it accepts: all of them
               cls(j) == LET v == V(j)
                             exp == Meson(req, v)
                             blame == { n \in 1..Len(req) : exp \/ ~Within(req[n], v, TRUE) }
                         IN [expected |-> exp, got |-> (j \in acc), vpre |-> HasPre(v), gate |-> PreGate(req, v),
                             needspre |-> HasPre(v) /\ ~NamesPre(req),
                             shapes |-> { Shape(req[n], v) : n \in blame }, cargo |-> Cargo(req, v)]
           IN IF ~ReqOk(req) \/ ~(\A j \in J : V(j).ok) THEN [id |-> c.id, clause |-> "spec-cannot-parse-requirement"]
              ELSE IF bad = {} THEN Ok(c)
              ELSE [id |-> c.id, clause |-> "ReqMatch",
                    items |-> { [class |-> k, witness |-> MinOf({ j \in bad : cls(j) = k })] : k \in { cls(j) : j \in bad } }]
      [] c.k = "cfg" ->
           LET cfgs == IF c.cfgs = <<>> THEN File.configs ELSE c.cfgs
               iscfg == IsCfgText(c.text)
               toks == IF iscfg THEN Lex(Inner(c.text)) ELSE <<>>
               strict == Parse(toks, FALSE)
               lax == Parse(toks, TRUE)
               bad == { n \in 1..Len(cfgs) : c.got[n] \notin AllowedWith(strict, lax, cfgs[n]) }
               cls(n) == [got |-> c.got[n], allowed |-> AllowedWith(strict, lax, cfgs[n]),
                          kind |-> IF c.got[n] = "X" THEN "CfgRaisedOtherException"
                                   ELSE IF strict.ok /\ c.got[n] = "E" THEN "CfgWellFormedRejected"
                                   ELSE IF strict.ok THEN "CfgWrongValue"
                                   ELSE "CfgMalformedNotRejected"]
           IN IF ~iscfg THEN [id |-> c.id, clause |-> "spec-not-a-cfg-text"]
              ELSE IF bad = {} THEN Ok(c)
              ELSE [id |-> c.id, clause |-> "Cfg",
                    stringHasDelimiter |-> StringHasDelimiter(toks), badChar |-> HasBadChar(toks),
                    badCharCode |-> IF HasBadChar(toks) THEN toks[Len(toks)].s[1] ELSE 0, ntoks |-> Len(toks),
                    items |-> { [class |-> k, witness |-> MinOf({ n \in bad : cls(n) = k })] : k \in { cls(n) : n \in bad } }]
      [] OTHER -> [id |-> c.id, clause |-> "unknown-case-kind"]

Init == i \in 1..Len(Cases) /\ done = FALSE
Next == /\ ~done
        /\ done' = TRUE
        /\ i' = i
        /\ LET v == Judge(Cases[i]) IN v.clause = "ok" \/ PrintT(ToJson(v))
Spec == Init /\ [][Next]_vars
=============================================================================
