------------------------------ MODULE CMakeFold ------------------------------
(***************************************************************************)
(* Folding a `cmake --trace-expand` command stream into variables and      *)
(* targets with property lists (X09, mesonbuild/cmake/traceparser.py).     *)
(*                                                                         *)
(* Rule book: the CMake command manual (`cmake --help-command <cmd>`) for  *)
(* set, unset, add_library, add_executable, add_custom_target,             *)
(* set_property, set_target_properties, target_link_libraries,             *)
(* target_include_directories, target_compile_definitions,                 *)
(* target_compile_options, target_link_options, add_dependencies, message; *)
(* cmake-language(7) "Lists" and "Variables"; and Meson's own              *)
(* mesonbuild/cmake/data/preload.cmake for the delayed-call protocol       *)
(* (MESON_PS_DELAYED_CALLS / meson_ps_reload_vars /                        *)
(* meson_ps_execute_delayed_calls).                                        *)
(*                                                                         *)
(* A traced command is [cmd, args]; an argument is the LIST it denotes: a  *)
(* sequence of atoms (cmake-language(7): "a list is a string with          *)
(* elements separated by ;"), so the quoted argument "a;b" is <<"a","b">>, *)
(* a keyword is <<"PUBLIC">> and "" is <<>>.  Atoms never contain ";".     *)
(*                                                                         *)
(* State                                                                   *)
(*   vars, cache : name -> list      (normal variables, cache entries)     *)
(*   tg          : name -> [type, imp, props : name -> list, deps, cmds,   *)
(*                          wd]                                            *)
(*   delayed     : command names whose execution is postponed              *)
(*   stored      : postponed commands, in order                            *)
(*   errs        : number of message(FATAL_ERROR|SEND_ERROR) seen          *)
(***************************************************************************)
EXTENDS Integers, Sequences, FiniteSets

Cmd(name, args) == [cmd |-> name, args |-> args]
Kw(k) == <<k>>

\* ---- finite maps ---------------------------------------------------------------
Empty == <<>>
Put(f, k, v) == [x \in DOMAIN f \cup {k} |-> IF x = k THEN v ELSE f[x]]
Del(f, k) == [x \in DOMAIN f \ {k} |-> f[x]]
Get(f, k) == IF k \in DOMAIN f THEN f[k] ELSE <<>>

RECURSIVE Flat(_)
Flat(args) == IF args = <<>> THEN <<>> ELSE Head(args) \o Flat(Tail(args))
RangeOf(s) == { s[i] : i \in 1..Len(s) }
IndexOf(args, a) == IF \E i \in 1..Len(args) : args[i] = a
                    THEN CHOOSE i \in 1..Len(args) : args[i] = a /\ \A j \in 1..(i - 1) : args[j] # a
                    ELSE 0
HasArg(args, k) == IndexOf(args, Kw(k)) # 0
Without(args, k) == SelectSeq(args, LAMBDA a : a # Kw(k))

InitState == [vars |-> Empty, cache |-> Empty, tg |-> Empty, delayed |-> <<>>, stored |-> <<>>, errs |-> 0]
NewTarget(type, imp) == [type |-> type, imp |-> imp, props |-> Empty, deps |-> <<>>, cmds |-> <<>>, wd |-> ""]
HasTg(S, t) == t \in DOMAIN S.tg
SetProp(S, t, p, v) == [S EXCEPT !.tg = Put(S.tg, t, [S.tg[t] EXCEPT !.props = IF v = <<>> THEN Del(@, p) ELSE Put(@, p, v)])]
PropOf(S, t, p) == Get(S.tg[t].props, p)

\* cmake-language(7) "Variable References": a normal variable hides a cache entry of the same name
Lookup(S, v) == IF v \in DOMAIN S.vars THEN S.vars[v] ELSE Get(S.cache, v)

\* ---- set / unset -------------------------------------------------------------------
\* set(<variable> <value>...): "Multiple arguments will be joined as a semicolon-separated list to form the
\*   actual variable value to be set.  Zero arguments will cause normal variables to be unset."
\* set(<variable> <value>... CACHE <type> <docstring> [FORCE]): "does not overwrite existing cache entries by
\*   default.  Use the FORCE option to overwrite existing entries."
DoSet(S, args) ==
    IF args = <<>> \/ Len(args[1]) # 1 THEN S
    ELSE LET var == args[1][1]
             rest == Tail(args)
             ci == IndexOf(rest, Kw("CACHE"))
         IN IF ci = 0
            THEN IF rest = <<>> THEN [S EXCEPT !.vars = Del(@, var)]
                 ELSE [S EXCEPT !.vars = Put(@, var, Flat(rest))]
            ELSE LET vals == Flat(SubSeq(rest, 1, ci - 1))
                     force == Len(rest) >= ci + 3 /\ rest[Len(rest)] = Kw("FORCE")
                 IN IF var \in DOMAIN S.cache /\ ~force THEN S
                    ELSE [S EXCEPT !.cache = Put(@, var, vals)]
\* unset(<variable> [CACHE]): "Removes a normal variable from the current scope ... If CACHE is present, then a
\*   cache variable is removed instead of a normal variable."
DoUnset(S, args) ==
    IF args = <<>> \/ Len(args[1]) # 1 THEN S
    ELSE IF Len(args) >= 2 /\ args[2] = Kw("CACHE") THEN [S EXCEPT !.cache = Del(@, args[1][1])]
    ELSE [S EXCEPT !.vars = Del(@, args[1][1])]

\* ---- targets ---------------------------------------------------------------------------
\* add_library(<name> INTERFACE [IMPORTED [GLOBAL]]) | add_library(<name> <type> IMPORTED [GLOBAL])
\* | add_library(<name> ALIAS <target>) | add_library(<name> [STATIC|SHARED|MODULE] [EXCLUDE_FROM_ALL] <src>...)
\* The type of a library built by the project itself is abstracted to "NORMAL".
\* An ALIAS "can be used to refer to <target> in subsequent commands": linking to it links to <target>.
DoAddLibrary(S, args) ==
    IF args = <<>> \/ Len(args[1]) # 1 THEN S
    ELSE LET name == args[1][1] IN
         IF HasArg(args, "INTERFACE") THEN [S EXCEPT !.tg = Put(@, name, NewTarget("INTERFACE", HasArg(args, "IMPORTED")))]
         ELSE IF HasArg(args, "IMPORTED")
              THEN IF Len(args) >= 3 /\ Len(args[2]) = 1 THEN [S EXCEPT !.tg = Put(@, name, NewTarget(args[2][1], TRUE))] ELSE S
         ELSE IF HasArg(args, "ALIAS")
              THEN IF Len(args) >= 3 /\ Len(args[3]) = 1
                   THEN [S EXCEPT !.tg = Put(@, name, [NewTarget("ALIAS", FALSE) EXCEPT !.props = Put(Empty, "INTERFACE_LINK_LIBRARIES", args[3])])]
                   ELSE S
         ELSE [S EXCEPT !.tg = Put(@, name, NewTarget("NORMAL", FALSE))]
\* add_executable(<name> IMPORTED [GLOBAL]); executables built by the project are outside this model
DoAddExecutable(S, args) ==
    IF args # <<>> /\ Len(args[1]) = 1 /\ HasArg(args, "IMPORTED")
    THEN [S EXCEPT !.tg = Put(@, args[1][1], NewTarget("EXECUTABLE", TRUE))]
    ELSE S

\* add_custom_target(Name [ALL] [command1 [args1...]] [COMMAND command2 [args2...] ...] [DEPENDS depend...]
\*                   [BYPRODUCTS [files...]] [WORKING_DIRECTORY dir] [COMMENT comment] [JOB_POOL job_pool]
\*                   [VERBATIM] [USES_TERMINAL] [COMMAND_EXPAND_LISTS] [SOURCES src1 [src2...]])
CustomKeywords == {"COMMAND", "DEPENDS", "BYPRODUCTS", "WORKING_DIRECTORY", "COMMENT", "JOB_POOL", "VERBATIM",
                   "USES_TERMINAL", "COMMAND_EXPAND_LISTS", "SOURCES"}
RECURSIVE CustomScan(_, _, _, _)
\* atoms from index i on; mode = keyword in force ("COMMAND0" = the leading command without keyword); acc = [cmds, deps, wd]
CustomScan(atoms, i, mode, acc) ==
    IF i > Len(atoms) THEN acc
    ELSE LET a == atoms[i] IN
         IF a \in CustomKeywords
         THEN CustomScan(atoms, i + 1, a, IF a = "COMMAND" THEN [acc EXCEPT !.cmds = Append(@, <<>>)] ELSE acc)
         ELSE CASE mode = "COMMAND0" ->
                     CustomScan(atoms, i + 1, "COMMAND", [acc EXCEPT !.cmds = Append(@, <<a>>)])
                [] mode = "COMMAND" ->
                     CustomScan(atoms, i + 1, mode, [acc EXCEPT !.cmds = [@ EXCEPT ![Len(@)] = Append(@, a)]])
                [] mode = "DEPENDS" -> CustomScan(atoms, i + 1, mode, [acc EXCEPT !.deps = Append(@, a)])
                [] mode = "WORKING_DIRECTORY" -> CustomScan(atoms, i + 1, mode, [acc EXCEPT !.wd = a])
                [] OTHER -> CustomScan(atoms, i + 1, mode, acc)
DoAddCustomTarget(S, args) ==
    IF args = <<>> \/ Len(args[1]) # 1 THEN S
    ELSE LET rest0 == Flat(Tail(args))                      \* "commands can be passed as ; separated lists"
             rest == IF rest0 # <<>> /\ rest0[1] = "ALL" THEN Tail(rest0) ELSE rest0
             r == CustomScan(rest, 1, "COMMAND0", [cmds |-> <<>>, deps |-> <<>>, wd |-> ""])
         IN [S EXCEPT !.tg = Put(@, args[1][1], [NewTarget("CUSTOM", FALSE) EXCEPT !.cmds = r.cmds, !.deps = r.deps, !.wd = r.wd])]

\* ---- properties ----------------------------------------------------------------------------
\* set_property(TARGET [<target1> ...] [APPEND] [APPEND_STRING] PROPERTY <name> [<value1> ...])
\*  "Remaining arguments are used to compose the property value in the form of a semicolon-separated list.
\*   If the APPEND option is given the list is appended to any existing property value (except that empty values
\*   are ignored and not appended).  If the APPEND_STRING option is given the string is appended to any existing
\*   property value as string, i.e. it results in a longer string and not a list of strings. ... If the property
\*   is not already directly set in the nominated scope, the command will behave as though APPEND or
\*   APPEND_STRING had not been given."
StringAppend(old, new) == IF old = <<>> THEN new ELSE IF new = <<>> THEN old
                          ELSE SubSeq(old, 1, Len(old) - 1) \o <<old[Len(old)] \o new[1]>> \o Tail(new)
\* mode "set" | "append" | "append_string", applied to one target
SetOne(S, t, name, vals, mode) ==
    LET old == PropOf(S, t, name) IN
    IF mode = "append_string" /\ old # <<>> THEN SetProp(S, t, name, StringAppend(old, vals))
    ELSE IF mode = "append" /\ old # <<>> THEN SetProp(S, t, name, old \o vals)
    ELSE SetProp(S, t, name, vals)
RECURSIVE SetOnTargets(_, _, _, _, _)
SetOnTargets(S, ts, name, vals, mode) ==
    IF ts = <<>> THEN S
    ELSE SetOnTargets(IF HasTg(S, Head(ts)) THEN SetOne(S, Head(ts), name, vals, mode) ELSE S, Tail(ts), name, vals, mode)
DoSetProperty(S, args) ==
    LET pi == IndexOf(args, Kw("PROPERTY")) IN
    IF args = <<>> \/ args[1] # Kw("TARGET") \/ pi = 0 \/ pi = Len(args) \/ Len(args[pi + 1]) # 1 THEN S
    ELSE LET head == SubSeq(args, 2, pi - 1)
             append == HasArg(head, "APPEND")
             appstr == HasArg(head, "APPEND_STRING")
             targets == Flat(Without(Without(head, "APPEND"), "APPEND_STRING"))
             name == args[pi + 1][1]
             vals == Flat(SubSeq(args, pi + 2, Len(args)))
         IN SetOnTargets(S, targets, name, vals, IF appstr THEN "append_string" ELSE IF append THEN "append" ELSE "set")
\* set_target_properties(target1 target2 ... PROPERTIES prop1 value1 prop2 value2 ...)
RECURSIVE SetPairs(_, _, _)
SetPairs(S, t, pairs) == IF Len(pairs) < 2 THEN S
                         ELSE SetPairs(IF Len(pairs[1]) = 1 THEN SetProp(S, t, pairs[1][1], pairs[2]) ELSE S, t, SubSeq(pairs, 3, Len(pairs)))
RECURSIVE PairsOnTargets(_, _, _)
PairsOnTargets(S, ts, pairs) ==
    IF ts = <<>> THEN S
    ELSE PairsOnTargets(IF HasTg(S, Head(ts)) THEN SetPairs(S, Head(ts), pairs) ELSE S, Tail(ts), pairs)
DoSetTargetProperties(S, args) ==
    LET pi == IndexOf(args, Kw("PROPERTIES")) IN
    IF pi = 0 THEN S
    ELSE LET targets == Flat(SubSeq(args, 1, pi - 1))
             pairs == SubSeq(args, pi + 1, Len(args))
         IN PairsOnTargets(S, targets, pairs)

\* ---- usage requirements: target_*() ---------------------------------------------------------------
\* common form  <cmd>(<target> [flags] <INTERFACE|PUBLIC|PRIVATE> [items1...] [<INTERFACE|PUBLIC|PRIVATE> [items2...] ...])
\*  "PRIVATE and PUBLIC items will populate the <P> property of <target>.  PUBLIC and INTERFACE items will
\*   populate the INTERFACE_<P> property of <target>. ... Repeated calls for the same <target> append items in
\*   the order called."  BEFORE: "the content will be prepended to the property instead of being appended";
\*   target_include_directories: "By using AFTER or BEFORE explicitly, you can select between appending and
\*   prepending"; SYSTEM marks the directories as system include directories (no effect on these two properties).
\* target_link_libraries: <target> <item>... (no keyword) "Library dependencies are transitive by default with
\*   this signature" (own and interface); LINK_PUBLIC = PUBLIC, LINK_PRIVATE = PRIVATE,
\*   LINK_INTERFACE_LIBRARIES = INTERFACE (legacy signatures).
TargetCommands == {"target_link_libraries", "target_include_directories", "target_compile_definitions",
                   "target_compile_options", "target_link_options"}
OwnProp(cmd) == CASE cmd = "target_link_libraries" -> "LINK_LIBRARIES"
                  [] cmd = "target_include_directories" -> "INCLUDE_DIRECTORIES"
                  [] cmd = "target_compile_definitions" -> "COMPILE_DEFINITIONS"
                  [] cmd = "target_compile_options" -> "COMPILE_OPTIONS"
                  [] cmd = "target_link_options" -> "LINK_OPTIONS"
IfaceProp(cmd) == "INTERFACE_" \o OwnProp(cmd)
FlagWords(cmd) == CASE cmd = "target_include_directories" -> {"SYSTEM", "BEFORE", "AFTER"}
                    [] cmd \in {"target_compile_options", "target_link_options"} -> {"BEFORE"}
                    [] OTHER -> {}
ScopeWords(cmd) == IF cmd = "target_link_libraries"
                   THEN {"PUBLIC", "PRIVATE", "INTERFACE", "LINK_PUBLIC", "LINK_PRIVATE", "LINK_INTERFACE_LIBRARIES"}
                   ELSE {"PUBLIC", "PRIVATE", "INTERFACE"}
ToOwn(scope) == scope \in {"PUBLIC", "PRIVATE", "LINK_PUBLIC", "LINK_PRIVATE", "PLAIN"}
ToIface(scope) == scope \in {"PUBLIC", "INTERFACE", "LINK_PUBLIC", "LINK_INTERFACE_LIBRARIES", "PLAIN"}
IsWord(arg, words) == Len(arg) = 1 /\ arg[1] \in words
RECURSIVE Route(_, _, _, _, _)
\* args from index i on, scope in force; r = [own, iface]: the items routed so far, in order
Route(cmd, args, i, scope, r) ==
    IF i > Len(args) THEN r
    ELSE IF IsWord(args[i], ScopeWords(cmd)) THEN Route(cmd, args, i + 1, args[i][1], r)
    ELSE Route(cmd, args, i + 1, scope,
               [own |-> IF ToOwn(scope) THEN r.own \o args[i] ELSE r.own,
                iface |-> IF ToIface(scope) THEN r.iface \o args[i] ELSE r.iface])
RECURSIVE SkipFlags(_, _, _)
SkipFlags(cmd, args, i) == IF i <= Len(args) /\ IsWord(args[i], FlagWords(cmd)) THEN SkipFlags(cmd, args, i + 1) ELSE i
Routed(cmd, args) ==
    LET i == SkipFlags(cmd, args, 2)
        flags == { args[j][1] : j \in 2..(i - 1) }
        r == Route(cmd, args, i, IF cmd = "target_link_libraries" THEN "PLAIN" ELSE "NONE", [own |-> <<>>, iface |-> <<>>])
    IN [own |-> r.own, iface |-> r.iface, before |-> "BEFORE" \in flags]
Extend(old, items, before) == IF before THEN items \o old ELSE old \o items
DoTargetCommand(S, cmd, args) ==
    IF args = <<>> \/ Len(args[1]) # 1 \/ ~HasTg(S, args[1][1]) THEN S
    ELSE LET t == args[1][1]
             r == Routed(cmd, args)
             S1 == IF r.own = <<>> THEN S ELSE SetProp(S, t, OwnProp(cmd), Extend(PropOf(S, t, OwnProp(cmd)), r.own, r.before))
         IN IF r.iface = <<>> THEN S1 ELSE SetProp(S1, t, IfaceProp(cmd), Extend(PropOf(S1, t, IfaceProp(cmd)), r.iface, r.before))

\* add_dependencies(<target> [<target-dependency>]...)
DoAddDependencies(S, args) ==
    IF Len(args) < 2 \/ Len(args[1]) # 1 \/ ~HasTg(S, args[1][1]) THEN S
    ELSE [S EXCEPT !.tg = Put(@, args[1][1], [S.tg[args[1][1]] EXCEPT !.deps = @ \o Flat(Tail(args))])]

\* message([<mode>] "message text" ...): FATAL_ERROR "CMake Error, stop processing and generation",
\*   SEND_ERROR "CMake Error, continue processing, but skip generation"
DoMessage(S, args) == IF args # <<>> /\ IsWord(args[1], {"FATAL_ERROR", "SEND_ERROR"}) THEN [S EXCEPT !.errs = @ + 1] ELSE S

\* ---- dispatch, with Meson's delayed calls (preload.cmake) -------------------------------------------
\* preload.cmake: `set(MESON_PS_DELAYED_CALLS add_custom_command;add_custom_target;set_property)` followed by
\* `meson_ps_reload_vars()`; the overriding macros call meson_ps_execute_delayed_calls() after the helper
\* variables of the call site are set.  A command named in MESON_PS_DELAYED_CALLS (as of the last reload) takes
\* effect when the next meson_ps_execute_delayed_calls() is traced, in the original order.
RECURSIVE Exec(_, _), ExecAll(_, _)
Exec(S, c) ==
    CASE c.cmd = "set" -> DoSet(S, c.args)
      [] c.cmd = "unset" -> DoUnset(S, c.args)
      [] c.cmd = "add_library" -> DoAddLibrary(S, c.args)
      [] c.cmd = "add_executable" -> DoAddExecutable(S, c.args)
      [] c.cmd = "add_custom_target" -> DoAddCustomTarget(S, c.args)
      [] c.cmd = "set_property" -> DoSetProperty(S, c.args)
      [] c.cmd = "set_target_properties" -> DoSetTargetProperties(S, c.args)
      [] c.cmd \in TargetCommands -> DoTargetCommand(S, c.cmd, c.args)
      [] c.cmd = "add_dependencies" -> DoAddDependencies(S, c.args)
      [] c.cmd = "message" -> DoMessage(S, c.args)
      [] c.cmd = "meson_ps_reload_vars" -> [S EXCEPT !.delayed = Lookup(S, "MESON_PS_DELAYED_CALLS")]
      [] c.cmd = "meson_ps_execute_delayed_calls" -> ExecAll([S EXCEPT !.stored = <<>>], S.stored)
      [] OTHER -> S                                   \* any other traced command has no effect on this state
ExecAll(S, cs) == IF cs = <<>> THEN S ELSE ExecAll(Exec(S, Head(cs)), Tail(cs))

Step(S, c) == IF c.cmd \in RangeOf(S.delayed) THEN [S EXCEPT !.stored = Append(@, c)] ELSE Exec(S, c)
RECURSIVE Fold(_, _)
Fold(S, cs) == IF cs = <<>> THEN S ELSE Fold(Step(S, Head(cs)), Tail(cs))

\* ---- which commands concern which target / variable ---------------------------------------------------------
\* the targets a command names (as subject) and the variables it writes
Subjects(c) ==
    CASE c.cmd \in {"add_library", "add_executable", "add_custom_target", "add_dependencies"} \cup TargetCommands ->
           IF c.args # <<>> THEN RangeOf(c.args[1]) ELSE {}
      [] c.cmd = "set_property" ->
           LET pi == IndexOf(c.args, Kw("PROPERTY")) IN
           IF pi = 0 THEN {} ELSE RangeOf(Flat(SubSeq(c.args, 2, pi - 1))) \ {"APPEND", "APPEND_STRING"}
      [] c.cmd = "set_target_properties" ->
           LET pi == IndexOf(c.args, Kw("PROPERTIES")) IN IF pi = 0 THEN {} ELSE RangeOf(Flat(SubSeq(c.args, 1, pi - 1)))
      [] OTHER -> {}
VarsOf(c) == IF c.cmd \in {"set", "unset"} /\ c.args # <<>> THEN RangeOf(c.args[1]) ELSE {}

\* ---- what an observer can see -----------------------------------------------------------------------
\* variables through Lookup; per target: kind, imported flag, the non-empty properties, dependencies, commands
ObsTarget(T) == [type |-> T.type, imp |-> T.imp, props |-> T.props, deps |-> T.deps, cmds |-> T.cmds, wd |-> T.wd]
Obs(S, varNames) == [vars |-> [v \in varNames |-> Lookup(S, v)],
                     tg |-> [t \in DOMAIN S.tg |-> ObsTarget(S.tg[t])],
                     errs |-> S.errs]
=============================================================================
