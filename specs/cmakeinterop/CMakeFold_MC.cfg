SPECIFICATION Spec
CONSTANTS MaxLen = 2
 Preloaded = FALSE
INVARIANT Total
INVARIANT Incremental
INVARIANT SliceLaw
INVARIANT Commute
INVARIANT DelayedIsMoved
PROPERTY AppendKeeps
PROPERTY InterfaceStaysOut
PROPERTY CacheNeedsForce
CHECK_DEADLOCK FALSE
POSTCONDITION EmitAlphabet
