---------------------------- MODULE CMakeFold_MC ----------------------------
(***************************************************************************)
(* Bounded exhaustive model of the trace folding (X09): every sequence of  *)
(* at most MaxLen commands over a fixed alphabet, starting from a state    *)
(* with one library built by the project (n1) and one imported interface   *)
(* library (i1).  The laws:                                                *)
(*   Total            Step is defined for every command in every state     *)
(*                    and keeps the state well-formed                      *)
(*   Incremental      the state is the fold of the history                 *)
(*   SliceLaw         (second formulation) the value of a property of a    *)
(*                    target / of a variable is the fold of only those     *)
(*                    commands of the history that name that target /      *)
(*                    variable - all other commands are irrelevant         *)
(*   Commute          commands on different targets (or a target command   *)
(*                    and a variable command) can be swapped               *)
(*   AppendKeeps      an appending command never drops earlier items       *)
(*   InterfaceStaysOut  an item given only under INTERFACE never reaches   *)
(*                    the target's own (non-interface) property            *)
(*   CacheNeedsForce  an existing cache entry changes only with FORCE      *)
(*   DelayedIsMoved   the delayed-call protocol equals moving the delayed  *)
(*                    commands to the next flush (checked from the plain   *)
(*                    start and, Preloaded, from the state preload.cmake   *)
(*                    leaves, where up to MaxLen commands pile up)         *)
(* The alphabet is exported for the replay through the real parser.        *)
(***************************************************************************)
EXTENDS CMakeFold, TLC, Json, IOUtils, SequencesExt
CONSTANTS MaxLen,
          Preloaded      \* TRUE: the state after Meson's preload.cmake announced the delayed commands

A(x) == <<x>>
K(x) == <<x>>
C(name, args) == Cmd(name, args)

VarNames == {"V", "W", "CV", "MESON_PS_DELAYED_CALLS"}

\* h = 1: also replayed in the (lossy) human trace format, where an argument cannot contain a blank and a
\* value made of several arguments cannot be told from one argument with blanks
Alphabet == <<
  [h |-> 0, c |-> C("set", <<A("V"), A("a1"), A("a2")>>)],
  [h |-> 1, c |-> C("set", <<A("V"), <<"b1", "b2">>>>)],
  [h |-> 1, c |-> C("set", <<A("V"), A("c1")>>)],
  [h |-> 0, c |-> C("set", <<A("V"), <<"d1", "d2">>, A("d3")>>)],
  [h |-> 1, c |-> C("set", <<A("V")>>)],
  [h |-> 1, c |-> C("set", <<A("W"), <<>>>>)],
  [h |-> 1, c |-> C("set", <<A("W"), A("w1")>>)],
  [h |-> 1, c |-> C("unset", <<A("V")>>)],
  [h |-> 1, c |-> C("set", <<A("CV"), A("e1"), K("CACHE"), K("STRING"), A("doc")>>)],
  [h |-> 1, c |-> C("set", <<A("CV"), A("e2"), K("CACHE"), K("STRING"), A("doc")>>)],
  [h |-> 1, c |-> C("set", <<A("CV"), A("e3"), K("CACHE"), K("BOOL"), A("doc"), K("FORCE")>>)],
  [h |-> 1, c |-> C("unset", <<A("CV"), K("CACHE")>>)],
  [h |-> 1, c |-> C("add_library", <<A("i2"), K("INTERFACE")>>)],
  [h |-> 1, c |-> C("add_library", <<A("s1"), K("SHARED"), K("IMPORTED"), K("GLOBAL")>>)],
  [h |-> 1, c |-> C("add_library", <<A("al"), K("ALIAS"), A("n1")>>)],
  [h |-> 1, c |-> C("add_executable", <<A("e1"), K("IMPORTED")>>)],
  [h |-> 1, c |-> C("add_custom_target", <<A("ct"), K("COMMAND"), A("tool"), A("x1"), K("DEPENDS"), A("dep1"), K("WORKING_DIRECTORY"), A("/wd"), K("VERBATIM")>>)],
  [h |-> 1, c |-> C("add_custom_target", <<A("ct"), K("ALL"), A("tool0"), A("y1"), K("COMMAND"), A("tool2"), <<"y2", "y3">>>>)],
  [h |-> 1, c |-> C("add_custom_target", <<A("ct2"), K("COMMAND"), A("tool3"), K("DEPENDS"), A("dep2"), K("SOURCES"), A("s.c")>>)],
  [h |-> 1, c |-> C("set_property", <<K("TARGET"), A("n1"), K("PROPERTY"), A("P"), <<"p1", "p2">>>>)],
  [h |-> 0, c |-> C("set_property", <<K("TARGET"), A("n1"), A("i1"), K("PROPERTY"), A("P"), A("p3"), A("p4")>>)],
  [h |-> 1, c |-> C("set_property", <<K("TARGET"), A("n1"), K("APPEND"), K("PROPERTY"), A("P"), A("p5")>>)],
  [h |-> 1, c |-> C("set_property", <<K("TARGET"), A("i1"), K("APPEND"), K("PROPERTY"), A("INTERFACE_LINK_LIBRARIES"), <<"p6", "p7">>>>)],
  [h |-> 1, c |-> C("set_property", <<K("TARGET"), A("n1"), K("APPEND_STRING"), K("PROPERTY"), A("P"), A("p8")>>)],
  [h |-> 1, c |-> C("set_property", <<K("TARGET"), A("n1"), K("PROPERTY"), A("P")>>)],
  [h |-> 1, c |-> C("set_property", <<K("TARGET"), A("n1"), K("APPEND"), K("PROPERTY"), A("INCLUDE_DIRECTORIES"), A("/p9")>>)],
  [h |-> 1, c |-> C("set_target_properties", <<A("n1"), A("i1"), K("PROPERTIES"), A("P"), <<"q1", "q2">>, A("Q"), A("q3")>>)],
  [h |-> 1, c |-> C("set_target_properties", <<A("i1"), K("PROPERTIES"), A("INTERFACE_LINK_LIBRARIES"), A("q4")>>)],
  [h |-> 1, c |-> C("target_link_libraries", <<A("n1"), K("PUBLIC"), A("l1"), K("PRIVATE"), A("l2"), K("INTERFACE"), <<"l3", "l4">>>>)],
  [h |-> 1, c |-> C("target_link_libraries", <<A("n1"), A("l5"), A("l6")>>)],
  [h |-> 1, c |-> C("target_link_libraries", <<A("i1"), K("INTERFACE"), A("l7"), A("n1")>>)],
  [h |-> 1, c |-> C("target_link_libraries", <<A("n1"), K("LINK_PRIVATE"), A("l8"), K("LINK_PUBLIC"), A("l9")>>)],
  [h |-> 1, c |-> C("target_link_libraries", <<A("n1"), K("LINK_INTERFACE_LIBRARIES"), A("l10")>>)],
  [h |-> 0, c |-> C("target_include_directories", <<A("n1"), K("PUBLIC"), A("/i1"), K("PRIVATE"), A("/i2"), K("INTERFACE"), A("/i3")>>)],
  [h |-> 0, c |-> C("target_include_directories", <<A("n1"), K("BEFORE"), K("PRIVATE"), A("/i4"), A("/i5")>>)],
  [h |-> 1, c |-> C("target_include_directories", <<A("n1"), K("BEFORE"), K("PUBLIC"), A("/i9")>>)],
  [h |-> 1, c |-> C("target_include_directories", <<A("n1"), K("PRIVATE"), A("/i10")>>)],
  [h |-> 1, c |-> C("target_include_directories", <<A("n1"), K("SYSTEM"), K("AFTER"), K("PUBLIC"), A("/i6")>>)],
  [h |-> 0, c |-> C("target_include_directories", <<A("i1"), K("SYSTEM"), K("INTERFACE"), <<"/i7", "/i8">>>>)],
  [h |-> 1, c |-> C("target_compile_definitions", <<A("n1"), K("PRIVATE"), A("D1"), K("INTERFACE"), A("D2=1"), K("PUBLIC"), A("D3")>>)],
  [h |-> 1, c |-> C("target_compile_definitions", <<A("i1"), K("INTERFACE"), A("D4")>>)],
  [h |-> 1, c |-> C("target_compile_options", <<A("n1"), K("PRIVATE"), A("-O1"), K("PUBLIC"), A("-O2")>>)],
  [h |-> 1, c |-> C("target_compile_options", <<A("n1"), K("BEFORE"), K("PUBLIC"), A("-O3"), A("-O4")>>)],
  [h |-> 1, c |-> C("target_link_options", <<A("n1"), K("INTERFACE"), A("-L1"), K("PRIVATE"), A("-L2")>>)],
  [h |-> 1, c |-> C("target_link_options", <<A("n1"), K("BEFORE"), K("PRIVATE"), A("-L3")>>)],
  [h |-> 1, c |-> C("add_dependencies", <<A("n1"), A("i1"), A("gen")>>)],
  [h |-> 1, c |-> C("message", <<K("FATAL_ERROR"), A("boom")>>)],
  [h |-> 1, c |-> C("message", <<K("SEND_ERROR"), A("bad")>>)],
  [h |-> 1, c |-> C("message", <<K("STATUS"), A("fine")>>)],
  [h |-> 1, c |-> C("message", <<A("plain")>>)],
  [h |-> 1, c |-> C("set", <<A("MESON_PS_DELAYED_CALLS"), <<"set_property", "add_custom_target">>>>)],
  [h |-> 1, c |-> C("meson_ps_reload_vars", <<>>)],
  [h |-> 1, c |-> C("meson_ps_execute_delayed_calls", <<>>)],
  [h |-> 1, c |-> C("cmake_minimum_required", <<K("VERSION"), A("3.17")>>)]
>>

Prelude == << C("add_library", <<A("n1"), K("SHARED"), A("n1.c")>>),
              C("add_library", <<A("i1"), K("INTERFACE"), K("IMPORTED")>>) >>
\* what preload.cmake does before the project's own commands are traced
PreloadHeader == << C("set", <<A("MESON_PS_DELAYED_CALLS"), <<"add_custom_target", "set_property", "target_link_libraries">>>>),
                    C("meson_ps_reload_vars", <<>>) >>
Start == Fold(InitState, IF Preloaded THEN Prelude \o PreloadHeader ELSE Prelude)

VARIABLES st, hist
vars == <<st, hist>>
Init == st = Start /\ hist = <<>>
Next == /\ Len(hist) < MaxLen
        /\ \E k \in 1..Len(Alphabet) : /\ st' = Step(st, Alphabet[k].c)
                                       /\ hist' = Append(hist, Alphabet[k].c)
Spec == Init /\ [][Next]_vars

\* ---- shape ---------------------------------------------------------------------------------
IsList(l) == l \in Seq(STRING)
Total == /\ DOMAIN st = {"vars", "cache", "tg", "delayed", "stored", "errs"}
         /\ \A v \in DOMAIN st.vars : IsList(st.vars[v])
         /\ \A t \in DOMAIN st.tg : /\ \A p \in DOMAIN st.tg[t].props : IsList(st.tg[t].props[p]) /\ st.tg[t].props[p] # <<>>
                                    /\ IsList(st.tg[t].deps)
         /\ st.errs \in 0..MaxLen
         /\ {"n1", "i1"} \subseteq DOMAIN st.tg
Incremental == st = Fold(Start, hist)

\* ---- which commands matter for a component -----------------------------------------------------
IsProtocol(c) == c.cmd \in {"meson_ps_reload_vars", "meson_ps_execute_delayed_calls"} \/ "MESON_PS_DELAYED_CALLS" \in VarsOf(c)
UsesProtocol(h) == \E i \in 1..Len(h) : IsProtocol(h[i])

\* second formulation: the slice of the history that concerns target t / variable v decides its value
TargetSlice(h, t) == SelectSeq(h, LAMBDA c : t \in Subjects(c))
VarSlice(h, v) == SelectSeq(h, LAMBDA c : v \in VarsOf(c))
SliceLaw ==
    (~Preloaded /\ ~UsesProtocol(hist)) =>
        /\ \A t \in DOMAIN st.tg : t \in DOMAIN Fold(Start, TargetSlice(hist, t)).tg
                                   /\ st.tg[t] = Fold(Start, TargetSlice(hist, t)).tg[t]
        /\ \A v \in VarNames : Lookup(st, v) = Lookup(Fold(Start, VarSlice(hist, v)), v)
        /\ st.errs = Cardinality({ i \in 1..Len(hist) : hist[i].cmd = "message" /\ IsWord(hist[i].args[1], {"FATAL_ERROR", "SEND_ERROR"}) })

\* order independence: the last two commands may be swapped when they concern different things
Independent(c, d) == /\ ~IsProtocol(c) /\ ~IsProtocol(d)
                     /\ Subjects(c) \cap Subjects(d) = {}
                     /\ VarsOf(c) \cap VarsOf(d) = {}
                     \* a command that refers to a target by name needs the target to exist (ALIAS n1, items are free text)
Commute ==
    (Len(hist) >= 2 /\ ~Preloaded /\ ~UsesProtocol(hist) /\ Independent(hist[Len(hist) - 1], hist[Len(hist)])) =>
        LET n == Len(hist) IN Fold(Start, SubSeq(hist, 1, n - 2) \o <<hist[n], hist[n - 1]>>) = st

\* ---- action properties --------------------------------------------------------------------------
IsSubseqAt(small, big, off) == Len(big) >= off + Len(small) /\ SubSeq(big, off + 1, off + Len(small)) = small
LastCmd == hist'[Len(hist')]
Appending(c) == \/ c.cmd \in TargetCommands \/ c.cmd = "add_dependencies"
                \/ (c.cmd = "set_property" /\ (HasArg(c.args, "APPEND") \/ HasArg(c.args, "APPEND_STRING")))
\* an appending command keeps every earlier item of every property, in order: as a prefix, or as a suffix when it prepends
AppendKeeps ==
    [][ (Appending(LastCmd) /\ LastCmd.cmd \notin RangeOf(st.delayed)) =>
          \A t \in DOMAIN st.tg :
             /\ t \in DOMAIN st'.tg
             /\ IsSubseqAt(st.tg[t].deps, st'.tg[t].deps, 0)
             /\ \A p \in DOMAIN st.tg[t].props :
                   LET old == st.tg[t].props[p]
                       new == Get(st'.tg[t].props, p)
                   IN IF HasArg(LastCmd.args, "APPEND_STRING")
                      THEN Len(new) >= Len(old) /\ SubSeq(new, 1, Len(old) - 1) = SubSeq(old, 1, Len(old) - 1)
                      ELSE IsSubseqAt(old, new, 0) \/ IsSubseqAt(old, new, Len(new) - Len(old)) ]_vars
\* items written only under INTERFACE (or LINK_INTERFACE_LIBRARIES) do not show up in the own property
RECURSIVE IfaceOnly(_, _, _, _)
IfaceOnly(cmd, args, i, scope) ==
    IF i > Len(args) THEN {}
    ELSE IF IsWord(args[i], ScopeWords(cmd)) THEN IfaceOnly(cmd, args, i + 1, args[i][1])
    ELSE (IF scope \in {"INTERFACE", "LINK_INTERFACE_LIBRARIES"} THEN RangeOf(args[i]) ELSE {}) \cup IfaceOnly(cmd, args, i + 1, scope)
InterfaceStaysOut ==
    [][ LastCmd.cmd \in TargetCommands =>
          LET t == LastCmd.args[1][1]
              only == IfaceOnly(LastCmd.cmd, LastCmd.args, 2, "NONE")
              own == OwnProp(LastCmd.cmd)
          IN \A x \in only : (x \in RangeOf(Get(st'.tg[t].props, own))) => (x \in RangeOf(Get(st.tg[t].props, own))) ]_vars
CacheNeedsForce ==
    [][ \A v \in DOMAIN st.cache :
          (v \in DOMAIN st'.cache /\ st'.cache[v] # st.cache[v]) => (LastCmd.cmd = "set" /\ HasArg(LastCmd.args, "FORCE")) ]_vars

\* ---- the delayed-call protocol equals moving the commands ---------------------------------------------
\* the names delayed after each prefix are those of the plain fold (a reload reads the variable as it is then)
RECURSIVE MovedHist(_, _, _, _)
MovedHist(h, S, delayed, waiting) ==
    IF h = <<>> THEN <<>>
    ELSE LET c == Head(h) IN
         IF c.cmd \in RangeOf(delayed) THEN MovedHist(Tail(h), S, delayed, Append(waiting, c))
         ELSE IF c.cmd = "meson_ps_execute_delayed_calls" THEN waiting \o MovedHist(Tail(h), ExecAll(S, waiting), delayed, <<>>)
         ELSE IF c.cmd = "meson_ps_reload_vars" THEN MovedHist(Tail(h), S, Lookup(S, "MESON_PS_DELAYED_CALLS"), waiting)
         ELSE <<c>> \o MovedHist(Tail(h), Exec(S, c), delayed, waiting)
NoDelayFold(h) == ExecAll(Start, h)
DelayedIsMoved ==
    LET plain == NoDelayFold(MovedHist(hist, Start, Start.delayed, <<>>))
    IN /\ plain.vars = st.vars /\ plain.cache = st.cache /\ plain.tg = st.tg /\ plain.errs = st.errs

\* ---- export ---------------------------------------------------------------------------------------------
EmitAlphabet == /\ TLCGet("stats").diameter >= 0
                /\ JsonSerialize("fold_alphabet.json", [alphabet |-> Alphabet, prelude |-> Prelude, header |-> PreloadHeader,
                                                        vars |-> SetToSeq(VarNames)])
=============================================================================
