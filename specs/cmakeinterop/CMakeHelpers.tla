----------------------------- MODULE CMakeHelpers -----------------------------
(***************************************************************************)
(* The small text helpers of mesonbuild/cmake/common.py (X09).             *)
(*                                                                         *)
(* DefinesToArgs - docs/markdown/CMake-module.md, "cmake options object":  *)
(*   `add_cmake_defines({'opt1': val1, ...})` adds CMake command line      *)
(*   defines; the worked example "Call CMake with -DSOME_OTHER_VAR=ON":    *)
(*   `opt_var.add_cmake_defines({'SOME_OTHER_VAR': true})`.  So a define   *)
(*   is the argument -D<name>=<value>, a boolean is spelled ON / OFF, a    *)
(*   string is taken as it is, an integer in decimal.  "Directly setting   *)
(*   a CMake toolchain file with -DCMAKE_TOOLCHAIN_FILE=... is not         *)
(*   supported": that define is dropped.                                   *)
(* FlagsToList - the compile/link command fragments of the CMake file API  *)
(*   are "encoded in the build system's native shell format"               *)
(*   (cmake-file-api(7), codemodel "fragment"), i.e. for the generators    *)
(*   Meson drives on POSIX hosts the words a POSIX shell would see: that   *)
(*   is Quoting!ShSplit (module Quoting, written for C03) on one command.  *)
(***************************************************************************)
EXTENDS GenexText, Quoting

RECURSIVE NatStr(_)
NatStr(n) == IF n < 10 THEN Char(DigitChars, n + 1) ELSE NatStr(n \div 10) \o Char(DigitChars, (n % 10) + 1)
IntStr(n) == IF n < 0 THEN "-" \o NatStr(0 - n) ELSE NatStr(n)

\* a define is [k, ty, s, n, b]: name, type "str" | "int" | "bool", and the value in the field of its type
DefineValue(d) == CASE d.ty = "bool" -> (IF d.b THEN "ON" ELSE "OFF")
                    [] d.ty = "int" -> IntStr(d.n)
                    [] d.ty = "str" -> d.s
Unsupported == {"CMAKE_TOOLCHAIN_FILE"}
RECURSIVE DefinesToArgs(_)
DefinesToArgs(ds) == IF ds = <<>> THEN <<>>
                     ELSE (IF Head(ds).k \in Unsupported THEN <<>> ELSE <<"-D" \o Head(ds).k \o "=" \o DefineValue(Head(ds))>>)
                          \o DefinesToArgs(Tail(ds))

\* words of a command-line fragment (code points); <<>> for a blank fragment; the fragment must be one simple command
FlagsToList(s) == LET r == ShSplit(s) IN
                  IF r.err # "" THEN [ok |-> FALSE, words |-> <<>>]
                  ELSE IF r.cmds = <<>> THEN [ok |-> TRUE, words |-> <<>>]
                  ELSE [ok |-> Len(r.cmds) = 1, words |-> r.cmds[1]]
=============================================================================
