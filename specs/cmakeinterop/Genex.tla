-------------------------------- MODULE Genex --------------------------------
(***************************************************************************)
(* CMake generator expressions `$<...>` as Meson's CMake interoperability  *)
(* must evaluate them (X09, mesonbuild/cmake/generator.py).                *)
(*                                                                         *)
(* Rule book: cmake-generator-expressions(7) (`cmake --help-manual         *)
(* cmake-generator-expressions`).  The manual defines an expression as a   *)
(* TREE: `$<NAME:p1,p2,...>` where every parameter may again contain       *)
(* expressions; a nested expression is evaluated to a text that takes the  *)
(* place of the expression *inside the parameter it was written in* - the  *)
(* manual provides $<COMMA>, $<SEMICOLON> and $<ANGLE-R> precisely so that *)
(* a parameter can contain these characters ("Used for example to compare  *)
(* strings that contain a ,").  Therefore the abstract syntax is the tree  *)
(* and evaluation is compositional; a text produced by a nested expression *)
(* is never scanned again for `,` `:` or `>`.                              *)
(*                                                                         *)
(* Abstract syntax                                                         *)
(*   param  = sequence of nodes (their values are concatenated)            *)
(*   node   = Lit(text) | Gx(NAME, <<param, ...>>) | Cond(param, param)    *)
(*   Cond(c, body) is `$<c:body>` where c evaluates to 0 or 1              *)
(*   a top-level text is a param.                                          *)
(*                                                                         *)
(* Two formulations, proved equal by Genex_MC:                             *)
(*   EvalP / EvalN  big-step, compositional evaluator                      *)
(*   Redexes / ReduceAt  small-step rewriting (any innermost expression    *)
(*   may be replaced by its value, in any order)                           *)
(*                                                                         *)
(* Results are records [e, v]: e = "" and v the text, or e = reason when   *)
(* the manual says "results in an error" / the expression is not one Meson *)
(* supports; conformance judges values only where e = "".                  *)
(***************************************************************************)
EXTENDS GenexText

Lit(t) == [k |-> "lit", n |-> "", t |-> t, a |-> <<>>]
Gx(n, ps) == [k |-> "gx", n |-> n, t |-> "", a |-> ps]
Cond(c, body) == [k |-> "cond", n |-> "", t |-> "", a |-> <<c, body>>]

Ok(v) == [e |-> "", v |-> v]
Bad(why) == [e |-> why, v |-> ""]
Bit(b) == IF b THEN "1" ELSE "0"

\* ---- evaluation context ------------------------------------------------------
\* ctx.targets : target name -> (property name -> list of items)
\* ctx.self    : the target on which the text is evaluated ("" = none)
\* ctx.debug   : the build configuration is Debug (otherwise Release)
HasTarget(ctx, t) == t \in DOMAIN ctx.targets
\* $<TARGET_PROPERTY:tgt,prop>: "Value of the property prop on the target tgt"; a list-valued
\* property is a semicolon-separated list; an unset property is the empty string
PropText(ctx, t, p) == LET ps == ctx.targets[t] IN IF p \in DOMAIN ps THEN JoinStr(ps[p], ";") ELSE ""

\* $<TARGET_FILE:tgt> "Full path to the tgt binary file" - for the IMPORTED targets Meson sees this is the
\* location cmake-properties(7) IMPORTED_LOCATION describes: "The IMPORTED_LOCATION target property may be overridden
\* for a given configuration <CONFIG> by the configuration-specific IMPORTED_LOCATION_<CONFIG> target property. ...
\* If none of these is set then the name of any other configuration listed in the IMPORTED_CONFIGURATIONS target
\* property may be selected and its IMPORTED_LOCATION_<CONFIG> value used."  ("any other": the first listed one that
\* has a location; inputs are generated with at most one candidate.)
NonEmptyProp(ps, p) == p \in DOMAIN ps /\ ps[p] # <<>> /\ ps[p][1] # ""
Location(ctx, t) ==
    IF ~HasTarget(ctx, t) THEN Bad("no-such-target")
    ELSE LET ps == ctx.targets[t]
             want == "IMPORTED_LOCATION_" \o (IF ctx.debug THEN "DEBUG" ELSE "RELEASE")
             cfgs == IF "IMPORTED_CONFIGURATIONS" \in DOMAIN ps THEN ps["IMPORTED_CONFIGURATIONS"] ELSE <<>>
             others == { i \in 1..Len(cfgs) : NonEmptyProp(ps, "IMPORTED_LOCATION_" \o cfgs[i]) }
         IN IF NonEmptyProp(ps, want) THEN Ok(ps[want][1])
            ELSE IF NonEmptyProp(ps, "IMPORTED_LOCATION") THEN Ok(ps["IMPORTED_LOCATION"][1])
            ELSE IF others # {} THEN Ok(ps["IMPORTED_LOCATION_" \o cfgs[CHOOSE i \in others : \A j \in others : i <= j]][1])
            ELSE Bad("no-location")

\* ---- the expressions ------------------------------------------------------------
VersionOps == {"VERSION_LESS", "VERSION_GREATER", "VERSION_EQUAL", "VERSION_LESS_EQUAL", "VERSION_GREATER_EQUAL"}
VerHolds(op, c) == CASE op = "VERSION_LESS" -> c < 0
                     [] op = "VERSION_GREATER" -> c > 0
                     [] op = "VERSION_EQUAL" -> c = 0
                     [] op = "VERSION_LESS_EQUAL" -> c <= 0
                     [] op = "VERSION_GREATER_EQUAL" -> c >= 0
\* expressions whose single parameter is "..." (arbitrary content): commas written there are text
ArbitraryContentOps == {"LOWER_CASE", "UPPER_CASE", "BUILD_INTERFACE", "INSTALL_INTERFACE"}
ZeroAryOps == {"ANGLE-R", "COMMA", "SEMICOLON"}
FileOps == {"TARGET_FILE", "TARGET_FILE_NAME", "TARGET_FILE_DIR", "TARGET_LINKER_FILE"}
\* the expressions mesonbuild/cmake/generator.py lists as supported
SupportedOps == {"BOOL", "AND", "OR", "NOT", "IF", "STREQUAL", "EQUAL", "TARGET_EXISTS", "TARGET_NAME_IF_EXISTS",
                 "TARGET_PROPERTY"} \cup VersionOps \cup ArbitraryContentOps \cup ZeroAryOps \cup FileOps

AllBits(vs) == \A i \in 1..Len(vs) : IsBit(vs[i])

\* value of `$<n:vs[1],...,vs[k]>` given the values of its parameters
Apply(n, vs, ctx) ==
    CASE n = "BOOL" -> IF Len(vs) = 1 THEN Ok(BoolOf(vs[1])) ELSE Bad("arity")
      \* "comma-separated list of boolean expressions, all of which must evaluate to either 1 or 0"
      [] n = "AND" -> IF Len(vs) >= 1 /\ AllBits(vs) THEN Ok(Bit(\A i \in 1..Len(vs) : vs[i] = "1")) ELSE Bad("not-boolean")
      [] n = "OR" -> IF Len(vs) >= 1 /\ AllBits(vs) THEN Ok(Bit(\E i \in 1..Len(vs) : vs[i] = "1")) ELSE Bad("not-boolean")
      \* "condition must be 0 or 1. The result of the expression is 0 if condition is 1, else 1"
      [] n = "NOT" -> IF Len(vs) = 1 /\ IsBit(vs[1]) THEN Ok(Bit(vs[1] = "0")) ELSE Bad("not-boolean")
      \* "$<IF:condition,true_string,false_string> ... Any other value for condition results in an error"
      [] n = "IF" -> IF Len(vs) = 3 /\ IsBit(vs[1]) THEN Ok(IF vs[1] = "1" THEN vs[2] ELSE vs[3])
                     ELSE IF Len(vs) # 3 THEN Bad("arity") ELSE Bad("not-boolean")
      \* "1 if string1 and string2 are equal, else 0. The comparison is case-sensitive"
      [] n = "STREQUAL" -> IF Len(vs) = 2 THEN Ok(Bit(vs[1] = vs[2])) ELSE Bad("arity")
      \* "1 if value1 and value2 are numerically equal, else 0"
      [] n = "EQUAL" -> IF Len(vs) # 2 THEN Bad("arity")
                        ELSE IF IsInt(vs[1]) /\ IsInt(vs[2]) THEN Ok(Bit(IntVal(vs[1]) = IntVal(vs[2])))
                        ELSE Bad("not-a-number")
      [] n \in VersionOps -> IF Len(vs) = 2 THEN Ok(Bit(VerHolds(n, VerCmp(vs[1], vs[2])))) ELSE Bad("arity")
      [] n = "LOWER_CASE" -> Ok(ToLower(JoinStr(vs, ",")))
      [] n = "UPPER_CASE" -> Ok(ToUpper(JoinStr(vs, ",")))
      \* "Content of ... when the target is used by another target in the same buildsystem" - the use Meson makes
      [] n = "BUILD_INTERFACE" -> Ok(JoinStr(vs, ","))
      \* "Content of ... when the property is exported using install(EXPORT), and empty otherwise"
      [] n = "INSTALL_INTERFACE" -> Ok("")
      \* "These expressions evaluate to specific string literals" (the manual gives them without parameters)
      [] n = "ANGLE-R" -> IF vs = <<>> THEN Ok(">") ELSE Bad("unsupported")
      [] n = "COMMA" -> IF vs = <<>> THEN Ok(",") ELSE Bad("unsupported")
      [] n = "SEMICOLON" -> IF vs = <<>> THEN Ok(";") ELSE Bad("unsupported")
      \* "1 if tgt exists as a CMake target, else 0"
      [] n = "TARGET_EXISTS" -> IF Len(vs) = 1 /\ vs[1] # "" THEN Ok(Bit(HasTarget(ctx, vs[1]))) ELSE Bad("arity")
      \* "The target name tgt if the target exists, an empty string otherwise"
      [] n = "TARGET_NAME_IF_EXISTS" -> IF Len(vs) = 1 /\ vs[1] # "" THEN Ok(IF HasTarget(ctx, vs[1]) THEN vs[1] ELSE "")
                                        ELSE Bad("arity")
      [] n = "TARGET_PROPERTY" ->
           IF Len(vs) = 2 THEN (IF HasTarget(ctx, vs[1]) THEN Ok(PropText(ctx, vs[1], vs[2])) ELSE Bad("no-such-target"))
           ELSE IF Len(vs) = 1 THEN (IF ctx.self # "" /\ HasTarget(ctx, ctx.self) THEN Ok(PropText(ctx, ctx.self, vs[1]))
                                     ELSE Bad("no-context-target"))
           ELSE Bad("arity")
      [] n \in {"TARGET_FILE", "TARGET_LINKER_FILE"} -> IF Len(vs) = 1 THEN Location(ctx, vs[1]) ELSE Bad("arity")
      [] n = "TARGET_FILE_NAME" ->
           IF Len(vs) # 1 THEN Bad("arity")
           ELSE LET l == Location(ctx, vs[1]) IN IF l.e # "" THEN l ELSE Ok(BaseName(l.v))
      [] n = "TARGET_FILE_DIR" ->
           IF Len(vs) # 1 THEN Bad("arity")
           ELSE LET l == Location(ctx, vs[1]) IN IF l.e # "" THEN l ELSE Ok(DirName(l.v))
      [] OTHER -> Bad("unsupported")

\* "$<condition:true_string> Evaluates to true_string if condition is 1, or an empty string if condition
\*  evaluates to 0. Any other value for condition results in an error."
ApplyCond(c, body) == IF c = "1" THEN Ok(body) ELSE IF c = "0" THEN Ok("") ELSE Bad("not-boolean")

FirstBad(rs) == IF \E j \in 1..Len(rs) : rs[j].e # ""
                THEN CHOOSE j \in 1..Len(rs) : rs[j].e # "" /\ \A h \in 1..(j - 1) : rs[h].e = ""
                ELSE 0
Vals(rs) == [j \in 1..Len(rs) |-> rs[j].v]

\* value of a node given the results of its parameters
ApplyNode(nd, rs, ctx) ==
    LET b == FirstBad(rs) IN
    IF b # 0 THEN rs[b]
    ELSE IF nd.k = "cond" THEN ApplyCond(rs[1].v, rs[2].v)
    ELSE Apply(nd.n, Vals(rs), ctx)

RECURSIVE EvalP(_, _), EvalN(_, _)
EvalN(nd, ctx) == IF nd.k = "lit" THEN Ok(nd.t)
                  ELSE ApplyNode(nd, [j \in 1..Len(nd.a) |-> EvalP(nd.a[j], ctx)], ctx)
EvalP(p, ctx) == IF p = <<>> THEN Ok("")
                 ELSE LET h == EvalN(Head(p), ctx) IN
                      IF h.e # "" THEN h
                      ELSE LET r == EvalP(Tail(p), ctx) IN IF r.e # "" THEN r ELSE Ok(h.v \o r.v)

\* ---- small-step formulation ---------------------------------------------------------
AllLit(p) == \A i \in 1..Len(p) : p[i].k = "lit"
IsRedex(nd) == nd.k # "lit" /\ \A j \in 1..Len(nd.a) : AllLit(nd.a[j])
\* positions of the innermost expressions of a param: <<i>> (node i) or <<i, j>> \o (position inside param j of node i)
RECURSIVE Redexes(_)
Redexes(p) == UNION { IF p[i].k = "lit" THEN {}
                      ELSE IF IsRedex(p[i]) THEN {<<i>>}
                      ELSE UNION { { <<i, j>> \o q : q \in Redexes(p[i].a[j]) } : j \in 1..Len(p[i].a) }
                    : i \in 1..Len(p) }
RECURSIVE NodeAt(_, _), ReduceAt(_, _, _)
NodeAt(p, path) == IF Len(path) = 1 THEN p[path[1]] ELSE NodeAt(p[path[1]].a[path[2]], SubSeq(path, 3, Len(path)))
\* the reduced expression is replaced by a literal holding its value - the value is text of the enclosing
\* parameter from then on, whatever characters it contains
ReduceAt(p, path, ctx) ==
    LET i == path[1] IN
    IF Len(path) = 1 THEN [p EXCEPT ![i] = Lit(EvalN(p[i], ctx).v)]
    ELSE LET j == path[2] IN
         [p EXCEPT ![i] = [p[i] EXCEPT !.a = [p[i].a EXCEPT ![j] = ReduceAt(p[i].a[j], SubSeq(path, 3, Len(path)), ctx)]]]
RECURSIVE LitText(_)
LitText(p) == IF p = <<>> THEN "" ELSE Head(p).t \o LitText(Tail(p))

\* ---- measures ---------------------------------------------------------------------------
RECURSIVE SizeP(_), SizeN(_), SizePs(_, _)
\* number of expressions (non-literal nodes) in a param
SizeN(nd) == IF nd.k = "lit" THEN 0 ELSE 1 + SizePs(nd.a, 1)
SizePs(a, j) == IF j > Len(a) THEN 0 ELSE SizeP(a[j]) + SizePs(a, j + 1)
SizeP(p) == IF p = <<>> THEN 0 ELSE SizeN(Head(p)) + SizeP(Tail(p))
=============================================================================
