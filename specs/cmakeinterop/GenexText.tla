------------------------------ MODULE GenexText ------------------------------
(***************************************************************************)
(* Text primitives used by the CMake generator-expression rule book        *)
(* (X09).  Texts are TLA+ strings; TLC evaluates Len, \o and SubSeq on     *)
(* strings, so a character is the one-character string SubSeq(s, i, i).    *)
(*                                                                         *)
(* Sources: cmake-generator-expressions(7) ($<BOOL:...> truth table,       *)
(* $<EQUAL>, $<LOWER_CASE>/$<UPPER_CASE>) and cmake `if` "Version          *)
(* Comparisons" (component-wise integer comparison, omitted components     *)
(* are zero, a non-integer part truncates the string at that point).       *)
(***************************************************************************)
EXTENDS Integers, Sequences, FiniteSets

Char(s, i) == SubSeq(s, i, i)

LowerAlpha == "abcdefghijklmnopqrstuvwxyz"
UpperAlpha == "ABCDEFGHIJKLMNOPQRSTUVWXYZ"
DigitChars == "0123456789"

\* 1-based position of the one-character string c in alpha, 0 if absent
Pos(c, alpha) == IF \E k \in 1..Len(alpha) : Char(alpha, k) = c
                 THEN CHOOSE k \in 1..Len(alpha) : Char(alpha, k) = c
                 ELSE 0

\* constant lookup tables (evaluated once by TLC)
UpMap == [c \in { Char(LowerAlpha, k) : k \in 1..26 } |-> Char(UpperAlpha, Pos(c, LowerAlpha))]
LoMap == [c \in { Char(UpperAlpha, k) : k \in 1..26 } |-> Char(LowerAlpha, Pos(c, UpperAlpha))]
DigitMap == [c \in { Char(DigitChars, k) : k \in 1..10 } |-> Pos(c, DigitChars) - 1]
UpChar(c) == IF c \in DOMAIN UpMap THEN UpMap[c] ELSE c
LoChar(c) == IF c \in DOMAIN LoMap THEN LoMap[c] ELSE c

RECURSIVE UpFrom(_, _), LoFrom(_, _)
UpFrom(s, i) == IF i > Len(s) THEN "" ELSE UpChar(Char(s, i)) \o UpFrom(s, i + 1)
LoFrom(s, i) == IF i > Len(s) THEN "" ELSE LoChar(Char(s, i)) \o LoFrom(s, i + 1)
ToUpper(s) == UpFrom(s, 1)
ToLower(s) == LoFrom(s, 1)

IsDigit(c) == c \in DOMAIN DigitMap
DigitVal(c) == DigitMap[c]
IsBlank(c) == c = " " \/ c = "\t"

StartsWith(s, pre) == Len(s) >= Len(pre) /\ SubSeq(s, 1, Len(pre)) = pre
EndsWith(s, suf) == Len(s) >= Len(suf) /\ SubSeq(s, Len(s) - Len(suf) + 1, Len(s)) = suf
HasSub(s, sub) == \E i \in 1..(Len(s) - Len(sub) + 1) : SubSeq(s, i, i + Len(sub) - 1) = sub

RECURSIVE JoinFrom(_, _, _)
JoinFrom(list, i, sep) == IF i > Len(list) THEN ""
                          ELSE IF i = Len(list) THEN list[i]
                          ELSE list[i] \o sep \o JoinFrom(list, i + 1, sep)
JoinStr(list, sep) == JoinFrom(list, 1, sep)

\* ---- $<BOOL:string> -------------------------------------------------------
\* "Evaluates to 0 if any of the following is true: string is empty, string is
\*  a case-insensitive equal of 0, FALSE, OFF, N, NO, IGNORE, or NOTFOUND, or
\*  string ends in the suffix -NOTFOUND (case-sensitive).  Otherwise 1."
FalseConstants == {"0", "FALSE", "OFF", "N", "NO", "IGNORE", "NOTFOUND"}
BoolOf(s) == IF s = "" \/ ToUpper(s) \in FalseConstants \/ EndsWith(s, "-NOTFOUND") THEN "0" ELSE "1"
IsBit(s) == s = "0" \/ s = "1"

\* ---- integers for $<EQUAL:value1,value2> ("numerically equal") -------------
\* decimal integer literal with an optional sign
IntBody(s) == IF Len(s) > 0 /\ Char(s, 1) \in {"+", "-"} THEN SubSeq(s, 2, Len(s)) ELSE s
IsInt(s) == LET b == IntBody(s) IN Len(b) > 0 /\ \A i \in 1..Len(b) : IsDigit(Char(b, i))
RECURSIVE NatFrom(_, _, _)
NatFrom(s, i, acc) == IF i > Len(s) THEN acc ELSE NatFrom(s, i + 1, acc * 10 + DigitVal(Char(s, i)))
IntVal(s) == LET v == NatFrom(IntBody(s), 1, 0) IN IF Len(s) > 0 /\ Char(s, 1) = "-" THEN 0 - v ELSE v

\* ---- versions ---------------------------------------------------------------
\* components read left to right; "." ends a component, any other non-digit
\* truncates the string at that point
RECURSIVE VerScan(_, _, _, _)
VerScan(s, i, comps, cur) ==
    IF i > Len(s) THEN Append(comps, cur)
    ELSE LET c == Char(s, i) IN
         IF IsDigit(c) THEN VerScan(s, i + 1, comps, cur * 10 + DigitVal(c))
         ELSE IF c = "." THEN VerScan(s, i + 1, Append(comps, cur), 0)
         ELSE Append(comps, cur)
VerComps(s) == VerScan(s, 1, <<>>, 0)
Comp(v, i) == IF i <= Len(v) THEN v[i] ELSE 0          \* omitted components are zero
RECURSIVE VerCmpFrom(_, _, _)
\* -1 / 0 / 1
VerCmpFrom(a, b, i) == IF i > Len(a) /\ i > Len(b) THEN 0
                       ELSE IF Comp(a, i) < Comp(b, i) THEN -1
                       ELSE IF Comp(a, i) > Comp(b, i) THEN 1
                       ELSE VerCmpFrom(a, b, i + 1)
VerCmp(s1, s2) == VerCmpFrom(VerComps(s1), VerComps(s2), 1)
\* a version text of the plain form d+(.d+)* (no truncation, no empty component)
IsPlainVersion(s) == /\ Len(s) > 0
                     /\ \A i \in 1..Len(s) : IsDigit(Char(s, i)) \/ Char(s, i) = "."
                     /\ Char(s, 1) # "." /\ Char(s, Len(s)) # "."
                     /\ ~HasSub(s, "..")

\* ---- paths (for $<TARGET_FILE_NAME>, $<TARGET_FILE_DIR>) ----------------------
LastSlash(s) == IF \E i \in 1..Len(s) : Char(s, i) = "/"
                THEN CHOOSE i \in 1..Len(s) : Char(s, i) = "/" /\ \A j \in (i + 1)..Len(s) : Char(s, j) # "/"
                ELSE 0
BaseName(s) == SubSeq(s, LastSlash(s) + 1, Len(s))
DirName(s) == LET k == LastSlash(s) IN IF k = 0 THEN "" ELSE IF k = 1 THEN "/" ELSE SubSeq(s, 1, k - 1)
=============================================================================
