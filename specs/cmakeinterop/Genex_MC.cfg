SPECIFICATION Spec
CONSTANTS Level = 1
INVARIANT Total
INVARIANT BoolIsBit
INVARIANT SubjectReduction
INVARIANT NormalForm
INVARIANT StuckIsError
INVARIANT PlainTextUnchanged
INVARIANT NotNotIsBool
INVARIANT BoolIdempotent
INVARIANT DeMorgan
INVARIANT IfIsTwoConditionals
INVARIANT VersionTotalOrder
INVARIANT EqualIsNumeric
PROPERTY Terminates
CHECK_DEADLOCK FALSE
POSTCONDITION EmitSpace
