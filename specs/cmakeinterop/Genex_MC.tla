------------------------------- MODULE Genex_MC -------------------------------
(***************************************************************************)
(* Bounded exhaustive model of generator-expression evaluation (X09).      *)
(*                                                                         *)
(* Init picks any expression e0 of the bounded, well-typed space (plus a   *)
(* small ill-typed space where the manual prescribes an error); Next       *)
(* rewrites ANY innermost expression to its value.  TLC explores every     *)
(* evaluation order and checks                                             *)
(*   - totality: the evaluator yields a value or a named error, never      *)
(*     gets stuck; well-typed expressions never yield an error;            *)
(*   - determinism/confluence: every rewriting order keeps the big-step    *)
(*     value and ends in the same literal text (two formulations equal);   *)
(*   - termination: every step removes an expression;                      *)
(*   - the algebraic laws of the manual (NOT NOT = BOOL, De Morgan,        *)
(*     $<IF:c,a,b> = $<c:a>$<NOT:c:b>, text without `$<` is unchanged,     *)
(*     booleans are 0/1, version comparisons form a total order).          *)
(* The space itself is exported (POSTCONDITION) and replayed through the   *)
(* real parse_generator_expressions and through the real cmake.            *)
(***************************************************************************)
EXTENDS Genex, TLC, Json, IOUtils, SequencesExt
CONSTANTS Level          \* 1, 2 or 3: nesting depth of the exhaustive space

\* the evaluation context of the model (exported together with the space)
Ctx0 == [targets |-> [tA |-> [FOO |-> <<"x", "y">>, OPTS |-> <<"-Wl,-z,defs">>, ONE |-> <<"1">>, OFFV |-> <<"OFF">>],
                      tB |-> [IMPORTED_LOCATION |-> <<"/l/libB.so">>],
                      tC |-> [IMPORTED_CONFIGURATIONS |-> <<"RELEASE", "DEBUG">>,
                              IMPORTED_LOCATION_RELEASE |-> <<"/l/r/libC.so">>,
                              IMPORTED_LOCATION_DEBUG |-> <<"/l/d/libC.so">>]],
         self |-> "tA", debug |-> FALSE]

P(nd) == <<nd>>                       \* a param made of one node
L(t) == P(Lit(t))
G0(n) == P(Gx(n, <<>>))
G1(n, a) == P(Gx(n, <<a>>))
G2(n, a, b) == P(Gx(n, <<a, b>>))
G3(n, a, b, c) == P(Gx(n, <<a, b, c>>))
C(c, body) == P(Cond(c, body))

\* ---- literals ----------------------------------------------------------------
BoolLits == {"", "0", "1", "ON", "OFF", "off", "n", "No", "FALSE", "IGNORE", "NOTFOUND", "x-NOTFOUND",
             "x-notfound", "-NOTFOUND", "2", "YES", "y", "true", "x", "NOTFOUNDx"}
SmallLits == {"", "x", "Y", "a b"}
CommaLits == {"a,b", "-Wl,-z"}          \* only where the manual allows arbitrary content
NumLits == {"0", "4", "04", "+4", "-4", "10"}
VerLits == {"1.2", "1.2.0", "1.10", "1.9", "1.2a", "2", ""}
TgtLits == {"tA", "zz"}

S0 == { L(t) : t \in SmallLits }
S0c == { L(t) : t \in SmallLits \cup CommaLits }
B0 == { L("0"), L("1") }

\* ---- level 1 -------------------------------------------------------------------
B1 == UNION {
      B0,
      { G1("BOOL", L(t)) : t \in BoolLits },
      { G1("NOT", b) : b \in B0 },
      { G2(op, a, b) : op \in {"AND", "OR"}, a \in B0, b \in B0 },
      { G3("AND", a, b, c) : a \in B0, b \in B0, c \in B0 },
      { G1("OR", a) : a \in B0 },
      { G2("STREQUAL", L(s), L(t)) : s \in SmallLits \cup {"y"}, t \in SmallLits \cup {"y"} },
      { G2("EQUAL", L(s), L(t)) : s \in NumLits, t \in NumLits },
      { G2(op, L(s), L(t)) : op \in VersionOps, s \in VerLits, t \in VerLits },
      { G1("TARGET_EXISTS", L(t)) : t \in TgtLits } }
S1 == UNION {
      S0,
      { C(b, s) : b \in B0, s \in S0c },
      { G3("IF", b, s, t) : b \in B0, s \in S0, t \in S0 },
      { G1(op, s) : op \in ArbitraryContentOps, s \in S0c \cup {L("MiXed")} },
      { G0(op) : op \in ZeroAryOps },
      { G2("TARGET_PROPERTY", L("tA"), L(p)) : p \in {"FOO", "OPTS", "ONE", "OFFV", "NOPE"} },
      { G1("TARGET_PROPERTY", L(p)) : p \in {"FOO", "NOPE"} },
      { G1("TARGET_NAME_IF_EXISTS", L(t)) : t \in TgtLits },
      { G1(op, L(t)) : op \in FileOps, t \in {"tB", "tC"} },
      { <<Lit("-I"), s[1], Lit("/inc")>> : s \in { G1("BUILD_INTERFACE", L("/src")), G0("COMMA"), C(L("1"), L("opt")) } } }

\* small representative subsets used on one side of binary constructions
B1s == { L("0"), L("1"), G1("BOOL", L("ON")), G1("NOT", L("1")), G2("STREQUAL", L("x"), L("x")), G1("TARGET_EXISTS", L("zz")) }
S1s == { L(""), L("x"), G0("COMMA"), G2("TARGET_PROPERTY", L("tA"), L("OPTS")), G2("TARGET_PROPERTY", L("tA"), L("FOO")),
         G1("UPPER_CASE", L("Y")), C(L("1"), L("a,b")), G1("INSTALL_INTERFACE", L("x")), <<Lit(" "), Lit("x")>> }

\* ---- level 2 -------------------------------------------------------------------
B2P == <<
      { G1("NOT", b) : b \in B1 },
      { G1("BOOL", s) : s \in S1 },
      { G2(op, a, b) : op \in {"AND", "OR"}, a \in B1, b \in B1s },
      { G2(op, a, b) : op \in {"AND", "OR"}, a \in B1s, b \in B1 },
      { G2("STREQUAL", s, t) : s \in S1, t \in S1s },
      { G2("STREQUAL", s, t) : s \in S1s, t \in S1 },
      { G2("EQUAL", G3("IF", b, L(s), L(t)), L("4")) : b \in B0, s \in NumLits, t \in NumLits },
      { G2(op, G1("LOWER_CASE", L(s)), L(t)) : op \in VersionOps, s \in VerLits, t \in VerLits } >>
S2P == <<
      { C(b, s) : b \in B1, s \in {L("x"), L("a,b")} },
      { C(b, s) : b \in B1s, s \in S1 },
      { G3("IF", b, L("x"), L("Y")) : b \in B1 },
      { G3("IF", b, s, t) : b \in B1s, s \in S1s, t \in S1s },
      { G1(op, s) : op \in ArbitraryContentOps, s \in S1 },
      { G2("TARGET_PROPERTY", t, L("FOO")) : t \in { G1("TARGET_NAME_IF_EXISTS", L("tA")), C(L("1"), L("tA")) } },
      { <<Lit("-D"), s[1]>> : s \in S1 \ S0 },
      { <<s[1], Lit(";"), t[1]>> : s \in S1s \ {<<Lit(" "), Lit("x")>>}, t \in S1s \ {<<Lit(" "), Lit("x")>>} } >>

\* ---- level 3 (thorough tier) ------------------------------------------------------
Map1(ps, F(_)) == [i \in 1..Len(ps) |-> { F(x) : x \in ps[i] }]
B3P == Map1(B2P, LAMBDA b : G1("NOT", b))
       \o Map1(S2P, LAMBDA x : G1("BOOL", x))
       \o Map1(B2P, LAMBDA a : G2("AND", a, L("1")))
       \o Map1(B2P, LAMBDA a : G2("AND", a, G1("NOT", L("1"))))
       \o Map1(B2P, LAMBDA a : G2("OR", a, L("0")))
       \o Map1(B2P, LAMBDA a : G2("OR", G1("NOT", L("0")), a))
       \o Map1(S2P, LAMBDA x : G2("STREQUAL", x, L("x")))
S3P == Map1(B2P, LAMBDA b : C(b, L("x")))
       \o Map1(B2P, LAMBDA b : G3("IF", b, L("x"), G0("COMMA")))
       \o Map1(S2P, LAMBDA x : G1("UPPER_CASE", x))

\* the space is kept as a sequence of pieces (TLC's set union of large sets of deep records is quadratic)
BPieces == <<B1>> \o (IF Level >= 2 THEN B2P ELSE <<>>) \o (IF Level >= 3 THEN B3P ELSE <<>>)
SPieces == <<S1>> \o (IF Level >= 2 THEN S2P ELSE <<>>) \o (IF Level >= 3 THEN S3P ELSE <<>>)

\* ---- expressions for which the manual prescribes an error / that Meson does not support ------
IllSpace == { G1("NOT", L("x")), G1("NOT", L("")), G2("AND", L("1"), L("x")), G2("OR", L("ON"), L("0")),
              G2("IF", L("1"), L("a")), G1("IF", L("1")), P(Gx("IF", <<L("1"), L("a"), L("b"), L("c")>>)),
              G3("IF", L("ON"), L("a"), L("b")), C(L("ON"), L("a")), C(L("x"), L("a")),
              G2("EQUAL", L("a"), L("4")), G1("STREQUAL", L("a")),
              G2("TARGET_PROPERTY", L("zz"), L("FOO")), G1("TARGET_FILE", L("zz")), G1("TARGET_FILE", L("tA")),
              G1("CONFIG", L("Debug")), G0("CONFIG"), G1("LINK_ONLY", L("x")), G0("PLATFORM_ID"),
              G1("NOT", G1("NOT", L("ON"))), C(G1("CONFIG", L("Debug")), L("a")),
              G3("IF", G1("NOT", L("x")), L("a"), L("b")), <<Lit("a"), Gx("NOT", <<L("x")>>), Lit("b")>> }

\* ty: "b" = boolean-typed, "s" = string-typed, "ill" = the manual prescribes an error
PiecesOf(t) == CASE t = "b" -> BPieces [] t = "s" -> SPieces [] t = "ill" -> <<IllSpace>>

VARIABLES e0, ty, e
vars == <<e0, ty, e>>

Init == /\ ty \in {"b", "s", "ill"}
        /\ \E i \in 1..Len(PiecesOf(ty)) : e0 \in PiecesOf(ty)[i]
        /\ e = e0
Next == /\ \E path \in Redexes(e) :
              /\ EvalN(NodeAt(e, path), Ctx0).e = ""
              /\ e' = ReduceAt(e, path, Ctx0)
        /\ UNCHANGED <<e0, ty>>
Spec == Init /\ [][Next]_vars

V(p) == EvalP(p, Ctx0)
Not(b) == G1("NOT", b)

\* ---- totality --------------------------------------------------------------------------------
ErrorReasons == {"arity", "not-boolean", "not-a-number", "no-such-target", "no-context-target", "no-location", "unsupported"}
Total == /\ V(e0).e \in {""} \cup ErrorReasons
         /\ (ty \in {"b", "s"}) => V(e0).e = ""
         /\ (ty = "ill") => V(e0).e # ""
BoolIsBit == ty = "b" => IsBit(V(e0).v)
\* ---- determinism: any evaluation order -----------------------------------------------------
SubjectReduction == V(e) = V(e0)
NormalForm == (Redexes(e) = {}) => (AllLit(e) /\ LitText(e) = V(e0).v /\ V(e0).e = "")
\* a state without an applicable rewrite that still contains an expression is exactly an error
StuckIsError == (~ENABLED Next /\ ~AllLit(e)) <=> V(e0).e # ""
Terminates == [][SizeP(e') < SizeP(e)]_vars
\* ---- laws of the manual ----------------------------------------------------------------------
PlainTextUnchanged == AllLit(e0) => V(e0) = Ok(LitText(e0))
NotNotIsBool == ty = "b" => /\ V(Not(Not(e0))) = V(G1("BOOL", e0))
                                 /\ V(Not(Not(e0))) = V(e0)
BoolIdempotent == (ty = "s") => V(G1("BOOL", G1("BOOL", e0))) = V(G1("BOOL", e0))
IsBin(p, op) == Len(p) = 1 /\ p[1].k = "gx" /\ p[1].n = op /\ Len(p[1].a) = 2
DeMorgan == /\ (ty = "b" /\ IsBin(e0, "AND")) => V(Not(e0)) = V(G2("OR", Not(e0[1].a[1]), Not(e0[1].a[2])))
            /\ (ty = "b" /\ IsBin(e0, "OR")) => V(Not(e0)) = V(G2("AND", Not(e0[1].a[1]), Not(e0[1].a[2])))
IfIsTwoConditionals ==
    (ty = "s" /\ Len(e0) = 1 /\ e0[1].k = "gx" /\ e0[1].n = "IF") =>
        LET c == e0[1].a[1]  a == e0[1].a[2]  b == e0[1].a[3]
        IN V(e0) = V(<<Cond(c, a), Cond(Not(c), b)>>)
VersionTotalOrder ==
    (ty = "b" /\ Len(e0) = 1 /\ e0[1].k = "gx" /\ e0[1].n = "VERSION_LESS") =>
        LET a == e0[1].a[1]  b == e0[1].a[2]
            lt == V(e0).v  gt == V(G2("VERSION_GREATER", a, b)).v  eq == V(G2("VERSION_EQUAL", a, b)).v
            One(x) == IF x = "1" THEN 1 ELSE 0
        IN /\ One(lt) + One(gt) + One(eq) = 1
           /\ V(G2("VERSION_LESS_EQUAL", a, b)).v = V(G2("OR", L(lt), L(eq))).v
           /\ V(G2("VERSION_GREATER_EQUAL", a, b)).v = V(Not(e0)).v
           /\ V(G2("VERSION_GREATER", b, a)).v = lt
EqualIsNumeric ==
    (ty = "b" /\ IsBin(e0, "EQUAL") /\ AllLit(e0[1].a[1]) /\ AllLit(e0[1].a[2])) =>
        V(e0).v = Bit(IntVal(LitText(e0[1].a[1])) = IntVal(LitText(e0[1].a[2])))

\* ---- export of the space for the conformance replay ----------------------------------------
EmitSpace == /\ TLCGet("stats").diameter >= 0
             /\ LET TagSet(S, t) == LET sq == SetToSeq(S) IN [i \in 1..Len(sq) |-> [p |-> sq[i], ty |-> t]]
                    Tagged(t) == FlattenSeq([i \in 1..Len(PiecesOf(t)) |-> TagSet(PiecesOf(t)[i], t)])
                IN JsonSerialize("genex_space.json",
                                 [ctx |-> Ctx0, space |-> Tagged("b") \o Tagged("s") \o Tagged("ill")])
=============================================================================
