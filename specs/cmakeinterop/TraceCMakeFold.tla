---------------------------- MODULE TraceCMakeFold ----------------------------
(***************************************************************************)
(* Trace validation for the trace-folding part of X09.                     *)
(*                                                                         *)
(* A case is a command sequence `cmds` (abstract commands of CMakeFold)    *)
(* that the harness rendered to trace lines (json-v1 or human format, or   *)
(* had the real cmake trace) and fed to the real CMakeTraceParser; `obs`   *)
(* lists what the parser exposed after a prefix of k commands:             *)
(*   [k, x (class of a raised exception or ""), vars : <<[n, v]>>, tg : <<[n, type, imp, props : <<[n, v]>>,      *)
(*    deps, cmds, wd]>>, errs]                                             *)
(* The case is accepted iff every observation equals Obs(Fold(prefix)).    *)
(* `w` (optional, <<>> when absent) is what the real cmake reports for the *)
(* same command sequence (variables and target properties); a             *)
(* disagreement between cmake and the rule book is a fault of the spec     *)
(* (machinery error), never a violation; a target with type "skip" in w   *)
(* is not compared (ALIAS targets have no properties of their own).        *)
(* The verdict names the first wrong prefix, the component and the rule of *)
(* the manual at stake for the command that made it wrong.                 *)
(***************************************************************************)
EXTENDS CMakeFold, TLC, Json, IOUtils

Batch == JsonDeserialize(IOEnv.TRACE_FILE)
Cases == Batch.cases
\* a case gives its commands explicitly (cmds) or as indices (ix) into the alphabet exported by CMakeFold_MC,
\* after the prelude
RECURSIVE Pick(_, _)
Pick(ix, j) == IF j > Len(ix) THEN <<>> ELSE <<Batch.alphabet[ix[j]].c>> \o Pick(ix, j + 1)
CmdsOf(c) == IF c.ix = <<>> THEN c.cmds ELSE Batch.prelude \o Pick(c.ix, 1)

VARIABLES i, done
vars == <<i, done>>

PairsToFun(ps) == [k \in { ps[j].n : j \in 1..Len(ps) } |-> ps[CHOOSE j \in 1..Len(ps) : ps[j].n = k].v]
SameFun(f, g) == DOMAIN f = DOMAIN g /\ \A k \in DOMAIN f : f[k] = g[k]

\* ---- the shape of a command: its name, which keywords it uses (in a fixed order, each once), whether an
\* add_custom_target starts with a command that has no COMMAND keyword, and how many value arguments a
\* set() / set_property() has
KwOrder == <<"CACHE", "FORCE", "IMPORTED", "ALIAS", "SHARED", "STATIC", "MODULE", "UNKNOWN", "OBJECT", "GLOBAL", "ALL",
             "SOURCES", "BYPRODUCTS", "COMMENT", "WORKING_DIRECTORY", "APPEND", "APPEND_STRING", "SYSTEM", "BEFORE", "AFTER",
             "PUBLIC", "PRIVATE", "INTERFACE", "LINK_PUBLIC", "LINK_PRIVATE", "LINK_INTERFACE_LIBRARIES", "FATAL_ERROR", "SEND_ERROR">>
RECURSIVE KwString(_, _)
KwString(args, j) == IF j > Len(KwOrder) THEN ""
                     ELSE (IF HasArg(args, KwOrder[j]) THEN "," \o KwOrder[j] ELSE "") \o KwString(args, j + 1)
LeadingCommand(c) == c.cmd = "add_custom_target" /\
                     LET rest == Flat(Tail(c.args))
                         r == IF rest # <<>> /\ rest[1] = "ALL" THEN Tail(rest) ELSE rest
                     IN r # <<>> /\ r[1] \notin CustomKeywords
ValueArgs(c) == IF c.cmd = "set"
                THEN LET ci == IndexOf(c.args, Kw("CACHE"))
                         n == (IF ci = 0 THEN Len(c.args) ELSE ci - 1) - 1
                     IN IF n <= 0 THEN "/0" ELSE IF n = 1 THEN "/1" ELSE "/n"
                ELSE IF c.cmd = "set_property"
                THEN LET pi == IndexOf(c.args, Kw("PROPERTY"))
                         n == Len(c.args) - pi - 1
                     IN IF pi = 0 \/ n <= 0 THEN "/0" ELSE IF n = 1 THEN "/1" ELSE "/n"
                ELSE ""
Shape0(c) == c.cmd \o "(" \o (IF LeadingCommand(c) THEN "leading-command" ELSE "") \o KwString(c.args, 1) \o ")" \o ValueArgs(c)

\* the rule of the manual that is at stake when command c made component `what` (of target t, "" if none) wrong;
\* falls back to the shape of the command
Rule(c, clause, what, t) ==
    IF clause \in {"Property", "Dependencies", "TargetKind"} /\ t # "" /\ t \notin Subjects(c)
        THEN "changes-a-target-it-does-not-name"
    ELSE IF c.cmd = "set_property" /\ HasArg(c.args, "APPEND") /\ Cardinality(Subjects(c)) >= 2 /\ clause = "Property"
        THEN "append-on-several-targets"
    ELSE IF c.cmd = "set" /\ ~HasArg(c.args, "CACHE") /\ ValueArgs(c) = "/n" THEN "set-with-several-values"
    ELSE IF c.cmd = "set" /\ HasArg(c.args, "CACHE") /\ ~HasArg(c.args, "FORCE") THEN "set-cache-without-force"
    ELSE IF c.cmd = "set_property" /\ HasArg(c.args, "APPEND_STRING") THEN "set_property-append_string"
    ELSE IF c.cmd = "set_property" /\ ValueArgs(c) = "/0" THEN "set_property-without-values"
    ELSE IF c.cmd = "target_include_directories" /\ HasArg(c.args, "AFTER") THEN "include_directories-after-keyword"
    ELSE IF c.cmd \in TargetCommands /\ HasArg(c.args, "BEFORE") THEN c.cmd \o "-before"
    ELSE IF c.cmd = "target_link_libraries" /\ HasArg(c.args, "LINK_PUBLIC") /\ what = "LINK_LIBRARIES" THEN "link_libraries-link_public"
    ELSE IF LeadingCommand(c) THEN "custom_target-leading-command"
    ELSE IF c.cmd = "add_custom_target" /\ HasArg(c.args, "SOURCES") THEN "custom_target-sources-keyword"
    ELSE what \o "@" \o Shape0(c)
Verdict(c, clause, k, what, t, exp, got) ==
    [id |-> c.id, clause |-> clause, k |-> k, what |-> what, target |-> t,
     rule |-> IF k >= 1 /\ k <= Len(CmdsOf(c)) THEN Rule(CmdsOf(c)[k], clause, what, t) ELSE "",
     expected |-> exp, got |-> got]
Good(c) == Verdict(c, "ok", 0, "", "", <<>>, <<>>)

\* compare one observation with the state the rule book prescribes; returns <<>> or <<[clause, what, exp, got]>>
Diff(S, o, withKinds) ==
    LET ot == PairsToFun([j \in 1..Len(o.tg) |-> [n |-> o.tg[j].n, v |-> o.tg[j]]])
        BadT(cl, w, t, e, g) == <<[clause |-> cl, what |-> w, t |-> t, exp |-> e, got |-> g]>>
        Bad(cl, w, e, g) == BadT(cl, w, "", e, g)
    IN IF withKinds /\ o.errs # S.errs THEN Bad("Errors", "count", <<S.errs>>, <<o.errs>>)
       ELSE IF \E j \in 1..Len(o.vars) : Lookup(S, o.vars[j].n) # o.vars[j].v
            THEN LET j == CHOOSE j \in 1..Len(o.vars) : Lookup(S, o.vars[j].n) # o.vars[j].v
                 IN Bad("Variable", o.vars[j].n, Lookup(S, o.vars[j].n), o.vars[j].v)
       ELSE IF DOMAIN ot # DOMAIN S.tg
            THEN Bad("TargetSet", "", <<>>, <<>>)
       ELSE IF \E t \in DOMAIN ot : ot[t].type # "skip" /\ ~SameFun(PairsToFun(ot[t].props), S.tg[t].props)
            THEN LET t == CHOOSE t \in DOMAIN ot : ot[t].type # "skip" /\ ~SameFun(PairsToFun(ot[t].props), S.tg[t].props)
                     op == PairsToFun(ot[t].props)
                     p == CHOOSE p \in DOMAIN op \cup DOMAIN S.tg[t].props : Get(op, p) # Get(S.tg[t].props, p)
                 IN BadT("Property", p, t, Get(S.tg[t].props, p), Get(op, p))
       ELSE IF withKinds /\ \E t \in DOMAIN ot : ot[t].type # S.tg[t].type \/ ot[t].imp # S.tg[t].imp
            THEN LET t == CHOOSE t \in DOMAIN ot : ot[t].type # S.tg[t].type \/ ot[t].imp # S.tg[t].imp
                 IN BadT("TargetKind", S.tg[t].type, t, <<S.tg[t].type>>, <<ot[t].type>>)
       ELSE IF withKinds /\ \E t \in DOMAIN ot : ot[t].deps # S.tg[t].deps
            THEN LET t == CHOOSE t \in DOMAIN ot : ot[t].deps # S.tg[t].deps IN BadT("Dependencies", S.tg[t].type, t, S.tg[t].deps, ot[t].deps)
       ELSE IF withKinds /\ \E t \in DOMAIN ot : ot[t].cmds # S.tg[t].cmds
            THEN LET t == CHOOSE t \in DOMAIN ot : ot[t].cmds # S.tg[t].cmds IN Bad("CustomCommands", "", Flat(S.tg[t].cmds), Flat(ot[t].cmds))
       ELSE IF withKinds /\ \E t \in DOMAIN ot : ot[t].wd # S.tg[t].wd
            THEN LET t == CHOOSE t \in DOMAIN ot : ot[t].wd # S.tg[t].wd IN Bad("WorkingDirectory", "", <<S.tg[t].wd>>, <<ot[t].wd>>)
       ELSE <<>>

RECURSIVE JudgeObs(_, _)
JudgeObs(c, j) ==
    IF j > Len(c.obs) THEN Good(c)
    ELSE LET o == c.obs[j]
             d == Diff(Fold(InitState, SubSeq(CmdsOf(c), 1, o.k)), o, TRUE)
         IN IF o.x # "" THEN Verdict(c, "NoCrash", o.k, o.x, "", <<>>, <<>>)
            ELSE IF d # <<>> THEN Verdict(c, d[1].clause, o.k, d[1].what, d[1].t, d[1].exp, d[1].got)
            ELSE JudgeObs(c, j + 1)

Judge(c) ==
    LET final == Fold(InitState, CmdsOf(c))
        wd == IF c.w = <<>> THEN <<>> ELSE Diff(final, c.w[1], FALSE)
    IN IF wd # <<>> THEN Verdict(c, "WitnessDisagreesWithSpec", Len(CmdsOf(c)), wd[1].clause \o ":" \o wd[1].what, wd[1].t, wd[1].exp, wd[1].got)
       ELSE JudgeObs(c, 1)

Init == i \in 1..Len(Cases) /\ done = FALSE
Next == /\ ~done
        /\ done' = TRUE
        /\ i' = i
        /\ LET v == Judge(Cases[i]) IN v.clause = "ok" \/ PrintT(ToJson(v))
Spec == Init /\ [][Next]_vars
=============================================================================
