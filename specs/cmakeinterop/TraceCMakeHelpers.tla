--------------------------- MODULE TraceCMakeHelpers ---------------------------
(***************************************************************************)
(* Trace validation of cmake_defines_to_args and _flags_to_list (X09).     *)
(* case [id, kind = "defines", defs, got (arguments), x]                    *)
(*      [id, kind = "flags", s (code points), words (list of code point     *)
(*       lists), x]                                                         *)
(***************************************************************************)
EXTENDS CMakeHelpers, TLC, Json, IOUtils

Cases == JsonDeserialize(IOEnv.TRACE_FILE)
VARIABLES i, done
vars == <<i, done>>

V(c, clause, exp) == [id |-> c.id, clause |-> clause, expected |-> exp]
Judge(c) ==
    IF c.x # "" THEN V(c, "NoCrash", <<>>)
    ELSE IF c.kind = "defines"
    THEN LET e == DefinesToArgs(c.defs) IN
         IF e = c.got THEN V(c, "ok", <<>>)
         ELSE IF Len(e) # Len(c.got) THEN V(c, "DefineCount", e)
         ELSE LET j == CHOOSE j \in 1..Len(e) : e[j] # c.got[j]
                  d == SelectSeq(c.defs, LAMBDA x : x.k \notin Unsupported)[j]
              IN V(c, "DefineSpelling:" \o d.ty, e)
    ELSE LET r == FlagsToList(c.s) IN
         IF ~r.ok THEN V(c, "OutsideSpecDomain", <<>>)
         ELSE IF r.words = c.words THEN V(c, "ok", <<>>) ELSE V(c, "ShellWords", r.words)

Init == i \in 1..Len(Cases) /\ done = FALSE
Next == /\ ~done
        /\ done' = TRUE
        /\ i' = i
        /\ LET v == Judge(Cases[i]) IN v.clause = "ok" \/ PrintT(ToJson(v))
Spec == Init /\ [][Next]_vars
=============================================================================
