------------------------------ MODULE TraceGenex ------------------------------
(***************************************************************************)
(* Trace validation for the generator-expression part of X09.              *)
(*                                                                         *)
(* A case is one text given to the real parse_generator_expressions:       *)
(*   tree cases  - the abstract tree `p` (a param of module Genex) that    *)
(*                 the harness rendered to `$<...>` text; every expression *)
(*                 node carries `o` / `x`: the value the real code         *)
(*                 returned for the rendering of THAT node alone, or the   *)
(*                 class of the exception it raised ("" none,              *)
(*                 "MesonException" a diagnosed error, "Timeout" watchdog) *)
(*                 and the case carries o / x for the whole text;          *)
(*                 w / wx is what the real cmake computed for the text     *)
(*                 (wx = "ok" | "err" | "skip"): a second witness of the   *)
(*                 rule book, a disagreement is a fault of the spec        *)
(*                 (reported as machinery error, never as a violation);    *)
(*   raw cases   - arbitrary text `t` (unbalanced `$<`, deep nesting...):  *)
(*                 only totality and "text without $< is unchanged".       *)
(* The verdict names the clause and - for a wrong value - the innermost    *)
(* expression whose parameters were all evaluated correctly but whose own  *)
(* value is wrong, with a classification of its arguments by the rule that *)
(* is at stake.                                                            *)
(***************************************************************************)
EXTENDS Genex, TLC, Json, IOUtils

Batch == JsonDeserialize(IOEnv.TRACE_FILE)
Ctxs == Batch.ctxs
Cases == Batch.cases

VARIABLES i, done
vars == <<i, done>>

Crashed(x) == x \notin {"", "MesonException"}
NormV(v) == IF v = "" THEN "empty" ELSE IF IsBit(v) THEN v ELSE "text"

StartsBlank(t) == t # "" /\ IsBlank(Char(t, 1))
EndsBlank(t) == t # "" /\ IsBlank(Char(t, Len(t)))
\* which rule of the manual is at stake for node nd whose parameters have the values vs
ArgClass(nd, vs, ctx) ==
    IF nd.k = "gx" /\ nd.n \notin ArbitraryContentOps /\ \E j \in 1..Len(vs) : HasSub(vs[j], ",")
        THEN "comma-in-argument"          \* a nested value containing "," stays one parameter ($<COMMA>)
    ELSE IF \/ nd.k = "gx" /\ Len(vs) > 0 /\ (StartsBlank(vs[1]) \/ EndsBlank(vs[Len(vs)]))
            \/ nd.k = "cond" /\ \E j \in 1..2 : StartsBlank(vs[j]) \/ EndsBlank(vs[j])
        THEN "blank-at-edge"              \* parameters are taken literally, blanks included
    ELSE IF nd.k = "gx" /\ nd.n = "EQUAL" /\ Len(vs) = 2 /\ vs[1] # vs[2]
        THEN "numbers-spelled-differently" \* EQUAL is numeric
    ELSE IF nd.k = "gx" /\ nd.n \in VersionOps /\ Len(vs) = 2
            /\ ~(IsPlainVersion(vs[1]) /\ IsPlainVersion(vs[2]) /\ Len(VerComps(vs[1])) = Len(VerComps(vs[2])))
        THEN "omitted-or-nonnumeric-component"
    ELSE IF nd.k = "gx" /\ nd.n \in FileOps /\ Len(vs) = 1 /\ HasTarget(ctx, vs[1])
            /\ LET ps == ctx.targets[vs[1]]
                   want == "IMPORTED_LOCATION_" \o (IF ctx.debug THEN "DEBUG" ELSE "RELEASE")
               IN ~NonEmptyProp(ps, want) /\ NonEmptyProp(ps, "IMPORTED_LOCATION") /\ "IMPORTED_CONFIGURATIONS" \in DOMAIN ps
        THEN "location-without-configuration-comes-before-other-configurations"
    ELSE "plain"

NoBad == <<>>
MkBad(clause, nd, vs, ctx, exp, got) ==
    <<[clause |-> clause, op |-> (IF nd.k = "cond" THEN "cond" ELSE nd.n), arity |-> Len(nd.a),
       cls |-> ArgClass(nd, vs, ctx), exp |-> NormV(exp), got |-> got]>>

RECURSIVE DiagP(_, _), DiagN(_, _)
\* [r |-> result prescribed by the rule book, bad |-> <<>> or <<description of the innermost wrong expression>>]
DiagN(nd, ctx) ==
    IF nd.k = "lit" THEN [r |-> Ok(nd.t), bad |-> NoBad]
    ELSE LET subs == [j \in 1..Len(nd.a) |-> DiagP(nd.a[j], ctx)]
             rs == [j \in 1..Len(nd.a) |-> subs[j].r]
             r == ApplyNode(nd, rs, ctx)
             vs == Vals(rs)
         IN IF \E j \in 1..Len(subs) : subs[j].bad # NoBad
            THEN [r |-> r, bad |-> subs[CHOOSE j \in 1..Len(subs) : subs[j].bad # NoBad /\ \A h \in 1..(j - 1) : subs[h].bad = NoBad].bad]
            ELSE IF Crashed(nd.x) THEN [r |-> r, bad |-> MkBad("NoCrash", nd, vs, ctx, "", nd.x)]
            ELSE IF r.e # "" THEN [r |-> r, bad |-> NoBad]              \* the manual prescribes an error: value not judged
            ELSE IF nd.x # "" THEN [r |-> r, bad |-> MkBad("ValueNotError", nd, vs, ctx, r.v, nd.x)]
            ELSE IF nd.o # r.v THEN [r |-> r, bad |-> MkBad("Value", nd, vs, ctx, r.v, NormV(nd.o))]
            ELSE [r |-> r, bad |-> NoBad]
DiagP(p, ctx) ==
    IF p = <<>> THEN [r |-> Ok(""), bad |-> NoBad]
    ELSE LET h == DiagN(Head(p), ctx)
             t == DiagP(Tail(p), ctx)
             r == IF h.r.e # "" THEN h.r ELSE IF t.r.e # "" THEN t.r ELSE Ok(h.r.v \o t.r.v)
         IN [r |-> r, bad |-> IF h.bad # NoBad THEN h.bad ELSE t.bad]

Verdict(c, clause, bad, exp) ==
    [id |-> c.id, clause |-> clause, bad |-> bad, expected |-> exp, got |-> c.o, raised |-> c.x]

JudgeRaw(c) ==
    IF Crashed(c.x) THEN Verdict(c, "NoCrash", NoBad, "")
    ELSE IF ~HasSub(c.t, "$<") /\ (c.x # "" \/ c.o # c.t) THEN Verdict(c, "PlainTextUnchanged", NoBad, c.t)
    ELSE Verdict(c, "ok", NoBad, "")

JudgeTree(c) ==
    LET ctx == Ctxs[c.cx]
        d == DiagP(c.p, ctx)
    IN  \* the second witness first: the rule book itself must agree with cmake
        IF c.wx = "ok" /\ d.r.e # "unsupported" /\ (d.r.e # "" \/ d.r.v # c.w) THEN Verdict(c, "WitnessDisagreesWithSpec", NoBad, IF d.r.e # "" THEN "<error:" \o d.r.e \o ">" ELSE d.r.v)
        ELSE IF c.wx = "err" /\ d.r.e = "" THEN Verdict(c, "WitnessDisagreesWithSpec", NoBad, d.r.v)
        ELSE IF d.bad # NoBad THEN Verdict(c, d.bad[1].clause, d.bad, d.r.v)
        ELSE IF Crashed(c.x) THEN Verdict(c, "NoCrash", NoBad, d.r.v)
        ELSE IF d.r.e # "" THEN Verdict(c, "ok", NoBad, "")
        ELSE IF c.x # "" THEN Verdict(c, "ValueNotError", NoBad, d.r.v)
        ELSE IF c.o # d.r.v THEN Verdict(c, "TopLevelConcatenation", NoBad, d.r.v)
        ELSE Verdict(c, "ok", NoBad, "")

Judge(c) == IF c.ty = "raw" THEN JudgeRaw(c) ELSE JudgeTree(c)

Init == i \in 1..Len(Cases) /\ done = FALSE
Next == /\ ~done
        /\ done' = TRUE
        /\ i' = i
        /\ LET v == Judge(Cases[i]) IN v.clause = "ok" \/ PrintT(ToJson(v))
Spec == Init /\ [][Next]_vars
=============================================================================
