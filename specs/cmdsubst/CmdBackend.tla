------------------------------ MODULE CmdBackend ------------------------------
(***************************************************************************)
(* X02 (part 1, project level): what the command, the outputs and the      *)
(* depfile of a custom_target() / generator() / configure_file(command:)   *)
(* look like once meson has configured a project.  Extends the core rule   *)
(* book CmdSubst with the placeholders whose value depends on the project  *)
(* layout.                                                                 *)
(*  [CT]  docs/yaml/functions/custom_target.yaml:                          *)
(*        @DEPFILE@ "the full path to the dependency file passed to        *)
(*        depfile"; @PRIVATE_DIR@ "path to a directory where the custom    *)
(*        target must store all its intermediate files"; @SOURCE_ROOT@ /   *)
(*        @BUILD_ROOT@ / @CURRENT_SOURCE_DIR@ "Depending on the backend,   *)
(*        this may be an absolute or a relative to current workdir path";  *)
(*        command: "any backslash characters are rewritten as slash";      *)
(*        depfile: "the @BASENAME@ and @PLAINNAME@ substitutions are also  *)
(*        accepted"; output: (test cases, release notes 0.41/1.5.0) the    *)
(*        input-name placeholders are accepted                             *)
(*  [CBT] docs/markdown/Custom-build-targets.md: an output `outfile` of a  *)
(*        target defined in `subdir` is `build_dir/subdir/outfile`         *)
(*  [GEN] docs/yaml/functions/generator.yaml, Generating-sources.md:       *)
(*        @INPUT@ @OUTPUT@ @OUTPUTn@ @DEPFILE@ @SOURCE_DIR@ @BUILD_DIR@    *)
(*        @CURRENT_SOURCE_DIR@ @EXTRA_ARGS@ @PLAINNAME@ @BASENAME@; "Each  *)
(*        output will be created in a target-private directory             *)
(*        @BUILD_DIR@"; every output must contain @BASENAME@ or            *)
(*        @PLAINNAME@; plain @OUTPUT@ is ambiguous with several outputs;   *)
(*        @EXTRA_ARGS@ only as a whole word, omitted when there are none   *)
(* Because the documentation leaves "absolute or relative to the workdir"  *)
(* open, a value is a *set of spellings*: the path relative to the build   *)
(* root (the working directory of every command of the ninja backend) or   *)
(* the absolute path; directories may carry a trailing "/".  A word is     *)
(* accepted when it is one of the spellings the rule book allows.          *)
(***************************************************************************)
EXTENDS CmdSubst

PJ(a, b) == IF a = "" THEN b ELSE IF b = "" THEN a ELSE a \o "/" \o b
RECURSIVE Slash(_)
Slash(s) == IF s = "" THEN "" ELSE (IF Ch(s, 1) = "\\" THEN "/" ELSE Ch(s, 1)) \o Slash(SubSeq(s, 2, Len(s)))
DirSpell(d) == {d, d \o "/"}
Dot(d) == IF d = "" THEN "." ELSE d

(***************************************************************************)
(* Layout of a configured project: L.b2s = path from the build root to the *)
(* source root, L.S / L.B = absolute source / build root, L.sd = directory *)
(* of the meson.build relative to the source root ("" at the top).         *)
(***************************************************************************)
(* L.abs = TRUE restricts every path to its absolute spelling: configure_file(command:) runs its command at      *)
(* configure time from an unspecified directory ([CBT] "do not assume that the command is invoked in any         *)
(* specific directory"), so only absolute paths are meaningful there.                                             *)
Pick(L, rel, abs) == IF L.abs THEN abs ELSE rel \cup abs
SrcFile(L, name) == Pick(L, {PJ(PJ(L.b2s, L.sd), name)}, {PJ(PJ(L.S, L.sd), name)})
BldFile(L, name) == Pick(L, {PJ(L.sd, name)}, {PJ(PJ(L.B, L.sd), name)})
OutDirs(L) == Pick(L, DirSpell(Dot(L.sd)), DirSpell(PJ(L.B, L.sd)))
SrcRoot(L) == Pick(L, DirSpell(L.b2s), DirSpell(L.S))
BldRoot(L) == Pick(L, {".", "./"}, DirSpell(L.B))
CurSrc(L) == Pick(L, DirSpell(PJ(L.b2s, L.sd)), DirSpell(PJ(L.S, L.sd)))

(***************************************************************************)
(* custom_target().  T = [ins: input names as written (relative to the     *)
(* current source dir), outs: output templates, dep: depfile template,     *)
(* hasdep: BOOLEAN, cmd: argument words (without the program)].            *)
(***************************************************************************)
CtPlain == CorePlain \cup {"DEPFILE", "PRIVATE_DIR", "SOURCE_ROOT", "BUILD_ROOT", "CURRENT_SOURCE_DIR"}
CtScan(w) == ScanWith(w, CoreIndexed, CtPlain)
CtOverlap(w) == OverlapWith(w, CoreIndexed, CtPlain)

\* names of the outputs / of the depfile: the input-name placeholders applied to the inputs as written
CtOutNames(T) == Subst(T.ins, <<>>, T.outs)
CtOutError(T) == ~CtOutNames(T).ok
CtDepName(T) == IF T.ins = <<>> THEN T.dep ELSE NameSubst(T.dep, T.ins[1])
CtDepError(T) == T.hasdep /\ T.ins = <<>> /\ NameTemplateOK(T.dep)

CtTokRule(t, whole, T) ==
    IF t.k = "ph" /\ t.s = "DEPFILE" THEN (IF T.hasdep THEN "" ELSE "R-NoDepfile")
    ELSE IF t.k = "ph" /\ t.s \in {"PRIVATE_DIR", "SOURCE_ROOT", "BUILD_ROOT", "CURRENT_SOURCE_DIR"} THEN ""
    ELSE TokRule(t, whole, Len(T.ins), Len(T.outs))
CtWordRules(w, T) == LET toks == CtScan(w)
                     IN SelectSeq([j \in 1..Len(toks) |-> CtTokRule(toks[j], IsWhole(toks), T)], LAMBDA x : x # "")
CtError(T) == \/ CtOutError(T) \/ CtDepError(T)
              \/ \E j \in 1..Len(T.cmd) : CtWordRules(T.cmd[j], T) # <<>>

\* spellings of one token; P = the spellings of this target's private directory (custom_target), or - for
\* configure_file, L.abs, which has no private directory and whose depfile location is not documented - the
\* spellings of the depfile path
CtTokSpell(t, L, T, onames, P) ==
    IF t.k = "lit" THEN {t.s}
    ELSE LET j == IF t.n < 0 THEN 1 ELSE t.n + 1
         IN CASE t.s = "INPUT" -> SrcFile(L, T.ins[j])
              [] t.s = "OUTPUT" -> BldFile(L, onames[j])
              [] t.s = "PLAINNAME" -> {PlainName(T.ins[j])}
              [] t.s = "BASENAME" -> {BaseName(T.ins[j])}
              [] t.s = "OUTDIR" -> OutDirs(L)
              [] t.s = "DEPFILE" -> IF L.abs THEN P ELSE BldFile(L, CtDepName(T))
              [] t.s = "PRIVATE_DIR" -> P
              [] t.s = "SOURCE_ROOT" -> SrcRoot(L)
              [] t.s = "BUILD_ROOT" -> BldRoot(L)
              [] t.s = "CURRENT_SOURCE_DIR" -> CurSrc(L)

RECURSIVE Spellings(_, _, _, _, _)
Spellings(toks, L, T, onames, P) ==
    IF toks = <<>> THEN {""}
    ELSE {Slash(h \o r) : h \in CtTokSpell(Head(toks), L, T, onames, P), r \in Spellings(Tail(toks), L, T, onames, P)}

\* the sequence of spelling sets the observed argument words must be drawn from, word by word
CtExpect(L, T, P) ==
    LET onames == CtOutNames(T).cmd
        one(w) == LET toks == CtScan(w)
                  IN IF IsWhole(toks) /\ toks[1].n = -1 /\ toks[1].s = "INPUT"
                     THEN [j \in 1..Len(T.ins) |-> SrcFile(L, T.ins[j])]
                     ELSE IF IsWhole(toks) /\ toks[1].n = -1 /\ toks[1].s = "OUTPUT"
                     THEN [j \in 1..Len(onames) |-> BldFile(L, onames[j])]
                     ELSE <<Spellings(toks, L, T, onames, P)>>
        RECURSIVE all(_)
        all(c) == IF c = <<>> THEN <<>> ELSE one(Head(c)) \o all(Tail(c))
    IN all(T.cmd)

Matches(expect, words) == Len(expect) = Len(words) /\ \A j \in 1..Len(words) : words[j] \in expect[j]
FirstMismatch(expect, words) ==
    IF Len(expect) # Len(words) THEN 0
    ELSE IF Matches(expect, words) THEN -1
    ELSE CHOOSE j \in 1..Len(words) : words[j] \notin expect[j] /\ \A h \in 1..(j - 1) : words[h] \in expect[h]

(***************************************************************************)
(* generator().process().  G = [outs: output templates, dep, hasdep,       *)
(* args: argument templates, extra: extra_args words]; one run per input   *)
(* file `input` (name relative to the current source dir); P = spellings   *)
(* of the private directory of the consuming target (@BUILD_DIR@).         *)
(***************************************************************************)
GenPlain == {"INPUT", "OUTPUT", "DEPFILE", "SOURCE_DIR", "BUILD_DIR", "CURRENT_SOURCE_DIR", "PLAINNAME", "BASENAME"}
GenScan(w) == ScanWith(w, {"OUTPUT"}, GenPlain)
GenOverlap(w) == OverlapWith(w, {"OUTPUT"}, GenPlain) \/ OverlapWith(w, {}, {"EXTRA_ARGS"})
GenOutNames(G, input) == [j \in 1..Len(G.outs) |-> NameSubst(G.outs[j], input)]
GenArgToks(G) == UNION {SeqSetOf(GenScan(G.args[j])) : j \in 1..Len(G.args)}
\* the documented ways in which a generator definition is wrong, by name
GenDefTags(G) ==
    (IF \E j \in 1..Len(G.outs) : ~NameTemplateOK(G.outs[j]) THEN <<"GenOutputWithoutName">> ELSE <<>>)
    \o (IF Len(G.outs) > 1 /\ \E t \in GenArgToks(G) : t.k = "ph" /\ t.s = "OUTPUT" /\ t.n = -1
        THEN <<"GenPlainOutputAmbiguous">> ELSE <<>>)
    \o (IF \E t \in GenArgToks(G) : t.k = "ph" /\ t.s = "OUTPUT" /\ t.n >= Len(G.outs) THEN <<"GenOutIndex">> ELSE <<>>)
GenDefError(G) == GenDefTags(G) # <<>>
PrivFile(P, name) == {PJ(p, name) : p \in P}
GenTokSpell(t, L, G, input, P) ==
    IF t.k = "lit" THEN {t.s}
    ELSE LET on == GenOutNames(G, input)
         IN CASE t.s = "INPUT" -> SrcFile(L, input)
              [] t.s = "OUTPUT" -> PrivFile(P, on[IF t.n < 0 THEN 1 ELSE t.n + 1])
              [] t.s = "PLAINNAME" -> {PlainName(input)}
              [] t.s = "BASENAME" -> {BaseName(input)}
              [] t.s = "DEPFILE" -> PrivFile(P, NameSubst(G.dep, input))
              [] t.s = "BUILD_DIR" -> P
              [] t.s = "SOURCE_DIR" -> SrcRoot(L)
              [] t.s = "CURRENT_SOURCE_DIR" -> CurSrc(L)
RECURSIVE GenSpellings(_, _, _, _, _)
GenSpellings(toks, L, G, input, P) ==
    IF toks = <<>> THEN {""}
    ELSE {Slash(h \o r) : h \in GenTokSpell(Head(toks), L, G, input, P), r \in GenSpellings(Tail(toks), L, G, input, P)}
GenExpect(L, G, input, P) ==
    LET one(w) == IF w = "@EXTRA_ARGS@" THEN [j \in 1..Len(G.extra) |-> {G.extra[j]}]
                  ELSE <<GenSpellings(GenScan(w), L, G, input, P)>>
        RECURSIVE all(_)
        all(c) == IF c = <<>> THEN <<>> ELSE one(Head(c)) \o all(Tail(c))
    IN all(G.args)
GenExpectOuts(G, input, P) == [j \in 1..Len(G.outs) |-> PrivFile(P, GenOutNames(G, input)[j])]

(***************************************************************************)
(* The all-relative reading as a function (one spelling per value), in two *)
(* formulations: in one pass with the extended placeholder table, and in   *)
(* two stages (layout placeholders first, by textual replacement, then the *)
(* core rule book) - CmdBackend_MC shows they agree and that the result is *)
(* one of the allowed spellings.                                           *)
(***************************************************************************)
RelValue(t, L, T, onames, p) ==
    IF t.k = "lit" THEN t.s
    ELSE LET j == IF t.n < 0 THEN 1 ELSE t.n + 1
         IN CASE t.s = "INPUT" -> PJ(PJ(L.b2s, L.sd), T.ins[j])
              [] t.s = "OUTPUT" -> PJ(L.sd, onames[j])
              [] t.s = "PLAINNAME" -> PlainName(T.ins[j])
              [] t.s = "BASENAME" -> BaseName(T.ins[j])
              [] t.s = "OUTDIR" -> Dot(L.sd)
              [] t.s = "DEPFILE" -> PJ(L.sd, CtDepName(T))
              [] t.s = "PRIVATE_DIR" -> p
              [] t.s = "SOURCE_ROOT" -> L.b2s
              [] t.s = "BUILD_ROOT" -> "."
              [] t.s = "CURRENT_SOURCE_DIR" -> PJ(L.b2s, L.sd)
RECURSIVE RelConcat(_, _, _, _, _)
RelConcat(toks, L, T, onames, p) ==
    IF toks = <<>> THEN "" ELSE RelValue(Head(toks), L, T, onames, p) \o RelConcat(Tail(toks), L, T, onames, p)
RelInputs(L, T) == [j \in 1..Len(T.ins) |-> PJ(PJ(L.b2s, L.sd), T.ins[j])]
RelOutputs(L, T) == [j \in 1..Len(CtOutNames(T).cmd) |-> PJ(L.sd, CtOutNames(T).cmd[j])]
OnePass(L, T, p) ==
    LET onames == CtOutNames(T).cmd
        one(w) == LET toks == CtScan(w)
                  IN IF IsWhole(toks) /\ toks[1].n = -1 /\ toks[1].s = "INPUT" THEN RelInputs(L, T)
                     ELSE IF IsWhole(toks) /\ toks[1].n = -1 /\ toks[1].s = "OUTPUT" THEN RelOutputs(L, T)
                     ELSE <<Slash(RelConcat(toks, L, T, onames, p))>>
        RECURSIVE all(_)
        all(c) == IF c = <<>> THEN <<>> ELSE one(Head(c)) \o all(Tail(c))
    IN IF CtError(T) THEN Failure ELSE [ok |-> TRUE, cmd |-> all(T.cmd)]

LayoutOnly == {"DEPFILE", "PRIVATE_DIR", "SOURCE_ROOT", "BUILD_ROOT", "CURRENT_SOURCE_DIR"}
StageOneWord(w, L, T, p) ==
    LET toks == ScanWith(w, {}, LayoutOnly)
        val(t) == IF t.k = "lit" THEN t.s ELSE RelValue(t, L, T, <<>>, p)
        RECURSIVE cat(_)
        cat(ts) == IF ts = <<>> THEN "" ELSE val(Head(ts)) \o cat(Tail(ts))
    IN cat(toks)
TwoStage(L, T, p) ==
    IF CtOutError(T) \/ CtDepError(T) THEN Failure
    ELSE IF ~T.hasdep /\ \E j \in 1..Len(T.cmd) : \E t \in SeqSetOf(ScanWith(T.cmd[j], {}, LayoutOnly)) : t.k = "ph" /\ t.s = "DEPFILE"
    THEN Failure
    ELSE LET r == Subst(RelInputs(L, T), RelOutputs(L, T), [j \in 1..Len(T.cmd) |-> StageOneWord(T.cmd[j], L, T, p)])
         IN IF r.ok THEN [ok |-> TRUE, cmd |-> [j \in 1..Len(r.cmd) |-> Slash(r.cmd[j])]] ELSE Failure
=============================================================================
