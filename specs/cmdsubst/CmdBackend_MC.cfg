SPECIFICATION Spec
CONSTANTS MaxLen = 2
INVARIANT OnePassEqualsTwoStage
INVARIANT RelativeIsAllowed
INVARIANT AbsoluteRootsAllowed
INVARIANT ConservativeExtension
INVARIANT NoLayoutPlaceholderLeft
INVARIANT OutputNamesDecide
CHECK_DEADLOCK FALSE
