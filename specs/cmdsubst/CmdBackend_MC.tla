---------------------------- MODULE CmdBackend_MC ----------------------------
(***************************************************************************)
(* Bounded model of the project-level rule book for custom_target(): every *)
(* layout (top level / subdirectory), input list, output templates,        *)
(* depfile and argument list of <= MaxLen words over Words.                *)
(***************************************************************************)
EXTENDS CmdBackend, TLC
CONSTANTS MaxLen

Layouts == { [b2s |-> "../src", S |-> "/w/src", B |-> "/w/bld", sd |-> "", abs |-> FALSE],
             [b2s |-> "../src", S |-> "/w/src", B |-> "/w/bld", sd |-> "sub/dir", abs |-> FALSE] }
Ins == { <<>>, <<"a.in">>, <<"d/a.c.in", "b.txt">> }
Outs == { <<"o.c">>, <<"@BASENAME@.c">>, <<"o.c", "x@PLAINNAME0@.h">> }
Deps == { [has |-> FALSE, t |-> ""], [has |-> TRUE, t |-> "o.d"], [has |-> TRUE, t |-> "@BASENAME@.d"] }
Words == { "x", "@INPUT@", "@OUTPUT@", "-i@INPUT0@", "@OUTPUT1@", "@OUTDIR@/t", "@BASENAME@", "@DEPFILE@", "--dep=@DEPFILE@",
           "@PRIVATE_DIR@", "@PRIVATE_DIR@/tmp", "@SOURCE_ROOT@", "-I@SOURCE_ROOT@/inc", "@BUILD_ROOT@", "@CURRENT_SOURCE_DIR@",
           "@CURRENT_SOURCE_DIR@/@PLAINNAME@", "@BUILD_ROOT@/@OUTPUT0@", "a\\b", "@INPUT@,@PRIVATE_DIR@", "@SOURCE_DIR@" }
Priv == "sub/o.c.p"

VARIABLES L, T, one, two
vars == <<L, T, one, two>>
Mk(i, o, d, c) == [ins |-> i, outs |-> o, dep |-> d.t, hasdep |-> d.has, cmd |-> c]
\* depfile templates with a placeholder are only defined for exactly one input (see CtDepName)
Sensible(t) == NameTemplateOK(t.dep) => Len(t.ins) <= 1
Init == /\ L \in Layouts
        /\ \E i \in Ins, o \in Outs, d \in Deps : T = Mk(i, o, d, <<>>) /\ Sensible(T)
        /\ one = OnePass(L, T, Priv) /\ two = TwoStage(L, T, Priv)
Next == /\ Len(T.cmd) < MaxLen
        /\ \E w \in Words : /\ T' = [T EXCEPT !.cmd = Append(@, w)]
                            /\ one' = OnePass(L, [T EXCEPT !.cmd = Append(@, w)], Priv)
                            /\ two' = TwoStage(L, [T EXCEPT !.cmd = Append(@, w)], Priv)
        /\ UNCHANGED L
Spec == Init /\ [][Next]_vars

WordsSpecified == \A w \in Words : ~CtOverlap(w)
ASSUME WordsSpecified
\* B1: one pass with the extended table = layout placeholders first, then the core rule book
OnePassEqualsTwoStage == one = two
\* B2: the all-relative result is one of the allowed spellings, word by word
RelativeIsAllowed == one.ok => Matches(CtExpect(L, T, {Priv}), one.cmd)
\* B3: and so is the all-absolute one (here: spot check on the roots)
AbsoluteRootsAllowed == L.S \in SrcRoot(L) /\ L.B \in BldRoot(L) /\ PJ(L.S, L.sd) \in CurSrc(L)
\* B4: without layout placeholders the project level is the core rule book applied to the project's file paths
HasLayoutPh(w) == \E t \in SeqSetOf(ScanWith(w, {}, LayoutOnly)) : t.k = "ph"
ConservativeExtension ==
    (~CtOutError(T) /\ ~CtDepError(T) /\ \A j \in 1..Len(T.cmd) : ~HasLayoutPh(T.cmd[j]))
        => LET r == Subst(RelInputs(L, T), RelOutputs(L, T), T.cmd)
           IN one.ok = r.ok /\ (r.ok => one.cmd = [j \in 1..Len(r.cmd) |-> Slash(r.cmd[j])])
\* B5: no layout placeholder survives
NoLayoutPlaceholderLeft == one.ok => \A j \in 1..Len(one.cmd) : ~HasLayoutPh(one.cmd[j]) /\ ~HasPlaceholder(one.cmd[j])
\* B6: outputs are named after the inputs: a failing output template fails the whole target
OutputNamesDecide == CtOutError(T) => ~one.ok
=============================================================================
