------------------------------- MODULE CmdSubst -------------------------------
(***************************************************************************)
(* X02 (part 1) - the rule book of command template substitution, i.e. the *)
(* `@...@` placeholders of custom_target(command:), configure_file(        *)
(* command:) and generator(arguments:).                                    *)
(*                                                                         *)
(* Written from the documentation, not from mesonbuild/utils/universal.py: *)
(*  [CT]  docs/yaml/functions/custom_target.yaml  (list of substitutions)  *)
(*  [CF]  docs/yaml/functions/configure_file.yaml ("see custom_target for  *)
(*        details about string substitutions")                             *)
(*  [GEN] docs/yaml/functions/generator.yaml, docs/markdown/               *)
(*        Generating-sources.md                                            *)
(*  [RN]  docs/markdown/Release-notes-for-1.5.0.md (indexed @PLAINNAME@)   *)
(*  [UT]  unittests/internaltests.py InternalTests.                        *)
(*        test_string_templates_substitution (pinned examples)             *)
(*  [T160] test cases/common/160 custom target template substitution       *)
(*        (pinned: single left-to-right pass, unknown @FOO@ is plain text, *)
(*        substituted text is not scanned again)                           *)
(*                                                                         *)
(* A command is a sequence of words, a word is a TLA+ string; TLC's        *)
(* Sequences operators Len, SubSeq and \o work on strings, so Ch(s, i) is  *)
(* the i-th character.  The rule book is the function                      *)
(*     Subst(ins, outs, cmd)  ->  [ok |-> TRUE, cmd |-> words]             *)
(*                              | [ok |-> FALSE, cmd |-> <<>>]             *)
(* of the input file names, output file names and command words.           *)
(***************************************************************************)
EXTENDS Integers, Sequences, FiniteSets

Ch(s, i) == SubSeq(s, i, i)
DigitChars == {"0", "1", "2", "3", "4", "5", "6", "7", "8", "9"}
DigitVal(c) == CASE c = "0" -> 0 [] c = "1" -> 1 [] c = "2" -> 2 [] c = "3" -> 3 [] c = "4" -> 4
                 [] c = "5" -> 5 [] c = "6" -> 6 [] c = "7" -> 7 [] c = "8" -> 8 [] c = "9" -> 9
DigitStr(d) == SubSeq("0123456789", d + 1, d + 1)

RECURSIVE NumVal(_)
NumVal(ds) == IF Len(ds) = 0 THEN 0
              ELSE 10 * NumVal(SubSeq(ds, 1, Len(ds) - 1)) + DigitVal(Ch(ds, Len(ds)))
RECURSIVE NumStr(_)
NumStr(n) == IF n < 10 THEN DigitStr(n) ELSE NumStr(n \div 10) \o DigitStr(n % 10)

\* position of the last occurrence of character c in s, 0 if none
LastIndexOf(s, c) == IF \E i \in 1..Len(s) : Ch(s, i) = c
                     THEN CHOOSE i \in 1..Len(s) : Ch(s, i) = c /\ \A j \in (i + 1)..Len(s) : Ch(s, j) # c
                     ELSE 0

(***************************************************************************)
(* File-name parts.                                                        *)
(*  [CT] @PLAINNAME@: the input filename, without a path                   *)
(*  [CT] @BASENAME@: the input filename, with extension removed;           *)
(*  [GEN] "foo.c.y becomes foo.c (extension is removed)", "the input file  *)
(*        name without preceding path or suffix (if any)"                  *)
(*  [CT] @OUTDIR@: the directory where the output(s) must be written;      *)
(*  [UT] output "out.c" gives ".", "dir/out.c" gives "dir".                *)
(* Names that begin with "." and names ending in "/" are not generated.    *)
(***************************************************************************)
PlainName(p) == SubSeq(p, LastIndexOf(p, "/") + 1, Len(p))
StripExt(n) == LET d == LastIndexOf(n, ".") IN IF d <= 1 THEN n ELSE SubSeq(n, 1, d - 1)
BaseName(p) == StripExt(PlainName(p))
DirName(p) == LET d == LastIndexOf(p, "/") IN IF d <= 1 THEN "." ELSE SubSeq(p, 1, d - 1)

(***************************************************************************)
(* Placeholders.  [CT]: @INPUT@ @OUTPUT@ @INPUTn@ @OUTPUTn@ @OUTDIR@       *)
(* @PLAINNAME@ @PLAINNAMEn@ @BASENAME@ @BASENAMEn@.  (The backend-level    *)
(* ones - @DEPFILE@ @PRIVATE_DIR@ @SOURCE_ROOT@ @BUILD_ROOT@               *)
(* @CURRENT_SOURCE_DIR@ - are in CmdBackend.tla; the scanner takes the     *)
(* name sets as arguments so that both layers share it.)                   *)
(***************************************************************************)
CoreIndexed == {"INPUT", "OUTPUT", "PLAINNAME", "BASENAME"}   \* may carry a decimal index
CorePlain == {"OUTDIR"}                                       \* never carry one

\* body = stem followed by a (possibly empty) run of digits
StemLen(body) == CHOOSE k \in 0..Len(body) :
                     /\ \A j \in (k + 1)..Len(body) : Ch(body, j) \in DigitChars
                     /\ (k = 0 \/ Ch(body, k) \notin DigitChars)

NoPh == [ok |-> FALSE, name |-> "", idx |-> -1, end |-> 0]
\* Is there a placeholder that starts at position p of s (Ch(s, p) = "@")?  It ends at the next "@".
PhAt(s, p, indexed, plain) ==
    IF Ch(s, p) # "@" \/ ~\E q \in (p + 1)..Len(s) : Ch(s, q) = "@" THEN NoPh
    ELSE LET q == CHOOSE q \in (p + 1)..Len(s) : Ch(s, q) = "@" /\ \A r \in (p + 1)..(q - 1) : Ch(s, r) # "@"
             body == SubSeq(s, p + 1, q - 1)
             k == StemLen(body)
             stem == SubSeq(body, 1, k)
             dg == SubSeq(body, k + 1, Len(body))
         IN IF stem \in indexed
            THEN [ok |-> TRUE, name |-> stem, idx |-> IF dg = "" THEN -1 ELSE NumVal(dg), end |-> q]
            ELSE IF stem \in plain /\ dg = "" THEN [ok |-> TRUE, name |-> stem, idx |-> -1, end |-> q]
            ELSE NoPh

SeqSetOf(q) == {q[j] : j \in 1..Len(q)}
Lit(text) == [k |-> "lit", s |-> text, n |-> -1]
Ph(name, idx) == [k |-> "ph", s |-> name, n |-> idx]

(***************************************************************************)
(* One left-to-right pass [T160]: at every "@" try to read a placeholder;  *)
(* if there is none the "@" is plain text and scanning resumes at the next *)
(* character ("-D@FOO@INPUT0@PUT1@" = lit "-D@FOO", INPUT0, lit "PUT1@").  *)
(***************************************************************************)
RECURSIVE ScanFrom(_, _, _, _, _)
ScanFrom(s, p, lit, indexed, plain) ==
    IF p > Len(s) THEN (IF lit <= Len(s) THEN <<Lit(SubSeq(s, lit, Len(s)))>> ELSE <<>>)
    ELSE LET ph == PhAt(s, p, indexed, plain)
         IN IF ph.ok
            THEN (IF lit < p THEN <<Lit(SubSeq(s, lit, p - 1))>> ELSE <<>>)
                 \o <<Ph(ph.name, ph.idx)>> \o ScanFrom(s, ph.end + 1, ph.end + 1, indexed, plain)
            ELSE ScanFrom(s, p + 1, lit, indexed, plain)
ScanWith(s, indexed, plain) == ScanFrom(s, 1, 1, indexed, plain)
Scan(s) == ScanWith(s, CoreIndexed, CorePlain)

\* every placeholder readable at *any* "@" of the word, whether or not the left-to-right pass gets there
AnywhereWith(s, indexed, plain) == {p \in 1..Len(s) : PhAt(s, p, indexed, plain).ok}
PhTokens(toks) == {j \in 1..Len(toks) : toks[j].k = "ph"}
(* The documentation does not say what a word means in which two placeholder readings share an "@"          *)
(* ("@INPUT@OUTPUT@"); such words are outside the rule book (never generated; the judge reports them).      *)
OverlapWith(s, indexed, plain) ==
    Cardinality(AnywhereWith(s, indexed, plain)) # Cardinality(PhTokens(ScanWith(s, indexed, plain)))
Overlap(s) == OverlapWith(s, CoreIndexed, CorePlain)
HasPlaceholder(s) == AnywhereWith(s, CoreIndexed, CorePlain) # {}

(***************************************************************************)
(* Error conditions.  `whole` = the placeholder is the entire word.        *)
(*  R-NoInput    [UT, by symmetry with R-NoOutput; build.py's "does not    *)
(*               have an input file"] an input-derived placeholder without *)
(*               any input                                                 *)
(*  R-InEmbedded [CT] "If more than one input is specified, all of them    *)
(*               will be substituted as separate arguments only if the     *)
(*               command uses '@INPUT@' as a standalone-argument ... this  *)
(*               would not work: ['cp', './@INPUT@']"; [UT] raises         *)
(*  R-InIndex    [CT] "the input with the specified array index in input"; *)
(*               [UT] '@INPUT2@.out' with two inputs raises                *)
(*  R-NameMany   [UT] @PLAINNAME@ / @BASENAME@ with two inputs raise;      *)
(*               failing/39 "we can't know which to use"                   *)
(*  R-NameIndex  [CT][RN] @PLAINNAMEn@ / @BASENAMEn@ "with the specified   *)
(*               array index in input": an index outside the array names   *)
(*               no input, as for @INPUTn@                                 *)
(*  R-NoOutput   [UT] @OUTPUT@ @OUTPUT0@ @OUTDIR@ without outputs raise    *)
(*  R-OutEmbedded [CT] "If more than one outputs are specified, the        *)
(*               behavior is the same as @INPUT@"; [UT] raises             *)
(*  R-OutIndex   [UT] '@OUTPUT2@.out' with two outputs raises              *)
(***************************************************************************)
TokRule(t, whole, ni, no) ==
    IF t.k # "ph" THEN ""
    ELSE CASE t.s = "INPUT" /\ t.n = -1 -> IF ni = 0 THEN "R-NoInput"
                                         ELSE IF ni > 1 /\ ~whole THEN "R-InEmbedded" ELSE ""
           [] t.s = "INPUT" /\ t.n >= 0 -> IF ni = 0 THEN "R-NoInput" ELSE IF t.n >= ni THEN "R-InIndex" ELSE ""
           [] t.s \in {"PLAINNAME", "BASENAME"} /\ t.n = -1 ->
                  IF ni = 0 THEN "R-NoInput" ELSE IF ni > 1 THEN "R-NameMany" ELSE ""
           [] t.s \in {"PLAINNAME", "BASENAME"} /\ t.n >= 0 -> IF t.n >= ni THEN "R-NameIndex" ELSE ""
           [] t.s = "OUTPUT" /\ t.n = -1 -> IF no = 0 THEN "R-NoOutput"
                                          ELSE IF no > 1 /\ ~whole THEN "R-OutEmbedded" ELSE ""
           [] t.s = "OUTPUT" /\ t.n >= 0 -> IF no = 0 THEN "R-NoOutput" ELSE IF t.n >= no THEN "R-OutIndex" ELSE ""
           [] t.s = "OUTDIR" -> IF no = 0 THEN "R-NoOutput" ELSE ""
           [] OTHER -> ""

IsWhole(toks) == Len(toks) = 1 /\ toks[1].k = "ph"
\* the rules a word breaks, in token order (a sequence; empty = the word is legal)
WordRulesT(toks, ni, no) ==
    LET r == [j \in 1..Len(toks) |-> TokRule(toks[j], IsWhole(toks), ni, no)]
    IN SelectSeq(r, LAMBDA x : x # "")
WordRules(w, ni, no) == WordRulesT(Scan(w), ni, no)
WordError(w, ni, no) == WordRules(w, ni, no) # <<>>
CmdError(cmd, ni, no) == \E j \in 1..Len(cmd) : WordError(cmd[j], ni, no)

(***************************************************************************)
(* Values.  Only evaluated for legal words.                                *)
(***************************************************************************)
TokValue(t, ins, outs) ==
    IF t.k = "lit" THEN t.s
    ELSE LET j == IF t.n < 0 THEN 1 ELSE t.n + 1
         IN CASE t.s = "INPUT" -> ins[j]
              [] t.s = "OUTPUT" -> outs[j]
              [] t.s = "PLAINNAME" -> PlainName(ins[j])
              [] t.s = "BASENAME" -> BaseName(ins[j])
              [] t.s = "OUTDIR" -> DirName(outs[1])

RECURSIVE ConcatValues(_, _, _)
ConcatValues(toks, ins, outs) ==
    IF toks = <<>> THEN "" ELSE TokValue(Head(toks), ins, outs) \o ConcatValues(Tail(toks), ins, outs)

(* [CT] a standalone @INPUT@ / @OUTPUT@ stands for all the files as separate arguments; every other word  *)
(* stays one word.                                                                                          *)
ExpandWord(w, ins, outs) ==
    LET toks == Scan(w)
    IN IF IsWhole(toks) /\ toks[1].n = -1 /\ toks[1].s = "INPUT" THEN ins
       ELSE IF IsWhole(toks) /\ toks[1].n = -1 /\ toks[1].s = "OUTPUT" THEN outs
       ELSE <<ConcatValues(toks, ins, outs)>>

RECURSIVE ExpandAll(_, _, _)
ExpandAll(cmd, ins, outs) ==
    IF cmd = <<>> THEN <<>> ELSE ExpandWord(Head(cmd), ins, outs) \o ExpandAll(Tail(cmd), ins, outs)

Failure == [ok |-> FALSE, cmd |-> <<>>]
Subst(ins, outs, cmd) ==
    IF CmdError(cmd, Len(ins), Len(outs)) THEN Failure
    ELSE [ok |-> TRUE, cmd |-> ExpandAll(cmd, ins, outs)]

(***************************************************************************)
(* Second, declarative formulation of "is an error": stated on occurrences *)
(* of the placeholder *texts* anywhere in the word, without the scanner.   *)
(* TLC proves it equal to CmdError on the model's word space.              *)
(***************************************************************************)
Occurs(w, name, idx) == \E p \in AnywhereWith(w, CoreIndexed, CorePlain) :
                            LET ph == PhAt(w, p, CoreIndexed, CorePlain) IN ph.name = name /\ ph.idx = idx
OccursIdx(w, name) == {PhAt(w, p, CoreIndexed, CorePlain).idx :
                          p \in {q \in AnywhereWith(w, CoreIndexed, CorePlain) :
                                     PhAt(w, q, CoreIndexed, CorePlain).name = name}}
DeclWordError(w, ni, no) ==
    LET inIdx == OccursIdx(w, "INPUT")
        nmIdx == OccursIdx(w, "PLAINNAME") \cup OccursIdx(w, "BASENAME")
        outIdx == OccursIdx(w, "OUTPUT")
    IN \/ ni = 0 /\ (inIdx # {} \/ nmIdx # {})
       \/ ni > 1 /\ -1 \in nmIdx
       \/ ni > 1 /\ -1 \in inIdx /\ w # "@INPUT@"
       \/ \E n \in inIdx \cup nmIdx : n >= ni
       \/ no = 0 /\ (outIdx # {} \/ Occurs(w, "OUTDIR", -1))
       \/ no > 1 /\ -1 \in outIdx /\ w # "@OUTPUT@"
       \/ \E n \in outIdx : n >= no
DeclCmdError(cmd, ni, no) == \E j \in 1..Len(cmd) : DeclWordError(cmd[j], ni, no)

(***************************************************************************)
(* The substitution dictionary ([UT] checks it literally): one entry per   *)
(* key, `list` tells whether the value is the whole file list.             *)
(***************************************************************************)
Entry(key, vals, isList) == [key |-> key, vals |-> vals, list |-> isList]
TemplateDict(ins, outs) ==
    (IF ins = <<>> THEN {} ELSE
        {Entry("@INPUT@", ins, TRUE)}
        \cup {Entry("@INPUT" \o NumStr(i - 1) \o "@", <<ins[i]>>, FALSE) : i \in 1..Len(ins)}
        \cup {Entry("@PLAINNAME" \o NumStr(i - 1) \o "@", <<PlainName(ins[i])>>, FALSE) : i \in 1..Len(ins)}
        \cup {Entry("@BASENAME" \o NumStr(i - 1) \o "@", <<BaseName(ins[i])>>, FALSE) : i \in 1..Len(ins)}
        \cup (IF Len(ins) = 1 THEN {Entry("@PLAINNAME@", <<PlainName(ins[1])>>, FALSE),
                                    Entry("@BASENAME@", <<BaseName(ins[1])>>, FALSE)} ELSE {}))
    \cup
    (IF outs = <<>> THEN {} ELSE
        {Entry("@OUTPUT@", outs, TRUE), Entry("@OUTDIR@", <<DirName(outs[1])>>, FALSE)}
        \cup {Entry("@OUTPUT" \o NumStr(i - 1) \o "@", <<outs[i]>>, FALSE) : i \in 1..Len(outs)})

(***************************************************************************)
(* Output / depfile *names* derived from one input                         *)
(*  [GEN] generator(output:) "must be constructed using one or both of"    *)
(*        @PLAINNAME@ / @BASENAME@; generator(depfile:), arguments: too    *)
(*  [CT]  custom_target(depfile:) "also accepts the @BASENAME@ and         *)
(*        @PLAINNAME@ substitutions"                                       *)
(* Only the two un-indexed names are placeholders in this context.         *)
(***************************************************************************)
NameTokValue(t, input) == IF t.k = "lit" THEN t.s
                          ELSE IF t.s = "PLAINNAME" THEN PlainName(input) ELSE BaseName(input)
RECURSIVE ConcatNameValues(_, _)
ConcatNameValues(toks, input) ==
    IF toks = <<>> THEN "" ELSE NameTokValue(Head(toks), input) \o ConcatNameValues(Tail(toks), input)
NameSubst(templ, input) == ConcatNameValues(ScanWith(templ, {}, {"PLAINNAME", "BASENAME"}), input)
NameTemplateOK(templ) == AnywhereWith(templ, {}, {"PLAINNAME", "BASENAME"}) # {}
=============================================================================
