SPECIFICATION Spec
CONSTANTS MaxLen = 2
 Reduced = FALSE

INVARIANT ErrorIffDocumented
INVARIANT NoPlaceholderLeft
INVARIANT Idempotent
INVARIANT WordCount
INVARIANT PlainPreserved
INVARIANT WordLocal
INVARIANT PrefixStable
INVARIANT DictFunctional
INVARIANT DictMatchesRules
INVARIANT DictMatchesValues
CHECK_DEADLOCK FALSE
POSTCONDITION Export
