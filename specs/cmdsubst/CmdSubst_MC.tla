----------------------------- MODULE CmdSubst_MC -----------------------------
(***************************************************************************)
(* Bounded exhaustive model of CmdSubst: every choice of 0-2 input files,  *)
(* 0-2 output files (in several name shapes) and every command of at most  *)
(* MaxLen words over Alphabet (plain words, every placeholder form as a    *)
(* whole word, embedded in a larger word, several in one word, in-range    *)
(* and out-of-range indexes).  The command grows one word per step, the    *)
(* laws are invariants of every reachable (ins, outs, cmd).  The file      *)
(* shapes and the alphabet are exported so that the conformance harness    *)
(* replays exactly this space through the real functions.                  *)
(***************************************************************************)
EXTENDS CmdSubst, TLC, Json, IOUtils, SequencesExt
CONSTANTS MaxLen, Reduced

InputChoices == { <<>>,
                  <<"a.in">>, <<"src/foo.c.in">>, <<"../s/d.e/noext">>,
                  <<"src/foo.c.in", "gen/bar.txt">>, <<"bar/foo.c.in", "baz/foo.c.in">> }
OutputChoices == { <<>>, <<"out.c">>, <<"dir/out.c">>, <<"dir/out.c", "dir/out2.h">>, <<"o1", "o2.tar.gz">> }

Plain == { "x", "--flag=1", "user@host", "@FOO@", "@", "@INPUT", "OUTPUT@", "@input@", "@OUTDIR1@", "@DEPFILE@" }
Whole == { "@INPUT@", "@OUTPUT@", "@INPUT0@", "@INPUT1@", "@INPUT2@", "@OUTPUT0@", "@OUTPUT1@", "@OUTPUT2@",
           "@OUTDIR@", "@PLAINNAME@", "@BASENAME@", "@PLAINNAME0@", "@BASENAME1@", "@PLAINNAME2@", "@BASENAME10@" }
Embedded == { "-i@INPUT@", "@OUTPUT@.o", "p@INPUT0@s", "@INPUT1@.x", "-o@OUTPUT1@", "@OUTDIR@/f", "@BASENAME@.c",
              "--dep=@PLAINNAME@.d", "@BASENAME0@.h", "@@INPUT@@", "-D@FOO@INPUT0@PUT1@" }
Several == { "@INPUT@:@OUTPUT@", "@INPUT0@,@INPUT1@", "@INPUT0@,@INPUT2@", "@OUTPUT0@+@OUTPUT2@", "@INPUT@@OUTPUT@",
             "@OUTDIR@/@BASENAME@.@PLAINNAME1@", "@INPUT@ @INPUT@" }
Full == Plain \cup Whole \cup Embedded \cup Several
\* one representative per kind of word, for the longer commands (substitution is word-local, law WordLocal)
Small == { "x", "@FOO@", "@INPUT@", "@OUTPUT@", "@INPUT1@", "@OUTPUT0@", "@OUTPUT2@", "@OUTDIR@", "@PLAINNAME@", "@BASENAME1@",
           "-i@INPUT@", "@OUTPUT@.o", "@BASENAME@.c", "@INPUT0@,@INPUT2@", "@INPUT@:@OUTPUT@", "-D@FOO@INPUT0@PUT1@" }
ASSUME Small \subseteq Full
Alphabet == IF Reduced THEN Small ELSE Full

\* res is the rule book's answer for (ins, outs, cmd); it is a variable only so that TLC computes it once per state
VARIABLES ins, outs, cmd, res
vars == <<ins, outs, cmd, res>>
Init == ins \in InputChoices /\ outs \in OutputChoices /\ cmd = <<>> /\ res = Subst(ins, outs, <<>>)
Next == /\ Len(cmd) < MaxLen
        /\ \E w \in Alphabet : cmd' = Append(cmd, w) /\ res' = Subst(ins, outs, Append(cmd, w))
        /\ UNCHANGED <<ins, outs>>
Spec == Init /\ [][Next]_vars

R == res
ni == Len(ins)
no == Len(outs)

\* the alphabet stays inside the rule book: no word with overlapping placeholder readings
AlphabetSpecified == \A w \in Full : ~Overlap(w)

\* L1: "error iff one of the documented conditions holds": the scanner-based and the declarative formulation agree
ErrorIffDocumented == R.ok = ~DeclCmdError(cmd, ni, no)

\* L2: on success no recognised placeholder is left behind (file names of the model contain no "@" - the
\*     pinned T160 word shows why that premise is needed)
NoPlaceholderLeft == R.ok => \A j \in 1..Len(R.cmd) : ~HasPlaceholder(R.cmd[j])

\* L3: substitution is idempotent on its own output
Idempotent == R.ok => Subst(ins, outs, R.cmd) = R

\* L4: word count: a standalone @INPUT@ / @OUTPUT@ contributes one word per file, every other word exactly one
Width(w) == IF w = "@INPUT@" THEN ni ELSE IF w = "@OUTPUT@" THEN no ELSE 1
RECURSIVE SumWidth(_)
SumWidth(c) == IF c = <<>> THEN 0 ELSE Width(Head(c)) + SumWidth(Tail(c))
WordCount == R.ok => Len(R.cmd) = SumWidth(cmd)

\* L5: words without any placeholder pass through unchanged, in order
PlainSubseq(c) == SelectSeq(c, LAMBDA w : ~HasPlaceholder(w))
PlainPreserved == R.ok /\ (\A j \in 1..Len(cmd) : ~HasPlaceholder(cmd[j])) => R.cmd = cmd

\* L6: substitution is word-local: the result of a command is the concatenation of the results of its words,
\*     and it fails iff one of the words fails on its own
WordLocal ==
    LET parts == [j \in 1..Len(cmd) |-> Subst(ins, outs, <<cmd[j]>>)]
    IN /\ R.ok = \A j \in 1..Len(cmd) : parts[j].ok
       /\ R.ok => R.cmd = FlattenSeq([j \in 1..Len(cmd) |-> parts[j].cmd])

\* L7: more files never turn an index error into a different value: what @INPUTk@ denotes does not depend on the
\*     files after it (checked between the one-input and two-input shapes that share the first file)
PrefixStable ==
    (ins = <<"src/foo.c.in", "gen/bar.txt">> /\ R.ok /\ Subst(<<"src/foo.c.in">>, outs, cmd).ok
     /\ \A j \in 1..Len(cmd) : cmd[j] # "@INPUT@")
        => Subst(<<"src/foo.c.in">>, outs, cmd).cmd = R.cmd

\* L8: the dictionary has exactly one value per key, and a key is present iff using it as a whole word is legal
DictFunctional == cmd = <<>> => \A e1, e2 \in TemplateDict(ins, outs) : e1.key = e2.key => e1 = e2
DictMatchesRules ==
    cmd = <<>> => \A w \in Whole : (\E e \in TemplateDict(ins, outs) : e.key = w) = ~WordError(w, ni, no)
DictMatchesValues ==
    cmd = <<>> => \A e \in TemplateDict(ins, outs) : Subst(ins, outs, <<e.key>>) = [ok |-> TRUE, cmd |-> e.vals]

(***************************************************************************)
(* The pinned examples of unittests/internaltests.py, literally.           *)
(***************************************************************************)
OK(c) == [ok |-> TRUE, cmd |-> c]
I1 == <<"bar/foo.c.in">>
I2 == <<"bar/foo.c.in", "baz/foo.c.in">>
O1 == <<"out.c">>
O1d == <<"dir/out.c">>
O2 == <<"dir/out.c", "dir/out2.c">>
Pinned ==
    /\ TemplateDict(<<>>, <<>>) = {}
    /\ TemplateDict(I1, <<>>) = {Entry("@INPUT@", I1, TRUE), Entry("@INPUT0@", I1, FALSE),
                                 Entry("@PLAINNAME0@", <<"foo.c.in">>, FALSE), Entry("@BASENAME0@", <<"foo.c">>, FALSE),
                                 Entry("@PLAINNAME@", <<"foo.c.in">>, FALSE), Entry("@BASENAME@", <<"foo.c">>, FALSE)}
    /\ Subst(I1, <<>>, <<"some", "ordinary", "strings">>) = OK(<<"some", "ordinary", "strings">>)
    /\ Subst(I1, <<>>, <<"@INPUT@.out", "ordinary", "strings">>) = OK(<<"bar/foo.c.in.out", "ordinary", "strings">>)
    /\ Subst(I1, <<>>, <<"@INPUT0@.out", "@PLAINNAME@.ok", "strings">>) = OK(<<"bar/foo.c.in.out", "foo.c.in.ok", "strings">>)
    /\ Subst(I1, <<>>, <<"@INPUT@", "@BASENAME@.hah", "strings">>) = OK(<<"bar/foo.c.in", "foo.c.hah", "strings">>)
    /\ ~Subst(I1, <<>>, <<"@OUTPUT@">>).ok
    /\ \E e \in TemplateDict(I1, O1) : e = Entry("@OUTDIR@", <<".">>, FALSE)
    /\ Subst(I1, O1, <<"@INPUT@ @OUTPUT@">>) = OK(<<"bar/foo.c.in out.c">>)
    /\ Subst(I1, O1, <<"@INPUT@.out", "@OUTPUT@", "strings">>) = OK(<<"bar/foo.c.in.out", "out.c", "strings">>)
    /\ Subst(I1, O1, <<"@INPUT0@.out", "@PLAINNAME@.ok", "@OUTPUT0@">>) = OK(<<"bar/foo.c.in.out", "foo.c.in.ok", "out.c">>)
    /\ \E e \in TemplateDict(I1, O1d) : e = Entry("@OUTDIR@", <<"dir">>, FALSE)
    /\ TemplateDict(I2, <<>>) = {Entry("@INPUT@", I2, TRUE), Entry("@INPUT0@", <<I2[1]>>, FALSE),
                                 Entry("@INPUT1@", <<I2[2]>>, FALSE),
                                 Entry("@PLAINNAME0@", <<"foo.c.in">>, FALSE), Entry("@PLAINNAME1@", <<"foo.c.in">>, FALSE),
                                 Entry("@BASENAME0@", <<"foo.c">>, FALSE), Entry("@BASENAME1@", <<"foo.c">>, FALSE)}
    /\ Subst(I2, <<>>, <<"@INPUT@", "ordinary", "strings">>) = OK(I2 \o <<"ordinary", "strings">>)
    /\ Subst(I2, <<>>, <<"@INPUT0@.out", "@INPUT1@.ok", "strings">>) = OK(<<"bar/foo.c.in.out", "baz/foo.c.in.ok", "strings">>)
    /\ Subst(I2, <<>>, <<"@INPUT0@", "@INPUT1@", "strings">>) = OK(I2 \o <<"strings">>)
    /\ ~Subst(I2, <<>>, <<"@INPUT@.out", "ordinary", "strings">>).ok
    /\ ~Subst(I2, <<>>, <<"@INPUT2@.out", "ordinary", "strings">>).ok
    /\ ~Subst(I2, <<>>, <<"@PLAINNAME@">>).ok
    /\ ~Subst(I2, <<>>, <<"@BASENAME@">>).ok
    /\ ~Subst(I2, <<>>, <<"@OUTPUT@">>).ok
    /\ ~Subst(I2, <<>>, <<"@OUTPUT0@">>).ok
    /\ ~Subst(I2, <<>>, <<"@OUTDIR@">>).ok
    /\ Subst(I2, O1d, <<"@OUTPUT@", "ordinary", "strings">>) = OK(<<"dir/out.c", "ordinary", "strings">>)
    /\ Subst(I2, O1d, <<"@OUTPUT@.out", "ordinary", "strings">>) = OK(<<"dir/out.c.out", "ordinary", "strings">>)
    /\ Subst(I2, O1d, <<"@OUTPUT0@.out", "@INPUT1@.ok", "strings">>) = OK(<<"dir/out.c.out", "baz/foo.c.in.ok", "strings">>)
    /\ ~Subst(I2, O1d, <<"@OUTPUT2@.out", "ordinary", "strings">>).ok
    /\ Subst(I2, O2, <<"@OUTPUT@", "ordinary", "strings">>) = OK(O2 \o <<"ordinary", "strings">>)
    /\ Subst(I2, O2, <<"@OUTPUT0@", "@OUTPUT1@", "strings">>) = OK(O2 \o <<"strings">>)
    /\ Subst(I2, O2, <<"@OUTPUT0@.out", "@INPUT1@.ok", "@OUTDIR@">>) = OK(<<"dir/out.c.out", "baz/foo.c.in.ok", "dir">>)
    /\ ~Subst(I2, O2, <<"@INPUT@.out", "ordinary", "strings">>).ok
    /\ ~Subst(I2, O2, <<"@OUTPUT2@.out", "ordinary", "strings">>).ok
    /\ ~Subst(I2, O2, <<"@OUTPUT@.out", "ordinary", "strings">>).ok
    \* test cases/common/160: input 0 is named "x@IN"
    /\ Subst(<<"x@IN", "foo.c.in">>, <<"foo.c">>, <<"-D@FOO@INPUT0@PUT1@", "@INPUT1@", "@OUTPUT@">>)
           = OK(<<"-D@FOOx@INPUT1@", "foo.c.in", "foo.c">>)
    \* Generating-sources.md: some/path/filename.idl -> filename.c / filename.idl.c
    /\ NameSubst("@BASENAME@.c", "some/path/filename.idl") = "filename.c"
    /\ NameSubst("@PLAINNAME@.c", "some/path/filename.idl") = "filename.idl.c"
    /\ NameSubst("@BASENAME@", "foo.c.y") = "foo.c"
ASSUME Pinned
ASSUME AlphabetSpecified

Export == /\ TLCGet("stats").diameter >= 0
          /\ JsonSerialize("space.json", [alphabet |-> SetToSeq(Alphabet), inputs |-> SetToSeq(InputChoices),
                                          outputs |-> SetToSeq(OutputChoices), whole |-> SetToSeq(Whole)])
=============================================================================
