-------------------------------- MODULE DepFile --------------------------------
(***************************************************************************)
(* X02 (part 2) - Makefile-style dependency files as read by               *)
(* mesonbuild/depfile.py for configure_file(depfile:)                      *)
(*   docs/yaml/functions/configure_file.yaml: "A dependency file that the  *)
(*   command can write listing all the additional files this target        *)
(*   depends on."                                                          *)
(* The format is the one `gcc -MD` writes and make/ninja read: rules       *)
(*       target ... : prerequisite ...                                     *)
(* The rule book below is written from that syntax (GNU make manual:       *)
(* "Rule Syntax", "Splitting Long Lines", "Multiple Rules for One Target"; *)
(* GCC manual -MD/-MT/-MQ) and from the pinned examples [UT] of            *)
(* unittests/internaltests.py InternalTests.test_depfile:                  *)
(*   R1 words are separated by blanks; the first ":" of a rule separates   *)
(*      targets from prerequisites; blanks around ":" do not matter        *)
(*      ([UT] "meson/foo.o  : foo.c   foo.h")                              *)
(*   R2 a newline ends the rule; backslash-newline continues it on the     *)
(*      next line and counts as a blank (make: "converted into a single    *)
(*      space"; [UT] "foo.o \" / "foo.h: bar" has targets foo.o and foo.h) *)
(*   R3 backslash takes the next character literally: "\ " is a space in a *)
(*      name, "\#" a hash, "\\" a backslash ([UT] "Program\ F\iles\\X" is  *)
(*      the one name "Program Files\X")                                    *)
(*   R4 "$$" is a dollar sign; a single "$" stands for itself ([UT])       *)
(*   R5 a rule may have several targets, a file several rules, a target    *)
(*      several rules (prerequisites accumulate), a rule no prerequisites  *)
(*   R6 blank lines are not rules                                          *)
(*   R7 get_all_dependencies(name) = every file reachable from name over   *)
(*      one or more target->prerequisite steps; a name without a rule has  *)
(*      none; cycles are legal ([UT] "a: b" "b: a" gives {a, b} for both)  *)
(* Outside the rule book (never generated, see `Specified`): tabs, CR,     *)
(* comments (unescaped "#"), a second ":" in a rule, a rule line without   *)
(* ":", "$" directly before a blank, newline, ":" or "\", a backslash at   *)
(* the very end of the file.                                               *)
(***************************************************************************)
EXTENDS Integers, Sequences, FiniteSets

Ch(s, i) == SubSeq(s, i, i)

RECURSIVE JoinLines(_)
JoinLines(lines) == IF lines = <<>> THEN "" ELSE Head(lines) \o "\n" \o JoinLines(Tail(lines))

Special == {"\\", "$", " ", "\n", ":"}
\* first position >= p holding a special character (the text always ends with a newline)
NextSpecial(text, p) == CHOOSE q \in p..Len(text) : Ch(text, q) \in Special /\ \A r \in p..(q - 1) : Ch(text, r) \notin Special

Word(s) == [k |-> "word", s |-> s]
Colon == [k |-> "colon", s |-> ""]
Eol == [k |-> "eol", s |-> ""]
Flush(acc) == IF acc = "" THEN <<>> ELSE <<Word(acc)>>

(***************************************************************************)
(* Formulation 1: a left-to-right reader.  `contSep` is TRUE in the rule   *)
(* book (R2: backslash-newline is a blank); FALSE gives the variant in     *)
(* which it vanishes without separating words - used only by the judge to  *)
(* give a precise name to that particular deviation.                       *)
(***************************************************************************)
RECURSIVE LexFrom(_, _, _, _)
LexFrom(text, p, acc, contSep) ==
    IF p > Len(text) THEN Flush(acc)
    ELSE LET q == NextSpecial(text, p)
             a == acc \o SubSeq(text, p, q - 1)
             c == Ch(text, q)
             n == IF q < Len(text) THEN Ch(text, q + 1) ELSE ""
         IN CASE c = "\\" /\ n = "\n" -> IF contSep THEN Flush(a) \o LexFrom(text, q + 2, "", contSep)
                                                  ELSE LexFrom(text, q + 2, a, contSep)
              [] c = "\\" /\ n # "\n" -> LexFrom(text, q + 2, a \o n, contSep)
              [] c = "$" -> LexFrom(text, IF n = "$" THEN q + 2 ELSE q + 1, a \o "$", contSep)
              [] c = " " -> Flush(a) \o LexFrom(text, q + 1, "", contSep)
              [] c = "\n" -> Flush(a) \o <<Eol>> \o LexFrom(text, q + 1, "", contSep)
              [] c = ":" -> Flush(a) \o <<Colon>> \o LexFrom(text, q + 1, "", contSep)

Rule(t, d) == [t |-> t, d |-> d]
WordsOf(toks) == [j \in 1..Len(toks) |-> toks[j].s]
\* one logical line of tokens (no eol inside) -> zero or one rule
LineRule(toks) ==
    IF toks = <<>> THEN <<>>
    ELSE IF \E j \in 1..Len(toks) : toks[j].k = "colon"
         THEN LET c == CHOOSE j \in 1..Len(toks) : toks[j].k = "colon" /\ \A h \in 1..(j - 1) : toks[h].k # "colon"
              IN <<Rule(WordsOf(SubSeq(toks, 1, c - 1)),
                        WordsOf(SelectSeq(SubSeq(toks, c + 1, Len(toks)), LAMBDA x : x.k = "word")))>>
         ELSE <<Rule(WordsOf(toks), <<>>)>>

RECURSIVE Group(_)
Group(toks) ==
    IF toks = <<>> THEN <<>>
    ELSE IF \E j \in 1..Len(toks) : toks[j].k = "eol"
         THEN LET e == CHOOSE j \in 1..Len(toks) : toks[j].k = "eol" /\ \A h \in 1..(j - 1) : toks[h].k # "eol"
              IN LineRule(SubSeq(toks, 1, e - 1)) \o Group(SubSeq(toks, e + 1, Len(toks)))
         ELSE LineRule(toks)

RulesWith(lines, contSep) == Group(LexFrom(JoinLines(lines), 1, "", contSep))
Rules(lines) == RulesWith(lines, TRUE)

(***************************************************************************)
(* Formulation 2: by positions.  A position is *quoted* when an odd run of *)
(* backslashes ends just before it; unquoted blanks, newlines, ":" and the *)
(* two characters of a backslash-newline are separators; a raw word is a   *)
(* maximal run of non-separators; its name is obtained by unquoting.       *)
(***************************************************************************)
\* k = length of the run of backslashes that ends just before p
Quoted(text, p) == LET k == CHOOSE k \in 0..(p - 1) : /\ \A j \in (p - k)..(p - 1) : Ch(text, j) = "\\"
                                                      /\ (k = p - 1 \/ Ch(text, p - k - 1) # "\\")
                   IN k % 2 = 1
ContAt(text, p) == Ch(text, p) = "\\" /\ ~Quoted(text, p) /\ p < Len(text) /\ Ch(text, p + 1) = "\n"
IsSep(text, p) == \/ ~Quoted(text, p) /\ Ch(text, p) \in {" ", "\n", ":"}
                  \/ ContAt(text, p)
                  \/ (p > 1 /\ ContAt(text, p - 1))
IsEol(text, p) == Ch(text, p) = "\n" /\ ~Quoted(text, p)
IsColon(text, p) == Ch(text, p) = ":" /\ ~Quoted(text, p)

RECURSIVE Unquote(_)
Unquote(raw) ==
    IF raw = "" THEN ""
    ELSE LET c == Ch(raw, 1) IN
         IF c = "\\" /\ Len(raw) >= 2 THEN Ch(raw, 2) \o Unquote(SubSeq(raw, 3, Len(raw)))
         ELSE IF c = "$" /\ Len(raw) >= 2 /\ Ch(raw, 2) = "$" THEN "$" \o Unquote(SubSeq(raw, 3, Len(raw)))
         ELSE c \o Unquote(SubSeq(raw, 2, Len(raw)))

\* start positions of raw words in text[lo..hi]
WordStarts(text, lo, hi) == {p \in lo..hi : ~IsSep(text, p) /\ (p = lo \/ IsSep(text, p - 1))}
WordEnd(text, p, hi) == CHOOSE q \in p..hi : (\A r \in p..q : ~IsSep(text, r)) /\ (q = hi \/ IsSep(text, q + 1))
RECURSIVE SortedSeq(_)
SortedSeq(S) == IF S = {} THEN <<>> ELSE LET m == CHOOSE x \in S : \A y \in S : x <= y IN <<m>> \o SortedSeq(S \ {m})
NamesIn(text, lo, hi) ==
    LET st == SortedSeq(WordStarts(text, lo, hi))
    IN [j \in 1..Len(st) |-> Unquote(SubSeq(text, st[j], WordEnd(text, st[j], hi)))]
\* the rule written in text[lo..hi] (a logical line without its newline)
DeclLineRule(text, lo, hi) ==
    IF WordStarts(text, lo, hi) = {} /\ ~\E p \in lo..hi : IsColon(text, p) THEN <<>>
    ELSE IF \E p \in lo..hi : IsColon(text, p)
         THEN LET c == CHOOSE p \in lo..hi : IsColon(text, p) /\ \A r \in lo..(p - 1) : ~IsColon(text, r)
              IN <<Rule(NamesIn(text, lo, c - 1), NamesIn(text, c + 1, hi))>>
         ELSE <<Rule(NamesIn(text, lo, hi), <<>>)>>
RECURSIVE DeclFrom(_, _)
DeclFrom(text, lo) ==
    IF lo > Len(text) THEN <<>>
    ELSE IF \E p \in lo..Len(text) : IsEol(text, p)
         THEN LET e == CHOOSE p \in lo..Len(text) : IsEol(text, p) /\ \A r \in lo..(p - 1) : ~IsEol(text, r)
              IN DeclLineRule(text, lo, e - 1) \o DeclFrom(text, e + 1)
         ELSE DeclLineRule(text, lo, Len(text))
DeclRules(lines) == DeclFrom(JoinLines(lines), 1)

(***************************************************************************)
(* What the rule book covers.                                              *)
(***************************************************************************)
EndsInContinuation(line) == Len(line) >= 1 /\ ContAt(line \o "\n", Len(line))
Complete(lines) == lines = <<>> \/ ~EndsInContinuation(lines[Len(lines)])
\* a "$" that is not half of a "$$" pair is followed by an ordinary character
RECURSIVE DollarsOK(_, _)
DollarsOK(text, p) ==
    IF p > Len(text) THEN TRUE
    ELSE LET c == Ch(text, p)
             n == IF p < Len(text) THEN Ch(text, p + 1) ELSE ""
         IN IF c = "\\" THEN DollarsOK(text, p + 2)
            ELSE IF c = "$" THEN (IF n = "$" THEN DollarsOK(text, p + 2)
                                  ELSE n \notin {" ", "\n", ":", "\\", ""} /\ DollarsOK(text, p + 1))
            ELSE DollarsOK(text, p + 1)
ColonCount(toks) == Cardinality({j \in 1..Len(toks) : toks[j].k = "colon"})
SegOK(toks) == toks = <<>> \/ (ColonCount(toks) = 1 /\ toks[1].k = "word")
RECURSIVE SegsOK(_)
SegsOK(toks) ==
    IF \E j \in 1..Len(toks) : toks[j].k = "eol"
    THEN LET e == CHOOSE j \in 1..Len(toks) : toks[j].k = "eol" /\ \A h \in 1..(j - 1) : toks[h].k # "eol"
         IN SegOK(SubSeq(toks, 1, e - 1)) /\ SegsOK(SubSeq(toks, e + 1, Len(toks)))
    ELSE SegOK(toks)
Specified(lines) ==
    LET text == JoinLines(lines)
    IN /\ Complete(lines)
       /\ \A p \in 1..Len(text) : Ch(text, p) \notin {"\t", "\r"}
       /\ \A p \in 1..Len(text) : Ch(text, p) = "#" => Quoted(text, p)
       /\ DollarsOK(text, 1)
       \* every rule line has exactly one ":" and at least one target before it
       /\ SegsOK(LexFrom(text, 1, "", TRUE))

(***************************************************************************)
(* R5/R7: the dependency relation and its closure.                         *)
(***************************************************************************)
SeqSet(s) == {s[j] : j \in 1..Len(s)}
Direct(rules, n) == UNION {SeqSet(rules[j].d) : j \in {h \in 1..Len(rules) : n \in SeqSet(rules[h].t)}}
RECURSIVE Grow(_, _)
Grow(rules, S) == LET S2 == S \cup UNION {Direct(rules, x) : x \in S} IN IF S2 = S THEN S ELSE Grow(rules, S2)
AllDeps(rules, n) == Grow(rules, Direct(rules, n))

Names(rules) == UNION {SeqSet(rules[j].t) \cup SeqSet(rules[j].d) : j \in 1..Len(rules)}
Closed(rules, n, S) == Direct(rules, n) \subseteq S /\ \A x \in S : Direct(rules, x) \subseteq S
\* declarative: the least set closed under "prerequisite of"
LeastClosed(rules, n) == CHOOSE S \in SUBSET Names(rules) :
                             Closed(rules, n, S) /\ \A T \in SUBSET Names(rules) : Closed(rules, n, T) => S \subseteq T

(***************************************************************************)
(* Writing a name with the documented escapes (R3, R4) - the inverse of    *)
(* reading; the model checks that reading undoes it.                       *)
(***************************************************************************)
RECURSIVE Escape(_)
Escape(name) ==
    IF name = "" THEN ""
    ELSE LET c == Ch(name, 1)
             e == IF c \in {" ", "#", "\\"} THEN "\\" \o c ELSE IF c = "$" THEN "$$" ELSE c
         IN e \o Escape(SubSeq(name, 2, Len(name)))
=============================================================================
