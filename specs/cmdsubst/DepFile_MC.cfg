SPECIFICATION Spec
CONSTANTS MaxLines = 3
 Parts = 1
 PartNo = 0
INVARIANT TwoFormulations
INVARIANT NamesNonEmpty
INVARIANT Compositional
INVARIANT BlankLinesIgnored
INVARIANT ClosureIsLeastFixpoint
INVARIANT ClosureIdempotent
INVARIANT ClosureMonotone
INVARIANT ClosureOrderIndependent
INVARIANT LeavesAndCycles
CHECK_DEADLOCK FALSE
POSTCONDITION Export
