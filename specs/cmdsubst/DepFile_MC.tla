------------------------------ MODULE DepFile_MC ------------------------------
(***************************************************************************)
(* Bounded exhaustive model of DepFile: a dependency file grows one line   *)
(* at a time from LineAlphabet (plain rules, several targets, empty        *)
(* prerequisites, blank lines, continuation with and without a blank       *)
(* before the backslash, continuation bodies, escaped blank / hash /       *)
(* backslash, "$$" and lone "$", blanks around ":", cycles) up to MaxLines *)
(* lines.  The laws are checked on every file that is inside the rule book *)
(* (Specified); files that end in a continuation are intermediate states.  *)
(* The alphabet is exported for the conformance harness.                   *)
(***************************************************************************)
EXTENDS DepFile, TLC, Json, IOUtils, SequencesExt
CONSTANTS MaxLines, Parts, PartNo   \* the run explores the files whose first line has index = PartNo modulo Parts

LineAlphabet == { "a: b", "b: c", "c: a", "a b: c", "b: a c", "c:", "", "a: b \\", "b: c\\", " c a", "c",
                  "a : b", "a\\ b: c", "c: a\\#1 $$x", "x: p\\\\q a\\ b", "f$o.o: c/b a", "b   :a  a",  "a: \\", "$$x: c" }

\* inbook / rules are functions of lines; they are variables only so that TLC computes them once per state
VARIABLES lines, inbook, rules
vars == <<lines, inbook, rules>>
Init == lines = <<>> /\ inbook = TRUE /\ rules = <<>>
LineSeq == SetToSeq(LineAlphabet)
FirstLines == {LineSeq[j] : j \in {h \in 1..Len(LineSeq) : h % Parts = PartNo}}
Next == /\ Len(lines) < MaxLines
        /\ \E l \in (IF lines = <<>> THEN FirstLines ELSE LineAlphabet) :
                                    /\ lines' = Append(lines, l)
                                    /\ inbook' = Specified(Append(lines, l))
                                    /\ rules' = Rules(Append(lines, l))
Spec == Init /\ [][Next]_vars

InBook == inbook
\* T1: the reader and the position-based formulation describe the same rules
TwoFormulations == InBook => Rules(lines) = DeclRules(lines)
\* T2: names are never empty, rules always have a target
NamesNonEmpty == InBook => \A j \in 1..Len(rules) : rules[j].t # <<>> /\ "" \notin SeqSet(rules[j].t) \cup SeqSet(rules[j].d)
\* T3: reading is line-compositional: a complete prefix can be read on its own
Compositional == InBook => \A k \in 0..Len(lines) :
                     Complete(SubSeq(lines, 1, k)) =>
                         Rules(lines) = Rules(SubSeq(lines, 1, k)) \o Rules(SubSeq(lines, k + 1, Len(lines)))
\* T4: blank lines and the spelling of the separators do not matter: dropping blank lines changes nothing
BlankLinesIgnored ==
    (InBook /\ \A k \in 1..Len(lines) : lines[k] = "" => (k = 1 \/ ~EndsInContinuation(lines[k - 1])))
        => Rules(SelectSeq(lines, LAMBDA l : l # "")) = rules
\* T5: a name written with the documented escapes is read back as that name
EscapeNames == {"a b", "a#1", "p\\q", "$x", "f$o.o", "Program Files\\X", "a", " ", "\\", "$$"}
EscapeRoundTrip == \A t \in EscapeNames : \A d \in EscapeNames :
                       Rules(<<Escape(t) \o ": " \o Escape(d)>>) = <<Rule(<<t>>, <<d>>)>>
ASSUME EscapeRoundTrip

\* C1: the closure computed by iteration is the least set closed under "prerequisite of"
ClosureIsLeastFixpoint == InBook => \A n \in Names(rules) \cup {"unknown"} : AllDeps(rules, n) = LeastClosed(rules, n)
\* C2: idempotent / transitively closed: the dependencies of a dependency are dependencies
ClosureIdempotent == InBook => \A n \in Names(rules) : \A d \in AllDeps(rules, n) : AllDeps(rules, d) \subseteq AllDeps(rules, n)
\* C3: monotone: reading more rules never removes a dependency
ClosureMonotone == InBook => \A k \in 0..Len(rules) : \A n \in Names(rules) :
                       AllDeps(SubSeq(rules, 1, k), n) \subseteq AllDeps(rules, n)
\* C4: independent of the order of the rules
Permute(rs, f) == [j \in 1..Len(rs) |-> rs[f[j]]]
ClosureOrderIndependent == InBook => \A f \in Permutations(1..Len(rules)) : \A n \in Names(rules) :
                               AllDeps(Permute(rules, f), n) = AllDeps(rules, n)
\* C5: names that are not targets are leaves; a name depends on itself exactly when it lies on a cycle
Targets(rs) == UNION {SeqSet(rs[j].t) : j \in 1..Len(rs)}
LeavesAndCycles == InBook => \A n \in Names(rules) \cup {"unknown"} :
                       /\ (n \notin Targets(rules) => AllDeps(rules, n) = {})
                       /\ (n \in AllDeps(rules, n)) = (\E d \in Direct(rules, n) : d = n \/ n \in AllDeps(rules, d))

(* the pinned examples of InternalTests.test_depfile *)
D(ls, n) == AllDeps(Rules(ls), n)
Pinned ==
    /\ D(<<"">>, "unknown") = {}
    /\ D(<<"meson/foo.o  : foo.c   foo.h">>, "meson/foo.o") = {"foo.c", "foo.h"}
    /\ D(<<"meson/foo.o: foo.c foo.h">>, "foo.c") = {}
    /\ D(<<"meson/foo.o: foo.c foo.h", "foo.c: gen.py">>, "meson/foo.o") = {"foo.c", "foo.h", "gen.py"}
    /\ D(<<"meson/foo.o: foo.c foo.h", "foo.c: gen.py">>, "foo.c") = {"gen.py"}
    /\ D(<<"foo.o \\", "foo.h: bar">>, "foo.h") = {"bar"}
    /\ D(<<"foo.o \\", "foo.h: bar">>, "foo.o") = {"bar"}
    /\ D(<<"foo: Program\\ F\\iles\\\\X">>, "foo") = {"Program Files\\X"}
    /\ D(<<"f$o.o: c/b">>, "f$o.o") = {"c/b"}
    /\ D(<<"f$$o.o: c/b">>, "f$o.o") = {"c/b"}
    /\ D(<<"a: b", "b: a">>, "a") = {"a", "b"}
    /\ D(<<"a: b", "b: a">>, "b") = {"a", "b"}
    /\ Rules(<<"meson/foo.o  : foo.c   foo.h">>) = <<Rule(<<"meson/foo.o">>, <<"foo.c", "foo.h">>)>>
ASSUME Pinned

Export == /\ TLCGet("stats").diameter >= 0
          /\ JsonSerialize("lines.json", SetToSeq(LineAlphabet))
=============================================================================
