--------------------------- MODULE TraceCmdProject ---------------------------
(***************************************************************************)
(* Trace validation for X02 part 1, project level (binding B2).  A case is *)
(* what a real `meson setup` made of one generated definition:             *)
(*  k = "ct"   custom_target: L layout, T definition, ok (setup succeeded),*)
(*             exc ("crash" = Python traceback), obs = [cmd: argument      *)
(*             words after the marker, outs, ins: paths of the build       *)
(*             statement, dep: its depfile or ""], dirs: directories that  *)
(*             exist in the build tree (relative to the build root)        *)
(*  k = "gen"  generator().process(): G definition, input (one processed   *)
(*             file), obs = [cmd, outs, in, dep] of its build statement    *)
(*  k = "cf"   configure_file(command:): T as for ct with one output,      *)
(*             ok = the command was run, obs.cmd = the argv it received    *)
(* The verdict is computed from CmdBackend; unknown directory names (the   *)
(* target-private directory, the place of configure_file's depfile) are    *)
(* existentially quantified over what the observation offers.              *)
(***************************************************************************)
EXTENDS CmdBackend, TLC, Json, IOUtils, SequencesExt

Cases == JsonDeserialize(IOEnv.TRACE_FILE)

VARIABLES i, done
vars == <<i, done>>

V(c, clause, rules, word, pos) == [id |-> c.id, clause |-> clause, rules |-> rules, word |-> word, pos |-> pos]
OKV(c) == V(c, "ok", <<>>, "", 0)

CtRuleTags(T) ==
    (IF CtOutError(T) THEN <<"OutputTemplate">> ELSE <<>>)
    \o (IF CtDepError(T) THEN <<"DepfileTemplate">> ELSE <<>>)
    \o FlattenSeq([j \in 1..Len(T.cmd) |-> CtWordRules(T.cmd[j], T)])

UsesPh(T, name) == \E j \in 1..Len(T.cmd) : \E t \in SeqSetOf(CtScan(T.cmd[j])) : t.k = "ph" /\ t.s = name
\* suffixes of the observed words that start at a "/": candidate absolute paths
AbsSuffixes(words) == UNION {{SubSeq(words[j], p, Len(words[j])) : p \in {q \in 1..Len(words[j]) : Ch(words[j], q) = "/"}}
                               : j \in 1..Len(words)}
Under(path, dir) == Len(path) > Len(dir) + 1 /\ SubSeq(path, 1, Len(dir) + 1) = dir \o "/"

CtUnspecified(T) == \/ \E j \in 1..Len(T.cmd) : CtOverlap(T.cmd[j])
                    \/ \E j \in 1..Len(T.outs) : Overlap(T.outs[j])
                    \/ (T.hasdep /\ NameTemplateOK(T.dep) /\ Len(T.ins) > 1)

JudgeCt(c) ==
    LET T == c.T
        L == c.L
    IN IF CtUnspecified(T) THEN V(c, "Unspecified", <<>>, "", 0)
       ELSE IF c.exc # "" THEN V(c, "Crash", CtRuleTags(T), "", 0)
       ELSE IF CtError(T) /\ c.ok THEN V(c, "ErrorExpected", CtRuleTags(T), "", 0)
       ELSE IF ~CtError(T) /\ ~c.ok THEN V(c, "UnexpectedError", <<>>, "", 0)
       ELSE IF ~c.ok THEN OKV(c)
       ELSE LET onames == CtOutNames(T).cmd
                Ps == IF UsesPh(T, "PRIVATE_DIR") THEN {{d, PJ(L.B, d)} : d \in SeqSetOf(c.dirs)} ELSE {{}}
            IN IF Len(c.obs.outs) # Len(onames) \/ \E j \in 1..Len(onames) : c.obs.outs[j] \notin BldFile(L, onames[j])
               THEN V(c, "Outputs", <<>>, "", 0)
               ELSE IF Len(c.obs.ins) # Len(T.ins) \/ \E j \in 1..Len(T.ins) : c.obs.ins[j] \notin SrcFile(L, T.ins[j])
               THEN V(c, "EdgeInputs", <<>>, "", 0)
               ELSE IF (T.hasdep /\ c.obs.dep \notin BldFile(L, CtDepName(T))) \/ (~T.hasdep /\ c.obs.dep # "")
               THEN V(c, "Depfile", <<>>, c.obs.dep, 0)
               ELSE IF \E P \in Ps : Matches(CtExpect(L, T, P), c.obs.cmd) THEN OKV(c)
               ELSE LET P0 == CHOOSE P \in Ps : TRUE
                        m == FirstMismatch(CtExpect(L, T, P0), c.obs.cmd)
                    IN V(c, "Command", <<>>, IF m > 0 THEN c.obs.cmd[m] ELSE "", m)

JudgeCf(c) ==
    LET T == c.T
        L == c.L
    IN IF CtUnspecified(T) \/ UsesPh(T, "PRIVATE_DIR") THEN V(c, "Unspecified", <<>>, "", 0)
       ELSE IF c.exc # "" THEN V(c, "Crash", CtRuleTags(T), "", 0)
       ELSE IF CtError(T) /\ c.ok THEN V(c, "ErrorExpected", CtRuleTags(T), "", 0)
       ELSE IF ~CtError(T) /\ ~c.ok THEN V(c, "UnexpectedError", <<>>, "", 0)
       ELSE IF ~c.ok THEN OKV(c)
       ELSE LET Ds == IF UsesPh(T, "DEPFILE")
                      THEN {{x} : x \in {y \in AbsSuffixes(c.obs.cmd) : PlainName(y) = CtDepName(T) /\ Under(y, L.B)}}
                      ELSE {{}}
            IN IF \E D \in Ds : Matches(CtExpect(L, T, D), c.obs.cmd) THEN OKV(c)
               ELSE IF Ds = {} THEN V(c, "DepfilePlace", <<>>, "", 0)
               ELSE LET m == FirstMismatch(CtExpect(L, T, CHOOSE D \in Ds : TRUE), c.obs.cmd)
                    IN V(c, "Command", <<>>, IF m > 0 THEN c.obs.cmd[m] ELSE "", m)

JudgeGen(c) ==
    LET G == c.G
        L == c.L
    IN IF \E j \in 1..Len(G.args) : GenOverlap(G.args[j]) THEN V(c, "Unspecified", <<>>, "", 0)
       ELSE IF c.exc # "" THEN V(c, "Crash", GenDefTags(G), "", 0)
       ELSE IF GenDefError(G) /\ c.ok THEN V(c, "ErrorExpected", GenDefTags(G), "", 0)
       ELSE IF ~GenDefError(G) /\ ~c.ok THEN V(c, "UnexpectedError", <<>>, "", 0)
       ELSE IF ~c.ok THEN OKV(c)
       ELSE IF c.obs.outs = <<>> THEN V(c, "GenOutputs", <<>>, "", 0)
       ELSE LET d == DirName(c.obs.outs[1])
                P == {d, PJ(L.B, d)}
                eo == GenExpectOuts(G, c.input, P)
            IN IF ~Under(PJ(L.B, d), L.B) \/ d = "." THEN V(c, "GenPrivateDir", <<>>, d, 0)
               ELSE IF Len(c.obs.outs) # Len(eo) \/ \E j \in 1..Len(eo) : c.obs.outs[j] \notin eo[j]
               THEN V(c, "GenOutputs", <<>>, "", 0)
               ELSE IF c.obs.in \notin SrcFile(L, c.input) THEN V(c, "GenInput", <<>>, c.obs.in, 0)
               ELSE IF (G.hasdep /\ c.obs.dep \notin PrivFile(P, NameSubst(G.dep, c.input))) \/ (~G.hasdep /\ c.obs.dep # "")
               THEN V(c, "GenDepfile", <<>>, c.obs.dep, 0)
               ELSE IF Matches(GenExpect(L, G, c.input, P), c.obs.cmd) THEN OKV(c)
               ELSE LET m == FirstMismatch(GenExpect(L, G, c.input, P), c.obs.cmd)
                    IN V(c, "GenCommand", <<>>, IF m > 0 THEN c.obs.cmd[m] ELSE "", m)

Judge(c) == CASE c.k = "ct" -> JudgeCt(c)
              [] c.k = "cf" -> JudgeCf(c)
              [] c.k = "gen" -> JudgeGen(c)

Init == i \in 1..Len(Cases) /\ done = FALSE
Next == /\ ~done
        /\ done' = TRUE
        /\ i' = i
        /\ LET v == Judge(Cases[i]) IN v.clause = "ok" \/ PrintT(ToJson(v))
Spec == Init /\ [][Next]_vars
=============================================================================
