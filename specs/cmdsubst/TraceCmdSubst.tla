---------------------------- MODULE TraceCmdSubst ----------------------------
(***************************************************************************)
(* Trace validation for X02 part 1 (in-process layer).  Every case is one  *)
(* recorded execution of the real code:                                    *)
(*   k = "subst": get_filenames_templates_dict(ins, outs) followed by      *)
(*                substitute_values(cmd, dict): ok / res (words) / exc     *)
(*   k = "dict" : the dictionary itself, as a list of [key, vals, list]    *)
(*   k = "name" : one output/depfile/argument *name* template applied to   *)
(*                one input (Generator.get_base_outnames, get_dep_outname, *)
(*                get_arglist): t (template), i (input), r (result)        *)
(* The verdict is CmdSubst!Subst / TemplateDict / NameSubst against the    *)
(* record; it is total and names the failing clause.  For "the rule book   *)
(* demands an error" it also names the broken rules (with "+shadowed" when *)
(* an indexed placeholder is preceded, in the same word, by a placeholder  *)
(* of the same family - see the findings) so that signatures are specific. *)
(***************************************************************************)
EXTENDS CmdSubst, TLC, Json, IOUtils, SequencesExt

Cases == JsonDeserialize(IOEnv.TRACE_FILE)

VARIABLES i, done
vars == <<i, done>>

V(c, clause, rules, word, pos) == [id |-> c.id, clause |-> clause, rules |-> rules, word |-> word, pos |-> pos]

Family(t) == IF t.s \in {"INPUT", "PLAINNAME", "BASENAME"} THEN "in" ELSE "out"
\* rule tags of one word, in token order
WordTags(w, ni, no) ==
    LET toks == Scan(w)
        tag(j) == LET r == TokRule(toks[j], IsWhole(toks), ni, no)
                  IN IF r \in {"R-InIndex", "R-OutIndex"}
                        /\ \E h \in 1..(j - 1) : toks[h].k = "ph" /\ toks[h].s = toks[j].s
                     THEN r \o "+shadowed" ELSE r
    IN SelectSeq([j \in 1..Len(toks) |-> tag(j)], LAMBDA x : x # "")
CmdTags(cmd, ni, no) == FlattenSeq([j \in 1..Len(cmd) |-> WordTags(cmd[j], ni, no)])
FirstBadWord(cmd, ni, no) == CHOOSE j \in 1..Len(cmd) : WordError(cmd[j], ni, no)
                                                        /\ \A h \in 1..(j - 1) : ~WordError(cmd[h], ni, no)

\* first command word whose expansion differs from the corresponding segment of the observed words
RECURSIVE FirstDiffWord(_, _, _, _, _)
FirstDiffWord(cmd, j, ins, outs, got) ==
    IF j > Len(cmd) THEN (IF got = <<>> THEN 0 ELSE j)
    ELSE LET e == ExpandWord(cmd[j], ins, outs)
         IN IF Len(got) >= Len(e) /\ SubSeq(got, 1, Len(e)) = e
            THEN FirstDiffWord(cmd, j + 1, ins, outs, SubSeq(got, Len(e) + 1, Len(got)))
            ELSE j

JudgeSubst(c) ==
    LET ni == Len(c.ins)
        no == Len(c.outs)
        exp == Subst(c.ins, c.outs, c.cmd)
    IN IF \E j \in 1..Len(c.cmd) : Overlap(c.cmd[j])
       THEN V(c, "Unspecified", <<>>, c.cmd[CHOOSE j \in 1..Len(c.cmd) : Overlap(c.cmd[j])], 0)
       ELSE IF c.exc \notin {"", "MesonException"} THEN V(c, "Crash", <<c.exc>>, "", 0)
       ELSE IF ~exp.ok /\ c.ok
            THEN V(c, "ErrorExpected", CmdTags(c.cmd, ni, no), c.cmd[FirstBadWord(c.cmd, ni, no)], FirstBadWord(c.cmd, ni, no))
       ELSE IF exp.ok /\ ~c.ok THEN V(c, "UnexpectedError", <<>>, "", 0)
       ELSE IF exp.ok /\ exp.cmd # c.res
            THEN LET j == FirstDiffWord(c.cmd, 1, c.ins, c.outs, c.res)
                 IN V(c, "Result", <<>>, IF j \in 1..Len(c.cmd) THEN c.cmd[j] ELSE "", j)
       ELSE V(c, "ok", <<>>, "", 0)

ToEntries(d) == {Entry(d[j].key, d[j].vals, d[j].list) : j \in 1..Len(d)}
JudgeDict(c) ==
    LET exp == TemplateDict(c.ins, c.outs)
        got == ToEntries(c.d)
    IN IF Cardinality(got) # Len(c.d) THEN V(c, "DictDuplicateKey", <<>>, "", 0)
       ELSE IF \E e \in exp : e \notin got
            THEN V(c, "DictMissingOrWrong", <<>>, (CHOOSE e \in exp : e \notin got).key, 0)
       ELSE IF \E e \in got : e \notin exp
            THEN V(c, "DictExtra", <<>>, (CHOOSE e \in got : e \notin exp).key, 0)
       ELSE V(c, "ok", <<>>, "", 0)

JudgeName(c) ==
    IF c.exc # "" THEN V(c, "Crash", <<c.exc>>, c.t, 0)
    ELSE IF NameSubst(c.t, c.i) # c.r THEN V(c, "Name", <<>>, c.t, 0)
    ELSE V(c, "ok", <<>>, "", 0)

Judge(c) == CASE c.k = "subst" -> JudgeSubst(c)
              [] c.k = "dict" -> JudgeDict(c)
              [] c.k = "name" -> JudgeName(c)

Init == i \in 1..Len(Cases) /\ done = FALSE
Next == /\ ~done
        /\ done' = TRUE
        /\ i' = i
        /\ LET v == Judge(Cases[i]) IN v.clause = "ok" \/ PrintT(ToJson(v))
Spec == Init /\ [][Next]_vars
=============================================================================
