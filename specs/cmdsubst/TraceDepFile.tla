----------------------------- MODULE TraceDepFile -----------------------------
(***************************************************************************)
(* Trace validation for X02 part 2.  One case = one depfile given to the   *)
(* real code:                                                              *)
(*   lines  the lines (without their newline)                              *)
(*   rules  what mesonbuild.depfile.parse() returned, as [t, d] records    *)
(*          (entries with neither target nor prerequisite - blank lines -  *)
(*          dropped by the harness)                                        *)
(*   q      for every queried name n the list r returned by               *)
(*          DepFile(lines).get_all_dependencies(n)                         *)
(* Clauses:                                                                *)
(*   Unspecified            the file is outside the rule book (the A-space *)
(*                          enumeration contains such files; they are      *)
(*                          skipped, never judged)                         *)
(*   Tokenise               parse() differs from DepFile!Rules             *)
(*   TokPhantomEmptyTarget  ... and differs exactly by targets named ""    *)
(*   TokContinuationJoins   ... and equals the reading in which backslash- *)
(*                          newline does not separate words                *)
(*   Closure / ClosureDuplicates   get_all_dependencies(n) is not the      *)
(*                          closure (R7) of the rules parse() returned /   *)
(*                          lists a file twice                             *)
(*   Crash                  the real code raised (exc = exception type)    *)
(* Tokenising and closure are judged separately: the closure is always     *)
(* compared on the rules the implementation itself read.                   *)
(***************************************************************************)
EXTENDS DepFile, TLC, Json, IOUtils

Cases == JsonDeserialize(IOEnv.TRACE_FILE)

VARIABLES i, done
vars == <<i, done>>

V(c, clauses, name) == [id |-> c.id, clause |-> IF clauses = <<>> THEN "ok" ELSE clauses[1], clauses |-> clauses, name |-> name]

ToRules(rs) == [j \in 1..Len(rs) |-> Rule(rs[j].t, rs[j].d)]
NoEmptyTargets(rs) == [j \in 1..Len(rs) |-> Rule(SelectSeq(rs[j].t, LAMBDA x : x # ""), rs[j].d)]

TokClauses(lines, got) ==
    LET exp == Rules(lines)
        join == RulesWith(lines, FALSE)
    IN IF got = exp THEN <<>>
       ELSE IF NoEmptyTargets(got) = exp THEN <<"TokPhantomEmptyTarget">>
       ELSE IF got = join THEN <<"TokContinuationJoins">>
       ELSE IF NoEmptyTargets(got) = join THEN <<"TokPhantomEmptyTarget", "TokContinuationJoins">>
       ELSE <<"Tokenise">>

BadQuery(got, q) == {j \in 1..Len(q) : SeqSet(q[j].r) # AllDeps(got, q[j].n)}
DupQuery(q) == {j \in 1..Len(q) : Cardinality(SeqSet(q[j].r)) # Len(q[j].r)}

Judge(c) ==
    IF ~Specified(c.lines) THEN V(c, <<"Unspecified">>, "")
    ELSE IF c.exc # "" THEN V(c, <<"Crash">>, c.exc)
    ELSE LET got == ToRules(c.rules)
             tc == TokClauses(c.lines, got)
             bq == BadQuery(got, c.q)
             dq == DupQuery(c.q)
         IN V(c, tc \o (IF bq # {} THEN <<"Closure">> ELSE <<>>) \o (IF dq # {} THEN <<"ClosureDuplicates">> ELSE <<>>),
              IF bq # {} THEN c.q[CHOOSE j \in bq : TRUE].n ELSE IF dq # {} THEN c.q[CHOOSE j \in dq : TRUE].n ELSE "")

(* k = "cfdep": configure_file(depfile:) end to end.  The recorder wrote `lines` to the depfile meson asked for;   *)
(* out = name of the configured file; names = every prerequisite name used in the file (absolute paths),          *)
(* exist = those that exist as files; files = the build-definition files meson registered afterwards              *)
(* (intro-buildsystem_files.json).  configure_file.yaml: "A change in any one of these files triggers a           *)
(* reconfiguration": every existing file in the closure of `out` is registered, and no listed file that `out`     *)
(* does not depend on.                                                                                            *)
JudgeCfDep(c) ==
    IF ~Specified(c.lines) THEN V(c, <<"Unspecified">>, "")
    ELSE LET deps == AllDeps(Rules(c.lines), c.out)
             files == SeqSet(c.files)
             missing == {d \in deps \cap SeqSet(c.exist) : d \notin files}
             spurious == {n \in SeqSet(c.names) \ deps : n \in files}
         IN IF missing # {} THEN V(c, <<"CfDepMissing">>, CHOOSE d \in missing : TRUE)
            ELSE IF spurious # {} THEN V(c, <<"CfDepSpurious">>, CHOOSE d \in spurious : TRUE)
            ELSE V(c, <<>>, "")

Init == i \in 1..Len(Cases) /\ done = FALSE
Next == /\ ~done
        /\ done' = TRUE
        /\ i' = i
        /\ LET v == IF Cases[i].k = "cfdep" THEN JudgeCfDep(Cases[i]) ELSE Judge(Cases[i]) IN v.clause = "ok" \/ PrintT(ToJson(v))
Spec == Init /\ [][Next]_vars
=============================================================================
