------------------------------ MODULE DepLookup ------------------------------
(***************************************************************************)
(* The fallback policy of `dependency()` (property C10), written from      *)
(* docs/yaml/functions/dependency.yaml, docs/markdown/Subprojects.md       *)
(* ("Command-line options"), Wrap-dependency-system-manual.md ("provide    *)
(* section"), docs/yaml/builtins/meson.yaml (override_dependency), the     *)
(* release notes 0.54 ("dependency() consistency"), 0.55, 0.58 and the     *)
(* project's own test projects ("98 subproject subdir", "31 forcefallback",*)
(* "95 implicit force fallback", "232 dependency allow_fallback",          *)
(* failing/100, 106, 108).                                                 *)
(*                                                                         *)
(* The model is about ONE dependency name N and the one subproject S that  *)
(* could provide it.  A configuration `cfg` (constant during one `meson    *)
(* setup`) says what exists; the state `st` is what a configuration run    *)
(* remembers (explicit overrides, the first result found, the state of S). *)
(* `Lookup(cfg, st, a)` is the result of `dependency(N, ...)` with the     *)
(* arguments `a`; it is a function except for one corner the documents     *)
(* leave open, which is resolved by the configuration field `nofb`.        *)
(***************************************************************************)
EXTENDS Integers, Sequences, FiniteSets

\* ---- configuration ------------------------------------------------------
\* sys   : 0 = N is not installed on the system; v > 0 = installed in version v
\* prov  : "none"  no subproject S exists
\*         "dir"   subprojects/S exists, nothing says that it provides N
\*         "wrap"  subprojects/S.wrap has a [provide] entry for N
\*         "same"  subprojects/N exists (a subproject with the name of the dependency)
\* style : "ovr"    S calls meson.override_dependency(N, dep) (and keeps dep in a variable)
\*         "var"    S only keeps the dependency object in a variable (the wrap, if any, names it)
\*         "broken" S fails to configure
\*         "none"   (prov = "none")
\* subv  : version of the dependency object S declares
\* mainv : version of the object the main project overrides N with (pre = "ovrmain")
\* wm    : wrap_mode
\* fff   : which of {"dep", "sub"} force_fallback_for names (N, S)
\* pre   : what the build definition did before the first lookup
\*         "none" | "subcall" (subproject(S, required: false)) |
\*         "ovrmain" (meson.override_dependency(N, found object)) | "ovrnf" (... a not-found object)
\* nofb  : reading of the one open corner (see OpenCorner): "existing" | "system"
\* reuse : reading of what a re-configuration of the same build directory does with the external
\*         dependencies found by the previous run (st.pc): "cached" (a positive result may be reused
\*         without asking the system again) | "fresh" (it is looked up again)
WrapModes == {"default", "nofallback", "nodownload", "forcefallback", "nopromote"}
ProvStyles == { <<"none", "none">>, <<"dir", "ovr">>, <<"dir", "var">>, <<"dir", "broken">>,
                <<"wrap", "ovr">>, <<"wrap", "var">>, <<"wrap", "broken">>,
                <<"same", "ovr">>, <<"same", "var">> }
Pres == {"none", "subcall", "ovrmain", "ovrnf"}
FFFs == { {}, {"dep"}, {"sub"} }
Readings == {"existing", "system"}
Reuses == {"fresh", "cached"}

Configs(sysvs, subv, mainv) ==
    { [sys |-> s, prov |-> ps[1], style |-> ps[2], subv |-> subv, mainv |-> mainv, wm |-> w, fff |-> f,
       pre |-> p, nofb |-> r, reuse |-> "fresh"] :
      s \in sysvs, ps \in ProvStyles, w \in WrapModes, f \in FFFs, p \in Pres, r \in Readings }

\* ---- arguments of one lookup ---------------------------------------------
\* con : version constraint "any" | "ge2" (>= version 2) | "lt2" (< version 2)
\* fb  : "none" | "name" (fallback: 'S') | "namevar" (fallback: ['S', 'variable'])
\* req : required
\* af  : allow_fallback "unset" | "true" | "false"
Constraints == {"any", "ge2", "lt2"}
LookupArgs == { [con |-> c, fb |-> f, req |-> r, af |-> a] :
                c \in Constraints, f \in {"none", "name", "namevar"}, r \in BOOLEAN, a \in {"unset", "true", "false"} }
\* "fallback" and "allow_fallback" are mutually exclusive (failing/108)
ValidArgs(a) == a.fb = "none" \/ a.af = "unset"

Sat(con, v) == CASE con = "any" -> TRUE
                 [] con = "ge2" -> v >= 2
                 [] con = "lt2" -> v < 2

\* ---- results and remembered state ---------------------------------------------
\* kind: "sys" (external dependency) | "sub" (object of S) | "main" (object of the main project's override)
\*       | "notfound" | "error" (configuration aborts)
Res(kind, v) == [kind |-> kind, v |-> v]
NF == Res("notfound", 0)
ERR == Res("error", 0)
Found(r) == r.kind \in {"sys", "sub", "main"}
\* an entry of the override table / of the first-result cache: kind "none" | "nf" | "sys" | "sub" | "main"
None == Res("none", 0)

\* st.ovr   : explicit override of N (meson.override_dependency by the main project or by S)
\* st.cache : first found result ("The first time a dependency is found ... the return value is now cached")
\* st.sub   : "unconfigured" | "ok" | "failed"
\* st.pc    : the external dependency the *previous* configuration of this build directory found and left in
\*            the persistent cache (None in a fresh build directory); constant during one configuration
InitState == [ovr |-> None, cache |-> None, sub |-> "unconfigured", pc |-> None]

\* required lookup with nothing suitable is an error, an optional one yields not-found
Miss(a) == IF a.req THEN ERR ELSE NF

\* "Any subsequent call will return the same value as long as version requested match, otherwise
\*  not-found dependency is returned" / "the overriding dependency will be returned unconditionally";
\*  a subproject can force a dependency to be not-found by overriding it with a not-found object
Answer(e, a) == IF e.kind # "nf" /\ Sat(a.con, e.v) THEN Res(e.kind, e.v) ELSE Miss(a)

\* not-found results are never remembered ("Verify that not-found does not get cached")
Remember(st, r) == IF Found(r) /\ st.ovr = None /\ st.cache = None THEN [st EXCEPT !.cache = r] ELSE st

\* configuring S (as a fallback, or by the subproject() call of pre = "subcall")
Configure(cfg, st) ==
    IF st.sub # "unconfigured" THEN st
    ELSE IF cfg.prov = "none" \/ cfg.style = "broken" THEN [st EXCEPT !.sub = "failed"]
    ELSE IF cfg.style = "ovr"
         THEN IF st.ovr = None /\ st.cache = None
              THEN [st EXCEPT !.sub = "ok", !.ovr = Res("sub", cfg.subv)]
              ELSE [st EXCEPT !.sub = "failed"]   \* overriding an already resolved name is an error inside S
    ELSE [st EXCEPT !.sub = "ok"]

\* state in which the first lookup happens
PreState(cfg) ==
    CASE cfg.pre = "subcall" -> Configure(cfg, InitState)
      [] cfg.pre = "ovrmain" -> [InitState EXCEPT !.ovr = Res("main", cfg.mainv)]
      [] cfg.pre = "ovrnf"   -> [InitState EXCEPT !.ovr = Res("nf", 0)]
      [] OTHER               -> InitState
\* ... in a build directory whose previous configuration left `pc` behind.  Overrides, the first-result
\* cache and the state of S belong to one configuration run and start afresh.
PreStateWith(cfg, pc) == [PreState(cfg) EXCEPT !.pc = pc]
\* what a configuration that ends in `st` leaves behind for the next one
NextPC(st) == IF st.cache.kind = "sys" THEN st.cache ELSE st.pc

\* ---- the policy ---------------------------------------------------------------
\* use of fallbacks is forced by the user
ForceCfg(cfg) == cfg.wm = "forcefallback" \/ cfg.fff # {}
\* a wrap [provide] entry, or a subproject with the name of the dependency, offers an implicit fallback
HasProvide(cfg) == cfg.prov \in {"wrap", "same"}
\* does this lookup have a fallback subproject at all?  explicit `fallback:`; or the implicit one when
\* allow_fallback permits: true, or unset with a required or forced lookup - or when S is configured already
\* (test 98: "we already configured that subproject, so we must not return the system dependency here")
HasFallback(cfg, st, a) ==
    \/ a.fb # "none"
    \/ /\ HasProvide(cfg)
       /\ a.af # "false"
       /\ (a.af = "true" \/ a.req \/ ForceCfg(cfg) \/ st.sub = "ok")
\* "Meson will not look at the system for any dependencies ... which have subproject fallbacks available"
Forced(cfg, st, a) == HasFallback(cfg, st, a) /\ ForceCfg(cfg)
\* is the name of the variable of S known to this lookup?
VarKnown(cfg, a) == a.fb = "namevar" \/ (cfg.prov = "wrap" /\ cfg.style = "var")

\* what the configured subproject S hands out
FromSub(cfg, st, a) ==
    IF st.ovr # None THEN Answer(st.ovr, a)
    ELSE IF VarKnown(cfg, a) /\ Sat(a.con, cfg.subv) THEN Res("sub", cfg.subv)
    ELSE Miss(a)

\* The open corner: wrap_mode=nofallback (not overridden by force_fallback_for), S already configured by an
\* unconditional subproject() call without overriding N.  Subprojects.md: "will only look for them in the
\* system"; test 98 pins "existing subproject first" for the default mode only.  Both readings are allowed;
\* one configuration must follow one reading throughout (cfg.nofb).
OpenCorner(cfg, st, a) == cfg.wm = "nofallback" /\ ~ForceCfg(cfg) /\ st.sub = "ok" /\ HasFallback(cfg, st, a)

Out(res, st, asked) == [res |-> res, st |-> st, asked |-> asked]

\* Re-configuration: "unless fallback is forced ... in which case the system is not consulted" also rules out
\* what an earlier run found on the system; an override of this run wins as always; otherwise a positive
\* result of the previous run that satisfies the request may be reused (the documents do not promise it:
\* reading "fresh" looks again).
UsesPC(cfg, st, a) == /\ cfg.reuse = "cached" /\ st.pc # None /\ Sat(a.con, st.pc.v)
                      /\ ~Forced(cfg, st, a)

\* result, next state, and whether the system (pkg-config) may be asked about N
Lookup(cfg, st, a) ==
    IF ~ValidArgs(a) THEN Out(ERR, st, FALSE)
    ELSE IF st.ovr # None THEN Out(Answer(st.ovr, a), st, FALSE)
    ELSE IF st.cache # None THEN Out(Answer(st.cache, a), st, FALSE)
    ELSE IF UsesPC(cfg, st, a) THEN LET r == Res("sys", st.pc.v) IN Out(r, Remember(st, r), FALSE)
    ELSE LET fbk == HasFallback(cfg, st, a)
             forced == Forced(cfg, st, a)
         IN IF fbk /\ st.sub = "ok" /\ ~(OpenCorner(cfg, st, a) /\ cfg.nofb = "system")
            THEN LET r == FromSub(cfg, st, a) IN Out(r, Remember(st, r), FALSE)
            ELSE IF ~forced /\ cfg.sys # 0 /\ Sat(a.con, cfg.sys)
            THEN LET r == Res("sys", cfg.sys) IN Out(r, Remember(st, r), TRUE)
            ELSE IF fbk /\ st.sub # "ok" /\ (cfg.wm # "nofallback" \/ forced)
            THEN LET st2 == Configure(cfg, st)
                 IN IF st2.sub = "ok" THEN LET r == FromSub(cfg, st2, a) IN Out(r, Remember(st2, r), ~forced)
                    ELSE Out(Miss(a), st2, ~forced)
            ELSE Out(Miss(a), st, ~forced)

\* ---- the `static` keyword and default_library -------------------------------------------
\* dependency.yaml (static), meson.yaml (override_dependency, static), release notes 0.60 ("override_dependency
\* static"): an override made without `static:` is filed for lookups without the keyword and for the library
\* kind(s) the overriding (sub)project is built as (its default_library); `dependency(N, static: x)` configures
\* a fallback subproject as if `default_library=static|shared` had been given for it.  Hence the keyword
\* selects which kind of library is linked and nothing else: a lookup that configures S itself sees what S
\* overrides, and the answer (found / origin / version, state of S, system consulted) is the answer of the
\* same lookup without the keyword - `Lookup` does not read a.static.
DefLibs == {"shared", "static", "both"}
StaticKws == {"unset", "true", "false"}
\* the library kind S is built as when a lookup with keyword s configures it (dl: global default_library,
\* sdl: default_library in S's own default_options or "none")
SubKind(dl, sdl, s) == IF s = "true" THEN "static" ELSE IF s = "false" THEN "shared"
                       ELSE IF sdl # "none" THEN sdl ELSE dl
\* the lookups (by keyword) an override without `static:` made by a project of that kind is filed for
OvrIds(kind) == {"unset"} \cup (CASE kind = "static" -> {"true"} [] kind = "shared" -> {"false"} [] OTHER -> {"true", "false"})
\* the class in which the documents leave no choice: nothing was configured or overridden before the first
\* lookup (an override made by a project of another kind, or a subproject configured as another kind, is
\* documented to be invisible to a `static:` lookup) and all lookups of the history carry the same keyword
StaticClass(cfg, as) == cfg.pre = "none" /\ \A j \in 1..Len(as) : as[j].static = as[1].static

\* ---- folding a history (used by the model and by trace validation) ----------------
RECURSIVE RunFrom(_, _, _, _)
\* outcomes (result, state after, asked) of the lookups `as` started in `st`; stops after an error
RunFrom(cfg, st, as, acc) ==
    IF as = <<>> THEN acc
    ELSE LET o == Lookup(cfg, st, Head(as))
         IN IF o.res.kind = "error" THEN Append(acc, o)
            ELSE RunFrom(cfg, o.st, Tail(as), Append(acc, o))
Run(cfg, as) == RunFrom(cfg, PreState(cfg), as, <<>>)

=============================================================================
