SPECIFICATION Spec
CONSTANTS SysVersions = {0, 1, 3}
 SubV = 2
 MainV = 3
INVARIANT TypeOK
INVARIANT OverrideWins
INVARIANT ForcedNeverConsultsSystem
INVARIANT ForcedWithoutFallbackUsesSystem
INVARIANT NofallbackNeverConfigures
INVARIANT NoImplicitFallbackUnlessAllowed
INVARIANT FallbackOnlyWhenNeeded
INVARIANT SystemPreferred
INVARIANT FallbackUsedWhenSystemFails
INVARIANT RequiredNotFoundIsError
INVARIANT VersionRespected
INVARIANT RepeatStable
INVARIANT FirstResultSticks
INVARIANT NotFoundNotCached
INVARIANT ReadingsAgreeOutsideCorner
INVARIANT ForcedIgnoresPersistentCache
INVARIANT OverrideBeatsPersistentCache
INVARIANT PersistentCacheOnlyReusesPositive
INVARIANT FreshReadingIgnoresCache
INVARIANT StaticIrrelevant
CHECK_DEADLOCK FALSE
POSTCONDITION EmitSpace
