----------------------------- MODULE DepLookup_MC -----------------------------
(* Model: every configuration of the decision table (system version x provider x style x wrap_mode x      *)
(* force_fallback_for x what happened before x readings of the open corners), followed by any number of   *)
(* lookups with arbitrary arguments and any number of re-configurations of the same build directory       *)
(* (changed wrap_mode / force_fallback_for / system, persistent cache of the previous run carried over).  *)
(* The state space is finite and closed, so sequences of every length are covered; the laws of property   *)
(* C10 are invariants that quantify over the arguments of the *next* lookup in every reachable state.     *)
EXTENDS DepLookup, TLC, Json, IOUtils, SequencesExt
CONSTANTS SysVersions, SubV, MainV
VARIABLES cfg, st

vars == <<cfg, st>>
AllConfigs == Configs(SysVersions, SubV, MainV)
\* the readings only matter in their corners: keep one representative elsewhere
Canonical(c, pc) == (c.nofb = "system" => c.wm = "nofallback") /\ (c.reuse = "cached" => pc # None)
Init == cfg \in { c \in AllConfigs : Canonical(c, None) } /\ st = PreState(cfg)
\* any number of lookups with any arguments (the state space is finite and closed)
DoLookup(a) == /\ LET o == Lookup(cfg, st, a)
                  IN o.res.kind # "error" /\ st' = o.st     \* an error aborts the configuration
               /\ UNCHANGED cfg
\* the same build directory is configured again (meson setup --reconfigure): wrap_mode, force_fallback_for
\* and what is installed on the system may have changed; the build definition (pre, provider) is the same
Reconfigure == \E s \in SysVersions, w \in WrapModes, f \in FFFs, r \in Readings, u \in Reuses :
                  LET c2 == [cfg EXCEPT !.sys = s, !.wm = w, !.fff = f, !.nofb = r, !.reuse = u]
                      pc == NextPC(st)
                  IN Canonical(c2, pc) /\ cfg' = c2 /\ st' = PreStateWith(c2, pc)
Next == (\E a \in LookupArgs : DoLookup(a)) \/ Reconfigure
Spec == Init /\ [][Next]_vars

Valid == { a \in LookupArgs : ValidArgs(a) }
\* nothing reusable was left by a previous configuration of this build directory
NoPC == st.pc = None \/ cfg.reuse = "fresh"
O(a) == Lookup(cfg, st, a)

TypeOK == /\ st.sub \in {"unconfigured", "ok", "failed"}
          /\ st.ovr.kind \in {"none", "nf", "sub", "main"}
          /\ st.cache.kind \in {"none", "sys", "sub"}
          /\ st.pc.kind \in {"none", "sys"}
          /\ (st.ovr # None => st.cache = None)
          /\ \A a \in LookupArgs : O(a).res.kind \in {"sys", "sub", "main", "notfound", "error"}

\* a dependency a (sub)project has overridden wins: the system is not asked, nothing is configured, and the
\* answer is the overriding object (or not-found / error when the override is a not-found object or its
\* version does not satisfy the request)
OverrideWins ==
    st.ovr # None => \A a \in Valid :
        /\ ~O(a).asked /\ O(a).st = st
        /\ O(a).res.kind \in {st.ovr.kind, "notfound", "error"}
        /\ (Found(O(a).res) => O(a).res.v = st.ovr.v)
        /\ (st.ovr.kind # "nf" /\ Sat(a.con, st.ovr.v) => Found(O(a).res))

\* the fallback a lookup could use, judged from the arguments and the files only
CouldFallBack(a) == a.fb # "none" \/ (HasProvide(cfg) /\ a.af # "false")
\* forced fallback: the system is never consulted (a "sys" answer can only be the remembered first result)
ForcedNeverConsultsSystem ==
    ForceCfg(cfg) => \A a \in Valid : CouldFallBack(a) =>
        /\ ~O(a).asked
        /\ (O(a).res.kind = "sys" => st.cache.kind = "sys")
\* ... but forcing does not apply to lookups without any fallback: they still see the system
ForcedWithoutFallbackUsesSystem ==
    \A a \in Valid : ~CouldFallBack(a) /\ st.ovr = None /\ st.cache = None /\ cfg.sys # 0 /\ Sat(a.con, cfg.sys)
        => O(a).res = Res("sys", cfg.sys) \/ (~NoPC /\ O(a).res = st.pc)

\* wrap_mode=nofallback (not overridden by force_fallback_for) never configures a subproject for a lookup
NofallbackNeverConfigures ==
    cfg.wm = "nofallback" /\ cfg.fff = {} => \A a \in LookupArgs : O(a).st.sub = st.sub
\* allow_fallback: false never configures; an optional lookup without fallback:/allow_fallback never does either
\* unless forced
NoImplicitFallbackUnlessAllowed ==
    \A a \in Valid :
        /\ (a.af = "false" => O(a).st.sub = st.sub)
        /\ (a.fb = "none" /\ a.af = "unset" /\ ~a.req /\ ~ForceCfg(cfg) => O(a).st.sub = st.sub)
\* a subproject is configured by a lookup only when it is needed: forced, or the system cannot satisfy it
FallbackOnlyWhenNeeded ==
    \A a \in Valid : O(a).st.sub # st.sub =>
        /\ st.ovr = None /\ st.cache = None /\ CouldFallBack(a)
        /\ (ForceCfg(cfg) \/ cfg.sys = 0 \/ ~Sat(a.con, cfg.sys))
\* without forcing, a present and matching system dependency is used when nothing was remembered and S is
\* not configured yet
SystemPreferred ==
    \A a \in Valid : ~ForceCfg(cfg) /\ st.ovr = None /\ st.cache = None /\ st.sub # "ok"
                     /\ cfg.sys # 0 /\ Sat(a.con, cfg.sys)
        => (O(a).res = Res("sys", cfg.sys) \/ (~NoPC /\ O(a).res = st.pc)) /\ O(a).st.sub = st.sub
\* the fallback is used when the system cannot satisfy the request, a fallback exists and is not disabled
FallbackUsedWhenSystemFails ==
    \A a \in Valid : /\ st.ovr = None /\ st.cache = None /\ st.sub = "unconfigured"
                     /\ (cfg.sys = 0 \/ ~Sat(a.con, cfg.sys))
                     /\ (NoPC \/ ForceCfg(cfg) \/ ~Sat(a.con, st.pc.v))
                     /\ HasFallback(cfg, st, a) /\ (cfg.wm # "nofallback" \/ ForceCfg(cfg))
        => O(a).st.sub # "unconfigured"
\* with nothing suitable a required lookup is an error and an optional one yields not-found
RequiredNotFoundIsError ==
    \A a \in LookupArgs : /\ (a.req => O(a).res.kind # "notfound")
                          /\ (~a.req /\ ValidArgs(a) => O(a).res.kind # "error")
                          /\ (~ValidArgs(a) => O(a).res.kind = "error")
\* a found dependency satisfies the requested version
VersionRespected == \A a \in Valid : Found(O(a).res) => Sat(a.con, O(a).res.v)
\* repeated lookups with the same arguments return the same dependency (twice and three times)
RepeatStable ==
    \A a \in Valid : O(a).res.kind # "error" =>
        LET o2 == Lookup(cfg, O(a).st, a)
            o3 == Lookup(cfg, o2.st, a)
        IN o2.res = O(a).res /\ o3.res = O(a).res /\ o3.st = o2.st
\* once something was found, every later lookup (any arguments) answers with that object or with nothing
FirstResultSticks ==
    st.cache # None => \A a \in Valid : O(a).st = st /\ ~O(a).asked /\ (Found(O(a).res) => O(a).res = st.cache)
\* not-found is never remembered
NotFoundNotCached == \A a \in Valid : ~Found(O(a).res) => O(a).st.cache = st.cache
\* ---- re-configuration of the same build directory -------------------------------------------------
WithoutPC(a) == Lookup(cfg, [st EXCEPT !.pc = None], a)
SamePolicy(o, f) == o.res = f.res /\ o.asked = f.asked /\ o.st = [f.st EXCEPT !.pc = st.pc]
\* forced fallback never uses the system - nor what an earlier run found there: same table as a fresh directory
ForcedIgnoresPersistentCache ==
    ForceCfg(cfg) => \A a \in Valid : CouldFallBack(a) => SamePolicy(O(a), WithoutPC(a))
\* an override made in this run beats what an earlier run found
OverrideBeatsPersistentCache == st.ovr # None => \A a \in Valid : SamePolicy(O(a), WithoutPC(a))
\* the only thing the persistent cache may do: answer with the positive result it holds, when that satisfies
\* the request and nothing of this run (override, first result, forcing) says otherwise
PersistentCacheOnlyReusesPositive ==
    \A a \in Valid : \/ SamePolicy(O(a), WithoutPC(a))
                      \/ /\ st.pc.kind = "sys" /\ O(a).res = st.pc /\ Sat(a.con, st.pc.v) /\ ~O(a).asked
                         /\ st.ovr = None /\ st.cache = None /\ ~Forced(cfg, st, a) /\ O(a).st.sub = st.sub
\* under the reading "fresh" the table of a re-configuration is the table of a fresh build directory
FreshReadingIgnoresCache == cfg.reuse = "fresh" => \A a \in LookupArgs : SamePolicy(O(a), WithoutPC(a))
\* both readings of the open corner agree everywhere else
ReadingsAgreeOutsideCorner ==
    \A a \in Valid : ~OpenCorner(cfg, st, a) =>
        Lookup([cfg EXCEPT !.nofb = "existing"], st, a) = Lookup([cfg EXCEPT !.nofb = "system"], st, a)

\* the override a fallback subproject registers while it is configured for a lookup is filed for that very
\* lookup: whatever the static keyword, the global and the subproject's own default_library
StaticLookupSeesOwnFallback ==
    \A dl \in DefLibs, sdl \in {"none"} \cup DefLibs, s \in StaticKws : s \in OvrIds(SubKind(dl, sdl, s))
ASSUME StaticLookupSeesOwnFallback
\* the answer does not depend on the keyword: Lookup is a function of the arguments without it
StaticIrrelevant ==
    \A a \in Valid, s \in StaticKws : Lookup(cfg, st, [con |-> a.con, fb |-> a.fb, req |-> a.req, af |-> a.af, static |-> s]) = O(a)

\* the model's input space, for the implementation harness
EmitSpace == TLCGet("stats").diameter >= 0
             /\ JsonSerialize("deplookup_space.json",
                              [configs |-> SetToSeq({ c \in AllConfigs : c.nofb = "existing" }),
                               args |-> SetToSeq(LookupArgs)])
=============================================================================
