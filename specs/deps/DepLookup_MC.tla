----------------------------- MODULE DepLookup_MC -----------------------------
(* Model: every configuration of the decision table (system version x provider x style x wrap_mode x      *)
(* force_fallback_for x what happened before x reading of the open corner), followed by every sequence of *)
(* up to MaxLookups lookups with arbitrary arguments.  The laws of property C10 are invariants that       *)
(* quantify over the arguments of the *next* lookup in every reachable state, so the whole cross product  *)
(* is covered without a history variable.                                                                  *)
EXTENDS DepLookup, TLC, Json, IOUtils, SequencesExt
CONSTANTS MaxLookups, SysVersions, SubV, MainV
VARIABLES cfg, st, n

vars == <<cfg, st, n>>
AllConfigs == Configs(SysVersions, SubV, MainV)
Init == cfg \in AllConfigs /\ st = PreState(cfg) /\ n = 0
DoLookup(a) == /\ n < MaxLookups
               /\ LET o == Lookup(cfg, st, a)
                  IN o.res.kind # "error" /\ st' = o.st     \* an error aborts the configuration
               /\ n' = n + 1 /\ UNCHANGED cfg
Next == \E a \in LookupArgs : DoLookup(a)
Spec == Init /\ [][Next]_vars

Valid == { a \in LookupArgs : ValidArgs(a) }
O(a) == Lookup(cfg, st, a)

TypeOK == /\ st.sub \in {"unconfigured", "ok", "failed"}
          /\ st.ovr.kind \in {"none", "nf", "sub", "main"}
          /\ st.cache.kind \in {"none", "sys", "sub"}
          /\ (st.ovr # None => st.cache = None)
          /\ \A a \in LookupArgs : O(a).res.kind \in {"sys", "sub", "main", "notfound", "error"}

\* a dependency a (sub)project has overridden wins: the system is not asked, nothing is configured, and the
\* answer is the overriding object (or not-found / error when the override is a not-found object or its
\* version does not satisfy the request)
OverrideWins ==
    st.ovr # None => \A a \in Valid :
        /\ ~O(a).asked /\ O(a).st = st
        /\ O(a).res.kind \in {st.ovr.kind, "notfound", "error"}
        /\ (Found(O(a).res) => O(a).res.v = st.ovr.v)
        /\ (st.ovr.kind # "nf" /\ Sat(a.con, st.ovr.v) => Found(O(a).res))

\* the fallback a lookup could use, judged from the arguments and the files only
CouldFallBack(a) == a.fb # "none" \/ (HasProvide(cfg) /\ a.af # "false")
\* forced fallback: the system is never consulted (a "sys" answer can only be the remembered first result)
ForcedNeverConsultsSystem ==
    ForceCfg(cfg) => \A a \in Valid : CouldFallBack(a) =>
        /\ ~O(a).asked
        /\ (O(a).res.kind = "sys" => st.cache.kind = "sys")
\* ... but forcing does not apply to lookups without any fallback: they still see the system
ForcedWithoutFallbackUsesSystem ==
    \A a \in Valid : ~CouldFallBack(a) /\ st.ovr = None /\ st.cache = None /\ cfg.sys # 0 /\ Sat(a.con, cfg.sys)
        => O(a).res = Res("sys", cfg.sys)

\* wrap_mode=nofallback (not overridden by force_fallback_for) never configures a subproject for a lookup
NofallbackNeverConfigures ==
    cfg.wm = "nofallback" /\ cfg.fff = {} => \A a \in LookupArgs : O(a).st.sub = st.sub
\* allow_fallback: false never configures; an optional lookup without fallback:/allow_fallback never does either
\* unless forced
NoImplicitFallbackUnlessAllowed ==
    \A a \in Valid :
        /\ (a.af = "false" => O(a).st.sub = st.sub)
        /\ (a.fb = "none" /\ a.af = "unset" /\ ~a.req /\ ~ForceCfg(cfg) => O(a).st.sub = st.sub)
\* a subproject is configured by a lookup only when it is needed: forced, or the system cannot satisfy it
FallbackOnlyWhenNeeded ==
    \A a \in Valid : O(a).st.sub # st.sub =>
        /\ st.ovr = None /\ st.cache = None /\ CouldFallBack(a)
        /\ (ForceCfg(cfg) \/ cfg.sys = 0 \/ ~Sat(a.con, cfg.sys))
\* without forcing, a present and matching system dependency is used when nothing was remembered and S is
\* not configured yet
SystemPreferred ==
    \A a \in Valid : ~ForceCfg(cfg) /\ st.ovr = None /\ st.cache = None /\ st.sub # "ok"
                     /\ cfg.sys # 0 /\ Sat(a.con, cfg.sys)
        => O(a).res = Res("sys", cfg.sys) /\ O(a).st.sub = st.sub
\* the fallback is used when the system cannot satisfy the request, a fallback exists and is not disabled
FallbackUsedWhenSystemFails ==
    \A a \in Valid : /\ st.ovr = None /\ st.cache = None /\ st.sub = "unconfigured"
                     /\ (cfg.sys = 0 \/ ~Sat(a.con, cfg.sys))
                     /\ HasFallback(cfg, st, a) /\ (cfg.wm # "nofallback" \/ ForceCfg(cfg))
        => O(a).st.sub # "unconfigured"
\* with nothing suitable a required lookup is an error and an optional one yields not-found
RequiredNotFoundIsError ==
    \A a \in LookupArgs : /\ (a.req => O(a).res.kind # "notfound")
                          /\ (~a.req /\ ValidArgs(a) => O(a).res.kind # "error")
                          /\ (~ValidArgs(a) => O(a).res.kind = "error")
\* a found dependency satisfies the requested version
VersionRespected == \A a \in Valid : Found(O(a).res) => Sat(a.con, O(a).res.v)
\* repeated lookups with the same arguments return the same dependency (twice and three times)
RepeatStable ==
    \A a \in Valid : O(a).res.kind # "error" =>
        LET o2 == Lookup(cfg, O(a).st, a)
            o3 == Lookup(cfg, o2.st, a)
        IN o2.res = O(a).res /\ o3.res = O(a).res /\ o3.st = o2.st
\* once something was found, every later lookup (any arguments) answers with that object or with nothing
FirstResultSticks ==
    st.cache # None => \A a \in Valid : O(a).st = st /\ ~O(a).asked /\ (Found(O(a).res) => O(a).res = st.cache)
\* not-found is never remembered
NotFoundNotCached == \A a \in Valid : ~Found(O(a).res) => O(a).st.cache = st.cache
\* both readings of the open corner agree everywhere else
ReadingsAgreeOutsideCorner ==
    \A a \in Valid : ~OpenCorner(cfg, st, a) =>
        Lookup([cfg EXCEPT !.nofb = "existing"], st, a) = Lookup([cfg EXCEPT !.nofb = "system"], st, a)

\* the model's input space, for the implementation harness
EmitSpace == TLCGet("stats").diameter >= 0
             /\ JsonSerialize("deplookup_space.json",
                              [configs |-> SetToSeq({ c \in AllConfigs : c.nofb = "existing" }),
                               args |-> SetToSeq(LookupArgs)])
=============================================================================
