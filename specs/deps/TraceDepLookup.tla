---------------------------- MODULE TraceDepLookup ----------------------------
(***************************************************************************)
(* Trace validation / prediction for the dependency() policy (C10).        *)
(* One case = one dependency name in one real `meson setup`: the           *)
(* configuration cell, the lookups made (arguments) and, after every       *)
(* lookup, what the build definition observed (found()/origin/version,     *)
(* state of the providing subproject), plus whether pkg-config was ever    *)
(* asked about the name.  A case is accepted iff the observations equal    *)
(* DepLookup!Run under one of the allowed readings of the open corners.    *)
(* A case may have a second run (field r2): the same build directory       *)
(* configured again with `meson setup --reconfigure` after wrap_mode /     *)
(* force_fallback_for / the system changed; the specification carries the  *)
(* persistent cache of run 1 over and judges run 2 the same way.           *)
(*                                                                         *)
(* JUDGE_MODE = "predict": no observations; prints, for the cases that may *)
(* abort the configuration, the first aborting step (used only to lay      *)
(* out projects: an aborting lookup must be the last statement).           *)
(***************************************************************************)
EXTENDS DepLookup, TLC, Json, IOUtils

Cases == JsonDeserialize(IOEnv.TRACE_FILE)
Mode == IOEnv.JUDGE_MODE

VARIABLES i, done
vars == <<i, done>>

SeqToSet(s) == { s[j] : j \in 1..Len(s) }
\* a pair of readings: <<open corner of nofallback, reuse of the persistent cache>>
ReadingPairs == Readings \X Reuses
ToCfg(c, r) == [sys |-> c.cfg.sys, prov |-> c.cfg.prov, style |-> c.cfg.style, subv |-> c.cfg.subv,
                mainv |-> c.cfg.mainv, wm |-> c.cfg.wm, fff |-> SeqToSet(c.cfg.fff), pre |-> c.cfg.pre,
                nofb |-> r[1], reuse |-> "fresh"]
ToArgs(x) == [con |-> x.con, fb |-> x.fb, req |-> x.req, af |-> x.af,
               static |-> IF "static" \in DOMAIN x THEN x.static ELSE "unset"]
ArgsOfSeq(xs) == [j \in 1..Len(xs) |-> ToArgs(xs[j])]
\* cases with a static keyword / default_library are generated inside StaticClass only
InClass(c) == LET as == ArgsOfSeq(c.as)
              IN (\E j \in 1..Len(as) : as[j].static # "unset") \/ "dl" \in DOMAIN c.cfg
                 => /\ StaticClass(c.cfg, as) /\ Len(c.r2) = 0
                    /\ c.cfg.dl \in DefLibs /\ c.cfg.sdl \in {"none"} \cup DefLibs /\ as[1].static \in StaticKws

\* what the build definition can see of the state of S: a subproject that does not exist leaves no trace
ObsSub(cfg, s) == IF s = "ok" THEN "ok"
                  ELSE IF s = "failed" /\ cfg.style = "broken" THEN "failed"
                  ELSE "unconfigured"
Proj(cfg, o) == [kind |-> o.res.kind, v |-> o.res.v, sub |-> ObsSub(cfg, o.st.sub)]
ObsOf(x) == [kind |-> x.kind, v |-> x.v, sub |-> x.sub]

\* ---- one configuration run of a case as the specification sees it ----------------------
\* run 1: a fresh build directory; run 2 (c.r2 = <<x>>): `meson setup --reconfigure` of the same directory
\* with the wrap_mode / force_fallback_for / system of x and the lookups x.as, started with the persistent
\* cache that run 1 leaves behind according to the specification
View(cfg, start, as, obs, asked) == [cfg |-> cfg, start |-> start, as |-> as, obs |-> obs, asked |-> asked]
OutsOf(V) == RunFrom(V.cfg, V.start, V.as, <<>>)
View1(c, r) == LET cfg == ToCfg(c, r) IN View(cfg, PreState(cfg), ArgsOfSeq(c.as), c.obs, c.asked)
EndState(V) == LET outs == OutsOf(V) IN IF outs = <<>> THEN V.start ELSE outs[Len(outs)].st
View2(c, r) ==
    LET x == c.r2[1]
        v1 == View1(c, r)
        cfg == [v1.cfg EXCEPT !.sys = x.sys, !.wm = x.wm, !.fff = SeqToSet(x.fff), !.reuse = r[2]]
    IN View(cfg, PreStateWith(cfg, NextPC(EndState(v1))), ArgsOfSeq(x.as), x.obs, x.asked)
HasRun2(c) == Len(c.r2) = 1

MatchRun(V) ==
    LET outs == OutsOf(V)
    IN /\ Len(outs) = Len(V.obs)
       /\ \A j \in 1..Len(outs) : Proj(V.cfg, outs[j]) = ObsOf(V.obs[j])
       /\ (V.asked => \E j \in 1..Len(outs) : outs[j].asked)
Matches(c, r) == MatchRun(View1(c, r)) /\ (HasRun2(c) => MatchRun(View2(c, r)))

\* ---- diagnosis against the pinned readings ------------------------------------------
StateBefore(V, outs, j) == IF j = 1 THEN V.start ELSE outs[j - 1].st
FirstDiff(cfg, outs, obs) ==
    LET m == IF Len(outs) < Len(obs) THEN Len(outs) ELSE Len(obs)
        D == { j \in 1..m : Proj(cfg, outs[j]) # ObsOf(obs[j]) }
    IN IF D # {} THEN CHOOSE j \in D : \A k \in D : j <= k
       ELSE IF Len(outs) # Len(obs) THEN m + 1
       ELSE 0
CouldFallBack(cfg, a) == a.fb # "none" \/ (HasProvide(cfg) /\ a.af # "false")

ClauseAt(cfg, st, as, obs, j) ==
    LET a == as[j]
        got == ObsOf(obs[j])
    IN IF ~(got.kind \in {"sys", "sub", "main", "notfound", "error"}) THEN "Observation"
       ELSE IF st.ovr # None THEN "OverrideWins"
       ELSE IF ForceCfg(cfg) /\ CouldFallBack(cfg, a) /\ got.kind = "sys" /\ st.cache.kind # "sys"
            THEN (IF st.pc # None THEN "ForcedIgnoresPersistentCache" ELSE "ForcedNeverConsultsSystem")
       ELSE IF cfg.wm = "nofallback" /\ cfg.fff = {} /\ got.sub # ObsSub(cfg, st.sub)
            THEN "NofallbackNeverConfigures"
       ELSE IF a.af = "false" /\ got.sub # ObsSub(cfg, st.sub) THEN "AllowFallbackFalseNeverConfigures"
       ELSE IF (a.req /\ got.kind = "notfound") \/ (~a.req /\ ValidArgs(a) /\ got.kind = "error")
            THEN "RequiredNotFoundIsError"
       ELSE IF j > 1 /\ as[j] = as[j - 1] /\ <<got.kind, got.v>> # <<obs[j - 1].kind, obs[j - 1].v>>
            THEN "RepeatStable"
       ELSE IF st.cache # None THEN "FirstResultSticks"
       \* the keyword / default_library are the only thing that tells this cell from one that is fine
       ELSE IF a.static # "unset" \/ "dl" \in DOMAIN cfg THEN "StaticKeywordIrrelevant"
       ELSE IF st.pc # None THEN "PersistentCacheOnlyReusesPositive"
       ELSE "DecisionTable"

Verdict(id, clause, run, step, expected, got) ==
    [id |-> id, clause |-> clause, run |-> run, step |-> step, expected |-> expected, got |-> got, ovr |-> "none"]
\* ... with the explicit override the specification has in force after the failing step
WithOvr(v, o) == [v EXCEPT !.ovr = o.st.ovr.kind]
NoObs == [kind |-> "", v |-> 0, sub |-> ""]

Diagnose(id, V, run) ==
    LET outs == OutsOf(V)
        d == FirstDiff(V.cfg, outs, V.obs)
    IN IF d = 0 THEN WithOvr(Verdict(id, "SystemConsulted", run, 0, NoObs, NoObs), [st |-> EndState(V)])
       ELSE IF d > Len(V.obs)    \* the configuration should have gone on (or the harness lost a line)
            THEN Verdict(id, "MissingObservation", run, d, Proj(V.cfg, outs[d]), NoObs)
       ELSE IF d > Len(outs)     \* the configuration should have aborted before
            THEN Verdict(id, "RequiredNotFoundIsError", run, d - 1, Proj(V.cfg, outs[d - 1]), ObsOf(V.obs[d - 1]))
       ELSE WithOvr(Verdict(id, ClauseAt(V.cfg, StateBefore(V, outs, d), V.as, V.obs, d), run, d,
                            Proj(V.cfg, outs[d]), ObsOf(V.obs[d])), outs[d])

Pinned == <<"existing", "cached">>
Judge(c) ==
    IF ~InClass(c) THEN Verdict(c.id, "Observation", 0, 0, NoObs, NoObs)
    ELSE IF \E r \in ReadingPairs : Matches(c, r) THEN Verdict(c.id, "ok", 0, 0, NoObs, NoObs)
    ELSE IF ~(\E r \in ReadingPairs : MatchRun(View1(c, r))) THEN Diagnose(c.id, View1(c, Pinned), 1)
    ELSE \* run 1 is fine under some reading; judge run 2 under the pinned readings that fit run 1, if any
         LET R == { r \in ReadingPairs : MatchRun(View1(c, r)) }
             r0 == IF Pinned \in R THEN Pinned ELSE CHOOSE r \in R : r[2] = "cached"
         IN Diagnose(c.id, View2(c, r0), 2)

\* first step at which a configuration run may abort (0 = never), under any readings
AbortOf(V) == LET outs == OutsOf(V)
              IN IF outs # <<>> /\ outs[Len(outs)].res.kind = "error" THEN Len(outs) ELSE 0
MinPos(S) == IF S \ {0} = {} THEN 0 ELSE CHOOSE s \in S \ {0} : \A t \in S \ {0} : s <= t
Predict(c) ==
    LET s1 == MinPos({ AbortOf(View1(c, r)) : r \in ReadingPairs })
        s2 == IF HasRun2(c) /\ s1 = 0 THEN MinPos({ AbortOf(View2(c, r)) : r \in ReadingPairs }) ELSE 0
    IN [id |-> c.id, clause |-> IF s1 = 0 /\ s2 = 0 THEN "ok" ELSE "aborts", step |-> s1, step2 |-> s2]

Init == i \in 1..Len(Cases) /\ done = FALSE
Next == /\ ~done
        /\ done' = TRUE
        /\ i' = i
        /\ LET v == IF Mode = "predict" THEN Predict(Cases[i]) ELSE Judge(Cases[i])
           IN v.clause = "ok" \/ PrintT(ToJson(v))
Spec == Init /\ [][Next]_vars
=============================================================================
