---------------------------- MODULE TraceDepLookup ----------------------------
(***************************************************************************)
(* Trace validation / prediction for the dependency() policy (C10).        *)
(* One case = one dependency name in one real `meson setup`: the           *)
(* configuration cell, the lookups made (arguments) and, after every       *)
(* lookup, what the build definition observed (found()/origin/version,     *)
(* state of the providing subproject), plus whether pkg-config was ever    *)
(* asked about the name.  A case is accepted iff the observations equal    *)
(* DepLookup!Run under one of the allowed readings of the open corner.     *)
(*                                                                         *)
(* JUDGE_MODE = "predict": no observations; prints, for the cases that may *)
(* abort the configuration, the first aborting step (used only to lay      *)
(* out projects: an aborting lookup must be the last statement).           *)
(***************************************************************************)
EXTENDS DepLookup, TLC, Json, IOUtils

Cases == JsonDeserialize(IOEnv.TRACE_FILE)
Mode == IOEnv.JUDGE_MODE

VARIABLES i, done
vars == <<i, done>>

SeqToSet(s) == { s[j] : j \in 1..Len(s) }
ToCfg(c, r) == [sys |-> c.cfg.sys, prov |-> c.cfg.prov, style |-> c.cfg.style, subv |-> c.cfg.subv,
                mainv |-> c.cfg.mainv, wm |-> c.cfg.wm, fff |-> SeqToSet(c.cfg.fff), pre |-> c.cfg.pre, nofb |-> r]
ToArgs(x) == [con |-> x.con, fb |-> x.fb, req |-> x.req, af |-> x.af]
ArgsOf(c) == [j \in 1..Len(c.as) |-> ToArgs(c.as[j])]

\* what the build definition can see of the state of S: a subproject that does not exist leaves no trace
ObsSub(cfg, s) == IF s = "ok" THEN "ok"
                  ELSE IF s = "failed" /\ cfg.style = "broken" THEN "failed"
                  ELSE "unconfigured"
Proj(cfg, o) == [kind |-> o.res.kind, v |-> o.res.v, sub |-> ObsSub(cfg, o.st.sub)]
ObsOf(x) == [kind |-> x.kind, v |-> x.v, sub |-> x.sub]

Matches(c, r) ==
    LET cfg == ToCfg(c, r)
        outs == Run(cfg, ArgsOf(c))
    IN /\ Len(outs) = Len(c.obs)
       /\ \A j \in 1..Len(outs) : Proj(cfg, outs[j]) = ObsOf(c.obs[j])
       /\ (c.asked => \E j \in 1..Len(outs) : outs[j].asked)

\* ---- diagnosis against the pinned reading ------------------------------------------
StateBefore(cfg, outs, j) == IF j = 1 THEN PreState(cfg) ELSE outs[j - 1].st
FirstDiff(cfg, outs, obs) ==
    LET m == IF Len(outs) < Len(obs) THEN Len(outs) ELSE Len(obs)
        D == { j \in 1..m : Proj(cfg, outs[j]) # ObsOf(obs[j]) }
    IN IF D # {} THEN CHOOSE j \in D : \A k \in D : j <= k
       ELSE IF Len(outs) # Len(obs) THEN m + 1
       ELSE 0
CouldFallBack(cfg, a) == a.fb # "none" \/ (HasProvide(cfg) /\ a.af # "false")

ClauseAt(cfg, st, as, obs, j) ==
    LET a == as[j]
        got == ObsOf(obs[j])
    IN IF ~(got.kind \in {"sys", "sub", "main", "notfound", "error"}) THEN "Observation"
       ELSE IF st.ovr # None THEN "OverrideWins"
       ELSE IF ForceCfg(cfg) /\ CouldFallBack(cfg, a) /\ got.kind = "sys" /\ st.cache.kind # "sys"
            THEN "ForcedNeverConsultsSystem"
       ELSE IF cfg.wm = "nofallback" /\ cfg.fff = {} /\ got.sub # ObsSub(cfg, st.sub)
            THEN "NofallbackNeverConfigures"
       ELSE IF a.af = "false" /\ got.sub # ObsSub(cfg, st.sub) THEN "AllowFallbackFalseNeverConfigures"
       ELSE IF (a.req /\ got.kind = "notfound") \/ (~a.req /\ ValidArgs(a) /\ got.kind = "error")
            THEN "RequiredNotFoundIsError"
       ELSE IF j > 1 /\ as[j] = as[j - 1] /\ <<got.kind, got.v>> # <<obs[j - 1].kind, obs[j - 1].v>>
            THEN "RepeatStable"
       ELSE IF st.cache # None THEN "FirstResultSticks"
       ELSE "DecisionTable"

Verdict(id, clause, step, expected, got) ==
    [id |-> id, clause |-> clause, step |-> step, expected |-> expected, got |-> got, ovr |-> "none"]
\* ... with the explicit override the specification has in force after the failing step
WithOvr(v, o) == [v EXCEPT !.ovr = o.st.ovr.kind]
NoObs == [kind |-> "", v |-> 0, sub |-> ""]

Judge(c) ==
    IF \E r \in Readings : Matches(c, r) THEN Verdict(c.id, "ok", 0, NoObs, NoObs)
    ELSE LET cfg == ToCfg(c, "existing")
             as == ArgsOf(c)
             outs == Run(cfg, as)
             d == FirstDiff(cfg, outs, c.obs)
         IN IF d = 0 THEN WithOvr(Verdict(c.id, "SystemConsulted", 0, NoObs, NoObs), outs[Len(outs)])
            ELSE IF d > Len(c.obs)    \* the configuration should have gone on (or the harness lost a line)
                 THEN Verdict(c.id, "MissingObservation", d, Proj(cfg, outs[d]), NoObs)
            ELSE IF d > Len(outs)     \* the configuration should have aborted before
                 THEN Verdict(c.id, "RequiredNotFoundIsError", d - 1, Proj(cfg, outs[d - 1]), ObsOf(c.obs[d - 1]))
            ELSE WithOvr(Verdict(c.id, ClauseAt(cfg, StateBefore(cfg, outs, d), as, c.obs, d), d,
                                 Proj(cfg, outs[d]), ObsOf(c.obs[d])), outs[d])

\* first step at which the configuration may abort (0 = never), under any reading
AbortStep(c, r) ==
    LET outs == Run(ToCfg(c, r), ArgsOf(c))
    IN IF outs # <<>> /\ outs[Len(outs)].res.kind = "error" THEN Len(outs) ELSE 0
Predict(c) ==
    LET S == { AbortStep(c, r) : r \in Readings } \ {0}
    IN [id |-> c.id, clause |-> IF S = {} THEN "ok" ELSE "aborts",
        step |-> IF S = {} THEN 0 ELSE CHOOSE s \in S : \A t \in S : s <= t]

Init == i \in 1..Len(Cases) /\ done = FALSE
Next == /\ ~done
        /\ done' = TRUE
        /\ i' = i
        /\ LET v == IF Mode = "predict" THEN Predict(Cases[i]) ELSE Judge(Cases[i])
           IN v.clause = "ok" \/ PrintT(ToJson(v))
Spec == Init /\ [][Next]_vars
=============================================================================
