---------------------------- MODULE TraceWrapFetch ----------------------------
(***************************************************************************)
(* Trace validation for the wrap acquisition pipeline (C10).  One case =   *)
(* one scenario materialised on disk and the same command run twice; after *)
(* each run the harness records the exit status and the projection of the  *)
(* subproject directory and of the package cache.  Every run is judged as  *)
(* a transition WrapFetch!RunOnce from the state observed before it, and   *)
(* the observed states are checked against the laws directly.              *)
(***************************************************************************)
EXTENDS WrapFetch, TLC, Json, IOUtils

Cases == JsonDeserialize(IOEnv.TRACE_FILE)

VARIABLES i, done
vars == <<i, done>>

SeqToSet(s) == { s[j] : j \in 1..Len(s) }
Scenario0(x) == Scenario(x.mode, x.hash, x.url, x.fb, x.cache, x.files, x.arch, x.patch, x.phash, x.purl, x.pcache,
                    x.pfiles, x.parch, x.pdir, x.diff, x.cmd)
ToSc(x) == [Vcs(Scenario0(x), x.kind, x.vcs, x.rev) EXCEPT !.dser = x.dser]
ToFS(o) == [dir |-> SeqToSet(o.dir), cache |-> o.cache, pcache |-> o.pcache]

Verdict(id, clause, run, stage, expok, expfs) ==
    [id |-> id, clause |-> clause, run |-> run, stage |-> stage, expected_ok |-> expok,
     expected_dir |-> expfs.dir, expected_cache |-> expfs.cache, expected_pcache |-> expfs.pcache]

Before(c, sc, r) == IF r = 1 THEN InitFS(sc) ELSE ToFS(c.obs[r - 1])

\* clause for run r whose observation differs from RunOnce (or breaks a law on its own)
Clause(c, sc, r) ==
    LET pre == Before(c, sc, r)
        exp == RunOnce(sc, pre)
        got == ToFS(c.obs[r])
        gok == c.obs[r].ok
    IN IF BadHashUsed(sc, got) THEN "NeverUnpackBadHash"
       ELSE IF NoDownload(sc) /\ (got.cache # sc.cache \/ got.pcache # sc.pcache \/ (gok /\ ~exp.ok)
                                   \/ c.obs[r].calls # <<>> \/ (sc.kind # "file" /\ pre.dir = {} /\ got.dir # {}))
            THEN "NoDownloadNeverFetches"
       ELSE IF gok /\ HalfPrepared(sc, got.dir)
            THEN (IF r = 2 THEN "SecondRunNeverAcceptsHalfPrepared" ELSE "AcceptsHalfPrepared")
       ELSE IF ~gok /\ pre.dir = {} /\ got.dir # {} THEN "FailedPatchLeavesNoDir"
       ELSE IF exp.ok # gok \/ exp.fs # got THEN "Outcome"
       \* the VCS client is run exactly as documented (clone url directory [+ checkout revision]; svn checkout -r)
       ELSE IF exp.calls # c.obs[r].calls THEN "ClientCalls"
       \* the exit status has to tell a failed command from a successful one
       ELSE IF c.obs[r].rc0 # gok THEN "ExitStatus"
       ELSE "ok"

\* the stage at which the first run fails according to the specification ("done" if it does not)
Stage1(sc) == RunOnce(sc, InitFS(sc)).stage

Judge(c) ==
    LET sc == ToSc(c.sc)
        bad == { r \in 1..Len(c.obs) : Clause(c, sc, r) # "ok" }
        \* a law about accepting a half-prepared directory outranks the run that produced the directory
        accept == { r \in bad : Clause(c, sc, r) \in {"SecondRunNeverAcceptsHalfPrepared", "AcceptsHalfPrepared",
                                                     "NeverUnpackBadHash"} }
        pick == IF accept # {} THEN CHOOSE r \in accept : \A q \in accept : r <= q
                ELSE CHOOSE r \in bad : \A q \in bad : r <= q
    IN IF Len(c.obs) # 2 THEN Verdict(c.id, "Observation", 0, "", FALSE, InitFS(sc))
       ELSE IF bad = {} THEN Verdict(c.id, "ok", 0, "", TRUE, InitFS(sc))
       ELSE LET exp == RunOnce(sc, Before(c, sc, pick))
            IN Verdict(c.id, Clause(c, sc, pick), pick, Stage1(sc), exp.ok, exp.fs)

Init == i \in 1..Len(Cases) /\ done = FALSE
Next == /\ ~done
        /\ done' = TRUE
        /\ i' = i
        /\ LET v == Judge(Cases[i]) IN v.clause = "ok" \/ PrintT(ToJson(v))
Spec == Init /\ [][Next]_vars
=============================================================================
