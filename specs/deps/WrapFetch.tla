------------------------------ MODULE WrapFetch ------------------------------
(***************************************************************************)
(* How a [wrap-file] subproject is obtained (property C10, second half),   *)
(* written from docs/markdown/Wrap-dependency-system-manual.md ("Accepted  *)
(* configuration properties", "Specific to wrap-file", "wrap-file with     *)
(* Meson build patch", "Diff files") and Subprojects.md                    *)
(* ("--wrap-mode=nodownload", "Download subprojects").                     *)
(*                                                                         *)
(* A scenario `sc` fixes the wrap file and what lies at every acquisition  *)
(* location; `fs` is the part of the file system the statement talks about *)
(* (the subproject directory and the package cache).  `RunOnce` is one     *)
(* command (`meson subprojects download`, `meson setup`, `meson setup      *)
(* --wrap-mode=nodownload`) as a function; WrapFetch_MC has the same       *)
(* pipeline as a step-by-step machine (fetch -> verify -> unpack -> patch  *)
(* -> diff) and proves both equal.                                         *)
(***************************************************************************)
EXTENDS Integers, Sequences, FiniteSets

\* ---- scenario -------------------------------------------------------------
\* mode  : "url"   source_url (+ optional source_fallback_url), source_filename, source_hash
\*         "files" only source_filename: the archive is subprojects/packagefiles/<source_filename>
\* hash  : source_hash is recorded in the wrap file
\* url, fb, cache, files : what lies at source_url / source_fallback_url ("none": key not present) /
\*         subprojects/packagecache/<source_filename> / subprojects/packagefiles/<source_filename>:
\*         "absent" | "good" (the recorded archive) | "corrupt" (another, valid archive with other content)
\* arch  : shape of the recorded archive: "ok" | "garbage" (not an archive: the unpack step fails at once)
\*         | "trunc" (the unpack step fails after having written the first members)
\* patch : "none" | "url" (patch_url, patch_filename, patch_hash) | "files" (patch_filename only)
\*         | "dir" (patch_directory)
\* phash, purl, pcache, pfiles, parch : the same for the overlay archive; pdir: "absent" | "present"
\* diff  : "none" | "good" (applies) | "bad" (does not apply) | "missing" (file not in packagefiles)
\*         | "series": `diff_files = a, b, c` - dser is the sequence of the states of the listed files ("good" | "bad" |
\*         "missing"), applied in the order written; each file edits a file of its own
\* kind  : "file" ([wrap-file], everything above) | "git" | "hg" | "svn" ([wrap-git] / [wrap-hg] / [wrap-svn]:
\*         url + revision; the sources are fetched by running the git / hg / svn client)
\* vcs   : "ok" | "fail": does the client manage to fetch (VCS kinds only)
\* rev   : "head" (revision = HEAD / tip: whatever the clone gives) | "pinned" (a named revision)
\* cmd   : "download" (meson subprojects download) | "setup" (meson setup, subproject() required)
\*         | "setup_nodl" (meson setup --wrap-mode=nodownload)
Locs == {"absent", "good", "corrupt"}
Shapes == {"ok", "garbage", "trunc"}
Cmds == {"download", "setup", "setup_nodl"}

Scenario(mode, hash, url, fb, cache, files, arch, patch, phash, purl, pcache, pfiles, parch, pdir, diff, cmd) ==
    [mode |-> mode, hash |-> hash, url |-> url, fb |-> fb, cache |-> cache, files |-> files, arch |-> arch,
     patch |-> patch, phash |-> phash, purl |-> purl, pcache |-> pcache, pfiles |-> pfiles, parch |-> parch,
     pdir |-> pdir, diff |-> diff, cmd |-> cmd, kind |-> "file", vcs |-> "ok", rev |-> "head", dser |-> <<>>]
\* a wrap that lists several diff files
Ser(s, q) == [s EXCEPT !.diff = "series", !.dser = q]
\* the diff files of a wrap in the order they are applied ("Diff files": "applied ... in the order listed")
Series(sc) == IF sc.diff = "series" THEN sc.dser ELSE IF sc.diff = "none" THEN <<>> ELSE <<sc.diff>>
Vcs(s, kind, vcs, rev) == [s EXCEPT !.kind = kind, !.vcs = vcs, !.rev = rev]
Kinds == {"file", "git", "hg", "svn"}

\* ---- observable file system ------------------------------------------------
\* dir: set of markers of subprojects/<directory> ({} = the directory does not exist)
\*   "build" meson.build is there        "src"   the whole payload of the recorded source archive
\*   "part"  only a part of a payload    "evil"  payload of an archive that is not the recorded one
\*   "patch" overlay of the recorded patch archive / of patch_directory   "evilpatch" another overlay
\*   "diff"  every diff file of the series has been applied
\*   "pdiff" some, but not all diff files of the series have been applied
\* cache / pcache: state of subprojects/packagecache/<source_filename | patch_filename>
InitFS(sc) == [dir |-> {}, cache |-> sc.cache, pcache |-> sc.pcache]

NoDownload(sc) == sc.cmd = "setup_nodl"

\* ---- acquiring one archive ("src" or "patch") ---------------------------------
Mode(sc, w)   == IF w = "src" THEN sc.mode  ELSE sc.patch
Hashed(sc, w) == IF w = "src" THEN sc.hash  ELSE sc.phash
Url(sc, w)    == IF w = "src" THEN sc.url   ELSE sc.purl
Fb(sc, w)     == IF w = "src" THEN sc.fb    ELSE "none"
Files(sc, w)  == IF w = "src" THEN sc.files ELSE sc.pfiles
Cache(fs, w)  == IF w = "src" THEN fs.cache ELSE fs.pcache
SetCache(fs, w, v) == IF w = "src" THEN [fs EXCEPT !.cache = v] ELSE [fs EXCEPT !.pcache = v]

Got(c, fs) == [ok |-> TRUE, c |-> c, fs |-> fs]
NotGot(fs) == [ok |-> FALSE, c |-> "none", fs |-> fs]

\* -> [ok, c: content class in hand ("good" | "corrupt"), fs]
Acquire(sc, w, fs) ==
    IF Mode(sc, w) = "url"
    THEN IF Cache(fs, w) # "absent"
         \* "if source_filename ... is found in ... packagecache ... it will be used instead of downloading the
         \*  file, even if --wrap-mode ... nodownload.  The file's hash will be checked."
         THEN IF Hashed(sc, w) /\ Cache(fs, w) = "good" THEN Got("good", fs) ELSE NotGot(fs)
         \* "Meson will not use the network to download any subprojects"
         ELSE IF NoDownload(sc) THEN NotGot(fs)
         \* a download cannot be verified without a recorded hash (only packagefiles archives may omit it)
         ELSE IF ~Hashed(sc, w) THEN NotGot(fs)
         ELSE IF Url(sc, w) = "good" \/ Fb(sc, w) = "good" THEN Got("good", SetCache(fs, w, "good"))
         ELSE NotGot(fs)
    ELSE \* local archive in packagefiles: "The *_hash entries are optional when using this method"
         IF Files(sc, w) = "absent" THEN NotGot(fs)
         ELSE IF Hashed(sc, w) /\ Files(sc, w) = "corrupt" THEN NotGot(fs)
         ELSE Got(Files(sc, w), fs)

\* ---- one command ------------------------------------------------------------
Result(ok, fs, stage) == [ok |-> ok, fs |-> fs, stage |-> stage]
\* every failure after the directory was created in this run removes it again
Failed(fs, stage) == Result(FALSE, [fs EXCEPT !.dir = {}], stage)

\* the series is applied front to back; the first file that is missing or does not apply fails the whole
\* step (and with it the run: the directory goes away), whatever the files after it would have done
RECURSIVE DiffFrom(_, _, _)
DiffFrom(q, k, fs) ==
    IF k > Len(q) THEN Result(TRUE, [fs EXCEPT !.dir = (@ \ {"pdiff"}) \cup {"diff"}], "done")
    ELSE IF q[k] = "good" THEN DiffFrom(q, k + 1, [fs EXCEPT !.dir = @ \cup {"pdiff"}])
    ELSE Failed(fs, "diff")                               \* "bad" | "missing"
DiffStage(sc, fs) == IF Series(sc) = <<>> THEN Result(TRUE, fs, "done") ELSE DiffFrom(Series(sc), 1, fs)
\* position of the first diff file of the series that cannot be applied (0: none)
FirstBadDiff(sc) == LET q == Series(sc)
                        bad == { k \in 1..Len(q) : q[k] # "good" }
                    IN IF bad = {} THEN 0 ELSE CHOOSE k \in bad : \A j \in bad : k <= j

PatchStage(sc, fs) ==
    CASE sc.patch = "none" -> DiffStage(sc, fs)
      [] sc.patch = "dir"  -> IF sc.pdir = "present" THEN DiffStage(sc, [fs EXCEPT !.dir = @ \cup {"patch"}])
                              ELSE Failed(fs, "patch")
      [] OTHER ->
           LET a == Acquire(sc, "patch", fs)
           IN IF ~a.ok THEN Failed(a.fs, "patch")
              ELSE IF a.c = "corrupt" THEN DiffStage(sc, [a.fs EXCEPT !.dir = @ \cup {"evilpatch"}])
              ELSE IF sc.parch = "ok" THEN DiffStage(sc, [a.fs EXCEPT !.dir = @ \cup {"patch"}])
              ELSE Failed(a.fs, "patch")

\* the client invocations a fetch through a VCS client consists of: git/hg clone <url> <directory> and, for a
\* named revision, a checkout of it; svn checkout -r <revision> <url> <directory>
ClientCalls(sc) == IF sc.kind = "svn" THEN <<"checkout">>
                   ELSE IF sc.rev = "head" \/ sc.vcs = "fail" THEN <<"clone">>
                   ELSE <<"clone", "checkout">>

Fresh(sc, fs) ==
    IF sc.kind # "file"
    \* "--wrap-mode=nodownload: Meson will not use the network to download any subprojects ... Only preexisting
    \*  sources will be used" - whatever the kind of wrap
    THEN IF NoDownload(sc) \/ sc.vcs = "fail" THEN Failed(fs, "fetch")
         ELSE PatchStage(sc, [fs EXCEPT !.dir = {"build", "src"}])
    ELSE
    LET a == Acquire(sc, "src", fs)
    IN IF ~a.ok THEN Failed(a.fs, "fetch")
       ELSE IF a.c = "corrupt" THEN PatchStage(sc, [a.fs EXCEPT !.dir = {"build", "evil"}])
       ELSE IF sc.arch = "ok" THEN PatchStage(sc, [a.fs EXCEPT !.dir = {"build", "src"}])
       ELSE Failed(a.fs, "unpack")

\* "it will download all missing subprojects, but will not update already fetched subprojects"
RunOnce0(sc, fs) ==
    IF fs.dir # {}
    THEN IF sc.cmd = "download" \/ "build" \in fs.dir THEN Result(TRUE, fs, "present")
         ELSE Result(FALSE, fs, "present")
    ELSE Fresh(sc, fs)
\* the VCS client runs only when sources are missing and downloading is allowed
Calls(sc, fs) == IF fs.dir # {} \/ sc.kind = "file" \/ NoDownload(sc) THEN <<>> ELSE ClientCalls(sc)
RunOnce(sc, fs) == LET r == RunOnce0(sc, fs)
                   IN [ok |-> r.ok, fs |-> r.fs, stage |-> r.stage, calls |-> Calls(sc, fs)]

\* ---- what must never be observed ------------------------------------------------
\* a directory that a later run would take for the finished subproject although a stage is missing
HalfPrepared(sc, dir) ==
    \/ "part" \in dir
    \/ dir \cap {"src", "evil"} = {}
    \/ (sc.patch # "none" /\ dir \cap {"patch", "evilpatch"} = {})
    \/ (sc.diff # "none" /\ ~("diff" \in dir))
    \/ "pdiff" \in dir
\* content that does not match a recorded hash
BadHashUsed(sc, fs) ==
    \/ ("evil" \in fs.dir /\ ~(sc.mode = "files" /\ ~sc.hash))
    \/ ("evilpatch" \in fs.dir /\ ~(sc.patch = "files" /\ ~sc.phash))
    \/ (fs.cache = "corrupt" /\ sc.cache # "corrupt")
    \/ (fs.pcache = "corrupt" /\ sc.pcache # "corrupt")
=============================================================================
