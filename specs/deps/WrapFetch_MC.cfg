SPECIFICATION Spec
CONSTANTS Universe = "families"
INVARIANT TypeOK
INVARIANT NeverUnpackBadHash
INVARIANT NodownloadFetchesNothing
INVARIANT NoDownloadNeverFetches
INVARIANT ClientRunsWhenAllowed
INVARIANT FailedPatchLeavesNoDir
INVARIANT SecondRunNeverAcceptsHalfPrepared
INVARIANT SecondRunSameVerdict
INVARIANT AnyDiffOfSeriesFails
INVARIANT MachineEqualsFunction
CHECK_DEADLOCK FALSE
POSTCONDITION EmitScenarios
