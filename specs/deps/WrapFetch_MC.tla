----------------------------- MODULE WrapFetch_MC -----------------------------
(* The acquisition pipeline as a machine with one action per step (locate -> fetch -> verify -> use       *)
(* (unpack / overlay) -> patch -> diff -> clean-up), run twice on every scenario.  TLC checks             *)
(*   - the laws of C10 in *every* state, including the transient ones inside a run,                        *)
(*   - that the machine and the function WrapFetch!RunOnce (used to judge the real runs) agree.           *)
EXTENDS WrapFetch, TLC, Json, IOUtils, SequencesExt
CONSTANTS Universe      \* "families" (the scenarios that are also replayed on the real code) | "all"
VARIABLES sc, run, pc, w, from, hand, fs, fs0, status, fetched, dk

vars == <<sc, run, pc, w, from, hand, fs, fs0, status, fetched, dk>>

B == BOOLEAN
Base == Scenario("files", TRUE, "absent", "none", "absent", "good", "ok",
                 "none", TRUE, "absent", "absent", "absent", "ok", "absent", "none", "download")
\* F1: every way of acquiring the source archive
F1 == { [Base EXCEPT !.mode = "url", !.hash = h, !.url = u, !.fb = f, !.cache = c, !.files = "absent", !.cmd = k] :
            h \in B, u \in Locs, f \in {"none"} \cup Locs, c \in Locs, k \in Cmds }
      \cup { [Base EXCEPT !.hash = h, !.files = p, !.cmd = k] : h \in B, p \in Locs, k \in Cmds }
\* F2: the unpack step fails
GoodSources == { [Base EXCEPT !.mode = "url", !.url = "good", !.files = "absent"],
                 [Base EXCEPT !.mode = "url", !.cache = "good", !.files = "absent"],
                 Base, [Base EXCEPT !.hash = FALSE] }
F2 == { [s EXCEPT !.arch = a, !.cmd = k] : s \in GoodSources, a \in {"garbage", "trunc"}, k \in Cmds }
\* F3: every way of acquiring / applying the overlay
F3 == { [Base EXCEPT !.patch = "url", !.phash = h, !.purl = u, !.pcache = c, !.cmd = k] :
            h \in B, u \in Locs, c \in Locs, k \in Cmds }
      \cup { [Base EXCEPT !.patch = "files", !.phash = h, !.pfiles = p, !.cmd = k] : h \in B, p \in Locs, k \in Cmds }
      \cup { [Base EXCEPT !.patch = "dir", !.pdir = d, !.cmd = k] : d \in {"absent", "present"}, k \in Cmds }
      \cup { [Base EXCEPT !.patch = "url", !.purl = "good", !.parch = a, !.cmd = k] : a \in {"garbage", "trunc"}, k \in Cmds }
      \cup { [Base EXCEPT !.patch = "files", !.pfiles = "good", !.phash = h, !.parch = a, !.cmd = k] :
                h \in B, a \in {"garbage", "trunc"}, k \in Cmds }
\* F4: diff files, alone and after an overlay; the source comes through a download as well
F4 == { [s EXCEPT !.diff = d, !.patch = p, !.pdir = (IF p = "dir" THEN "present" ELSE "absent"), !.cmd = k] :
            s \in {Base, [Base EXCEPT !.mode = "url", !.url = "good", !.files = "absent"]},
            d \in {"good", "bad", "missing"}, p \in {"none", "dir"}, k \in {"download", "setup"} }
\* F5: wraps fetched by a VCS client, alone and followed by overlay / diff
F5 == { [Vcs(Base, kd, v, r) EXCEPT !.files = "absent", !.cmd = k] :
            kd \in Kinds \ {"file"}, v \in {"ok", "fail"}, r \in {"head", "pinned"}, k \in Cmds }
      \cup { [Vcs(Base, kd, "ok", "pinned") EXCEPT !.files = "absent", !.patch = "dir", !.pdir = d, !.diff = df, !.cmd = k] :
            kd \in Kinds \ {"file"}, d \in {"absent", "present"}, df \in {"none", "bad"}, k \in {"download", "setup_nodl"} }
\* F6: a SERIES of diff files: every position of the series fails (does not apply / missing) with every
\* combination of applying and failing files around it; alone, after an overlay, after a VCS fetch
SerQ(S) == { <<a, b>> : a \in S, b \in S } \cup { <<a, b, c>> : a \in S, b \in S, c \in S }
SerReplayed == SerQ({"good", "bad"}) \cup { <<"missing", "good", "good">>, <<"good", "missing", "good">>,
                                           <<"good", "good", "missing">>, <<"missing", "good">> }
F6 == { Ser([Base EXCEPT !.patch = p[1], !.pdir = (IF p[1] = "dir" THEN "present" ELSE "absent"), !.cmd = p[2]], q) :
            q \in SerReplayed, p \in {<<"none", "download">>, <<"none", "setup">>, <<"dir", "setup">>} }
      \cup { Ser([Vcs(Base, "git", "ok", "head") EXCEPT !.files = "absent", !.cmd = "download"], q) :
            q \in {<<"bad", "good">>, <<"good", "bad">>, <<"good", "bad", "good">>} }
Families == F1 \cup F2 \cup F3 \cup F4 \cup F5 \cup F6

\* the full product, without the fields that are irrelevant for the chosen modes
SrcT == ({"url"} \X B \X Locs \X ({"none"} \cup Locs) \X Locs \X {"absent"})
        \cup ({"files"} \X B \X {"absent"} \X {"none"} \X {"absent"} \X Locs)
PatT == { <<"none", TRUE, "absent", "absent", "absent", "ok", "absent">> }
        \cup ({"url"} \X B \X Locs \X Locs \X {"absent"} \X Shapes \X {"absent"})
        \cup ({"files"} \X B \X {"absent"} \X {"absent"} \X Locs \X Shapes \X {"absent"})
        \cup ({"dir"} \X {TRUE} \X {"absent"} \X {"absent"} \X {"absent"} \X {"ok"} \X {"absent", "present"})
All == { Scenario(s[1], s[2], s[3], s[4], s[5], s[6], a, p[1], p[2], p[3], p[4], p[5], p[6], p[7], d, k) :
            s \in SrcT, a \in Shapes, p \in PatT, d \in {"none", "good", "bad", "missing"}, k \in Cmds }
AllVcs == { Vcs(Scenario("files", TRUE, "absent", "none", "absent", "absent", "ok",
                          p[1], p[2], p[3], p[4], p[5], p[6], p[7], d, k), kd, v, r) :
               kd \in Kinds \ {"file"}, v \in {"ok", "fail"}, r \in {"head", "pinned"},
               p \in PatT, d \in {"none", "good", "bad", "missing"}, k \in Cmds }
\* series of diff files over every overlay and command (local and VCS sources that are fine)
AllSer == { Ser(s, q) : s \in { x \in All : x.mode = "files" /\ x.hash /\ x.files = "good" /\ x.arch = "ok" /\ x.diff = "none" }
                              \cup { x \in AllVcs : x.vcs = "ok" /\ x.rev = "head" /\ x.diff = "none" },
                        q \in SerQ({"good", "bad", "missing"}) }
InScenarios(s) == IF Universe = "all" THEN s \in All \/ s \in AllVcs \/ s \in AllSer ELSE s \in Families
\* the replayed families are part of the full product
ASSUME Universe = "all" => \A f \in Families : f \in All \/ f \in AllVcs \/ f \in AllSer

Init == /\ \/ Universe = "all" /\ sc \in All
           \/ Universe = "all" /\ sc \in AllVcs
           \/ Universe = "all" /\ sc \in AllSer
           \/ Universe # "all" /\ sc \in Families
        /\ run = 1 /\ pc = "start" /\ w = "src" /\ from = "none" /\ hand = "none"
        /\ fs = InitFS(sc) /\ fs0 = InitFS(sc) /\ status = <<>> /\ fetched = {} /\ dk = 1

\* the command ends; the next one (if any) starts from what is on disk now
End(ok, newfs) ==
    /\ status' = Append(status, ok)
    /\ fs' = newfs
    /\ fs0' = fs0
    /\ pc' = "ended"
    /\ UNCHANGED <<sc, run, w, from, hand, fetched, dk>>
NextRun == /\ pc = "ended" /\ run < 2
           /\ run' = run + 1 /\ pc' = "start" /\ fs0' = fs /\ w' = "src" /\ from' = "none" /\ hand' = "none"
           /\ dk' = 1
           /\ UNCHANGED <<sc, fs, status, fetched>>
\* a step failed: if this run created the directory it has to go away first
Fail == IF fs.dir # {}
        THEN pc' = "cleanup" /\ UNCHANGED <<sc, run, w, from, hand, fs, fs0, status, fetched, dk>>
        ELSE End(FALSE, fs)
Goto(p) == pc' = p /\ UNCHANGED <<sc, run, fs0, status, dk>>

Start == /\ pc = "start"
         /\ IF fs.dir # {}
            THEN End(sc.cmd = "download" \/ "build" \in fs.dir, fs)
            ELSE Goto("locate") /\ UNCHANGED <<w, from, hand, fs, fetched>>

\* a VCS wrap: the client is run - unless downloading is switched off
Clone == /\ pc = "clone"
         /\ Goto("cloned") /\ fetched' = fetched \cup {<<"src", "vcs">>} /\ UNCHANGED <<w, from, hand, fs>>
Cloned == /\ pc = "cloned"
          /\ IF sc.vcs = "ok"
             THEN Goto("patch") /\ fs' = [fs EXCEPT !.dir = {"build", "src"}] /\ UNCHANGED <<w, from, hand, fetched>>
             ELSE Fail

Locate == /\ pc = "locate"
          /\ IF w = "src" /\ sc.kind # "file"
             THEN IF NoDownload(sc) THEN Fail
                  ELSE Goto("clone") /\ UNCHANGED <<w, from, hand, fs, fetched>>
             ELSE IF Mode(sc, w) = "url"
             THEN IF Cache(fs, w) # "absent"
                  THEN Goto("verify") /\ from' = "cache" /\ hand' = Cache(fs, w) /\ UNCHANGED <<w, fs, fetched>>
                  ELSE IF NoDownload(sc) THEN Fail
                  ELSE Goto("fetch") /\ from' = "url" /\ UNCHANGED <<w, hand, fs, fetched>>
             ELSE IF Files(sc, w) = "absent" THEN Fail
                  ELSE Goto("verify") /\ from' = "files" /\ hand' = Files(sc, w) /\ UNCHANGED <<w, fs, fetched>>

Fetch == /\ pc = "fetch"
         /\ LET content == IF from = "url" THEN Url(sc, w) ELSE Fb(sc, w)
            IN IF content = "absent"
               THEN IF from = "url" /\ Fb(sc, w) # "none"
                    THEN Goto("fetch") /\ from' = "fb" /\ fetched' = fetched \cup {<<w, from>>} /\ UNCHANGED <<w, hand, fs>>
                    ELSE Fail
               ELSE Goto("verify") /\ hand' = content /\ fetched' = fetched \cup {<<w, from>>} /\ UNCHANGED <<w, from, fs>>

Verify == /\ pc = "verify"
          /\ IF from = "files"
             THEN IF Hashed(sc, w) /\ hand = "corrupt" THEN Fail
                  ELSE Goto("use") /\ UNCHANGED <<w, from, hand, fs, fetched>>
             ELSE IF ~Hashed(sc, w) THEN Fail
             ELSE IF hand = "good"
                  THEN Goto("use") /\ fs' = (IF from = "cache" THEN fs ELSE SetCache(fs, w, "good"))
                       /\ UNCHANGED <<w, from, hand, fetched>>
             ELSE IF from = "url" /\ Fb(sc, w) # "none"
                  THEN Goto("fetch") /\ from' = "fb" /\ UNCHANGED <<w, hand, fs, fetched>>
             ELSE Fail

\* unpack the source archive / lay the overlay archive over the directory
Use == /\ pc = "use"
       /\ LET shape == IF w = "src" THEN sc.arch ELSE sc.parch
              whole == IF w = "src" THEN (IF hand = "good" THEN {"build", "src"} ELSE {"build", "evil"})
                       ELSE (IF hand = "good" THEN {"patch"} ELSE {"evilpatch"})
              broken == IF w = "src" THEN {"build", "part"} ELSE {"part"}
          IN IF hand = "corrupt" \/ shape = "ok"
             THEN Goto(IF w = "src" THEN "patch" ELSE "diff") /\ fs' = [fs EXCEPT !.dir = @ \cup whole]
                  /\ UNCHANGED <<w, from, hand, fetched>>
             ELSE IF shape = "trunc"
             THEN Goto("cleanup") /\ fs' = [fs EXCEPT !.dir = @ \cup broken] /\ UNCHANGED <<w, from, hand, fetched>>
             ELSE Fail

Patch == /\ pc = "patch"
         /\ CASE sc.patch = "none" -> Goto("diff") /\ UNCHANGED <<w, from, hand, fs, fetched>>
              [] sc.patch = "dir" -> IF sc.pdir = "present"
                                     THEN Goto("diff") /\ fs' = [fs EXCEPT !.dir = @ \cup {"patch"}]
                                          /\ UNCHANGED <<w, from, hand, fetched>>
                                     ELSE Fail
              [] OTHER -> Goto("locate") /\ w' = "patch" /\ UNCHANGED <<from, hand, fs, fetched>>

\* one step per diff file of the series (dk: the file that is applied next)
Diff == /\ pc = "diff"
        /\ LET q == Series(sc)
           IN IF dk > Len(q)
              THEN End(TRUE, IF q = <<>> THEN fs ELSE [fs EXCEPT !.dir = (@ \ {"pdiff"}) \cup {"diff"}])
              ELSE IF q[dk] = "good"
              THEN /\ dk' = dk + 1 /\ fs' = [fs EXCEPT !.dir = @ \cup {"pdiff"}]
                   /\ UNCHANGED <<sc, run, pc, w, from, hand, fs0, status, fetched>>
              ELSE Fail

Cleanup == /\ pc = "cleanup"
           /\ End(FALSE, [fs EXCEPT !.dir = {}])

Next == Start \/ Locate \/ Clone \/ Cloned \/ Fetch \/ Verify \/ Use \/ Patch \/ Diff \/ Cleanup \/ NextRun
Spec == Init /\ [][Next]_vars

Boundary == pc = "ended"
LastOk == status[Len(status)]

TypeOK == /\ pc \in {"start", "locate", "clone", "cloned", "fetch", "verify", "use", "patch", "diff", "cleanup", "ended"}
          /\ fs.dir \subseteq {"build", "src", "part", "evil", "patch", "evilpatch", "diff", "pdiff"}
          /\ dk \in 1..(Len(Series(sc)) + 1)
          /\ fs.cache \in Locs /\ fs.pcache \in Locs /\ Len(status) <= 2

\* an archive whose SHA-256 differs from the recorded hash is never unpacked or stored - in no state at all
NeverUnpackBadHash == ~BadHashUsed(sc, fs)
\* nothing is fetched under wrap_mode=nodownload, the package cache stays as it was
NodownloadFetchesNothing == NoDownload(sc) => fetched = {} /\ fs.cache = sc.cache /\ fs.pcache = sc.pcache
\* ... for every kind of wrap: no client is run, and a VCS wrap's directory never appears
NoDownloadNeverFetches ==
    NoDownload(sc) => /\ fetched = {} /\ RunOnce(sc, fs0).calls = <<>>
                      /\ (sc.kind # "file" => fs.dir = {} /\ (Boundary => ~LastOk))
\* outside nodownload a VCS wrap whose sources are missing runs its client
ClientRunsWhenAllowed ==
    sc.kind # "file" /\ ~NoDownload(sc) /\ fs0.dir = {} => RunOnce(sc, fs0).calls = ClientCalls(sc)
\* a run that fails leaves no directory that was not there before
FailedPatchLeavesNoDir == Boundary /\ ~LastOk /\ fs0.dir = {} => fs.dir = {}
\* no run - in particular no second run - reports success on a half-prepared subproject
SecondRunNeverAcceptsHalfPrepared == Boundary /\ LastOk => ~HalfPrepared(sc, fs.dir)
\* a diff file that cannot be applied - at whatever position of the series - fails the run that reaches it and
\* nothing of the series stays behind; the files after it are never the ones that decide
AnyDiffOfSeriesFails ==
    Boundary /\ FirstBadDiff(sc) > 0 /\ fs0.dir = {} => ~LastOk /\ fs.dir = {}
\* the second run has the verdict of the first and, after a success, changes nothing
SecondRunSameVerdict == Boundary /\ Len(status) = 2 => status[1] = status[2] /\ (status[1] => fs = fs0)
\* the machine and the function agree at the end of every run
MachineEqualsFunction ==
    Boundary => LET r == RunOnce(sc, fs0) IN r.ok = LastOk /\ r.fs = fs

EmitScenarios == TLCGet("stats").diameter >= 0 /\ JsonSerialize("wrap_scenarios.json", SetToSeq(Families))
=============================================================================
