-------------------------- MODULE ConfigDeterminism --------------------------
(***************************************************************************)
(* C06 - configuration is deterministic and does not disturb unchanged     *)
(* outputs.                                                                *)
(*                                                                         *)
(* The rule book, written from the property statement (the documentation   *)
(* is silent apart from "the output file is only rewritten if it changed"  *)
(* comments): a build directory is configured from a *configuration key*   *)
(* (sources + option values + tools) under an *environment* (Python hash   *)
(* seed, order of the environment block, directory listing order) and a    *)
(* *history* (how the directory came to be: fresh, reconfigured, wiped).   *)
(*                                                                         *)
(*   Functional : the bytes of every generated text file are a function of *)
(*                the configuration key alone - never of the environment   *)
(*                or of the history of the build directory.                *)
(*   Quiescent  : a reconfigure with nothing changed changes no digest     *)
(*                (build.ninja included) and no mtime of a configure-time  *)
(*                output (the "kept" files).                               *)
(*   HistoryIndependent : what a directory with a past holds after a full  *)
(*                regeneration equals what `meson setup` writes into an    *)
(*                empty directory for the same key (ConfigHistory.tla      *)
(*                models the persistent caches that endanger this).        *)
(*   Untouched  : (the mechanism behind Quiescent, replace_if_different)   *)
(*                any reconfigure leaves the mtime of a kept file alone    *)
(*                when the new content equals the old content.             *)
(*                                                                         *)
(* The module has two halves.                                              *)
(* 1. ConfigDeterminismLaws: judging operators over a *history of          *)
(*    observations* (a sequence of records [act, key, env, cls, dir,       *)
(*    files]).  They are used unchanged by TraceConfigDeterminism to judge *)
(*    recorded runs of the real meson.                                     *)
(* 2. This module: a small state machine of a configurator whose generator *)
(*    `Gen` and writer policy `Touches` are parameters.                    *)
(*    ConfigDeterminism_MC instantiates them with the ideal ones (TLC      *)
(*    proves the three laws for every history within the bound) and with   *)
(*    faulty ones (TLC must refute the matching law: the laws can fail).   *)
(*                                                                         *)
(* This spec is thin by nature: determinism is a hyper-property over       *)
(* environment nondeterminism, the rule book is "same key => same bytes".  *)
(* The power of the check is in the driver that varies the environment.    *)
(***************************************************************************)
EXTENDS ConfigDeterminismLaws

(***************************************************************************)
(* The configurator state machine                                          *)
(***************************************************************************)
CONSTANTS
    CfgKeys,            \* configuration keys (sources + options + tools)
    Envs,               \* environments: (hash seed, environ order, readdir order)
    Files,              \* names of generated text files
    Kept,               \* subset of Files: configure-time outputs written "only if different"
    OptFile,            \* the file `meson configure` refreshes (the option dump)
    MaxSteps,           \* total number of commands in a behaviour
    MaxLife,            \* commands per build-directory incarnation ("history length")
    Present(_),         \* Present(k): files generated for key k
    Gen(_, _, _, _),    \* Gen(k, e, how, f): digest written for file f; how \in {"fresh","reconfigured","wiped"}
    Touches(_, _, _)    \* Touches(f, old, new): does the writer replace an existing file f

VARIABLES exists, key, files, clock, dir, life, hist
vars == <<exists, key, files, clock, dir, life, hist>>

NoFile == [d |-> <<>>, m |-> 0]

ObsFiles(fs, S) == {[name |-> f, d |-> fs[f].d, m |-> fs[f].m, kept |-> f \in Kept] : f \in S}
OnDisk(fs) == {f \in Files : fs[f] # NoFile}

\* writing the outputs of key k over an existing file map `old` at time t
Written(k, e, how, old, t) ==
    [f \in Files |->
        IF f \in Present(k)
        THEN LET d == Gen(k, e, how, f)
             IN IF old[f] # NoFile /\ ~Touches(f, old[f].d, d) THEN old[f] ELSE [d |-> d, m |-> t]
        ELSE old[f]]       \* stale output of an earlier key stays where it is

Init == /\ exists = FALSE /\ key = "-" /\ files = [f \in Files |-> NoFile]
        /\ clock = 0 /\ dir = 1 /\ life = 0 /\ hist = <<>>

Record(act, k, e, cls, fs, S) ==
    hist' = Append(hist, [act |-> act, key |-> k, env |-> e, cls |-> cls, dir |-> dir, files |-> ObsFiles(fs, S)])

Budget == Len(hist) < MaxSteps /\ life < MaxLife

\* meson setup <builddir> in a directory that does not exist
Setup(k, e) ==
    /\ ~exists /\ Budget
    /\ exists' = TRUE /\ key' = k /\ clock' = clock + 1 /\ life' = life + 1 /\ dir' = dir
    /\ files' = Written(k, e, "fresh", [f \in Files |-> NoFile], clock + 1)
    /\ Record("Setup", k, e, "full", files', OnDisk(files'))

\* meson setup --reconfigure [-Dx=y]: regenerate in place, possibly at another key
Reconfigure(k, e) ==
    /\ exists /\ Budget
    /\ key' = k /\ clock' = clock + 1 /\ life' = life + 1 /\ UNCHANGED <<exists, dir>>
    /\ files' = Written(k, e, "reconfigured", files, clock + 1)
    /\ Record("Reconfigure", k, e, "full", files', OnDisk(files'))

\* meson setup --wipe: same key, directory emptied first
Wipe(e) ==
    /\ exists /\ Budget
    /\ clock' = clock + 1 /\ life' = life + 1 /\ UNCHANGED <<exists, key, dir>>
    /\ files' = Written(key, e, "wiped", [f \in Files |-> NoFile], clock + 1)
    /\ Record("Wipe", key, e, "full", files', OnDisk(files'))

\* meson configure -Dx=y: only the option dump is refreshed, nothing is regenerated
Configure(k, e) ==
    /\ exists /\ Budget /\ k # key
    /\ key' = k /\ clock' = clock + 1 /\ life' = life + 1 /\ UNCHANGED <<exists, dir>>
    /\ files' = [files EXCEPT ![OptFile] = [d |-> Gen(k, e, "reconfigured", OptFile), m |-> clock + 1]]
    /\ Record("Configure", k, e, "options", files', {OptFile})

\* rm -rf <builddir>
Remove ==
    /\ exists /\ Len(hist) < MaxSteps
    /\ exists' = FALSE /\ files' = [f \in Files |-> NoFile] /\ dir' = dir + 1 /\ life' = 0
    /\ UNCHANGED <<key, clock, hist>>

Next == \/ \E k \in CfgKeys, e \in Envs : Setup(k, e) \/ Reconfigure(k, e) \/ Configure(k, e)
        \/ \E e \in Envs : Wipe(e)
        \/ Remove
Spec == Init /\ [][Next]_vars

\* -- the laws as invariants of the machine ------------------------------------
\* every prefix of a history is itself a reachable state, so judging the last command in every state judges
\* every command of every history (InvLastIsAll states that on the full history)
Last == Len(hist)
InvFunctional == Last = 0 \/ FunctionalAt(hist, Last)
InvQuiescent == Last = 0 \/ QuiescentAt(hist, Last)
InvUntouched == Last = 0 \/ UntouchedAt(hist, Last)
\* the last command against all its witnesses, and - when the last command is itself a fresh setup - every earlier
\* observation with a past against it
InvHistoryIndependent == Last = 0 \/ (HistoryIndependentAt(hist, Last) /\
                                      \A j \in 1..(Last - 1) : Last \in Witnesses(hist, j) => HistDiffers(hist, j, Last) = {})
InvWholeHistory == Functional(hist) /\ Quiescent(hist) /\ Untouched(hist) /\ HistoryIndependent(hist)
\* history independence is the part of Functional that has a fresh witness
InvFunctionalImpliesHistory == FunctionalPairwise(hist) => HistoryIndependent(hist)
\* the operational judge and the declarative pairwise statement are the same predicate
InvFormsAgree == Functional(hist) <=> FunctionalPairwise(hist)
\* the judge reports a violation exactly when one of the laws fails
InvViolationsExact == (Violations(hist) = {}) <=> (Functional(hist) /\ Quiescent(hist) /\ Untouched(hist)
                                                   /\ HistoryIndependent(hist))

\* -- shapes of directory histories (exported to the driver) ------------------
\* a life is the sequence of (command, key) applied to one incarnation of the directory: it starts with
\* Setup, Wipe keeps the key, Configure changes it, Reconfigure may do either.
Cmd(a, k) == [act |-> a, key |-> k]
Extend(s) == LET k == s[Len(s)].key
             IN {Append(s, Cmd("Reconfigure", k2)) : k2 \in CfgKeys} \cup {Append(s, Cmd("Wipe", k))}
                \cup {Append(s, Cmd("Configure", k2)) : k2 \in CfgKeys \ {k}}
RECURSIVE Lives(_)
Lives(n) == IF n = 1 THEN {<<Cmd("Setup", k)>> : k \in CfgKeys}
            ELSE LET P == Lives(n - 1) IN P \cup UNION {Extend(s) : s \in {t \in P : Len(t) = n - 1}}
LifeOf(h, d) == LET s == SelectSeq(h, LAMBDA o : o.dir = d) IN [i \in 1..Len(s) |-> Cmd(s[i].act, s[i].key)]
AllLives == Lives(MaxLife)      \* constant: evaluated once
InvLivesAreShapes == \A d \in 1..dir : LifeOf(hist, d) = <<>> \/ LifeOf(hist, d) \in AllLives
=============================================================================
