\* the ideal configurator: every law holds for every history within the bound
\* (the harness generates the same text with tier-dependent MaxSteps and, for the faulty configurators
\*  SeedGen / HistGen / SeedConfGen / AlwaysTouches of ConfigDeterminism_MC.tla, expects the matching law to fail)
SPECIFICATION Spec
CONSTANTS
 CfgKeys = {"A", "B"}
 Envs = {"e0", "e1", "e2"}
 Files <- MCFiles
 Kept <- MCKept
 OptFile = "intro-buildoptions.json"
 MaxSteps = 4
 MaxLife = 4
 Present <- MCPresent
 Gen <- GoodGen
 Touches <- GoodTouches
INVARIANT InvFunctional
INVARIANT InvQuiescent
INVARIANT InvUntouched
INVARIANT InvHistoryIndependent
INVARIANT InvFunctionalImpliesHistory
INVARIANT InvWholeHistory
INVARIANT InvFormsAgree
INVARIANT InvViolationsExact
INVARIANT InvLivesAreShapes
CHECK_DEADLOCK FALSE
POSTCONDITION EmitShapes
