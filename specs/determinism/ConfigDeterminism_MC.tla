------------------------ MODULE ConfigDeterminism_MC ------------------------
(* Model for C06: two configuration keys, three environments, four files    *)
(* (build.ninja and an introspection file: always rewritten; conf.h: a      *)
(* configure_file output whose content does not depend on the key; opt.h: a *)
(* configure_file output that exists for key B only), every history of up   *)
(* to MaxSteps commands with up to MaxLife commands per incarnation of the  *)
(* build directory.                                                         *)
(*                                                                          *)
(* ConfigDeterminism_MC.cfg      the ideal configurator: all laws hold      *)
(* ConfigDeterminism_Bad*.cfg    faulty configurators: TLC must refute the  *)
(*                               named law (the laws can fail)              *)
EXTENDS ConfigDeterminism, TLC, Json, IOUtils, SequencesExt

MCFiles == {"build.ninja", "intro-buildoptions.json", "conf.h", "opt.h"}
MCKept == {"conf.h", "opt.h"}
MCPresent(k) == IF k = "B" THEN MCFiles ELSE MCFiles \ {"opt.h"}

\* the ideal generator: bytes depend on the key (conf.h not even on that)
GoodGen(k, e, how, f) == IF f = "conf.h" THEN <<"*", f>> ELSE <<k, f>>
\* the ideal writers: build.ninja / intro files are always replaced, kept files only when different
GoodTouches(f, old, new) == f \notin MCKept \/ old # new

\* faulty configurators
SeedGen(k, e, how, f) == IF f = "intro-buildoptions.json" THEN <<k, f, e>> ELSE GoodGen(k, e, how, f)   \* set order leaks
HistGen(k, e, how, f) == IF f = "build.ninja" /\ how = "reconfigured" THEN <<k, f, how>> ELSE GoodGen(k, e, how, f)
SeedConfGen(k, e, how, f) == IF f = "conf.h" THEN <<"*", f, e>> ELSE GoodGen(k, e, how, f)
AlwaysTouches(f, old, new) == TRUE                                      \* replace_if_different bypassed

\* exported to the driver: the histories of one build-directory incarnation (the driver's projects are first set up
\* at key "A"; the single-command life <<Setup B>> is the fresh witness of everything reconfigured to "B")
EmitShapes == TLCGet("stats").diameter >= 0
              /\ JsonSerialize("shapes.json", SetToSeq({s \in AllLives : s[1].key = "A" \/ Len(s) = 1}))
=============================================================================
