\* A faulty configurator (the option dump leaks the hash seed): TLC must report "Invariant InvFunctional is violated".
\* The harness runs this for SeedGen, HistGen, SeedConfGen (Gen) and AlwaysTouches (Touches) and fails with a
\* machinery error if the matching law is NOT refuted; InvFormsAgree / InvViolationsExact must hold even here.
SPECIFICATION Spec
CONSTANTS
 CfgKeys = {"A", "B"}
 Envs = {"e0", "e1"}
 Files <- MCFiles
 Kept <- MCKept
 OptFile = "intro-buildoptions.json"
 MaxSteps = 3
 MaxLife = 4
 Present <- MCPresent
 Gen <- SeedGen
 Touches <- GoodTouches
INVARIANT InvFormsAgree
INVARIANT InvViolationsExact
INVARIANT InvFunctional
CHECK_DEADLOCK FALSE
