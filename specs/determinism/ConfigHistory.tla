---------------------------- MODULE ConfigHistory ----------------------------
(***************************************************************************)
(* C06, "independent of ... the build directory's history".                *)
(*                                                                         *)
(* ConfigDeterminism treats the generator as a function Gen(key, ...).     *)
(* This module opens that box for the part of a configurator that makes    *)
(* history dangerous: state that survives between invocations (meson       *)
(* pickles it into meson-private/coredata.dat): the cache of dependency()  *)
(* lookups, the cache of compiler checks, values memoised inside those     *)
(* objects.  `meson configure --clearcache` / `setup --clearcache` are     *)
(* documented (Commands.md) as the way to drop them, so they exist by      *)
(* design; the statement of C06 demands that they are never *visible*:     *)
(*                                                                         *)
(*   HistoryIndependent : after every sequence of Setup / Configure -Dx=v / *)
(*       Reconfigure [-Dx=v] / --clearcache / --wipe commands that ends in  *)
(*       option state S (and tools state w), the generated output equals    *)
(*       the output of `meson setup` with S on an empty directory.          *)
(*                                                                         *)
(* The configurator is implementation shaped: a lookup ("slot": one        *)
(* dependency() / compiler check / find_program of the project) has a true *)
(* result Resolve(s, S, w) that depends on the options Needs(s); the       *)
(* persistent cache stores results under a *subkey*; what the subkey is    *)
(* and which results are stored are parameters.  With the ideal policy     *)
(* (subkey = the values of exactly the options the lookup depends on; only *)
(* positive results are stored) TLC proves the law for every history       *)
(* within the bound; with faulty policies (subkey memoised in the pickled  *)
(* object, subkey forgets an option, negative results stored) TLC must     *)
(* refute it.  The tools state only ever grows (a .pc file / a program     *)
(* appears later): a *found* dependency is deliberately not looked up      *)
(* again (that is what --clearcache is for), so changes of the tools that  *)
(* alter a positive result are outside the law (harness assumption).       *)
(*                                                                         *)
(* The module also defines the history shapes (command sequences with the  *)
(* option state after every command) that the driver replays on the real   *)
(* meson; the option state is the configuration key of the observations    *)
(* judged by ConfigDeterminismLaws!HistoryIndependent.                     *)
(***************************************************************************)
EXTENDS Naturals, Sequences, FiniteSets

CONSTANTS
    Opts,               \* options changed by the histories; value 0 = as first set up, 1 = the other value
    Plain,              \* subset of Opts: reach the generated text directly (no cache in between)
    Slots,              \* cached lookups
    Needs(_),           \* Needs(s) \subseteq Opts: options the true result of slot s depends on
    Late,               \* subset of Slots: nothing is found until the tools state is 1 (file appears later)
    MaxLen,             \* commands after the first setup
    Starts,             \* option states the first setup is made with
    Subkey(_, _, _),    \* Subkey(s, S, m): cache subkey used for slot s at option state S; m = <<>> or <<memoised subkey>>
    Stores(_)           \* Stores(r): result r is written to the persistent cache

VARIABLES exists, val, world, cache, memo, out, pending, trace
hvars == <<exists, val, world, cache, memo, out, pending, trace>>

OptStates == [Opts -> {0, 1}]
Restrict(S, D) == [o \in D |-> S[o]]
Flip(S, o) == [S EXCEPT ![o] = 1 - S[o]]

\* the truth: what a lookup finds at option state S, tools state w
Resolve(s, S, w) == IF s \in Late /\ w = 0 THEN [found |-> FALSE, slot |-> s, at |-> Restrict(S, {})]
                    ELSE [found |-> TRUE, slot |-> s, at |-> Restrict(S, Needs(s))]
\* the generated text of `meson setup` on an empty directory
FreshOut(S, w) == [slots |-> [s \in Slots |-> Resolve(s, S, w)], plain |-> Restrict(S, Plain)]

NoCache == [s \in Slots |-> {}]
NoMemo == [s \in Slots |-> <<>>]

\* one (re)generation at option state S, tools w, with persistent cache c and memo m
SubOf(s, S, m) == Subkey(s, S, m[s])
Hit(s, S, c, m) == {e \in c[s] : e.sub = SubOf(s, S, m)}
Res(s, S, w, c, m) == IF Hit(s, S, c, m) # {} THEN (CHOOSE e \in Hit(s, S, c, m) : TRUE).res ELSE Resolve(s, S, w)
CacheAfter(S, w, c, m) ==
    [s \in Slots |-> IF Hit(s, S, c, m) = {} /\ Stores(Res(s, S, w, c, m))
                     THEN c[s] \cup {[sub |-> SubOf(s, S, m), res |-> Res(s, S, w, c, m)]} ELSE c[s]]
MemoAfter(S, m) == [s \in Slots |-> IF m[s] = <<>> THEN <<SubOf(s, S, m)>> ELSE m[s]]
OutAfter(S, w, c, m) == [slots |-> [s \in Slots |-> Res(s, S, w, c, m)], plain |-> Restrict(S, Plain)]

Cmd(c, o) == [c |-> c, o |-> o]
Budget == Len(trace) <= MaxLen

Regen(S, w, c, m, cmd) ==
    /\ val' = S /\ out' = OutAfter(S, w, c, m) /\ cache' = CacheAfter(S, w, c, m) /\ memo' = MemoAfter(S, m)
    /\ pending' = FALSE /\ trace' = Append(trace, cmd) /\ UNCHANGED world

HInit == /\ exists = FALSE /\ val \in Starts /\ world = 0 /\ cache = NoCache /\ memo = NoMemo
         /\ out = FreshOut(val, 0) /\ pending = TRUE /\ trace = <<>>

\* meson setup -D<S> on an empty directory
Setup == /\ ~exists /\ exists' = TRUE /\ Regen(val, world, NoCache, NoMemo, Cmd("Setup", "-"))
\* meson setup --reconfigure -Do=v
ReconfigureSet(o) == exists /\ Budget /\ UNCHANGED exists /\ Regen(Flip(val, o), world, cache, memo, Cmd("Reconfigure", o))
\* meson setup --reconfigure
Regenerate == exists /\ Budget /\ UNCHANGED exists /\ Regen(val, world, cache, memo, Cmd("Reconfigure", "-"))
\* meson setup --reconfigure --clearcache: the stored results are dropped (memoised values inside the objects are not)
ClearCache == exists /\ Budget /\ UNCHANGED exists /\ Regen(val, world, NoCache, memo, Cmd("ClearCache", "-"))
\* meson setup --wipe: same options, everything else rebuilt from nothing
Wipe == exists /\ Budget /\ UNCHANGED exists /\ Regen(val, world, NoCache, NoMemo, Cmd("Wipe", "-"))
\* meson configure -Do=v: the option changes, nothing is generated yet
ConfigureSet(o) ==
    /\ exists /\ Budget /\ val' = Flip(val, o) /\ pending' = TRUE /\ trace' = Append(trace, Cmd("Configure", o))
    /\ UNCHANGED <<exists, world, cache, memo, out>>
\* a file appears in the tools (a .pc file in a search directory, a program)
WorldUp ==
    /\ exists /\ Budget /\ world = 0 /\ world' = 1 /\ pending' = TRUE /\ trace' = Append(trace, Cmd("World", "-"))
    /\ UNCHANGED <<exists, val, cache, memo, out>>

HNext == \/ Setup \/ Regenerate \/ ClearCache \/ Wipe \/ WorldUp
         \/ \E o \in Opts : ReconfigureSet(o) \/ ConfigureSet(o)
HSpec == HInit /\ [][HNext]_hvars

\* -- the law ----------------------------------------------------------------
InvHistoryIndependent == (exists /\ ~pending) => out = FreshOut(val, world)
\* what makes it true for the ideal policy: every stored result is the truth for the subkey it is stored under
InvCacheSound == \A s \in Slots : \A e \in cache[s] : e.res = [found |-> TRUE, slot |-> s, at |-> e.sub]
InvOneEntryPerSubkey == \A s \in Slots : \A e, f \in cache[s] : e.sub = f.sub => e = f

\* -- policies -----------------------------------------------------------------
IdealSubkey(s, S, m) == Restrict(S, Needs(s))
IdealStores(r) == r.found
\* the subkey is computed once and kept inside the (pickled) cache object
MemoSubkey(s, S, m) == IF m = <<>> THEN Restrict(S, Needs(s)) ELSE m[1]
\* the cache is keyed by the lookup alone
NoSubkey(s, S, m) == Restrict(S, {})
\* "not found" is remembered as well
StoresAll(r) == TRUE

\* -- history shapes (exported to the driver) ------------------------------------
Cmds == {Cmd("Reconfigure", o) : o \in Opts \cup {"-"}} \cup {Cmd("Configure", o) : o \in Opts}
        \cup {Cmd("ClearCache", "-"), Cmd("Wipe", "-"), Cmd("World", "-")}
RECURSIVE Seqs(_)
Seqs(n) == IF n = 0 THEN {<<>>}
           ELSE LET P == Seqs(n - 1) IN P \cup {Append(s, c) : s \in {t \in P : Len(t) = n - 1}, c \in Cmds}
Lazy(c) == c.c \in {"Configure", "World"}                 \* commands that generate nothing
PendingAfter(s) == s # <<>> /\ Lazy(s[Len(s)])
WorldOnce(s) == Cardinality({i \in DOMAIN s : s[i].c = "World"}) <= 1
Shapes == {s \in Seqs(MaxLen) : s # <<>> /\ ~PendingAfter(s) /\ WorldOnce(s)}
\* option state / tools state after the first i commands of shape s, starting from S
RECURSIVE ValAfter(_, _, _)
ValAfter(s, i, S) == IF i = 0 THEN S
                     ELSE LET P == ValAfter(s, i - 1, S)
                          IN IF s[i].c \in {"Reconfigure", "Configure"} /\ s[i].o # "-" THEN Flip(P, s[i].o) ELSE P
WorldAfter(s, i) == IF \E j \in 1..i : s[j].c = "World" THEN 1 ELSE 0
Rendered(s, S) == [i \in 1..Len(s) |-> [c |-> s[i].c, o |-> s[i].o, val |-> ValAfter(s, i, S), world |-> WorldAfter(s, i),
                                         full |-> ~Lazy(s[i])]]
\* every behaviour of the machine is a Setup followed by (a prefix of) a shape, and the machine's option / tools
\* state is the one the shape announces
InvTraceIsShape ==
    Len(trace) > 1 =>
        LET s == SubSeq(trace, 2, Len(trace))
        IN /\ (~pending => s \in Shapes)
           /\ \E S \in Starts : ValAfter(s, Len(s), S) = val
           /\ WorldAfter(s, Len(s)) = world
=============================================================================
