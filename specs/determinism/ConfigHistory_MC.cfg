\* the ideal cache policy: history independence holds for every history within the bound
\* (the harness generates the same text with tier-dependent MaxLen / Starts and, for the faulty policies
\*  MemoSubkey / NoSubkey / DropsA1 (Subkey) and StoresAll (Stores), expects InvHistoryIndependent to be refuted)
SPECIFICATION HSpec
CONSTANTS
 Opts <- MCOpts
 Plain <- MCPlain
 Slots <- MCSlots
 Needs <- MCNeeds
 Late <- MCLate
 MaxLen = 3
 Starts <- MCStartsOne
 Subkey <- IdealSubkey
 Stores <- IdealStores
INVARIANT InvHistoryIndependent
INVARIANT InvCacheSound
INVARIANT InvOneEntryPerSubkey
INVARIANT InvTraceIsShape
INVARIANT InvLawsAgree
CHECK_DEADLOCK FALSE
POSTCONDITION EmitHistories
