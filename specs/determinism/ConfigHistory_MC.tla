-------------------------- MODULE ConfigHistory_MC --------------------------
(* Model for the history-independence law of C06.                            *)
(* Options: two search-path options (p1, p2: pkg_config_path, cmake_prefix_  *)
(* path, build.pkg_config_path in the binding), one option that enters the   *)
(* key of compiler checks (a1: c_args, c_link_args, c_std), two options that *)
(* reach the generated text directly (n1, n2: buildtype, default_library,    *)
(* wrap_mode, ...).  Lookups: a pkg-config dependency, a CMake dependency, a *)
(* compiler check, a dependency found through both search paths, and a       *)
(* dependency whose .pc file appears later.                                  *)
(*                                                                           *)
(* ConfigHistory_MC.cfg (and the cfg texts of the harness): ideal policy ->  *)
(* every law holds; MemoSubkey / NoSubkey / DropsA1 / StoresAll -> TLC must  *)
(* refute InvHistoryIndependent.                                             *)
EXTENDS ConfigHistory, ConfigDeterminismLaws, TLC, Json, IOUtils, SequencesExt

MCOpts == {"p1", "p2", "a1", "n1", "n2"}
MCPlain == {"n1", "n2"}
MCSlots == {"pc", "cm", "chk", "both", "late"}
MCNeeds(s) == CASE s = "pc" -> {"p1"} [] s = "cm" -> {"p2"} [] s = "chk" -> {"a1"}
                [] s = "both" -> {"p1", "a1"} [] s = "late" -> {"p1"}
MCLate == {"late"}
S0 == [o \in MCOpts |-> 0]
MCStartsOne == {S0}
MCStartsAll == [MCOpts -> {0, 1}]

\* a faulty policy of the third kind: the key of the cache forgets one of the options
DropsA1(s, S, m) == Restrict(S, Needs(s) \ {"a1"})

\* The observation-level law (ConfigDeterminismLaws!HistoryIndependent, the one that judges recorded runs of the
\* real meson) says the same as the state-level law as soon as the witness is there: the current directory seen as
\* an observation with a past, next to the observation of a fresh setup with the same option state.
ObsOf(act, dirno, o) == [act |-> act, key |-> <<val, world>>, env |-> "e", cls |-> "full", dir |-> dirno,
                         files |-> {[name |-> "generated", d |-> o, m |-> dirno, kept |-> FALSE]}]
InvLawsAgree ==
    (exists /\ ~pending /\ Len(trace) > 1 /\ trace[Len(trace)].c # "Wipe") =>
        LET h == <<ObsOf("Reconfigure", 1, out), ObsOf("Setup", 2, FreshOut(val, world))>>
        IN /\ HistoryIndependent(h) <=> (out = FreshOut(val, world))
           /\ Unwitnessed(h) = {}
           /\ Unwitnessed(<<h[1]>>) = {1}

\* exported to the driver: every shape with the option / tools state after each command, starting at S0
EmitHistories == TLCGet("stats").diameter >= 0
                 /\ JsonSerialize("histories.json", SetToSeq({Rendered(s, S0) : s \in Shapes}))
=============================================================================
