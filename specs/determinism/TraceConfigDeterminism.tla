---------------------- MODULE TraceConfigDeterminism ----------------------
(***************************************************************************)
(* Trace validation for C06.  One case = the recorded history of one       *)
(* project: the sequence of observations (command, configuration key,      *)
(* environment, build-directory incarnation, {file -> digest, mtime_ns,    *)
(* kept}) made after every real `meson setup / setup --reconfigure /       *)
(* setup --wipe / configure` command.  The case is accepted iff the laws   *)
(* of ConfigDeterminismLaws hold of the history; otherwise every violated  *)
(* clause is printed with the file and the pair of runs that differ.       *)
(* Digests are hex strings, stamps ("m") are "st_mtime_ns:st_ino" strings  *)
(* (TLC ints are 32 bit); only equality is ever asked of them.             *)
(***************************************************************************)
EXTENDS ConfigDeterminismLaws, TLC, Json, IOUtils

Cases == JsonDeserialize(IOEnv.TRACE_FILE)

VARIABLES i, done
vars == <<i, done>>

Range(s) == {s[k] : k \in 1..Len(s)}
\* JSON arrays arrive as sequences: the laws want the files of an observation as a set of records
ToObs(o) == [act |-> o.act, key |-> o.key, env |-> o.env, cls |-> o.cls, dir |-> o.dir, files |-> Range(o.files)]
History(c) == [k \in 1..Len(c.obs) |-> ToObs(c.obs[k])]

Judge(c) ==
    LET h == History(c)
    IN {[id |-> c.id, clause |-> v.clause, file |-> v.file, run |-> v.run, other |-> v.other,
         key |-> h[v.run].key, act |-> h[v.run].act, env |-> h[v.run].env, otheract |-> h[v.other].act,
         otherenv |-> h[v.other].env] : v \in Violations(h)}

\* not a verdict about meson but about the experiment: observations with a past that have no fresh witness
Incomplete(c) ==
    LET h == History(c)
    IN {[id |-> c.id, clause |-> "Unwitnessed", file |-> "-", run |-> j, other |-> j, key |-> h[j].key, act |-> h[j].act,
         env |-> h[j].env, otheract |-> h[j].act, otherenv |-> h[j].env] : j \in Unwitnessed(h)}

Init == i \in 1..Len(Cases) /\ done = FALSE
Next == /\ ~done
        /\ done' = TRUE
        /\ i' = i
        /\ \A v \in Judge(Cases[i]) : PrintT(ToJson(v))
        /\ \A v \in Incomplete(Cases[i]) : PrintT(ToJson(v))
Spec == Init /\ [][Next]_vars
=============================================================================
