------------------------------ MODULE DirLock ------------------------------
(***************************************************************************)
(* X10, part 1: concurrent `meson setup` commands on ONE build directory.  *)
(*                                                                          *)
(* A multi-process state machine.  Every process executes the *program* of *)
(* its command - a sequence of critical steps - one step per transition,   *)
(* interleaved arbitrarily with the steps of the other processes and with  *)
(* Kill (SIGKILL: the process vanishes between two steps, the kernel       *)
(* closes its files, which releases the advisory lock; the lock FILE and   *)
(* every state file written so far stay).                                   *)
(*                                                                          *)
(* steps   open      open (create) <builddir>/meson-private/meson.lock      *)
(*         try       non-blocking exclusive lock, decided by                *)
(*                   DirLockBase!EnterOutcome (action FAIL, not optional)   *)
(*         wipe      `--wipe`: remove one more state file (loops)           *)
(*         gin/gout  the interpreter runs project code (gate 1) / the       *)
(*                   post-configuration scripts run (gate 2): user code     *)
(*                   that executes inside the critical section              *)
(*         mut f     write state file f: coredata (meson-private/           *)
(*                   coredata.dat), ninja (build.ninja), cmdline            *)
(*                   (meson-private/cmd_line.txt), info (meson-info files) *)
(*         unlock, close, exit                                              *)
(*                                                                          *)
(* The *design* decides where in the program of each command kind the lock *)
(* is taken and released.  "documented" is the rule book [MSG][X10]: every *)
(* step that reads-to-rewrite or changes the state of the directory lies   *)
(* between a successful try and unlock.  The other designs are plausible   *)
(* wrong ones; DirLock_MC requires TLC to refute a law for each of them.   *)
(* "as_built" is what the pinned tree does (found by this check): `--wipe` *)
(* empties the directory - lock file included - before it takes the lock,  *)
(* and `meson setup <configured dir> -Dopt=v` [1.3] rewrites the state     *)
(* files without taking the lock at all.                                    *)
(*                                                                          *)
(* Laws (invariants):                                                       *)
(*  L1  MutualExclusion      at most one process is configuring             *)
(*      ConfigUnderLock      every configuring step runs holding the lock   *)
(*  L2  LoserClean           a process that found the lock busy changed     *)
(*                           nothing (and leaves with the busy verdict)     *)
(*  L3  BusyOnlyWhenContended a busy verdict is only given while another    *)
(*                           LIVE process uses the directory                *)
(*      NoStaleLock          when no process is alive the lock can be taken *)
(***************************************************************************)
EXTENDS DirLockBase, TLC

CONSTANTS Procs,          \* process identifiers
          ProcOrder,      \* the same as a sequence (only used to break ties when schedules are exported)
          Kinds,          \* subset of {"setup", "reconf", "wipe", "setopt"}
          DesignName,
          MaxKills,
          InitConfigured, \* subset of BOOLEAN: is the directory configured at the beginning
          Scheduled       \* TRUE: run-to-block scheduling with recorded control actions (schedule export)

VARIABLES k,          \* kernel objects of the lock (DirLockBase)
          pc,         \* idle | started | run | done | dead
          kind, prog,
          did,        \* the process has executed a configuring step
          muts,       \* state files the process created, changed or removed
          outside,    \* the process executed a configuring step without holding the lock
          ex,         \* none | ok | busy | already | killed
          contended,  \* history: the busy verdict of the process was given while a live process used the directory
          present,    \* state files that exist
          kills,
          ctl         \* history of control actions (Scheduled only)
vars == <<k, pc, kind, prog, did, muts, outside, ex, contended, present, kills, ctl>>

StateFiles == {"coredata", "ninja", "cmdline", "info"}
AllKinds == {"setup", "reconf", "wipe", "setopt"}
DesignNames == {"documented", "as_built", "wipe_before_lock", "setopt_without_lock", "lock_after_first_mutation",
                "unlock_before_last_mutation", "action_ignore", "lock_path_per_process", "existence_check"}

D == [wipePre      |-> DesignName \in {"as_built", "wipe_before_lock"},
      setoptNoLock |-> DesignName \in {"as_built", "setopt_without_lock"},
      lockLate     |-> DesignName = "lock_after_first_mutation",
      unlockEarly  |-> DesignName = "unlock_before_last_mutation",
      action       |-> IF DesignName = "action_ignore" THEN "IGNORE" ELSE "FAIL",
      perProc      |-> DesignName = "lock_path_per_process",
      excl         |-> DesignName = "existence_check"]

St(op, f) == [op |-> op, f |-> f]
IsConfig(s) == s.op \in {"wipe", "gin", "gout", "mut"}
Acquire == <<St("open", ""), St("try", "")>>
Release == <<St("unlock", ""), St("close", "")>>
Gate(g) == <<St("gin", g), St("gout", g)>>
Mut(f) == <<St("mut", f)>>

(***************************************************************************)
(* The program of a command.  conf: meson-private/coredata.dat existed     *)
(* when the command looked (validate_dirs).                                 *)
(*  setup / reconf / wipe: interpreter, then coredata, build.ninja,         *)
(*  cmd_line.txt, introspection files, then the post-conf scripts;          *)
(*  setopt on a configured directory: coredata, cmd_line.txt, intro files.  *)
(***************************************************************************)
Program(kd, conf) ==
    IF kd = "setopt" /\ conf THEN
        IF D.setoptNoLock
        THEN Mut("coredata") \o Mut("cmdline") \o Mut("info") \o <<St("exit", "")>>
        ELSE Acquire \o Mut("coredata") \o Mut("cmdline") \o Mut("info") \o Release \o <<St("exit", "")>>
    ELSE
        LET W == IF kd = "wipe" THEN <<St("wipe", "")>> ELSE <<>> IN
        IF D.lockLate
        THEN W \o Gate("G1") \o Mut("coredata") \o Acquire \o Mut("ninja") \o Mut("cmdline") \o Mut("info")
               \o Gate("G2") \o Release \o <<St("exit", "")>>
        ELSE IF D.unlockEarly
        THEN Acquire \o W \o Gate("G1") \o Mut("coredata") \o Mut("ninja") \o Mut("cmdline") \o Release
               \o Mut("info") \o Gate("G2") \o <<St("exit", "")>>
        ELSE IF D.wipePre
        THEN W \o Acquire \o Gate("G1") \o Mut("coredata") \o Mut("ninja") \o Mut("cmdline") \o Mut("info")
               \o Gate("G2") \o Release \o <<St("exit", "")>>
        ELSE Acquire \o W \o Gate("G1") \o Mut("coredata") \o Mut("ninja") \o Mut("cmdline") \o Mut("info")
               \o Gate("G2") \o Release \o <<St("exit", "")>>

Alive(p) == pc[p] \in {"started", "run"}
Configuring(p) == pc[p] = "run" /\ did[p] /\ \E i \in 1..Len(prog[p]) : IsConfig(prog[p][i])
Busy(p) == IF D.perProc THEN FALSE ELSE KBusy(k, p)
Contention(p) == \E q \in Procs \ {p} : Alive(q) /\ (k.held[q] \/ Configuring(q))
Conf == "coredata" \in present

Init ==
    /\ k = KInit(Procs)
    /\ pc = [p \in Procs |-> "idle"]
    /\ kind = [p \in Procs |-> "setup"]
    /\ prog = [p \in Procs |-> <<>>]
    /\ did = [p \in Procs |-> FALSE]
    /\ muts = [p \in Procs |-> {}]
    /\ outside = [p \in Procs |-> FALSE]
    /\ ex = [p \in Procs |-> "none"]
    /\ contended = [p \in Procs |-> FALSE]
    /\ \E c \in InitConfigured :
          /\ present = IF c THEN StateFiles ELSE {}
          /\ ctl = IF Scheduled THEN <<[a |-> "init", p |-> "", x |-> IF c THEN "configured" ELSE "fresh"]>> ELSE <<>>
    /\ kills = 0

Note(x) == ctl' = IF Scheduled THEN Append(ctl, x) ELSE ctl

\* the harness (a user) starts a command; `--wipe` and `-Dopt=v` are only meant for a configured directory
Start(p, kd) ==
    /\ pc[p] = "idle"
    /\ kd \in {"wipe", "setopt"} => Conf
    /\ pc' = [pc EXCEPT ![p] = "started"]
    /\ kind' = [kind EXCEPT ![p] = kd]
    /\ Note([a |-> "start", p |-> p, x |-> kd])
    /\ UNCHANGED <<k, prog, did, muts, outside, ex, contended, present, kills>>

\* validate_dirs: a plain `meson setup` of a configured directory is a no-op ("Directory already configured") [1.3]
Validate(p) ==
    /\ pc[p] = "started"
    /\ IF kind[p] = "setup" /\ Conf
       THEN /\ pc' = [pc EXCEPT ![p] = "done"]
            /\ ex' = [ex EXCEPT ![p] = "already"]
            /\ prog' = prog
       ELSE /\ pc' = [pc EXCEPT ![p] = "run"]
            /\ prog' = [prog EXCEPT ![p] = Program(kind[p], Conf)]
            /\ ex' = ex
    /\ UNCHANGED <<k, kind, did, muts, outside, contended, present, kills, ctl>>

Advance(p) == prog' = [prog EXCEPT ![p] = Tail(prog[p])]
ConfigStep(p) ==
    /\ did' = [did EXCEPT ![p] = TRUE]
    /\ outside' = [outside EXCEPT ![p] = outside[p] \/ ~k.held[p]]

Fail(p) ==
    /\ prog' = [prog EXCEPT ![p] = <<St("exitbusy", "")>>]
    /\ contended' = [contended EXCEPT ![p] = Contention(p)]

Wipeable == (present \ {"cmdline"}) \cup (IF D.wipePre /\ k.ino # 0 THEN {"lock"} ELSE {})

Step(p) ==
    /\ pc[p] = "run"
    /\ prog[p] # <<>>
    /\ LET s == Head(prog[p]) IN
       CASE s.op = "open" ->
              /\ IF D.excl
                 THEN IF k.ino # 0
                      THEN Fail(p) /\ k' = k
                      ELSE Advance(p) /\ k' = KLock(KOpen(k, p), p) /\ contended' = contended
                 ELSE Advance(p) /\ k' = KOpen(k, p) /\ contended' = contended
              /\ UNCHANGED <<pc, did, muts, outside, ex, present>>
         [] s.op = "try" ->
              /\ IF D.excl THEN Advance(p) /\ k' = k /\ contended' = contended
                 ELSE LET x == EnterOutcome(D.action, FALSE, "ok", Busy(p)) IN
                      CASE x = "locked" -> Advance(p) /\ k' = KLock(k, p) /\ contended' = contended
                        [] x = "raise_busy" -> Fail(p) /\ k' = KClose(k, p)
                        [] x = "proceed_unlocked" -> Advance(p) /\ k' = KClose(k, p) /\ contended' = contended
              /\ UNCHANGED <<pc, did, muts, outside, ex, present>>
         [] s.op = "wipe" ->
              /\ IF Wipeable = {}
                 THEN Advance(p) /\ UNCHANGED <<k, present, muts, did, outside>>
                 ELSE \E f \in Wipeable :
                        /\ prog' = prog
                        /\ ConfigStep(p)
                        /\ IF f = "lock" THEN k' = KRemove(k) /\ present' = present /\ muts' = muts
                           ELSE k' = k /\ present' = present \ {f} /\ muts' = [muts EXCEPT ![p] = @ \cup {f}]
              /\ UNCHANGED <<pc, ex, contended>>
         [] s.op \in {"gin", "gout"} ->
              /\ Advance(p) /\ ConfigStep(p)
              /\ UNCHANGED <<k, pc, muts, ex, contended, present>>
         [] s.op = "mut" ->
              /\ Advance(p) /\ ConfigStep(p)
              /\ present' = present \cup {s.f}
              /\ muts' = [muts EXCEPT ![p] = @ \cup {s.f}]
              /\ UNCHANGED <<k, pc, ex, contended>>
         [] s.op = "unlock" ->
              /\ Advance(p)
              /\ k' = IF D.excl THEN KRemove(KUnlock(k, p)) ELSE KUnlock(k, p)
              /\ UNCHANGED <<pc, did, muts, outside, ex, contended, present>>
         [] s.op = "close" ->
              /\ Advance(p) /\ k' = KClose(k, p)
              /\ UNCHANGED <<pc, did, muts, outside, ex, contended, present>>
         [] s.op \in {"exit", "exitbusy"} ->
              /\ Advance(p)
              /\ pc' = [pc EXCEPT ![p] = "done"]
              /\ ex' = [ex EXCEPT ![p] = IF s.op = "exit" THEN "ok" ELSE "busy"]
              /\ k' = KClose(k, p)
              /\ UNCHANGED <<did, muts, outside, contended, present>>
    /\ UNCHANGED <<kind, kills>>

Kill(p) ==
    /\ Alive(p)
    /\ kills < MaxKills
    /\ kills' = kills + 1
    /\ pc' = [pc EXCEPT ![p] = "dead"]
    /\ ex' = [ex EXCEPT ![p] = "killed"]
    /\ prog' = [prog EXCEPT ![p] = <<>>]
    /\ k' = KClose(k, p)
    /\ UNCHANGED <<kind, did, muts, outside, contended, present>>

(***************************************************************************)
(* every interleaving                                                       *)
(***************************************************************************)
FreeNext ==
    \/ \E p \in Procs, kd \in Kinds : Start(p, kd)
    \/ \E p \in Procs : (Validate(p) \/ Step(p)) /\ ctl' = ctl
    \/ \E p \in Procs : Kill(p) /\ ctl' = ctl

(***************************************************************************)
(* run-to-block scheduling: what a harness that controls real processes    *)
(* from outside can force.  Control actions: start a command, let a        *)
(* process leave the gate it waits in, kill a process that waits in a      *)
(* gate.  After a control action the processes run until each one waits    *)
(* in a gate or has ended.                                                  *)
(***************************************************************************)
AtGate(p) == pc[p] = "run" /\ prog[p] # <<>> /\ Head(prog[p]).op = "gout"
Runnable(p) == pc[p] = "started" \/ (pc[p] = "run" /\ ~AtGate(p))
Ord(p) == CHOOSE i \in 1..Len(ProcOrder) : ProcOrder[i] = p
SchedNext ==
    IF \E p \in Procs : Runnable(p)
    THEN LET p == CHOOSE q \in Procs : Runnable(q) /\ \A r \in Procs : Runnable(r) => Ord(q) <= Ord(r)
         IN (Validate(p) \/ Step(p)) /\ ctl' = ctl
    ELSE \/ \E p \in Procs, kd \in Kinds :
              /\ \A q \in Procs : Ord(q) < Ord(p) => pc[q] # "idle"      \* processes are used in order
              /\ Start(p, kd)
         \/ \E p \in Procs : AtGate(p) /\ Step(p) /\ Note([a |-> "release", p |-> p, x |-> Head(prog[p]).f])
         \/ \E p \in Procs : AtGate(p) /\ Kill(p) /\ Note([a |-> "kill", p |-> p, x |-> Head(prog[p]).f])

Next == IF Scheduled THEN SchedNext ELSE FreeNext
Spec == Init /\ [][Next]_vars

(***************************************************************************)
(* Laws                                                                     *)
(***************************************************************************)
TypeOK ==
    /\ pc \in [Procs -> {"idle", "started", "run", "done", "dead"}]
    /\ kind \in [Procs -> AllKinds]
    /\ ex \in [Procs -> {"none", "ok", "busy", "already", "killed"}]
    /\ present \subseteq StateFiles
    /\ \A p \in Procs : muts[p] \subseteq StateFiles
    /\ DesignName \in DesignNames

MutualExclusion == \A p, q \in Procs : p # q => ~(Configuring(p) /\ Configuring(q))
ConfigUnderLock == \A p \in Procs : ~outside[p]
LoserClean == \A p \in Procs : ex[p] = "busy" \/ (prog[p] # <<>> /\ Head(prog[p]).op = "exitbusy") => muts[p] = {} /\ ~did[p]
BusyOnlyWhenContended == \A p \in Procs : ex[p] = "busy" => contended[p]
Acquirable == IF D.excl THEN k.ino = 0 ELSE \A p \in Procs : ~k.held[p]
NoStaleLock == (\A p \in Procs : ~Alive(p)) => Acquirable
\* a command that nobody disturbed - it was the only live process from its start to its end - succeeds (used on traces too)
HolderHoldsKernelLock == \A p \in Procs : k.held[p] => k.fd[p] # 0

\* the state of a finished directory: whoever finished last left a complete configuration
CompleteWhenQuiet ==
    (\A p \in Procs : pc[p] \in {"idle", "done"}) /\ (\E p \in Procs : ex[p] = "ok") /\ DesignName = "documented"
        => present = StateFiles
=============================================================================
