---------------------------- MODULE DirLockBase ----------------------------
(***************************************************************************)
(* X10 - the directory lock of meson: what every user of a lock may rely   *)
(* on, independent of which directory is locked.                            *)
(*                                                                          *)
(* Sources of the rule book (the documentation hardly mentions the locks;  *)
(* what it says, what the messages promise and what the pinned test pins   *)
(* is collected here, the rest is the statement of the extension area):    *)
(*  [MSG]  the message of `meson setup`: "Some other Meson process is      *)
(*         already using this build directory. Exiting." - a build          *)
(*         directory is used by one meson process at a time, the second    *)
(*         one leaves;                                                      *)
(*  [UT]   unittests/allplatformstests.py test_flock: a second lock of     *)
(*         the same file with action FAIL, taken while the first is held   *)
(*         (even by the same process, through another open file), raises   *)
(*         MesonException; the first lock is not disturbed;                *)
(*  [MBD]  docs/markdown/Using-multiple-build-directories.md: "you can     *)
(*         have arbitrarily many build trees for any source tree at the    *)
(*         same time" - concurrent `meson setup` runs of different build   *)
(*         directories over one source tree are a supported use;           *)
(*  [WRAP] docs/markdown/Wrap-dependency-system-manual.md: "Meson will     *)
(*         automatically download and extract it during build", patches    *)
(*         and diff_files are applied after the extraction - a subproject  *)
(*         is usable when download, extraction and patching are complete;  *)
(*  [SUB]  docs/markdown/Subprojects.md: a subproject lives in             *)
(*         subprojects/<name> of the top-level source tree, shared by      *)
(*         every build directory of that tree;                              *)
(*  [1.3]  docs/markdown/Release-notes-for-1.3.0.md "Update options with   *)
(*         meson setup <builddir> -Dopt=value": on a configured directory  *)
(*         the command changes the stored options like `meson configure`;  *)
(*  [X10]  the area statement L1..L5.                                       *)
(*                                                                          *)
(* This module: the three lock actions (IGNORE / WAIT / FAIL) x optional x *)
(* what happened when the lock file was opened x whether somebody holds    *)
(* the lock - the decision table of entering a lock (L5) in two            *)
(* formulations - and the semantics of the operating system objects the    *)
(* lock is made of (a lock FILE that is created on demand and stays, an    *)
(* advisory lock that belongs to an open file and vanishes with its        *)
(* process).                                                                *)
(***************************************************************************)
EXTENDS Naturals, Sequences, FiniteSets

LockActions == {"IGNORE", "WAIT", "FAIL"}
\* result of opening (creating) the lock file: "enoent" - the directory that is to be locked does not exist,
\* "eisdir" - the name is taken by a directory, "eother" - any other failure (read-only tree, no permission, ...)
OpenResults == {"ok", "enoent", "eisdir", "eother"}
EnterOutcomes == {"locked", "wait_then_locked", "proceed_unlocked", "raise_busy", "raise_notfound", "raise_isdir", "raise_oserror"}

(***************************************************************************)
(* Operational formulation (the order in which an implementation decides). *)
(*  - nothing to lock (the directory is missing) and a directory in the    *)
(*    place of the lock file are reported to the caller whatever the       *)
(*    action is: the caller knows what a missing directory means;          *)
(*  - any other failure to open the file is ignored when the caller said   *)
(*    the lock is optional or the action is IGNORE [X10 L5];               *)
(*  - busy: WAIT blocks until the holder lets go, IGNORE goes on without   *)
(*    the lock, FAIL raises the caller's message [UT][MSG].                *)
(***************************************************************************)
EnterOutcome(a, opt, o, busy) ==
    IF o = "enoent" THEN "raise_notfound"
    ELSE IF o = "eisdir" THEN "raise_isdir"
    ELSE IF o = "eother" THEN (IF a = "IGNORE" \/ opt THEN "proceed_unlocked" ELSE "raise_oserror")
    ELSE IF ~busy THEN "locked"
    ELSE IF a = "WAIT" THEN "wait_then_locked"
    ELSE IF a = "IGNORE" THEN "proceed_unlocked"
    ELSE "raise_busy"

(***************************************************************************)
(* Declarative formulation: three independent questions.                    *)
(***************************************************************************)
Raises(a, opt, o, busy) ==
    \/ o \in {"enoent", "eisdir"}
    \/ o = "eother" /\ a # "IGNORE" /\ ~opt
    \/ o = "ok" /\ busy /\ a = "FAIL"
HoldsAfterwards(a, opt, o, busy) == o = "ok" /\ (~busy \/ a = "WAIT")
Blocks(a, opt, o, busy) == o = "ok" /\ busy /\ a = "WAIT"

OutcomeRaises(x) == x \in {"raise_busy", "raise_notfound", "raise_isdir", "raise_oserror"}
OutcomeHolds(x) == x \in {"locked", "wait_then_locked"}

\* the two formulations agree on every cell (checked by TLC as an ASSUME of DirLock_MC)
EnterTableAgrees ==
    \A a \in LockActions, opt \in BOOLEAN, o \in OpenResults, busy \in BOOLEAN :
        LET x == EnterOutcome(a, opt, o, busy) IN
        /\ x \in EnterOutcomes
        /\ OutcomeRaises(x) <=> Raises(a, opt, o, busy)
        /\ OutcomeHolds(x) <=> HoldsAfterwards(a, opt, o, busy)
        /\ (x = "wait_then_locked") <=> Blocks(a, opt, o, busy)
        /\ (x = "proceed_unlocked") <=> (~Raises(a, opt, o, busy) /\ ~HoldsAfterwards(a, opt, o, busy))

\* laws of the table [X10 L5]
EnterLaws ==
    /\ \A opt \in BOOLEAN, o \in {"ok", "eother"}, busy \in BOOLEAN :      \* IGNORE never fails and never waits
           EnterOutcome("IGNORE", opt, o, busy) \in {"locked", "proceed_unlocked"}
    /\ \A a \in LockActions, o \in {"ok", "eother"}, busy \in BOOLEAN :    \* optional only matters when the file cannot be opened
           (o = "ok" => EnterOutcome(a, TRUE, o, busy) = EnterOutcome(a, FALSE, o, busy))
           /\ (o = "eother" => EnterOutcome(a, TRUE, o, busy) = "proceed_unlocked")
    /\ \A a \in LockActions, opt \in BOOLEAN :                               \* nobody gets past a busy lock holding it, except by waiting
           OutcomeHolds(EnterOutcome(a, opt, "ok", TRUE)) => a = "WAIT"
    /\ \A a \in LockActions, opt \in BOOLEAN : EnterOutcome(a, opt, "ok", FALSE) = "locked"

(***************************************************************************)
(* The operating system objects.  A kernel state is a record                *)
(*   ino   inode at the lock path (0: the file does not exist)              *)
(*   next  next unused inode number                                         *)
(*   fd    process -> inode its open lock file refers to (0: none)          *)
(*   held  process -> TRUE when it holds the advisory lock of fd[p]         *)
(* The lock belongs to the open file, not to the path: removing the file    *)
(* and creating it again gives a new inode whose lock is free while the     *)
(* old holder still "holds" the lock of a file nobody can reach any more.   *)
(* The end of a process (exit or kill) closes its files, which releases     *)
(* the lock; the FILE stays.                                                *)
(***************************************************************************)
KInit(procs) == [ino |-> 0, next |-> 1, fd |-> [p \in procs |-> 0], held |-> [p \in procs |-> FALSE]]

KOpen(k, p) ==                 \* open(path, O_RDWR | O_CREAT | O_TRUNC)
    IF k.ino = 0 THEN [k EXCEPT !.ino = k.next, !.next = k.next + 1, !.fd[p] = k.next]
    ELSE [k EXCEPT !.fd[p] = k.ino]

KBusy(k, p) == \E q \in DOMAIN k.fd : q # p /\ k.held[q] /\ k.fd[q] = k.fd[p]
\* somebody holds a lock of this directory at all (whatever inode): what the rule book means by "the lock is taken"
KAnyHolder(k, p) == \E q \in DOMAIN k.fd : q # p /\ k.held[q]

KLock(k, p) == [k EXCEPT !.held[p] = TRUE]
KUnlock(k, p) == [k EXCEPT !.held[p] = FALSE]
KClose(k, p) == [k EXCEPT !.held[p] = FALSE, !.fd[p] = 0]      \* also what the end of the process does
KRemove(k) == [k EXCEPT !.ino = 0]                               \* unlink(path): open files keep their inode
=============================================================================
