SPECIFICATION Spec
CONSTANTS
 NP = 3
 Procs <- MCProcs
 ProcOrder <- MCProcOrder
 Kinds = {"setup", "reconf", "wipe", "setopt"}
 DesignName = "documented"
 MaxKills = 1
 InitConfigured = {TRUE, FALSE}
 Scheduled = FALSE
INVARIANT TypeOK
INVARIANT MutualExclusion
INVARIANT ConfigUnderLock
INVARIANT LoserClean
INVARIANT BusyOnlyWhenContended
INVARIANT NoStaleLock
INVARIANT HolderHoldsKernelLock
INVARIANT CompleteWhenQuiet
CHECK_DEADLOCK FALSE
POSTCONDITION Stats
