----------------------------- MODULE DirLock_MC -----------------------------
(***************************************************************************)
(* Bounded exhaustive model of DirLock: N processes, every command kind,   *)
(* a fresh or a configured directory, every interleaving, up to MaxKills   *)
(* kills at any point.                                                      *)
(*                                                                          *)
(*  cfg DirLock_MC.cfg          design "documented": all laws hold.         *)
(*  generated cfgs (harness)    one run per faulty design; the harness      *)
(*                              requires TLC to refute one of the laws      *)
(*                              named in x10_dirlock.DIR_FAULTY (vacuity    *)
(*                              guard), among them "as_built", the design   *)
(*                              of the pinned tree.                          *)
(*  cfg DirLock_Sched.cfg       run-to-block scheduling; every maximal      *)
(*                              sequence of control actions is printed as   *)
(*                              JSON (binding A: the schedules the harness  *)
(*                              forces on real meson processes).            *)
(***************************************************************************)
EXTENDS DirLock, Json

ASSUME EnterTableAgrees
ASSUME EnterLaws

CONSTANT NP
AllProcs == <<"P1", "P2", "P3", "P4">>
MCProcOrder == SubSeq(AllProcs, 1, NP)
MCProcs == {AllProcs[i] : i \in 1..NP}
NProcs == NP

Terminal == \A p \in Procs : pc[p] \in {"done", "dead"}
Outcome == [p \in Procs |-> ex[p]]
\* always TRUE; prints the control history and the verdict the model predicts for each process
EmitSchedule ==
    Scheduled /\ Terminal =>
        PrintT(ToJson([ctl |-> ctl, ex |-> [i \in 1..NProcs |-> ex[ProcOrder[i]]],
                       kinds |-> [i \in 1..NProcs |-> kind[ProcOrder[i]]]]))

Stats == TLCGet("stats").diameter >= 0
=============================================================================
