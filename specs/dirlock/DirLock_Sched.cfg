SPECIFICATION Spec
CONSTANTS
 NP = 2
 Procs <- MCProcs
 ProcOrder <- MCProcOrder
 Kinds = {"setup", "reconf", "wipe", "setopt"}
 DesignName = "documented"
 MaxKills = 1
 InitConfigured = {TRUE, FALSE}
 Scheduled = TRUE
INVARIANT EmitSchedule
CHECK_DEADLOCK FALSE
POSTCONDITION Stats
