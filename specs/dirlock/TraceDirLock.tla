---------------------------- MODULE TraceDirLock ----------------------------
(***************************************************************************)
(* X10, binding of DirLock to real `meson` processes.                       *)
(*                                                                          *)
(* TRACE_FILE: a JSON array of traces recorded by harness/x10_dirlock.py.   *)
(* A trace is what a controller saw that drives 2..4 real meson commands    *)
(* on one build directory through gates (project code that blocks inside    *)
(* the critical section until the controller lets it go):                   *)
(*   [id, init ("configured" | "fresh"), segs]                              *)
(* one segment per control action, observed when every live process waits   *)
(* in a gate or has ended (run-to-block, exactly DirLock!SchedNext):        *)
(*   a, p, x    the control action: start p <kind> | release p <gate> |     *)
(*              kill p <gate>                                               *)
(*   status     process -> idle | G1 | G2 | ok | busy | already | error |   *)
(*              killed | blocked (it WAITS for a lock: /proc/locks)         *)
(*   present    the state files that exist now                              *)
(*   delta      the state files created, changed or removed since the       *)
(*              previous observation (inode / mtime_ns / size snapshots);   *)
(*              only p ran in between, the others wait in their gates       *)
(*   muts       process -> all state files it changed so far                *)
(*   lockino    the inode at <builddir>/meson-private/meson.lock, numbered  *)
(*              1, 2, .. in the order of appearance (0: no such file)       *)
(*   lockchanged the lock file was removed or replaced since the previous   *)
(*              observation                                                 *)
(*   holds      process -> the (numbered) inode whose advisory lock it      *)
(*              holds according to /proc/locks (0: none)                    *)
(*                                                                          *)
(* Two specifications, both over the variables and with the actions and     *)
(* laws of DirLock:                                                         *)
(*                                                                          *)
(* SpecLaws    design-free.  The DirLock variables are driven by the        *)
(*             observations (Observe); after every segment the LAWS of      *)
(*             DirLock - the same operators TLC checks on the model - are   *)
(*             evaluated on the observed state and the first violated law   *)
(*             is printed.  Benefit of the doubt: a process that changed    *)
(*             the directory and has ended is only said to have worked      *)
(*             outside the lock when it CANNOT have held it (another        *)
(*             process held the lock of the same file before and after).    *)
(* SpecAccept  is the trace a behaviour of DirLock, design "documented"?    *)
(*             The control actions of the trace are applied to the model    *)
(*             (Start, Step, Kill, Validate of DirLock, run-to-block by     *)
(*             SchedNext) and in every quiescent state the projection of    *)
(*             the model state must equal the observation; the first        *)
(*             difference is printed with the field that differs.           *)
(* Every trace gets exactly one line per specification (clause "ok" or the  *)
(* violated law / differing field).                                         *)
(***************************************************************************)
EXTENDS DirLock, Json, IOUtils

Traces == JsonDeserialize(IOEnv.TRACE_FILE)

VARIABLES tr, stop
tvars == <<vars, tr, stop>>

TProcOrder == <<"P1", "P2", "P3", "P4">>
TProcs == {"P1", "P2", "P3", "P4"}

T == Traces[tr]
NSeg == Len(T.segs)
Pos == Len(ctl) - 1                        \* control actions consumed so far (ctl[1] is the init record)
SeqRange(s) == {s[i] : i \in 1..Len(s)}
Gates == {"G1", "G2"}

TInit == /\ tr \in 1..Len(Traces)
         /\ stop = FALSE
         /\ Init
         /\ ctl[1].x = Traces[tr].init

Say(mode, clause, j, note) ==
    PrintT(ToJson([id |-> T.id, mode |-> mode, clause |-> clause, seg |-> j, note |-> note]))
CtlText(e) == e.a \o " " \o e.p \o " " \o e.x

-----------------------------------------------------------------------------
(* SpecLaws *)

ObsPc(s) == IF s = "idle" THEN "idle" ELSE IF s \in Gates \cup {"blocked"} THEN "run" ELSE IF s = "killed" THEN "dead" ELSE "done"
ObsEx(s) == IF s \in {"idle", "blocked"} \cup Gates THEN "none" ELSE s

\* could e.p have held the lock of the directory while it worked in this segment?
MayHaveHeld(e) ==
    IF e.status[e.p] \in Gates
    THEN e.holds[e.p] # 0                                        \* it waits inside the critical section right now
    ELSE \/ k.held[e.p]                                          \* it held it when the segment began
         \/ e.lockchanged                                        \* the lock file was replaced: cannot tell
         \/ ~\E q \in Procs \ {e.p} : k.held[q] /\ e.holds[q] = k.fd[q] /\ k.fd[q] = k.ino
Worked(e) == e.a # "kill" /\ (e.delta # <<>> \/ e.status[e.p] \in Gates \/ AtGate(e.p))

Observe(e) ==
    /\ k' = [ino |-> e.lockino, next |-> k.next,
             fd |-> [p \in Procs |-> e.holds[p]], held |-> [p \in Procs |-> e.holds[p] # 0]]
    /\ pc' = [p \in Procs |-> ObsPc(e.status[p])]
    /\ ex' = [p \in Procs |-> ObsEx(e.status[p])]
    /\ prog' = [p \in Procs |-> IF e.status[p] \in Gates THEN <<St("gout", e.status[p])>>
                                ELSE IF e.status[p] = "blocked" THEN <<St("try", "")>> ELSE <<>>]
    /\ kind' = IF e.a = "start" THEN [kind EXCEPT ![e.p] = e.x] ELSE kind
    /\ did' = [did EXCEPT ![e.p] = @ \/ Worked(e)]
    /\ muts' = [muts EXCEPT ![e.p] = @ \cup SeqRange(e.delta)]
    /\ outside' = [outside EXCEPT ![e.p] = @ \/ (Worked(e) /\ ~MayHaveHeld(e))]
    /\ contended' = [contended EXCEPT ![e.p] = IF e.status[e.p] = "busy" THEN Contention(e.p) ELSE @]
    /\ present' = SeqRange(e.present)
    /\ kills' = IF e.a = "kill" THEN kills + 1 ELSE kills
    /\ ctl' = Append(ctl, [a |-> e.a, p |-> e.p, x |-> e.x])

\* the laws of DirLock, in the order in which they are reported
FirstViolated ==
    IF ~MutualExclusion THEN "MutualExclusion"
    ELSE IF ~ConfigUnderLock THEN "ConfigUnderLock"
    ELSE IF ~LoserClean THEN "LoserClean"
    ELSE IF ~BusyOnlyWhenContended THEN "BusyOnlyWhenContended"
    ELSE IF ~NoStaleLock THEN "NoStaleLock"
    ELSE IF \E p \in Procs : pc[p] = "run" /\ prog[p] # <<>> /\ Head(prog[p]).op = "try" THEN "LoserLeaves"   \* [MSG] "Exiting."
    ELSE IF \E p \in Procs : ex[p] = "error" THEN "DirectoryUsable"      \* a command failed, and not with the busy verdict
    ELSE IF ~CompleteWhenQuiet THEN "CompleteWhenQuiet"
    ELSE "ok"

LawsNext ==
    /\ ~stop
    /\ tr' = tr
    /\ IF Pos = NSeg
       THEN /\ stop' = TRUE /\ UNCHANGED vars
            /\ Say("laws", "ok", Pos, "")
       ELSE LET e == T.segs[Pos + 1] IN
            /\ Observe(e)
            /\ LET v == FirstViolated' IN
               IF v = "ok" THEN stop' = FALSE
               ELSE stop' = TRUE /\ Say("laws", v, Pos + 1, CtlText(e))
SpecLaws == TInit /\ [][LawsNext]_tvars

-----------------------------------------------------------------------------
(* SpecAccept *)

Quiet == \A p \in Procs : ~Runnable(p)
StatusOf(p) == CASE pc[p] = "idle" -> "idle"
                 [] pc[p] = "dead" -> "killed"
                 [] pc[p] = "done" -> ex[p]
                 [] AtGate(p) -> Head(prog[p]).f
                 [] OTHER -> "running"
\* `--wipe` keeps cmd_line.txt; whether the kept file is put back as a new file is nobody's business
Kept(p) == IF kind[p] = "wipe" THEN {"cmdline"} ELSE {}
Diff(e) ==
    IF \E p \in Procs : StatusOf(p) # e.status[p] THEN "Verdict"
    ELSE IF e.lockchanged \/ \E p \in Procs : k.held[p] # (e.holds[p] # 0) THEN "LockState"
    ELSE IF \E p \in Procs : muts[p] \cup Kept(p) # SeqRange(e.muts[p]) \cup Kept(p) THEN "Mutations"
    ELSE IF present # SeqRange(e.present) THEN "Files"
    ELSE "none"
Expected == [status |-> [p \in Procs |-> StatusOf(p)], held |-> k.held, muts |-> muts, present |-> present]

CtlEnabled(e) ==
    IF e.a = "start" THEN pc[e.p] = "idle" /\ (e.x \in {"wipe", "setopt"} => Conf)
    ELSE AtGate(e.p) /\ Head(prog[e.p]).f = e.x
DoCtl(e) ==
    CASE e.a = "start" -> Start(e.p, e.x)
      [] e.a = "release" -> Step(e.p) /\ Note([a |-> "release", p |-> e.p, x |-> e.x])
      [] e.a = "kill" -> Kill(e.p) /\ Note([a |-> "kill", p |-> e.p, x |-> e.x])

AcceptNext ==
    /\ ~stop
    /\ tr' = tr
    /\ IF ~Quiet
       THEN SchedNext /\ stop' = FALSE                          \* run to block
       ELSE IF Pos >= 1 /\ Diff(T.segs[Pos]) # "none"
       THEN /\ stop' = TRUE /\ UNCHANGED vars
            /\ Say("accept", Diff(T.segs[Pos]), Pos, CtlText(T.segs[Pos]) \o " expected " \o ToString(Expected))
       ELSE IF Pos = NSeg
       THEN /\ stop' = TRUE /\ UNCHANGED vars
            /\ Say("accept", "ok", Pos, "")
       ELSE IF ~CtlEnabled(T.segs[Pos + 1])
       THEN /\ stop' = TRUE /\ UNCHANGED vars
            /\ Say("accept", "ControlNotEnabled", Pos + 1, CtlText(T.segs[Pos + 1]))
       ELSE DoCtl(T.segs[Pos + 1]) /\ stop' = FALSE
SpecAccept == TInit /\ [][AcceptNext]_tvars
=============================================================================
