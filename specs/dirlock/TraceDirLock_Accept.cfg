SPECIFICATION SpecAccept
CONSTANTS
 Procs <- TProcs
 ProcOrder <- TProcOrder
 Kinds = {"setup", "reconf", "wipe", "setopt"}
 DesignName = "documented"
 MaxKills = 4
 InitConfigured = {TRUE, FALSE}
 Scheduled = TRUE
CHECK_DEADLOCK FALSE
