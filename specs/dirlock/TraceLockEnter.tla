--------------------------- MODULE TraceLockEnter ---------------------------
(***************************************************************************)
(* X10, L5: the decision table of entering a lock (DirLockBase!EnterOutcome)*)
(* against the real mesonlib.DirectoryLock.                                 *)
(*                                                                          *)
(* TRACE_FILE: one record per cell of the table, produced by                *)
(* harness/x10_enter_probe.py with the real class:                          *)
(*   a        IGNORE | WAIT | FAIL                                          *)
(*   opt      the caller said the lock is optional                          *)
(*   o        how opening the lock file ends: ok | enoent (the directory is *)
(*            missing) | eisdir (a directory has the name) | eother (a      *)
(*            component of the path is a regular file)                      *)
(*   busy     another open file holds the lock                              *)
(*   outcome  what the real __enter__ did, classified from outside: the     *)
(*            exception class; or, when it returned, whether a second open  *)
(*            file finds the lock taken (locked / proceed_unlocked); it     *)
(*            is wait_then_locked when the call showed up as a blocked      *)
(*            FLOCK in /proc/locks and returned holding the lock after the  *)
(*            holder let go.                                                *)
(***************************************************************************)
EXTENDS DirLockBase, TLC, Json, IOUtils

Cases == JsonDeserialize(IOEnv.TRACE_FILE)
VARIABLES i, done

Judge(c) ==
    LET x == EnterOutcome(c.a, c.opt, c.o, c.busy) IN
    [id |-> c.id, clause |-> IF x = c.outcome THEN "ok" ELSE "EnterOutcome", expected |-> x, observed |-> c.outcome]

Init == i \in 1..Len(Cases) /\ done = FALSE
Next == /\ ~done /\ done' = TRUE /\ i' = i
        /\ LET v == Judge(Cases[i]) IN v.clause = "ok" \/ PrintT(ToJson(v))
Spec == Init /\ [][Next]_<<i, done>>
=============================================================================
