---------------------------- MODULE TraceWrapLock ----------------------------
(***************************************************************************)
(* X10, binding of WrapLock to real `meson setup` processes that configure *)
(* DIFFERENT build directories over ONE source tree whose subprojects are  *)
(* fetched from wrap files.                                                 *)
(*                                                                          *)
(* TRACE_FILE: JSON array of traces recorded by harness/x10_wrap.py:        *)
(*   [id, init (the wraps whose tree is complete at the beginning), segs]   *)
(* one segment per control action of the controller, observed when every    *)
(* live process waits in a gate, waits for the lock (/proc/locks) or has    *)
(* ended:                                                                   *)
(*   a, p       start | release | kill, the process                         *)
(*   needs      start: the subprojects the build of p needs, in order       *)
(*   gate, w    release / kill: the gate (dl | mid | patch | lock) and wrap *)
(*   st         process -> idle | gate | blocked | ok | failed | killed     *)
(*   atg, atw   process -> gate and wrap it waits in ("" otherwise)         *)
(*   holds      process -> it holds the lock of subprojects/.wraplock       *)
(*   tree       wrap -> absent | partial | unpacked | complete              *)
(*   saw        process -> the <<wrap, tree state>> pairs its subproject    *)
(*              build files found when they were evaluated                  *)
(*   started, fetched  wrap -> number of downloads begun / fetches finished *)
(*                                                                          *)
(* SpecLaws    the variables of WrapLock are driven by the observations;    *)
(*             the laws of WrapLock are evaluated on every observed state.  *)
(* SpecAccept  is the trace a behaviour of WrapLock, design "documented"?   *)
(*             Which waiter gets the lock when it is released is decided    *)
(*             by the kernel: every runnable process may step (all orders   *)
(*             are explored); a trace is accepted when SOME order agrees    *)
(*             with every observation (one "ok" line), otherwise the lines  *)
(*             name the first difference on every order.                    *)
(***************************************************************************)
EXTENDS WrapLock, Json, IOUtils

Traces == JsonDeserialize(IOEnv.TRACE_FILE)

VARIABLES tr, stop
tvars == <<vars, tr, stop>>

TProcOrder == <<"P1", "P2", "P3">>
TProcs == {"P1", "P2", "P3"}
TWraps == {"w1", "w2"}
TInitComplete == SUBSET TWraps
TNeedChoices == {<<>>}

T == Traces[tr]
NSeg == Len(T.segs)
Pos == Len(ctl)
SeqRange(s) == {s[i] : i \in 1..Len(s)}
CtlText(e) == e.a \o " " \o e.p \o " " \o e.gate \o " " \o e.w

TInit == /\ tr \in 1..Len(Traces)
         /\ stop = FALSE
         /\ Init
         /\ had = SeqRange(Traces[tr].init)

Say(mode, clause, j, note) ==
    PrintT(ToJson([id |-> T.id, mode |-> mode, clause |-> clause, seg |-> j, note |-> note]))

-----------------------------------------------------------------------------
(* SpecLaws *)

ObsPc(s) == IF s = "idle" THEN "idle" ELSE IF s \in {"gate", "blocked"} THEN "run" ELSE IF s = "killed" THEN "dead" ELSE "done"
ObsEx(s) == IF s \in {"idle", "gate", "blocked"} THEN "none" ELSE s
ObsProg(e, p) == IF e.st[p] = "gate" THEN <<St("gout_" \o e.atg[p], e.atw[p])>>
                 ELSE IF e.st[p] = "blocked" THEN <<St("wlock", "")>> ELSE <<>>

Observe(e) ==
    /\ k' = [ino |-> 1, next |-> 2,
             fd |-> [p \in Procs |-> IF e.holds[p] \/ e.st[p] = "blocked" THEN 1 ELSE 0],
             held |-> [p \in Procs |-> e.holds[p]]]
    /\ pc' = [p \in Procs |-> ObsPc(e.st[p])]
    /\ ex' = [p \in Procs |-> ObsEx(e.st[p])]
    /\ prog' = [p \in Procs |-> ObsProg(e, p)]
    /\ todo' = IF e.a = "start" THEN [todo EXCEPT ![e.p] = e.needs] ELSE todo
    /\ stale' = stale
    /\ outside' = [p \in Procs |-> outside[p] \/ (e.st[p] = "gate" /\ ~e.holds[p])]
    /\ saw' = [p \in Procs |-> {<<e.saw[p][i][1], e.saw[p][i][2]>> : i \in 1..Len(e.saw[p])}]
    /\ tree' = [w \in Wraps |-> e.tree[w]]
    /\ started' = [w \in Wraps |-> e.started[w]]
    /\ fetched' = [w \in Wraps |-> e.fetched[w]]
    /\ kills' = IF e.a = "kill" THEN kills + 1 ELSE kills
    /\ ctl' = Append(ctl, [a |-> e.a, p |-> e.p, x |-> <<e.gate, e.w>>])
    /\ had' = had

FirstViolated ==
    IF ~FetchExclusive THEN "FetchExclusive"
    ELSE IF ~FetchUnderLock THEN "FetchUnderLock"
    ELSE IF ~WaiterWaits THEN "WaiterWaits"
    ELSE IF ~NeverHalfConfigured THEN "NeverHalfConfigured"
    ELSE IF ~ResolvedOnce THEN "ResolvedOnce"
    ELSE IF ~NoStaleWait THEN "NoStaleWait"
    ELSE "ok"

LawsNext ==
    /\ ~stop
    /\ tr' = tr
    /\ IF Pos = NSeg
       THEN /\ stop' = TRUE /\ UNCHANGED vars
            /\ Say("laws", "ok", Pos, "")
       ELSE LET e == T.segs[Pos + 1] IN
            /\ Observe(e)
            /\ LET v == FirstViolated' IN
               IF v = "ok" THEN stop' = FALSE
               ELSE stop' = TRUE /\ Say("laws", v, Pos + 1, CtlText(e))
SpecLaws == TInit /\ [][LawsNext]_tvars

-----------------------------------------------------------------------------
(* SpecAccept *)

Quiet == \A p \in Procs : ~Runnable(p)
GateName(op) == IF op = "gout_dl" THEN "dl" ELSE IF op = "gout_mid" THEN "mid" ELSE "patch"
StOf(p) == CASE pc[p] = "idle" -> "idle"
             [] pc[p] = "dead" -> "killed"
             [] pc[p] = "done" -> ex[p]
             [] AtGate(p) -> "gate"
             [] Blocked(p) -> "blocked"
             [] OTHER -> "running"
AtgOf(p) == IF AtGate(p) THEN GateName(Head(prog[p]).op) ELSE IF Blocked(p) THEN "lock" ELSE ""
AtwOf(p) == IF AtGate(p) THEN Head(prog[p]).w ELSE ""
Diff(e) ==
    IF \E p \in Procs : StOf(p) # e.st[p] \/ AtgOf(p) # e.atg[p] \/ AtwOf(p) # e.atw[p] THEN "Verdict"
    ELSE IF \E p \in Procs : k.held[p] # e.holds[p] THEN "LockState"
    ELSE IF \E w \in Wraps : tree[w] # e.tree[w] THEN "Tree"
    ELSE IF \E p \in Procs : saw[p] # {<<e.saw[p][i][1], e.saw[p][i][2]>> : i \in 1..Len(e.saw[p])} THEN "Saw"
    ELSE IF \E w \in Wraps : started[w] # e.started[w] \/ fetched[w] # e.fetched[w] THEN "Fetches"
    ELSE "none"
Expected == [st |-> [p \in Procs |-> <<StOf(p), AtgOf(p), AtwOf(p)>>], held |-> k.held, tree |-> tree, saw |-> saw,
             started |-> started, fetched |-> fetched]

CtlEnabled(e) ==
    IF e.a = "start" THEN pc[e.p] = "idle"
    ELSE IF e.gate = "lock" THEN e.a = "kill" /\ Blocked(e.p)
    ELSE AtGate(e.p) /\ GateName(Head(prog[e.p]).op) = e.gate /\ Head(prog[e.p]).w = e.w
DoCtl(e) ==
    CASE e.a = "start" -> Start(e.p, e.needs)
      [] e.a = "release" -> Step(e.p) /\ Note([a |-> "release", p |-> e.p, x |-> <<e.gate, e.w>>])
      [] e.a = "kill" -> Kill(e.p) /\ Note([a |-> "kill", p |-> e.p, x |-> <<e.gate, e.w>>])

AcceptNext ==
    /\ ~stop
    /\ tr' = tr
    /\ had' = had
    /\ IF ~Quiet
       THEN (\E p \in Procs : Runnable(p) /\ Step(p) /\ ctl' = ctl) /\ stop' = FALSE
       ELSE IF Pos >= 1 /\ Diff(T.segs[Pos]) # "none"
       THEN /\ stop' = TRUE /\ UNCHANGED <<k, pc, todo, prog, stale, outside, saw, ex, tree, started, fetched, kills, ctl>>
            /\ Say("accept", Diff(T.segs[Pos]), Pos, CtlText(T.segs[Pos]) \o " expected " \o ToString(Expected))
       ELSE IF Pos = NSeg
       THEN /\ stop' = TRUE /\ UNCHANGED <<k, pc, todo, prog, stale, outside, saw, ex, tree, started, fetched, kills, ctl>>
            /\ Say("accept", "ok", Pos, "")
       ELSE IF ~CtlEnabled(T.segs[Pos + 1])
       THEN /\ stop' = TRUE /\ UNCHANGED <<k, pc, todo, prog, stale, outside, saw, ex, tree, started, fetched, kills, ctl>>
            /\ Say("accept", "ControlNotEnabled", Pos + 1, CtlText(T.segs[Pos + 1]))
       ELSE DoCtl(T.segs[Pos + 1]) /\ stop' = FALSE
SpecAccept == TInit /\ [][AcceptNext]_tvars
=============================================================================
