SPECIFICATION SpecAccept
CONSTANTS
 Procs <- TProcs
 ProcOrder <- TProcOrder
 Wraps <- TWraps
 NeedChoices <- TNeedChoices
 DesignName = "documented"
 MaxKills = 4
 KillInFetch = FALSE
 InitComplete <- TInitComplete
 Scheduled = TRUE
CHECK_DEADLOCK FALSE
