------------------------------ MODULE WrapLock ------------------------------
(***************************************************************************)
(* X10, part 2: concurrent `meson setup` runs of DIFFERENT build            *)
(* directories over ONE source tree [MBD] whose subprojects [SUB] are       *)
(* fetched on demand from wrap files [WRAP].  The subprojects directory is  *)
(* shared state; subprojects/.wraplock serialises its users.                *)
(*                                                                          *)
(* Every process resolves the subprojects its build needs, one after the   *)
(* other.  Resolving wrap w is the program                                  *)
(*    wopen    open (create) subprojects/.wraplock                          *)
(*    wlock    blocking exclusive lock (action WAIT, optional): enabled     *)
(*             when nobody else holds it - the process WAITS otherwise      *)
(*    check    is subprojects/<w> there and does it have a build file?      *)
(*             then it is used as it is; otherwise fetch:                   *)
(*    gin/gout dl      the download runs (nothing in subprojects/ yet)      *)
(*    unp1             the directory appears, the build file first          *)
(*    gin/gout mid     ... a half-unpacked tree ...                         *)
(*    unp2             the rest of the files                                *)
(*    gin/gout patch   the patch step runs                                  *)
(*    patch            the tree is complete [WRAP]                          *)
(*    wunlock, wclose                                                       *)
(*    conf     the subproject is configured: its build file is evaluated    *)
(*             against the tree as it is now                                *)
(* Tree states: absent < partial (build file only) < unpacked < complete.   *)
(*                                                                          *)
(* Laws (L4):                                                               *)
(*   FetchExclusive     no two processes are fetching at the same time      *)
(*   FetchUnderLock     every fetch step is done holding the lock           *)
(*   WaiterWaits        nobody fails because the lock was busy              *)
(*   NeverHalfConfigured a subproject is only configured when complete      *)
(*   ResolvedOnce       every wrap is fetched at most once, and exactly     *)
(*                      once when somebody who needed it finished           *)
(*   NoStaleWait        a process only waits while a live process that is   *)
(*                      not itself waiting exists (L3 for this lock)        *)
(* Kill: SIGKILL of a process between two steps.  A fetcher that is killed  *)
(* between unp1 and patch leaves a tree that has a build file and is not    *)
(* complete; what the next run does with it is the subject of C10 (wrap     *)
(* acquisition after a crash), so KillInFetch = FALSE here; the run with    *)
(* KillInFetch = TRUE documents the boundary (TLC refutes                   *)
(* NeverHalfConfigured).                                                    *)
(***************************************************************************)
EXTENDS DirLockBase, TLC

CONSTANTS Procs, ProcOrder, Wraps, NeedChoices, DesignName, MaxKills, KillInFetch, InitComplete, Scheduled

VARIABLES k, pc, todo, prog, stale, outside, saw, ex, tree, had, started, fetched, kills, ctl
vars == <<k, pc, todo, prog, stale, outside, saw, ex, tree, had, started, fetched, kills, ctl>>

WrapDesignNames == {"documented", "waiter_proceeds_unlocked", "action_fail", "check_before_lock", "unlock_before_patch",
                    "existence_check"}
D == [onBusy      |-> IF DesignName = "waiter_proceeds_unlocked" THEN "IGNORE"
                      ELSE IF DesignName = "action_fail" THEN "FAIL" ELSE "WAIT",
      staleCheck  |-> DesignName = "check_before_lock",
      unlockEarly |-> DesignName = "unlock_before_patch",
      excl        |-> DesignName = "existence_check"]

St(op, w) == [op |-> op, w |-> w]
Gate(g, w) == <<St("gin_" \o g, w), St("gout_" \o g, w)>>
IsGateOut(s) == s.op \in {"gout_dl", "gout_mid", "gout_patch"}
IsFetch(s) == s.op \in {"gin_dl", "gout_dl", "unp1", "gin_mid", "gout_mid", "unp2", "gin_patch", "gout_patch", "patch"}
Fetch(w) ==
    IF D.unlockEarly
    THEN Gate("dl", w) \o <<St("unp1", w)>> \o Gate("mid", w) \o <<St("unp2", w), St("wunlock", w), St("wclose", w)>>
         \o Gate("patch", w) \o <<St("patch", w)>>
    ELSE Gate("dl", w) \o <<St("unp1", w)>> \o Gate("mid", w) \o <<St("unp2", w)>> \o Gate("patch", w) \o <<St("patch", w)>>
Resolve(w) ==
    (IF D.staleCheck THEN <<St("precheck", w)>> ELSE <<>>)
    \o <<St("wopen", w), St("wlock", w), St("check", w), St("wunlock", w), St("wclose", w), St("conf", w)>>

HasBuildFile(w) == tree[w] # "absent"
Alive(p) == pc[p] = "run"
Blocked(p) == Alive(p) /\ prog[p] # <<>> /\ Head(prog[p]).op = "wlock" /\ D.onBusy = "WAIT"
                /\ (IF D.excl THEN k.ino # 0 ELSE KBusy(k, p))
Fetching(p) == Alive(p) /\ prog[p] # <<>> /\ IsFetch(Head(prog[p])) /\ Head(prog[p]).op # "gin_dl"
MidFetch(p) == Alive(p) /\ prog[p] # <<>> /\ Head(prog[p]).op \in {"gin_mid", "gout_mid", "unp2", "gin_patch", "gout_patch", "patch"}

Init ==
    /\ k = KInit(Procs)
    /\ pc = [p \in Procs |-> "idle"]
    /\ todo = [p \in Procs |-> <<>>]
    /\ prog = [p \in Procs |-> <<>>]
    /\ stale = [p \in Procs |-> FALSE]
    /\ outside = [p \in Procs |-> FALSE]
    /\ saw = [p \in Procs |-> {}]
    /\ ex = [p \in Procs |-> "none"]
    /\ had \in InitComplete
    /\ tree = [w \in Wraps |-> IF w \in had THEN "complete" ELSE "absent"]
    /\ started = [w \in Wraps |-> 0]
    /\ fetched = [w \in Wraps |-> 0]
    /\ kills = 0
    /\ ctl = <<>>

Note(x) == ctl' = IF Scheduled THEN Append(ctl, x) ELSE ctl

Start(p, needs) ==
    /\ pc[p] = "idle"
    /\ pc' = [pc EXCEPT ![p] = "run"]
    /\ todo' = [todo EXCEPT ![p] = needs]
    /\ prog' = [prog EXCEPT ![p] = IF needs = <<>> THEN <<St("exit", "")>> ELSE Resolve(Head(needs))]
    /\ Note([a |-> "start", p |-> p, x |-> needs])
    /\ UNCHANGED <<k, stale, outside, saw, ex, tree, started, fetched, kills>>

Advance(p) == prog' = [prog EXCEPT ![p] = Tail(prog[p])]
FetchStep(p) == outside' = [outside EXCEPT ![p] = outside[p] \/ ~k.held[p]]

Step(p) ==
    /\ Alive(p)
    /\ prog[p] # <<>>
    /\ LET s == Head(prog[p]) IN
       CASE s.op = "precheck" ->
              /\ Advance(p)
              /\ stale' = [stale EXCEPT ![p] = ~HasBuildFile(s.w)]
              /\ UNCHANGED <<k, pc, todo, outside, saw, ex, tree, started, fetched>>
         [] s.op = "wopen" ->
              /\ Advance(p)
              /\ k' = IF D.excl THEN k ELSE KOpen(k, p)
              /\ UNCHANGED <<pc, todo, stale, outside, saw, ex, tree, started, fetched>>
         [] s.op = "wlock" ->
              /\ IF D.excl
                 THEN /\ k.ino = 0                       \* spin until the lock file is gone
                      /\ Advance(p) /\ k' = KLock(KOpen(k, p), p) /\ pc' = pc /\ ex' = ex
                 ELSE LET x == EnterOutcome(D.onBusy, TRUE, "ok", KBusy(k, p)) IN
                      CASE x = "locked" -> Advance(p) /\ k' = KLock(k, p) /\ pc' = pc /\ ex' = ex
                        [] x = "wait_then_locked" -> FALSE                     \* blocked
                        [] x = "proceed_unlocked" -> Advance(p) /\ k' = KClose(k, p) /\ pc' = pc /\ ex' = ex
                        [] x = "raise_busy" -> /\ prog' = [prog EXCEPT ![p] = <<>>] /\ k' = KClose(k, p)
                                               /\ pc' = [pc EXCEPT ![p] = "done"] /\ ex' = [ex EXCEPT ![p] = "failed"]
              /\ UNCHANGED <<todo, stale, outside, saw, tree, started, fetched>>
         [] s.op = "check" ->
              /\ LET absent == IF D.staleCheck THEN stale[p] ELSE ~HasBuildFile(s.w) IN
                 IF absent
                 THEN /\ prog' = [prog EXCEPT ![p] = Fetch(s.w) \o
                                     (IF D.unlockEarly THEN <<St("conf", s.w)>> ELSE Tail(prog[p]))]
                      /\ tree' = [tree EXCEPT ![s.w] = "absent"]      \* a stale verdict throws away what is there
                 ELSE Advance(p) /\ tree' = tree
              /\ UNCHANGED <<k, pc, todo, stale, outside, saw, ex, started, fetched>>
         [] s.op \in {"gin_dl", "gout_dl", "gin_mid", "gout_mid", "gin_patch", "gout_patch"} ->
              /\ Advance(p) /\ FetchStep(p)
              /\ started' = IF s.op = "gin_dl" THEN [started EXCEPT ![s.w] = @ + 1] ELSE started
              /\ UNCHANGED <<k, pc, todo, stale, saw, ex, tree, fetched>>
         [] s.op \in {"unp1", "unp2", "patch"} ->
              /\ Advance(p) /\ FetchStep(p)
              /\ tree' = [tree EXCEPT ![s.w] = CASE s.op = "unp1" -> "partial" [] s.op = "unp2" -> "unpacked"
                                                  [] OTHER -> "complete"]
              /\ fetched' = IF s.op = "patch" THEN [fetched EXCEPT ![s.w] = @ + 1] ELSE fetched
              /\ UNCHANGED <<k, pc, todo, stale, saw, ex, started>>
         [] s.op = "wunlock" ->
              /\ Advance(p)
              /\ k' = IF D.excl THEN KRemove(KUnlock(k, p)) ELSE KUnlock(k, p)
              /\ UNCHANGED <<pc, todo, stale, outside, saw, ex, tree, started, fetched>>
         [] s.op = "wclose" ->
              /\ Advance(p) /\ k' = KClose(k, p)
              /\ UNCHANGED <<pc, todo, stale, outside, saw, ex, tree, started, fetched>>
         [] s.op = "conf" ->
              /\ saw' = [saw EXCEPT ![p] = @ \cup {<<s.w, tree[s.w]>>}]
              /\ todo' = [todo EXCEPT ![p] = Tail(todo[p])]
              /\ prog' = [prog EXCEPT ![p] = IF Len(todo[p]) > 1 THEN Resolve(todo[p][2]) ELSE <<St("exit", "")>>]
              /\ UNCHANGED <<k, pc, stale, outside, ex, tree, started, fetched>>
         [] s.op = "exit" ->
              /\ Advance(p)
              /\ pc' = [pc EXCEPT ![p] = "done"]
              /\ ex' = [ex EXCEPT ![p] = "ok"]
              /\ k' = KClose(k, p)
              /\ UNCHANGED <<todo, stale, outside, saw, tree, started, fetched>>
    /\ UNCHANGED kills

Kill(p) ==
    /\ Alive(p)
    /\ kills < MaxKills
    /\ KillInFetch \/ ~MidFetch(p)
    /\ kills' = kills + 1
    /\ pc' = [pc EXCEPT ![p] = "dead"]
    /\ ex' = [ex EXCEPT ![p] = "killed"]
    /\ prog' = [prog EXCEPT ![p] = <<>>]
    /\ k' = KClose(k, p)
    /\ UNCHANGED <<todo, stale, outside, saw, tree, started, fetched>>

FreeNext ==
    \/ \E p \in Procs, n \in NeedChoices : Start(p, n)
    \/ \E p \in Procs : Step(p) /\ ctl' = ctl
    \/ \E p \in Procs : Kill(p) /\ ctl' = ctl

AtGate(p) == Alive(p) /\ prog[p] # <<>> /\ IsGateOut(Head(prog[p]))
Runnable(p) == Alive(p) /\ ~AtGate(p) /\ ~Blocked(p)
Ord(p) == CHOOSE i \in 1..Len(ProcOrder) : ProcOrder[i] = p
SchedNext ==
    IF \E p \in Procs : Runnable(p)
    THEN LET p == CHOOSE q \in Procs : Runnable(q) /\ \A r \in Procs : Runnable(r) => Ord(q) <= Ord(r)
         IN Step(p) /\ ctl' = ctl
    ELSE \/ \E p \in Procs, n \in NeedChoices :
              /\ \A q \in Procs : Ord(q) < Ord(p) => pc[q] # "idle"
              /\ Start(p, n)
         \/ \E p \in Procs : AtGate(p) /\ Step(p) /\ Note([a |-> "release", p |-> p, x |-> <<Head(prog[p]).op, Head(prog[p]).w>>])
         \/ \E p \in Procs : (AtGate(p) \/ Blocked(p)) /\ Kill(p)
                              /\ Note([a |-> "kill", p |-> p, x |-> <<Head(prog[p]).op, Head(prog[p]).w>>])

Next == IF Scheduled THEN SchedNext ELSE FreeNext
Spec == Init /\ [][Next /\ had' = had]_vars

TreeStates == {"absent", "partial", "unpacked", "complete"}
TypeOK ==
    /\ pc \in [Procs -> {"idle", "run", "done", "dead"}]
    /\ tree \in [Wraps -> TreeStates]
    /\ ex \in [Procs -> {"none", "ok", "failed", "killed"}]
    /\ DesignName \in WrapDesignNames

FetchExclusive == \A p, q \in Procs : p # q => ~(Fetching(p) /\ Fetching(q))
FetchUnderLock == \A p \in Procs : ~outside[p]
WaiterWaits == \A p \in Procs : ex[p] # "failed"
NeverHalfConfigured == \A p \in Procs : \A x \in saw[p] : x[2] = "complete"
Needed(w) == \E p \in Procs : ex[p] = "ok" /\ \E x \in saw[p] : x[1] = w
ResolvedOnce ==
    /\ \A w \in Wraps : fetched[w] <= 1 /\ started[w] <= 1 + kills
    /\ \A w \in Wraps : Needed(w) => IF w \in had THEN fetched[w] = 0 /\ started[w] = 0 ELSE fetched[w] = 1
NoStaleWait == \A p \in Procs : Blocked(p) => \E q \in Procs \ {p} : Alive(q) /\ ~Blocked(q)
=============================================================================
