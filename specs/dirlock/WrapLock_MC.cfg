SPECIFICATION Spec
CONSTANTS
 NP = 3
 Procs <- MCProcs
 ProcOrder <- MCProcOrder
 Wraps <- MCWraps
 NeedChoices <- MCNeedChoices
 DesignName = "documented"
 MaxKills = 1
 KillInFetch = FALSE
 InitComplete <- MCInitAny
 Scheduled = FALSE
INVARIANT TypeOK
INVARIANT FetchExclusive
INVARIANT FetchUnderLock
INVARIANT WaiterWaits
INVARIANT NeverHalfConfigured
INVARIANT ResolvedOnce
INVARIANT NoStaleWait
CHECK_DEADLOCK FALSE
POSTCONDITION Stats
