---------------------------- MODULE WrapLock_MC ----------------------------
(***************************************************************************)
(* Bounded exhaustive model of WrapLock: NP processes (different build      *)
(* directories), two wraps, every sequence of needs, every interleaving,    *)
(* up to MaxKills kills.  cfg WrapLock_MC.cfg: design "documented", all     *)
(* laws.  Generated cfgs: the faulty designs (one law each must be          *)
(* refuted), the kill-inside-fetch boundary, and the schedule export        *)
(* (WrapLock_Sched.cfg).                                                    *)
(***************************************************************************)
EXTENDS WrapLock, Json

CONSTANT NP
AllProcs == <<"P1", "P2", "P3", "P4">>
MCProcOrder == SubSeq(AllProcs, 1, NP)
MCProcs == {AllProcs[i] : i \in 1..NP}
MCWraps == {"w1", "w2"}
MCNeedChoices == {<<"w1">>, <<"w2">>, <<"w1", "w2">>, <<"w2", "w1">>}
MCNeedOne == {<<"w1">>}
MCInitNone == {{}}
MCInitAny == {{}, {"w1"}}

Terminal == \A p \in Procs : pc[p] \in {"done", "dead"}
EmitSchedule ==
    Scheduled /\ Terminal =>
        PrintT(ToJson([ctl |-> ctl, ex |-> [i \in 1..NP |-> ex[ProcOrder[i]]], had |-> had,
                       fetched |-> [w \in Wraps |-> fetched[w]]]))
Stats == TLCGet("stats").diameter >= 0
=============================================================================
