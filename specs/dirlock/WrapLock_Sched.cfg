SPECIFICATION Spec
CONSTANTS
 NP = 2
 Procs <- MCProcs
 ProcOrder <- MCProcOrder
 Wraps <- MCWraps
 NeedChoices <- MCNeedChoices
 DesignName = "documented"
 MaxKills = 1
 KillInFetch = FALSE
 InitComplete <- MCInitAny
 Scheduled = TRUE
INVARIANT EmitSchedule
CHECK_DEADLOCK FALSE
POSTCONDITION Stats
