----------------------------- MODULE FindProgram -----------------------------
(***************************************************************************)
(* The decision procedure of `find_program()` and the life cycle of        *)
(* `meson.override_find_program()` during one configuration (extension     *)
(* area X08), written from                                                 *)
(*   [FP]   docs/yaml/functions/find_program.yaml  ("The search order is") *)
(*   [OV]   docs/yaml/builtins/meson.yaml  (override_find_program, native) *)
(*   [MF]   docs/markdown/Machine-files.md  ("Binaries"),                  *)
(*          Native-environments.md ("Natives describe the build machine,   *)
(*          and can be used to override properties of non-cross builds")   *)
(*   [WR]   docs/markdown/Wrap-dependency-system-manual.md ("provide       *)
(*          section": program_names)                                       *)
(*   [SP]   docs/markdown/Subprojects.md (--wrap-mode, --force-fallback-   *)
(*          for: "Starting with version 1.12 ... find_program")            *)
(*   [FE]   docs/markdown/Build-options.md ("Features")                    *)
(*   [RN]   release notes 0.43 (cross file / native:), 0.46 ("The          *)
(*          overriding is global and applies to every subproject from      *)
(*          there on"), 0.52 (version:), 0.53 (dirs:), 0.55 ("find_program *)
(*          fallback"), 1.12 (force_fallback_for, native overrides,        *)
(*          build-machine subprojects)                                     *)
(*   [T182] test cases/common/182 find override, [T26] common/26 find      *)
(*          program, [F65] failing/65 dual override, [F66] failing/66      *)
(*          override used, [U31] unit/31 forcefallback (+ the three unit   *)
(*          tests that run it), [U100] unit/100 relative find program.     *)
(*                                                                         *)
(* The model is about up to three program names.  A name n can exist, in   *)
(* some version, in each documented source; one wrap file s_n may list n   *)
(* in `[provide] program_names` and its subproject S_n, when configured,   *)
(* overrides n ("assuming it uses meson.override_find_program" [WR]).      *)
(* `env` is constant during one `meson setup`; `st` is what a              *)
(* configuration remembers.  Where the documents leave a choice every      *)
(* permitted outcome is allowed: the choice points are the fields of a     *)
(* *reading* r, `Step(env, st, ev, r)` is a function, and                  *)
(* `Outcomes(env, st, ev)` is its image over all readings.                 *)
(***************************************************************************)
EXTENDS Integers, Sequences, FiniteSets

AllNames == {"a", "b", "c"}
NameOrder == <<"a", "b", "c">>
Machines == {"host", "build"}
MachineOrder == <<"host", "build">>
Sites == {"root", "sd"}          \* the directory of the calling meson.build: project root or a subdir()

\* ---- environment ----------------------------------------------------------------------
\* Versions are abstract: 0 = "not there", v > 0 = a program answering --version with v.
\* env.wm    : wrap_mode
\* env.fff   : names n whose wrap s_n is listed in --force-fallback-for
\* env.cross : cross build (a cross file is given): two machines; otherwise there is one machine
\* env.nat[n], env.crs[n] : [binaries] entry for n in the native / cross file (absolute path of a program)
\* env.xd[n] : n exists in the directory that calls may pass as `dirs:`
\* env.src[site][n] : n is a script next to the calling meson.build
\* env.path[n] : n is in a directory of PATH
\* env.prov[n] : "none"   no wrap provides n
\*               "ovr"    s_n.wrap provides n and S_n calls meson.override_find_program(n, <its program>)
\*               "noovr"  s_n.wrap provides n but S_n does not override it
\*               "broken" s_n.wrap provides n and S_n fails to configure
\* env.subv[n] : version of the program S_n overrides n with
\* env.mainv   : version of the program the calling project overrides names with (okind "prog")
\* env.projv   : version of the calling project (an override with a file has the project version [T182],
\*               like the documented rule for executables [OV])
WrapModes == {"default", "nofallback", "nodownload", "forcefallback", "nopromote"}
ProvStyles == {"none", "ovr", "noovr", "broken"}

Mach(env, native) == IF env.cross /\ native THEN "build" ELSE "host"
\* which machine file's [binaries] describes machine m: the cross file describes the host machine of a
\* cross build [RN 0.43]; the native file the build machine and every machine of a non-cross build [MF]
BinFile(env, m) == IF env.cross /\ m = "host" THEN "crs" ELSE "nat"
BinV(env, m, n) == IF BinFile(env, m) = "crs" THEN env.crs[n] ELSE env.nat[n]

\* [SP] "--wrap-mode=forcefallback: will not look at the system for ... programs which have subproject
\* fallbacks available"; "--force-fallback-for ... takes precedence over --wrap-mode=nofallback"
Forced(env, n) == env.prov[n] # "none" /\ (env.wm = "forcefallback" \/ n \in env.fff)
\* [FP] item 7: "... if wrap_mode is set to anything other than nofallback"
MayFallBack(env, n) == env.prov[n] # "none" /\ env.wm # "nofallback"

\* ---- events ---------------------------------------------------------------------------
\* One record type for the three kinds of statements of a session:
\*  op = "find"     find_program(names..., required: req, native:, version: con, dirs: (dirs), disabler: dis)
\*                  made from directory `site`
\*  op = "override" meson.override_find_program(names[1], <program>, native:)   okind "prog" | "file"
\*  op = "sub"      subproject('s_<names[1]>', required: req, native:)
Constraints == {"any", "ge2", "lt2"}
Reqs == {"true", "false", "enabled", "auto", "disabled"}       \* [FE]
Required(req) == req \in {"true", "enabled"}
Sat(con, v) == CASE con = "any" -> TRUE
                 [] con = "ge2" -> v >= 2
                 [] con = "lt2" -> v < 2

Ev(op, names, req, native, con, dirs, site, dis, okind) ==
    [op |-> op, names |-> names, req |-> req, native |-> native, con |-> con, dirs |-> dirs, site |-> site,
     dis |-> dis, okind |-> okind]
FindEv(names, req, native, con, dirs, site, dis) == Ev("find", names, req, native, con, dirs, site, dis, "")
OverrideEv(n, native, okind) == Ev("override", <<n>>, "true", native, "any", FALSE, "root", FALSE, okind)
SubEv(n, req, native) == Ev("sub", <<n>>, req, native, "any", FALSE, "root", FALSE, "")

ElemsOf(s) == { s[i] : i \in 1..Len(s) }

\* ---- results --------------------------------------------------------------------------
\* kind: "found" (name = which of the names, src = where from, v = its version) | "notfound" | "disabler"
\*       | "error" (the configuration aborts) | "ok" / "nf" (override accepted; subproject found / not found)
\* src : "main" (override made by the calling project) | "sub" (override made by S_n) | "nat" | "crs"
\*       | "dirs" | "src_root" | "src_sd" | "path"
Res(kind, name, src, v) == [kind |-> kind, name |-> name, src |-> src, v |-> v]
Plain(kind) == Res(kind, "", "", 0)
ERR == Plain("error")
Out(res, st) == [res |-> res, st |-> st]

\* ---- remembered state -----------------------------------------------------------------
\* st.ovr[m][n] : override in force for n on machine m     ("none" | "main" | "sub", version)
\* st.used[m]   : names that have been found on machine m   ([F66] "which has already been found")
\* st.alt[m]    : names that were unused alternatives of a successful lookup (see reading `alt`)
\* st.sub[m][n] : S_n for machine m: "unconfigured" | "ok" | "failed"    ([RN 1.12]: a subproject may be
\*                configured for the host and for the build machine)
Entry(kind, v) == [kind |-> kind, v |-> v]
None == Entry("none", 0)
InitState == [ovr |-> [m \in Machines |-> [n \in AllNames |-> None]],
              used |-> [m \in Machines |-> {}],
              alt |-> [m \in Machines |-> {}],
              sub |-> [m \in Machines |-> [n \in AllNames |-> "unconfigured"]]]

\* ---- readings: the choices the documents leave open -----------------------------------------
\* nest  : several names - "names": the whole search order is run for the first name, then for the next
\*         ([FP] varargs: "check for the arguments one by one"); "sources": each source of the search order
\*         is asked about all names before the next source ([FP] "The search order is")
\* mism  : a program found in [binaries] / dirs / source tree / PATH has the wrong version - "stop": the
\*         program counts as not found on the system and the subproject fallback is next ([T182]: "This needs
\*         to use fallback"); "continue": later sources / names are still looked at
\* final : an override of the wrong version, or a provider subproject that does not deliver the program
\*         (the documents only describe providers that do), is final for the "call" or only for that
\*         "name" (other names are still tried)
\* optfb : does a lookup that is not required use the [provide] fallback of step 7?  [FP] lists the step
\*         without condition; the same section of [WR] describes that optional dependency() lookups do not
\* alt   : do the unused alternatives of a successful lookup count as "already found" for [F66]?
\* sys   : NOT open - the order of the four sources of the system is the documented one in every reading;
\*         the field exists so that trace validation can say which other order would explain a rejected
\*         observation (diagnosis only)
DocSysOrder == <<"bin", "dirs", "src", "path">>
Readings == [nest : {"names", "sources"}, mism : {"stop", "continue"}, final : {"call", "name"},
             optfb : BOOLEAN, alt : BOOLEAN, sys : {DocSysOrder}]
Canon == [nest |-> "sources", mism |-> "stop", final |-> "call", optfb |-> FALSE, alt |-> TRUE, sys |-> DocSysOrder]

\* ---- overriding -----------------------------------------------------------------------------
\* [F66] a name that has been found cannot be overridden any more; [F65] nor one that is overridden
Blocked(st, m, n, r) == n \in st.used[m] \/ st.ovr[m][n] # None \/ (r.alt /\ n \in st.alt[m])

SetSub(st, m, n, s) == [st EXCEPT !.sub[m][n] = s]
\* configuring S_n for machine m (as a fallback of a lookup, or by subproject()); inside a subproject for
\* the build machine "the host and build machine will both be the build machine" [RN 1.12], so its
\* override lands on machine m
Configure(env, st, m, n, r) ==
    IF st.sub[m][n] # "unconfigured" THEN st
    ELSE IF env.prov[n] \in {"none", "broken"} THEN SetSub(st, m, n, "failed")
    ELSE IF env.prov[n] = "noovr" THEN SetSub(st, m, n, "ok")
    ELSE IF Blocked(st, m, n, r) THEN SetSub(st, m, n, "failed")        \* the override inside S_n is an error
    ELSE [SetSub(st, m, n, "ok") EXCEPT !.ovr[m][n] = Entry("sub", env.subv[n])]

DoOverride(env, st, e, r) ==
    LET n == e.names[1]
        m == Mach(env, e.native)
    IN IF Blocked(st, m, n, r) THEN Out(ERR, st)
       ELSE Out(Plain("ok"),
                [st EXCEPT !.ovr[m][n] = Entry("main", IF e.okind = "file" THEN env.projv ELSE env.mainv)])

\* subproject('s_n', required:, native:) - "this does not apply to unconditional subproject() calls" [SP]
DoSub(env, st, e, r) ==
    LET n == e.names[1]
        m == Mach(env, e.native)
        st2 == Configure(env, st, m, n, r)
    IN IF st2.sub[m][n] = "ok" THEN Out(Plain("ok"), st2)
       ELSE IF Required(e.req) THEN Out(ERR, st2)
       ELSE Out(Plain("nf"), st2)

\* ---- find_program: operational formulation ----------------------------------------------
\* [FP] "The search order is": 1 overrides, 2 [provide] if forced, 3 [binaries], 4 dirs:, 5 source tree
\* relative to the current subdir, 6 PATH, 7 [provide] unless nofallback
Stages(r) == <<"ovr", "forced">> \o r.sys \o <<"fb">>
NStages == 7
Probes(names, r) ==
    LET k == Len(names)
        nest == r.nest
        stg == Stages(r)
    IN IF nest = "names"
       THEN [i \in 1..(k * NStages) |-> <<stg[((i - 1) % NStages) + 1], names[((i - 1) \div NStages) + 1]>>]
       ELSE [i \in 1..(k * NStages) |-> <<stg[((i - 1) \div k) + 1], names[((i - 1) % k) + 1]>>]

\* "When true, Meson will abort if no program can be found.  If required is set to false, Meson continue ...
\*  disabler: If true and the program couldn't be found, return a disabler object" [FP]
Miss(c) == IF Required(c.req) THEN ERR ELSE IF c.dis THEN Plain("disabler") ELSE Plain("notfound")
\* "Only store successful lookups" is pinned by [T182] (check-if-found-else-override workflow)
Mark(st, m, n, names) == [st EXCEPT !.used[m] = @ \cup {n}, !.alt[m] = @ \cup (ElemsOf(names) \ {n})]

SrcLabel(c, stage, env, m) ==
    CASE stage = "bin" -> BinFile(env, m)
      [] stage = "dirs" -> "dirs"
      [] stage = "src" -> IF c.site = "root" THEN "src_root" ELSE "src_sd"
      [] stage = "path" -> "path"
SysV(c, stage, env, m, n) ==
    CASE stage = "bin" -> BinV(env, m, n)
      [] stage = "dirs" -> IF c.dirs THEN env.xd[n] ELSE 0
      [] stage = "src" -> env.src[c.site][n]
      [] stage = "path" -> env.path[n]

RECURSIVE Walk(_, _, _, _, _, _, _, _)
\* ps: the probes; i: the next one; dead: names that got a final negative answer; sysoff: the system
\* (stages 3-6) is not looked at any more
Walk(env, st, c, r, ps, i, dead, sysoff) ==
    IF i > Len(ps) THEN Out(Miss(c), st)
    ELSE LET stage == ps[i][1]
             n == ps[i][2]
             m == Mach(env, c.native)
             Go(st2, dead2, sysoff2) == Walk(env, st2, c, r, ps, i + 1, dead2, sysoff2)
             Final(st2) == IF r.final = "call" THEN Out(Miss(c), st2) ELSE Go(st2, dead \cup {n}, sysoff)
             \* [OV] "Meson should not look it up on the system but instead return program"
             FromOverride(st2) ==
                 LET e == st2.ovr[m][n]
                 IN IF Sat(c.con, e.v) THEN Out(Res("found", n, e.kind, e.v), Mark(st2, m, n, c.names))
                    ELSE Final(st2)
             \* [WR] "find_program('myprog') will automatically fallback to use the subproject, assuming it
             \* uses meson.override_find_program('myprog')"
             ViaSub ==
                 LET st2 == Configure(env, st, m, n, r)
                 IN IF st2.sub[m][n] = "failed" /\ Required(c.req) THEN Out(ERR, st2)
                    ELSE IF st2.ovr[m][n] # None THEN FromOverride(st2)
                    ELSE Final(st2)
         IN IF n \in dead THEN Go(st, dead, sysoff)
            ELSE CASE stage = "ovr" -> IF st.ovr[m][n] # None THEN FromOverride(st) ELSE Go(st, dead, sysoff)
                   [] stage = "forced" -> IF Forced(env, n) THEN ViaSub ELSE Go(st, dead, sysoff)
                   [] stage = "fb" ->
                        IF MayFallBack(env, n) /\ ~Forced(env, n) /\ (Required(c.req) \/ r.optfb)
                        THEN ViaSub ELSE Go(st, dead, sysoff)
                   [] OTHER ->
                        LET v == SysV(c, stage, env, m, n)
                        IN IF sysoff \/ v = 0 THEN Go(st, dead, sysoff)
                           ELSE IF Sat(c.con, v)
                                THEN Out(Res("found", n, SrcLabel(c, stage, env, m), v), Mark(st, m, n, c.names))
                           ELSE Go(st, dead, r.mism = "stop")

\* [FE] "disabled: do not look for the dependency and always return 'not-found'"
DoFind(env, st, c, r) ==
    IF c.req = "disabled" THEN Out(IF c.dis THEN Plain("disabler") ELSE Plain("notfound"), st)
    ELSE Walk(env, st, c, r, Probes(c.names, r), 1, {}, FALSE)

Step(env, st, e, r) ==
    CASE e.op = "find" -> DoFind(env, st, e, r)
      [] e.op = "override" -> DoOverride(env, st, e, r)
      [] e.op = "sub" -> DoSub(env, st, e, r)

\* readings that can make a difference for an event in a state (an optimisation only: the law
\* RelevantReadingsSuffice of the model says that the image is the same)
Relevant(env, st, e) ==
    LET find == e.op = "find"
        multi == find /\ Len(e.names) > 1
    IN [nest : IF multi THEN {"names", "sources"} ELSE {Canon.nest},
        final : IF multi THEN {"call", "name"} ELSE {Canon.final},
        mism : IF find /\ e.con # "any" THEN {"stop", "continue"} ELSE {Canon.mism},
        optfb : IF find /\ ~Required(e.req) /\ e.req # "disabled" THEN BOOLEAN ELSE {Canon.optfb},
        alt : IF \A m \in Machines : st.alt[m] \subseteq st.used[m] THEN {Canon.alt} ELSE BOOLEAN,
        sys : {DocSysOrder}]
Outcomes(env, st, e) == { Step(env, st, e, r) : r \in Relevant(env, st, e) }
AllOutcomes(env, st, e) == { Step(env, st, e, r) : r \in Readings }

\* ---- find_program of one name: declarative formulation ----------------------------------------
\* (proved equal to the walk for every call with one name by the model, law OperationalEqualsDeclarative)
SysStages == DocSysOrder
DeclFind(env, st, c, r) ==
    LET n == c.names[1]
        m == Mach(env, c.native)
        found(src, v, st2) == Out(Res("found", n, src, v), Mark(st2, m, n, c.names))
        viaSub == LET st2 == Configure(env, st, m, n, r)
                      e == st2.ovr[m][n]
                  IN IF st2.sub[m][n] = "failed" /\ Required(c.req) THEN Out(ERR, st2)
                     ELSE IF e # None /\ Sat(c.con, e.v) THEN found(e.kind, e.v, st2)
                     ELSE Out(Miss(c), st2)
        present == SelectSeq(r.sys, LAMBDA s : SysV(c, s, env, m, n) # 0)
        good == SelectSeq(present, LAMBDA s : Sat(c.con, SysV(c, s, env, m, n)))
        pick == IF r.mism = "stop"
                THEN (IF present # <<>> /\ Sat(c.con, SysV(c, Head(present), env, m, n)) THEN <<Head(present)>> ELSE <<>>)
                ELSE (IF good # <<>> THEN <<Head(good)>> ELSE <<>>)
    IN IF c.req = "disabled" THEN Out(IF c.dis THEN Plain("disabler") ELSE Plain("notfound"), st)
       ELSE IF st.ovr[m][n] # None
            THEN (IF Sat(c.con, st.ovr[m][n].v) THEN found(st.ovr[m][n].kind, st.ovr[m][n].v, st) ELSE Out(Miss(c), st))
       ELSE IF Forced(env, n) THEN viaSub
       ELSE IF pick # <<>> THEN found(SrcLabel(c, pick[1], env, m), SysV(c, pick[1], env, m, n), st)
       ELSE IF MayFallBack(env, n) /\ (Required(c.req) \/ r.optfb) THEN viaSub
       ELSE Out(Miss(c), st)

\* ---- what a build definition can observe --------------------------------------------------------
\* a subproject that does not exist leaves no trace
ObsSub(env, n, s) == IF s = "failed" /\ env.prov[n] = "none" THEN "unconfigured" ELSE s
SubObs(env, st) == [i \in 1..(Len(NameOrder) * 2) |->
                       LET n == NameOrder[((i - 1) \div 2) + 1]
                           m == MachineOrder[((i - 1) % 2) + 1]
                       IN ObsSub(env, n, st.sub[m][n])]
Proj(env, o) == [kind |-> o.res.kind, name |-> o.res.name, src |-> o.res.src, v |-> o.res.v, sub |-> SubObs(env, o.st)]

=============================================================================
