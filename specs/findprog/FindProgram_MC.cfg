SPECIFICATION Spec
CONSTANTS
 MaxSteps = 1
 VBIN = {0, 3}
 VXD = {0, 1, 3}
 VA = {0, 1, 3}
 VSD = {0, 3}
 ProvA = {"none", "ovr"}
 BProfiles = {"nowhere", "path3"}
 WMs = {"default", "nofallback"}
 FFFs = {{}}
 CrossFamily = FALSE
 NameSeqIds = {"a", "ab"}
 MCReqs = {"true", "false", "disabled"}
 MCCons = {"any", "ge2"}
 MCSites = {"root"}
 MCDirs = {TRUE, FALSE}
 SubV = 3
 MainV = 1
 ProjV = 3
INVARIANT TypeOK
INVARIANT FindLaws
INVARIANT OverrideLaws
PROPERTY UsedNamesAreFrozen
CHECK_DEADLOCK FALSE
POSTCONDITION EmitSpace
