SPECIFICATION Spec
CONSTANTS MaxSteps = 2
 VA = {0, 1, 3}
 VSD = {0, 3}
 ProvA = {"none", "ovr", "noovr", "broken"}
 BProfiles = {"nowhere", "path3", "prov"}
 WMs = {"default", "nofallback", "forcefallback"}
 FFFs = {{}, {"a"}}
 CrossFamily = FALSE
 NameSeqIds = {"a", "ab", "ba"}
 MCReqs = {"true", "false", "disabled"}
 MCCons = {"any", "ge2"}
 SubV = 3
 MainV = 1
 ProjV = 3
INVARIANT TypeOK
INVARIANT RelevantReadingsSuffice
INVARIANT OperationalEqualsDeclarative
INVARIANT OverrideWins
INVARIANT SystemOrder
INVARIANT SourceDirIsTheCallers
INVARIANT DirsOnlyWhenGiven
INVARIANT ForcedNeverUsesSystem
INVARIANT NofallbackNeverConfigures
INVARIANT FallbackOnlyWhenNeeded
INVARIANT FallbackUsedWhenSystemFails
INVARIANT RequiredContract
INVARIANT DisabledSkipsLookup
INVARIANT VersionRespected
INVARIANT VersionMismatchIsNotFound
INVARIANT CacheStable
INVARIANT OverrideBeforeUse
INVARIANT MachinesIsolated
INVARIANT OneLiveNameDecides
INVARIANT FirstNameWinsTies
PROPERTY UsedNamesAreFrozen
CHECK_DEADLOCK FALSE
POSTCONDITION EmitSpace
