---------------------------- MODULE FindProgram_MC ----------------------------
(* Bounded model of a configuration session: an environment from a family selected by the constants,      *)
(* followed by every sequence of up to MaxSteps statements (find_program / meson.override_find_program /  *)
(* subproject) under every reading of the open points.  The laws quantify over the *next* statement in    *)
(* every reachable state, so sessions of MaxSteps + 1 statements are covered without a history variable.  *)
EXTENDS FindProgram, TLC, Json, IOUtils, SequencesExt
CONSTANTS MaxSteps,     \* statements executed before the one the laws look at
          VBIN,         \* versions (0 = absent) of name "a" in the [binaries] sections
          VXD,          \* ... in the dirs: directory
          VA,           \* ... in the root directory / PATH
          VSD,          \* ... in the subdirectory
          ProvA,        \* provider styles of "a"
          BProfiles,    \* what exists of the second name "b" (see BProfile)
          WMs,          \* wrap modes
          FFFs,         \* values of force_fallback_for (sets of names)
          CrossFamily,  \* TRUE: cross builds (two machines, native/cross file), FALSE: native builds
          NameSeqIds,   \* the `names` of find_program calls: "a" | "b" | "ab" | "ba"
          MCReqs, MCCons,
          MCSites, MCDirs,  \* sites and values of "dirs: given" of find_program calls
          SubV, MainV, ProjV
VARIABLES env, st, n

vars == <<env, st, n>>

\* ---- the environment family ---------------------------------------------------------------
Pr(nat, crs, xd, root, sd, path, prov) == [nat |-> nat, crs |-> crs, xd |-> xd, root |-> root, sd |-> sd, path |-> path, prov |-> prov]
Nowhere == Pr(0, 0, 0, 0, 0, 0, "none")
BProfile(p) == CASE p = "nowhere" -> Nowhere
                 [] p = "path3" -> Pr(0, 0, 0, 0, 0, 3, "none")
                 [] p = "path1" -> Pr(0, 0, 0, 0, 0, 1, "none")
                 [] p = "bin3" -> Pr(3, 3, 0, 0, 0, 0, "none")
                 [] p = "xd3" -> Pr(0, 0, 3, 0, 0, 0, "none")
                 [] p = "root1path3" -> Pr(0, 0, 0, 1, 0, 3, "none")
                 [] p = "prov" -> Pr(0, 0, 0, 0, 0, 0, "ovr")
                 [] p = "provpath1" -> Pr(0, 0, 0, 0, 0, 1, "ovr")
AProfiles == IF CrossFamily
             THEN { Pr(nat, crs, 0, 0, 0, path, prov) : nat \in VBIN, crs \in VBIN, path \in VA, prov \in ProvA }
             ELSE { Pr(nat, 0, xd, root, sd, path, prov) : nat \in VBIN, xd \in VXD, root \in VA, sd \in VSD, path \in VA, prov \in ProvA }
ByName(pa, pb, f(_)) == [x \in AllNames |-> IF x = "a" THEN f(pa) ELSE IF x = "b" THEN f(pb) ELSE f(Nowhere)]
MkEnv(wm, fff, pa, pb) ==
    [wm |-> wm, fff |-> fff, cross |-> CrossFamily,
     nat |-> ByName(pa, pb, LAMBDA p : p.nat), crs |-> ByName(pa, pb, LAMBDA p : p.crs),
     xd |-> ByName(pa, pb, LAMBDA p : p.xd), path |-> ByName(pa, pb, LAMBDA p : p.path),
     src |-> [s \in Sites |-> IF s = "root" THEN ByName(pa, pb, LAMBDA p : p.root) ELSE ByName(pa, pb, LAMBDA p : p.sd)],
     prov |-> ByName(pa, pb, LAMBDA p : p.prov),
     subv |-> [x \in AllNames |-> SubV], mainv |-> MainV, projv |-> ProjV]
AllEnvs == { MkEnv(wm, fff, pa, BProfile(pb)) : wm \in WMs, fff \in FFFs, pa \in AProfiles, pb \in BProfiles }

\* ---- the statements ---------------------------------------------------------------------------
NamesOf(k) == CASE k = "a" -> <<"a">> [] k = "b" -> <<"b">> [] k = "ab" -> <<"a", "b">> [] k = "ba" -> <<"b", "a">>
NameSeqs == { NamesOf(k) : k \in NameSeqIds }
Natives == IF CrossFamily THEN BOOLEAN ELSE {FALSE}
Used == UNION { ElemsOf(ns) : ns \in NameSeqs }
FindEvents == { FindEv(ns, rq, nat, cn, d, s, FALSE) :
                  ns \in NameSeqs, rq \in MCReqs, nat \in Natives, cn \in MCCons, d \in MCDirs, s \in MCSites }
              \cup { FindEv(<<"a">>, rq, FALSE, "any", FALSE, "root", TRUE) : rq \in MCReqs }
OverrideEvents == { OverrideEv(x, nat, k) : x \in Used, nat \in Natives, k \in {"prog", "file"} }
SubEvents == { SubEv(x, rq, nat) : x \in Used, rq \in {"true", "false"}, nat \in Natives }
Events == FindEvents \cup OverrideEvents \cup SubEvents
SingleFinds == { e \in FindEvents : Len(e.names) = 1 }
MultiFinds == FindEvents \ SingleFinds

Init == env \in AllEnvs /\ st = InitState /\ n = 0
Do(e, r) == /\ n < MaxSteps
            /\ LET o == Step(env, st, e, r)
               IN o.res.kind # "error" /\ st' = o.st          \* an error aborts the configuration
            /\ n' = n + 1 /\ UNCHANGED env
Next == \E e \in Events : \E r \in Relevant(env, st, e) : Do(e, r)
Spec == Init /\ [][Next]_vars

O(e, r) == Step(env, st, e, r)
Rel(e) == Relevant(env, st, e)
M(e) == Mach(env, e.native)
SystemSrcs == {"nat", "crs", "dirs", "src_root", "src_sd", "path"}
\* a law that fails names itself (the invariants below group laws that look at the same outcome, so that
\* the outcome of a statement is computed once per state, statement and reading)
Law(name, e, holds) == holds \/ (PrintT(<<"LAW VIOLATED", name, e>>) /\ FALSE)

\* ---- laws about the outcome o = Step(env, st, e, r) of a find_program call e ----------------------------
FirstSys(e) == LET present == SelectSeq(SysStages, LAMBDA s : SysV(e, s, env, M(e), e.names[1]) # 0)
               IN IF present = <<>> THEN "" ELSE Head(present)

\* the walk over the probes equals the declarative decision list for one name, under every reading
OperationalEqualsDeclarative(e, r, o) == Len(e.names) = 1 => o = DeclFind(env, st, e, r)

\* an override, once accepted, wins over every other source: nothing is configured, the system is not
\* looked at, the answer is the overriding program or - when its version does not fit - nothing
OverrideWins(e, r, o) ==
    LET ov == st.ovr[M(e)][e.names[1]]
    IN e.req # "disabled" /\ ov # None =>
          /\ (Sat(e.con, ov.v) => o.res = Res("found", e.names[1], ov.kind, ov.v) /\ o.st.sub = st.sub /\ o.st.ovr = st.ovr)
          /\ (~Sat(e.con, ov.v) /\ Len(e.names) = 1 => o.res = Miss(e) /\ o.st = st)

\* the order among the sources of the system is [binaries], dirs:, source directory of the caller, PATH
SystemOrder(e, r, o) ==
    LET x == e.names[1]
        f == FirstSys(e)
    IN Len(e.names) = 1 /\ e.req # "disabled" /\ e.con = "any" /\ st.ovr[M(e)][x] = None /\ ~Forced(env, x) /\ f # "" =>
          o.res = Res("found", x, SrcLabel(e, f, env, M(e)), SysV(e, f, env, M(e), x)) /\ o.st.sub = st.sub
\* a script next to another meson.build is not seen: the source tree is searched "relative to the current subdir"
SourceDirIsTheCallers(e, r, o) ==
    o.res.src \in {"src_root", "src_sd"} => o.res.src = (IF e.site = "root" THEN "src_root" ELSE "src_sd")
\* dirs: only counts when given; [binaries] of the machine file that describes the machine of the lookup
DirsOnlyWhenGiven(e, r, o) == o.res.src = "dirs" => e.dirs
BinariesOfTheRightFile(e, r, o) == o.res.src \in {"nat", "crs"} => o.res.src = BinFile(env, M(e))

\* forced fallback: the system is never used for a name that has a provider
ForcedNeverUsesSystem(e, r, o) ==
    (\A i \in 1..Len(e.names) : Forced(env, e.names[i])) => ~(o.res.src \in SystemSrcs)
\* wrap_mode=nofallback (not overridden by force_fallback_for): no lookup configures a subproject
NofallbackNeverConfigures(e, r, o) == env.wm = "nofallback" /\ env.fff = {} => o.st.sub = st.sub
\* a subproject is configured by a lookup of one name only when the answer does not come from the system
FallbackOnlyWhenNeeded(e, r, o) ==
    Len(e.names) = 1 /\ o.st.sub # st.sub =>
        /\ ~(o.res.src \in SystemSrcs)
        /\ st.ovr[M(e)][e.names[1]] = None
        /\ (Forced(env, e.names[1]) \/ MayFallBack(env, e.names[1]))
\* ... and is used when the system has nothing, a provider exists and fallbacks are not switched off
FallbackUsedWhenSystemFails(e, r, o) ==
    LET x == e.names[1]
    IN /\ Len(e.names) = 1 /\ Required(e.req) /\ st.ovr[M(e)][x] = None /\ FirstSys(e) = "" /\ MayFallBack(env, x)
       /\ st.sub[M(e)][x] = "unconfigured"
       => o.st.sub[M(e)][x] # "unconfigured"

\* required: true never yields a not-found object, required: false / auto / disabled never raises
RequiredContract(e, r, o) ==
    LET k == o.res.kind
    IN /\ (Required(e.req) => k \in {"found", "error"})
       /\ (~Required(e.req) => k \in {"found", "notfound", "disabler"})
       /\ (k = "disabler" => e.dis) /\ (k = "notfound" => ~e.dis)
\* a disabled feature: no lookup at all
DisabledSkipsLookup(e, r, o) == e.req = "disabled" => o.st = st /\ o.res.kind # "found"

\* a found program satisfies the requested version ...
VersionRespected(e, r, o) == o.res.kind = "found" => Sat(e.con, o.res.v)
\* ... and when every candidate of the name has the wrong version the lookup is a miss
VersionMismatchIsNotFound(e, r, o) ==
    LET x == e.names[1]
        m == M(e)
    IN /\ Len(e.names) = 1 /\ e.req # "disabled"
       /\ (st.ovr[m][x] # None => ~Sat(e.con, st.ovr[m][x].v))
       /\ (\A i \in 1..Len(SysStages) : LET v == SysV(e, SysStages[i], env, m, x) IN v # 0 => ~Sat(e.con, v))
       /\ (env.prov[x] = "ovr" => ~Sat(e.con, env.subv[x]))
       => o.res = Miss(e)

\* per machine: a lookup for one machine neither reads nor writes what is remembered for the other one;
\* without a cross file there is one machine and native: makes no difference
OnlyMachine(s, m) == [ovr |-> [k \in Machines |-> IF k = m THEN s.ovr[k] ELSE InitState.ovr[k]],
                      used |-> [k \in Machines |-> IF k = m THEN s.used[k] ELSE {}],
                      alt |-> [k \in Machines |-> IF k = m THEN s.alt[k] ELSE {}],
                      sub |-> [k \in Machines |-> IF k = m THEN s.sub[k] ELSE InitState.sub[k]]]
MachinesIsolated(e, r, o) ==
    LET m == M(e)
        p == Step(env, OnlyMachine(st, m), e, r)
    IN /\ o.res = p.res /\ OnlyMachine(o.st, m) = p.st
       /\ \A k \in Machines \ {m} : o.st.ovr[k] = st.ovr[k] /\ o.st.used[k] = st.used[k] /\ o.st.sub[k] = st.sub[k]
       /\ (~env.cross => Step(env, st, [e EXCEPT !.native = TRUE], r) = o)

\* alternative names: when only one of the names exists anywhere, the answer is that of looking for it alone
Live(x, e) == \/ st.ovr[M(e)][x] # None \/ env.prov[x] # "none"
              \/ \E i \in 1..Len(SysStages) : SysV(e, SysStages[i], env, M(e), x) # 0
OneLiveNameDecides(e, r, o) ==
    LET live == { i \in 1..Len(e.names) : Live(e.names[i], e) }
    IN Len(e.names) > 1 /\ Cardinality(live) = 1 =>
          LET p == Step(env, st, [e EXCEPT !.names = <<e.names[CHOOSE i \in live : TRUE]>>], r)
          IN o.res = p.res /\ o.st.sub = p.st.sub /\ o.st.used = p.st.used
\* ... and the first name wins when it has a program in the best source any of the names has
FirstNameWinsTies(e, r, o) ==
    LET x == e.names[1]
        nothingAbove == \A i \in 1..Len(e.names) : st.ovr[M(e)][e.names[i]] = None /\ ~Forced(env, e.names[i])
    IN /\ Len(e.names) > 1 /\ e.req # "disabled" /\ e.con = "any"
       /\ (st.ovr[M(e)][x] # None \/ (nothingAbove /\ BinV(env, M(e), x) # 0))
       => o.res = Step(env, st, [e EXCEPT !.names = <<x>>], r).res

FindLaws ==
    \A e \in FindEvents : \A r \in Rel(e) :
        LET o == O(e, r)
        IN /\ Law("OperationalEqualsDeclarative", e, OperationalEqualsDeclarative(e, r, o))
           /\ Law("OverrideWins", e, OverrideWins(e, r, o))
           /\ Law("SystemOrder", e, SystemOrder(e, r, o))
           /\ Law("SourceDirIsTheCallers", e, SourceDirIsTheCallers(e, r, o))
           /\ Law("DirsOnlyWhenGiven", e, DirsOnlyWhenGiven(e, r, o))
           /\ Law("BinariesOfTheRightFile", e, BinariesOfTheRightFile(e, r, o))
           /\ Law("ForcedNeverUsesSystem", e, ForcedNeverUsesSystem(e, r, o))
           /\ Law("NofallbackNeverConfigures", e, NofallbackNeverConfigures(e, r, o))
           /\ Law("FallbackOnlyWhenNeeded", e, FallbackOnlyWhenNeeded(e, r, o))
           /\ Law("FallbackUsedWhenSystemFails", e, FallbackUsedWhenSystemFails(e, r, o))
           /\ Law("RequiredContract", e, RequiredContract(e, r, o))
           /\ Law("DisabledSkipsLookup", e, DisabledSkipsLookup(e, r, o))
           /\ Law("VersionRespected", e, VersionRespected(e, r, o))
           /\ Law("VersionMismatchIsNotFound", e, VersionMismatchIsNotFound(e, r, o))
           /\ Law("OneLiveNameDecides", e, OneLiveNameDecides(e, r, o))
           /\ Law("FirstNameWinsTies", e, FirstNameWinsTies(e, r, o))
MachineLaws ==
    \A e \in Events : \A r \in Rel(e) : Law("MachinesIsolated", e, MachinesIsolated(e, r, O(e, r)))
\* (the last clause of MachinesIsolated alone, for the native families)
NativeLaws ==
    ~env.cross => \A e \in Events : \A r \in Rel(e) :
        Law("NativeIrrelevantWithoutCross", e, Step(env, st, [e EXCEPT !.native = TRUE], r) = O(e, r))

\* ---- laws about overriding ----------------------------------------------------------------------------
\* "override must happen before use" [F66], no second override [F65]; an accepted override is what every
\* later lookup of the name on that machine returns
OverrideBeforeUse(e, r, o) ==
    LET x == e.names[1]
        m == M(e)
    IN /\ (x \in st.used[m] \/ st.ovr[m][x] # None => o.res = ERR)
       /\ (~(x \in st.used[m]) /\ ~(x \in st.alt[m]) /\ st.ovr[m][x] = None => o.res.kind = "ok")
       /\ (o.res.kind = "ok" =>
              /\ o.st.ovr[m][x].kind = "main"
              /\ \A c \in SingleFinds : c.names[1] = x /\ Mach(env, c.native) = m /\ c.con = "any" /\ c.req # "disabled"
                    => \A r2 \in Relevant(env, o.st, c) :
                          Step(env, o.st, c, r2).res = Res("found", x, "main", o.st.ovr[m][x].v))
OverrideLaws == \A e \in OverrideEvents : \A r \in Rel(e) : Law("OverrideBeforeUse", e, OverrideBeforeUse(e, r, O(e, r)))
\* a name that has been found keeps its override status for the rest of the session (action property)
UsedNamesAreFrozen ==
    [][\A m \in Machines : \A x \in st.used[m] : st'.ovr[m][x] = st.ovr[m][x] /\ x \in st'.used[m]]_vars

TypeOK ==
    /\ \A m \in Machines, x \in AllNames :
          /\ st.ovr[m][x].kind \in {"none", "main", "sub"}
          /\ st.sub[m][x] \in {"unconfigured", "ok", "failed"}
          /\ (st.ovr[m][x].kind = "sub" => st.sub[m][x] = "ok")
    /\ \A m \in Machines : st.used[m] \subseteq AllNames /\ st.alt[m] \subseteq AllNames
    /\ (~env.cross => st.used["build"] = {} /\ st.alt["build"] = {}
                      /\ \A x \in AllNames : st.ovr["build"][x] = None /\ st.sub["build"][x] = "unconfigured")
    /\ \A e \in OverrideEvents \cup SubEvents : \A r \in Rel(e) :
          O(e, r).res.kind \in (IF e.op = "override" THEN {"ok", "error"} ELSE {"ok", "nf", "error"})

\* ---- the two expensive laws (checked on a smaller family, configuration FindProgram_MCdeep.cfg) ----------
\* the reduced set of readings gives the same outcomes as all 32
RelevantReadingsSuffice == \A e \in Events : AllOutcomes(env, st, e) = Outcomes(env, st, e)
\* cache stability: a name resolved once resolves to the same program for the rest of the configuration
\* (one-step inductive form: repeat at once, and repeat after any other statement under any reading)
CacheStable ==
    \A e \in SingleFinds : \A r \in Rel(e) :
        LET o == O(e, r)
        IN o.res.kind = "found" =>
             /\ Step(env, o.st, e, r) = o
             /\ \A f \in Events : \A r2 \in Relevant(env, o.st, f) :
                   LET p == Step(env, o.st, f, r2)
                   IN p.res.kind # "error" => \A r3 \in Relevant(env, p.st, e) : Step(env, p.st, e, r3).res = o.res

\* ---- the model's input space, for the implementation harness -------------------------------------
EnvJson(e) == [e EXCEPT !.fff = SetToSeq(e.fff)]
EmitSpace == TLCGet("stats").diameter >= 0
             /\ JsonSerialize("findprog_space.json",
                              [envs |-> SetToSeq({ EnvJson(e) : e \in AllEnvs }), events |-> SetToSeq(Events)])
=============================================================================
