--------------------------- MODULE TraceFindProgram ---------------------------
(***************************************************************************)
(* Trace validation for X08.  One case = one session of statements         *)
(* (find_program / meson.override_find_program / subproject) executed by a *)
(* real `meson setup` in one environment: the environment, the statements  *)
(* and, after every statement, what the build definition observed (found / *)
(* which name / from which source / version, or not-found / disabler /     *)
(* error, plus which provider subprojects have been configured for which   *)
(* machine), plus the exit status when the session ends the main project.  *)
(*                                                                         *)
(* The specification is a function only up to the readings of the open     *)
(* points (FindProgram!Readings), so the judge is a monitor over *sets* of *)
(* specification states: S_0 = {InitState}; S_j = the states of all        *)
(* outcomes Outcomes(env, s, ev_j), s \in S_(j-1), whose projection equals *)
(* the j-th observation.  The case is rejected at the first j with S_j     *)
(* empty; the verdict names the law that the observation breaks.           *)
(***************************************************************************)
EXTENDS FindProgram, TLC, Json, IOUtils, SequencesExt

Cases == JsonDeserialize(IOEnv.TRACE_FILE)

VARIABLES i, done
vars == <<i, done>>

SeqToSet(s) == { s[j] : j \in 1..Len(s) }
ToEnv(x) == [wm |-> x.wm, fff |-> SeqToSet(x.fff), cross |-> x.cross, nat |-> x.nat, crs |-> x.crs, xd |-> x.xd,
             path |-> x.path, src |-> x.src, prov |-> x.prov, subv |-> x.subv, mainv |-> x.mainv, projv |-> x.projv]
ToEv(x) == Ev(x.op, x.names, x.req, x.native, x.con, x.dirs, x.site, x.dis, x.okind)
ObsOf(x) == [kind |-> x.kind, name |-> x.name, src |-> x.src, v |-> x.v, sub |-> x.sub]
ResOf(o) == [kind |-> o.kind, name |-> o.name, src |-> o.src, v |-> o.v]

WellFormedEnv(e) ==
    /\ e.wm \in WrapModes /\ e.fff \subseteq AllNames /\ e.cross \in BOOLEAN
    /\ \A n \in AllNames : /\ e.prov[n] \in ProvStyles
                           /\ \A f \in {e.nat, e.crs, e.xd, e.path, e.src["root"], e.src["sd"], e.subv} : f[n] \in 0..9
    /\ (~e.cross => \A n \in AllNames : e.crs[n] = 0)
WellFormedEv(e) ==
    /\ e.op \in {"find", "override", "sub"} /\ Len(e.names) >= 1 /\ SeqToSet(e.names) \subseteq AllNames
    /\ e.req \in Reqs /\ e.con \in Constraints /\ e.site \in Sites
    /\ (e.op # "find" => Len(e.names) = 1)

PossibleOuts(env, S, ev) == UNION { Outcomes(env, s, ev) : s \in S }

RECURSIVE Fold(_, _, _, _, _)
\* first step whose observation no outcome explains (0 = none), with the possible states before it
Fold(env, evs, obs, j, S) ==
    IF j > Len(obs) THEN [step |-> 0, S |-> S]
    ELSE LET ok == { o \in PossibleOuts(env, S, evs[j]) : Proj(env, o) = obs[j] }
         IN IF ok = {} THEN [step |-> j, S |-> S]
            ELSE Fold(env, evs, obs, j + 1, { o.st : o \in ok })

SystemSrcs == {"nat", "crs", "dirs", "src_root", "src_sd", "path"}

\* diagnosis: orders of the four sources of the system, other than the documented one, under which the
\* observation would have been explained (the smallest in the order of the documented positions)
Perms4 == { p \in [1..4 -> 1..4] : \A a, b \in 1..4 : a # b => p[a] # p[b] }
OrderOf(p) == [k \in 1..4 |-> DocSysOrder[p[k]]]
Code(p) == p[1] * 64 + p[2] * 16 + p[3] * 4 + p[4]
ExplainingOrders(env, S, ev, got) ==
    { p \in Perms4 : /\ OrderOf(p) # DocSysOrder
                      /\ \E s \in S : \E r \in Relevant(env, s, ev) :
                             Proj(env, Step(env, s, ev, [r EXCEPT !.sys = OrderOf(p)])) = got }
OrderNote(env, S, ev, got) ==
    LET E == ExplainingOrders(env, S, ev, got)
    IN IF ev.op # "find" \/ E = {} THEN <<>> ELSE OrderOf(CHOOSE p \in E : \A q \in E : Code(p) <= Code(q))

\* the law an unexplained observation breaks (first that applies)
ClauseAt(env, S, evs, obs, j) ==
    LET ev == evs[j]
        got == obs[j]
        s == CHOOSE s \in S : TRUE
        m == Mach(env, ev.native)
        exp == { Proj(env, o) : o \in PossibleOuts(env, S, ev) }
    IN IF ev.op = "override" THEN "OverrideBeforeUse"
       ELSE IF ev.op = "sub" /\ env.cross /\ \E o \in Machines \ {m} :
                                s.sub[o][ev.names[1]] = "failed" /\ s.sub[m][ev.names[1]] # "failed"
            THEN "SubprojectsPerMachine"
       ELSE IF ev.op = "sub" THEN "SubprojectCall"
       ELSE IF ~(got.kind \in {"found", "notfound", "disabler", "error"}) THEN "Observation"
       ELSE IF got.kind = "error" /\ ~Required(ev.req) THEN "RequiredFalseNeverRaises"
       ELSE IF ev.req = "disabled" THEN "DisabledSkipsLookup"
       ELSE IF got.kind \in {"notfound", "disabler"} /\ Required(ev.req) THEN "RequiredNotFoundIsError"
       ELSE IF got.kind \in {"notfound", "disabler"} /\ \A x \in exp : x.kind \in {"notfound", "disabler"} /\ x.sub = got.sub
            THEN "DisablerKwarg"
       ELSE IF got.kind = "found" /\ ~Sat(ev.con, got.v) THEN "VersionRespected"
       ELSE IF \E k \in 1..Len(ev.names) : s.ovr[m][ev.names[k]] # None THEN "OverrideWins"
       ELSE IF OrderNote(env, S, ev, got) # <<>> THEN "SystemOrder"
       ELSE IF /\ \E k \in 1..Len(ev.names) : Forced(env, ev.names[k])
               /\ LET P == { k \in 1..Len(ev.names) : env.prov[ev.names[k]] # "none" }
                  IN ~Forced(env, ev.names[CHOOSE k \in P : \A q \in P : k <= q])
            THEN "ForcedAppliesToEveryName"
       ELSE IF got.src \in SystemSrcs /\ \A k \in 1..Len(ev.names) : Forced(env, ev.names[k]) THEN "ForcedNeverUsesSystem"
       ELSE IF env.wm = "nofallback" /\ (\A k \in 1..Len(ev.names) : ~Forced(env, ev.names[k])) /\ got.sub # SubObs(env, s)
            THEN "NofallbackNeverConfigures"
       ELSE IF env.cross /\ \E k \in 1..Len(ev.names) : \E o \in Machines \ {m} :
                               s.sub[o][ev.names[k]] = "failed" /\ s.sub[m][ev.names[k]] # "failed"
            THEN "SubprojectsPerMachine"
       ELSE IF j > 1 /\ evs[j - 1] = ev /\ obs[j - 1].kind = "found" /\ ResOf(obs[j - 1]) # ResOf(got) THEN "CacheStable"
       ELSE IF got.src \in {"src_root", "src_sd"} /\ got.src # (IF ev.site = "root" THEN "src_root" ELSE "src_sd")
            THEN "SourceDirIsTheCallers"
       ELSE IF got.src = "dirs" /\ ~ev.dirs THEN "DirsOnlyWhenGiven"
       ELSE IF got.src \in {"nat", "crs"} /\ got.src # BinFile(env, m) THEN "BinariesOfTheRightFile"
       ELSE IF got.src \in SystemSrcs /\ \E x \in exp : x.src \in SystemSrcs THEN "SystemOrder"
       ELSE IF got.kind = "found" /\ got.src \in SystemSrcs /\ got.sub # SubObs(env, s) /\ Len(ev.names) = 1 THEN "FallbackOnlyWhenNeeded"
       ELSE "DecisionTable"

NoObs == [kind |-> "", name |-> "", src |-> "", v |-> 0, sub |-> <<>>]
Verdict(id, clause, step, expected, got) ==
    [id |-> id, clause |-> clause, step |-> step, expected |-> expected, got |-> got, order |-> <<>>]

Judge(c) ==
    LET env == ToEnv(c.env)
        evs == [j \in 1..Len(c.evs) |-> ToEv(c.evs[j])]
        obs == [j \in 1..Len(c.obs) |-> ObsOf(c.obs[j])]
        L == Len(obs)
    IN IF ~WellFormedEnv(env) \/ \E j \in 1..Len(evs) : ~WellFormedEv(evs[j]) THEN Verdict(c.id, "MalformedCase", 0, <<>>, NoObs)
       ELSE IF L > Len(evs) \/ (L < Len(evs) /\ (L = 0 \/ obs[L].kind # "error")) \/ \E j \in 1..(L - 1) : obs[j].kind = "error"
            THEN Verdict(c.id, "MalformedCase", L, <<>>, NoObs)
       ELSE LET f == Fold(env, evs, obs, 1, {InitState})
            IN IF f.step # 0
               THEN [Verdict(c.id, ClauseAt(env, f.S, evs, obs, f.step), f.step,
                             SetToSeq({ Proj(env, o) : o \in PossibleOuts(env, f.S, evs[f.step]) }), obs[f.step])
                     EXCEPT !.order = OrderNote(env, f.S, evs[f.step], obs[f.step])]
               ELSE IF c.rc >= 0 /\ c.rc # (IF L > 0 /\ obs[L].kind = "error" THEN 1 ELSE 0)
                    THEN Verdict(c.id, "ExitStatus", L, <<>>, NoObs)
               ELSE Verdict(c.id, "ok", 0, <<>>, NoObs)

Init == i \in 1..Len(Cases) /\ done = FALSE
Next == /\ ~done
        /\ done' = TRUE
        /\ i' = i
        /\ LET v == Judge(Cases[i]) IN v.clause = "ok" \/ PrintT(ToJson(v))
Spec == Init /\ [][Next]_vars
=============================================================================
