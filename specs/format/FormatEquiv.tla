----------------------------- MODULE FormatEquiv -----------------------------
(***************************************************************************)
(* What `meson format` may and may not change (property C16).               *)
(*                                                                          *)
(* Norm(tree) is the meaning-preserving normal form of a program tree of    *)
(* MesonGrammar: extents erased, string literals replaced by what they      *)
(* denote (so a ''' ''' or f-string may be rewritten to a plain literal     *)
(* only if it denotes the same string), files([..]) flattened to            *)
(* files(..), and - when sort_files is on - the positional arguments of     *)
(* files() compared as a multiset.  Whitespace, comments, trailing commas   *)
(* and line breaks are not part of the tree at all.  A formatter run is     *)
(* correct iff Norm(Parse(in)) = Norm(Parse(out)), the comment sequences    *)
(* agree, a second run is the identity, and the check flags tell the truth. *)
(***************************************************************************)
EXTENDS MesonGrammar, MesonValues, TLC

\* does the text contain an f-string placeholder @identifier@ ?
IsIdStartC(c) == IsUpper(c) \/ IsLower(c) \/ c = 95
IsIdCharC(c) == IsIdStartC(c) \/ IsDigit(c)
RECURSIVE ScanId(_, _)
ScanId(s, i) == IF i <= Len(s) /\ IsIdCharC(s[i]) THEN ScanId(s, i + 1) ELSE i
HasPlaceholder(s) == \E i \in 1..Len(s) : s[i] = 64 /\ i + 1 <= Len(s) /\ IsIdStartC(s[i + 1])
                                          /\ LET j == ScanId(s, i + 1) IN j <= Len(s) /\ s[j] = 64

\* denotation of a string literal: <<"lit" | "fmt", characters>>, or <<"raw", flavour, raw>> when the escape
\* decoding is outside the model (\N{name}): then only an unchanged literal is known to be equal
Denote(flavour, raw) ==
    LET dec == IF flavour \in {"s", "fs"} THEN Unescape(raw) ELSE <<"ok", raw>> IN
    IF dec[1] # "ok" THEN <<"raw", flavour, raw>>
    ELSE <<IF flavour \in {"fs", "mfs"} /\ HasPlaceholder(dec[2]) THEN "fmt" ELSE "lit", "", dec[2]>>

RECURSIVE Norm(_, _)
NormSeq(s, sortFiles) == [i \in 1..Len(s) |-> Norm(s[i], sortFiles)]
\* multiset of normalised arguments, as a function value -> multiplicity
Bag(s) == LET vals == { s[i] : i \in 1..Len(s) } IN [v \in vals |-> Cardinality({ i \in 1..Len(s) : s[i] = v })]

Norm(node, sortFiles) ==
    LET k == node.k IN
    IF k = "str" THEN <<"str", Denote(node.v, node.cs)>>
    ELSE IF k = "num" THEN <<"num", node.n>>
    ELSE IF k \in {"id", "bool", "continue", "break", "empty"} THEN <<k, node.v, node.n>>
    ELSE IF k = "call" /\ node.v = "files" THEN
         LET a == node.c[1]
             flat == IF Len(a.c) = 1 /\ a.d = <<>> /\ a.c[1].k = "arr" /\ a.n = 0 THEN a.c[1].c[1] ELSE a
             pos == NormSeq(flat.c, sortFiles)
         IN <<"files", IF sortFiles THEN <<"bag", Bag(pos)>> ELSE <<"seq", pos>>, NormSeq(flat.d, sortFiles), flat.n>>
    ELSE <<k, node.v, IF k \in OpPosKinds THEN 0 ELSE node.n, NormSeq(node.c, sortFiles), NormSeq(node.d, sortFiles)>>

=============================================================================
