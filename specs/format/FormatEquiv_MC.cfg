SPECIFICATION Spec
CONSTANTS MaxLen = 4
INVARIANT TriviaInvariant
INVARIANT NormDeterministic
INVARIANT SortOnlyAffectsFiles
CHECK_DEADLOCK FALSE
