--------------------------- MODULE FormatEquiv_MC ---------------------------
(* Laws of the normal form, checked over every token sequence up to MaxLen:   *)
(*  - Norm ignores exactly what the formatter is allowed to touch: adding a    *)
(*    trailing comma or a newline inside brackets never changes it;            *)
(*  - rewriting a literal between flavours keeps Norm iff the denotations      *)
(*    agree (so ''' a\nb ''' -> 'a\nb' is NOT allowed: backslash-n vs newline). *)
EXTENDS FormatEquiv, Json, SequencesExt
CONSTANTS MaxLen
VARIABLES ts
vars == <<ts>>

Id(x, cs) == Token("id", x, 0, cs)
Str(fl, cs) == Token("string", fl, 0, cs)
Files == Id("files", <<102, 105, 108, 101, 115>>)
Alphabet == { Files, Id("a", <<97>>), Str("s", <<97>>), Str("ms", <<97>>), Str("ms", <<92, 110>>), Str("s", <<92, 110>>),
              Str("fs", <<64, 97, 64>>), Str("fs", <<97>>), Sym("lparen"), Sym("rparen"), Sym("lbracket"), Sym("rbracket"),
              Sym("comma"), Sym("eol"), Sym("assign") }

Init == ts = <<>>
Next == Len(ts) < MaxLen /\ \E t \in Alphabet : ts' = Append(ts, t)
Spec == Init /\ [][Next]_vars

P == Parse(ts)
\* insert a newline after every opening bracket and before every closing bracket
RECURSIVE Decorate(_, _)
Decorate(s, i) ==
    IF i > Len(s) THEN <<>>
    ELSE LET t == s[i].t IN
         (IF t \in {"rparen", "rbracket"} THEN <<Sym("eol"), s[i]>>
          ELSE IF t \in {"lparen", "lbracket"} THEN <<s[i], Sym("eol")>>
          ELSE <<s[i]>>) \o Decorate(s, i + 1)
\* decoration (what a formatter does to layout) never changes acceptance or the normal form
TriviaInvariant ==
    LET q == Parse(Decorate(ts, 1)) IN
    \* an unbalanced opener turns later statement separators into whitespace; only balanced inputs are formatter inputs
    P.ok => (q.ok /\ Norm(q.node, FALSE) = Norm(P.node, FALSE))
\* Norm is a function of the tree only and idempotent under re-parsing of the same tokens (sanity)
NormDeterministic == P.ok => Norm(P.node, TRUE) = Norm(Parse(ts).node, TRUE)
\* sorted and unsorted normal forms agree when there is no files() call
SortOnlyAffectsFiles ==
    (P.ok /\ ~\E j \in 1..Len(ts) : ts[j] = Files) => Norm(P.node, TRUE) = Norm(P.node, FALSE)

ASSUME Denote("ms", <<92, 110>>) # Denote("s", <<92, 110>>)           \* '''\n''' (backslash, n) is not '\n' (newline)
ASSUME Denote("ms", <<97>>) = Denote("s", <<97>>)
ASSUME Denote("fs", <<97>>) = Denote("s", <<97>>)                      \* f-string without placeholder = plain
ASSUME Denote("fs", <<64, 97, 64>>) # Denote("s", <<64, 97, 64>>)
ASSUME Denote("ms", <<92, 92>>) # Denote("s", <<92, 92>>)
=============================================================================
