----------------------------- MODULE TraceFormat -----------------------------
(* Trace validation of the real formatter (C16).  One case = one run of       *)
(* Formatter.format on a text under one configuration:                         *)
(*   tin / tout     token sequences of input and output (indices into alphabet) *)
(*   cin / cout     comment texts (code points) in order                        *)
(*   parsed         the output was accepted by the real lexer/parser            *)
(*   again          formatting the output again gave the same text              *)
(*   againclass     "indent" when the second pass only re-indents lines and is  *)
(*                  itself a fixpoint (a recorded finding), else ""             *)
(*   changed        output text differs from input text                         *)
(*   checkrc, diffrc  exit status of --check-only / --check-diff (-1 = not run) *)
(*   sortfiles      configuration flag sort_files                               *)
EXTENDS FormatEquiv, Json, IOUtils

Batch == JsonDeserialize(IOEnv.TRACE_FILE)
Alphabet == Batch.alphabet
Cases == Batch.cases

VARIABLES i, done
vars == <<i, done>>

V(c, clause, note) == [id |-> c.id, clause |-> clause, note |-> note]
Toks(ix) == [j \in 1..Len(ix) |-> Alphabet[ix[j] + 1]]
StripComments(cs) == [j \in 1..Len(cs) |-> RStrip(cs[j], WsChars)]

RECURSIVE HasEmpty(_), HasOrderError(_)
HasEmpty(x) == x.k = "empty" \/ (\E j \in 1..Len(x.c) : HasEmpty(x.c[j])) \/ (\E j \in 1..Len(x.d) : HasEmpty(x.d[j]))
HasOrderError(x) == (x.k = "args" /\ x.n = 1)
                    \/ (\E j \in 1..Len(x.c) : HasOrderError(x.c[j])) \/ (\E j \in 1..Len(x.d) : HasOrderError(x.d[j]))
\* Two classes of inputs that parse but can never be evaluated are reported under their own names:
\* a missing operand (`x = 1 +`) and a positional argument after a keyword argument (`f(a: 1, b)`).
Tag(pin, clause) == IF HasEmpty(pin.node) THEN clause \o ":InputHasMissingOperand"
                    ELSE IF HasOrderError(pin.node) THEN clause \o ":InputHasPositionalAfterKeyword"
                    ELSE clause

\* comments: same sequence; with sort_files the arguments of files() move together with the comments attached to
\* them, so only the multiset is fixed
SameComments(c) == LET a == StripComments(c.cin)
                       b == StripComments(c.cout)
                   IN IF c.sortfiles THEN Bag(a) = Bag(b) ELSE a = b

\* formatting an empty program may legitimately yield an empty or newline-only text
Judge(c) ==
    LET pin == Parse(Toks(c.tin)) IN
    IF ~pin.ok THEN V(c, "ok", "input rejected by the reference grammar: not a formatter input")
    ELSE IF ~c.parsed THEN V(c, Tag(pin, "OutputDoesNotParse"), "")
    ELSE LET pout == Parse(Toks(c.tout)) IN
         IF ~pout.ok THEN V(c, Tag(pin, "OutputRejectedByReference"), "")
         ELSE IF Norm(pin.node, c.sortfiles) # Norm(pout.node, c.sortfiles) THEN V(c, Tag(pin, "TreeDiffers"), "")
         ELSE IF ~SameComments(c) THEN V(c, Tag(pin, "CommentsDiffer"), "")
         ELSE IF ~c.again THEN V(c, Tag(pin, IF c.againclass = "indent" THEN "NotIdempotent:IndentationSettlesOnSecondPass"
                                      ELSE IF c.againclass = "continuation" THEN "NotIdempotent:InputHasLineContinuation"
                                      ELSE IF c.againclass = "nosinglecomma" THEN "NotIdempotent:NoSingleCommaFunctionCollapsesOnSecondPass"
                                      ELSE IF c.againclass = "settles" THEN "NotIdempotent:LayoutSettlesOnALaterPass"
                                      ELSE "NotIdempotent"), "")
         ELSE IF c.checkrc # -1 /\ (c.checkrc # 0) # c.changed THEN V(c, "CheckOnlyWrong", "")
         ELSE IF c.diffrc # -1 /\ (c.diffrc # 0) # c.changed THEN V(c, "CheckDiffWrong", "")
         ELSE V(c, "ok", "")

Init == i \in 1..Len(Cases) /\ done = FALSE
Next == /\ ~done
        /\ done' = TRUE
        /\ i' = i
        /\ LET v == Judge(Cases[i]) IN v.clause = "ok" \/ PrintT(ToJson(v))
Spec == Init /\ [][Next]_vars
=============================================================================
