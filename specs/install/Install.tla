------------------------------- MODULE Install -------------------------------
(***************************************************************************)
(* Rule book of `meson install` / `uninstall` (property C11), written from *)
(* docs/markdown/Installing.md, the reference manual entries of            *)
(* install_data / install_headers / install_man / install_subdir /         *)
(* install_emptydir / install_symlink / custom_target / configure_file,    *)
(* Builtin-options.md (install_umask), Release-notes-for-0.64.0.md (the    *)
(* sticky bit) and the pinned tests `59 install subdir`,                   *)
(* `190 install_mode`, `26 install umask`, test_install_log_content.       *)
(*                                                                         *)
(* Declarative formulation: what the tree below DESTDIR must be after one  *)
(* `meson install` invocation, as a comprehension over the install rules   *)
(* of the build definition (the "plan"), and which paths the install log   *)
(* must name.  InstallOps.tla is the operational (one file-system call at  *)
(* a time) formulation; Install_MC proves them equal and checks the laws;  *)
(* TraceInstall judges recorded executions of the real command.            *)
(*                                                                         *)
(* A path is a sequence of names.  A tree is a function path -> node; the  *)
(* root <<>> of a tree is DESTDIR itself (absent = DESTDIR does not exist).*)
(***************************************************************************)
EXTENDS Integers, Sequences, FiniteSets

\* ---- small helpers (own names: no clash with SequencesExt) ----------------
Rng(s)        == { s[k] : k \in 1..Len(s) }
LastOf(s)     == s[Len(s)]
FrontOf(s)    == SubSeq(s, 1, Len(s) - 1)
PfxOf(a, b)   == Len(a) <= Len(b) /\ SubSeq(b, 1, Len(a)) = a       \* a is a prefix of b
SPfxOf(a, b)  == Len(a) <  Len(b) /\ SubSeq(b, 1, Len(a)) = a       \* a is a proper prefix of b
Ancestors(p)  == { SubSeq(p, 1, k) : k \in 0..(Len(p) - 1) }        \* proper prefixes, root included
SelfAndAnc(p) == { SubSeq(p, 1, k) : k \in 0..Len(p) }

\* ---- permission bits --------------------------------------------------------
Bit(n, k)    == (n \div (2 ^ k)) % 2
AndNot(m, u) == LET b(k) == IF Bit(m, k) = 1 /\ Bit(u, k) = 0 THEN 2 ^ k ELSE 0
                IN b(0) + b(1) + b(2) + b(3) + b(4) + b(5) + b(6) + b(7) + b(8) + b(9) + b(10) + b(11)
HasX(m)      == Bit(m, 0) = 1 \/ Bit(m, 3) = 1 \/ Bit(m, 6) = 1
\* the mode of an entry is st_mode & 07777: permission bits 0..8 and the special bits
StickyBit == 9      \* 't' / 'T' in the last triplet
SgidBit   == 10     \* 's' / 'S' in the group triplet
SuidBit   == 11     \* 's' / 'S' in the user triplet
ClearBit(m, k) == m - Bit(m, k) * (2 ^ k)

\* ---- nodes --------------------------------------------------------------------
\* t: "file" | "dir" | "link";  m: permission and special bits (0 for links);  l: link target;  c: content id;
\* u, g: owner and group id (what lstat reports as st_mode & 07777, st_uid, st_gid);  mt: modification time of a file (an
\* integer, only ever compared; 0 for directories and links, whose times play no role)
File(m, c, u, g, mt) == [t |-> "file", m |-> m, l |-> "", c |-> c,  u |-> u, g |-> g, mt |-> mt]
Dir(m, u, g)         == [t |-> "dir",  m |-> m, l |-> "", c |-> "", u |-> u, g |-> g, mt |-> 0]
Link(l, u, g)        == [t |-> "link", m |-> 0, l |-> l,  c |-> "", u |-> u, g |-> g, mt |-> 0]
\* what an observer of the tree is promised: everything but the time of an installed file (a copy carries the time of
\* its origin here; the rule book only needs "not older than the origin" right after installing)
Obs(T) == [ p \in DOMAIN T |-> [T[p] EXCEPT !.mt = 0] ]

(***************************************************************************)
(* Options `o` of the configured build:                                    *)
(*   prefix, bindir, sbindir, libdir, includedir, localedir, datadir,      *)
(*   mandir : paths (the directory options are relative to the prefix);    *)
(*   proj : name of the main project;  umask : install_umask, -1 =         *)
(*   'preserve';  eumask : umask of the process that runs `meson install`; *)
(*   uid, gid : effective ids of that process (what it creates is its own).*)
(*                                                                         *)
(* Install rule `i` (one installed thing of the build definition):         *)
(*   kind  "data" | "header" | "man" | "subdir" | "emptydir" | "symlink" | *)
(*         "target"                                                        *)
(*   sub   subproject name, "" = main project                              *)
(*   dir   [k |-> "none" | "rel" | "abs", p |-> path]  install_dir as      *)
(*         written (emptydir: the directory itself)                        *)
(*   src   source path relative to the (sub)project (subdir: the directory;*)
(*         symlink: <<link name>>; target: <<output name>>)                *)
(*   rename (data), pp = preserve_path (data, header), hsub = `subdir:`    *)
(*   (header), stem/locale/sect (man: source is stem[.locale].sect),       *)
(*   strip = strip_directory, exf/exd = exclude_files/_directories,        *)
(*   st    source entries [p, t, m, c, mt] (subdir: relative to the        *)
(*         directory, parents first; file kinds: one entry with p = <<>>); *)
(*         mt = modification time of the (resolved) file                   *)
(*   mode  install_mode, first element: the nine-character permission      *)
(*         string as bits 0..11 (special bits included), -1 = not given /  *)
(*         false;  own, grp  second and third element: owner and group as  *)
(*         numeric ids (a name stands for its id), -1 = not given / false  *)
(*   tag   install_tag, "" = not given;  ext = suffix of the installed name*)
(*   to    pointing_to (symlink);  fl  follow_symlinks: "" | "true" | "false"  *)
(***************************************************************************)
Rel(p) == [k |-> "rel", p |-> p]

\* final location on the target system: relative directories are below the prefix, absolute ones stay
AbsOf(o, d) == IF d.k = "abs" THEN d.p ELSE o.prefix \o d.p

ProjName(o, i) == IF i.sub = "" THEN o.proj ELSE i.sub

\* where the rule installs to when install_dir is omitted (reference manual of each function)
InstallDir(o, i) ==
    IF i.dir.k # "none" THEN i.dir
    ELSE CASE i.kind = "data"   -> Rel(o.datadir \o <<ProjName(o, i)>>)
           [] i.kind = "header" -> Rel(o.includedir \o i.hsub)
           [] i.kind = "man"    -> Rel(o.mandir \o (IF i.locale = "" THEN <<>> ELSE <<i.locale>>) \o <<"man" \o i.sect>>)
           [] OTHER             -> Rel(<<>>)

\* path of the installed file below its install directory
FileRel(i) ==
    CASE i.kind = "data"   -> (IF i.pp THEN FrontOf(i.src) ELSE <<>>)
                              \o (IF i.rename # <<>> THEN i.rename ELSE <<LastOf(i.src)>>)
      [] i.kind = "header" -> (IF i.pp THEN FrontOf(i.src) ELSE <<>>) \o <<LastOf(i.src)>>
      [] i.kind = "man"    -> <<i.stem \o "." \o i.sect>>      \* the locale is stripped from the installed name
      [] OTHER             -> <<LastOf(i.src)>>                 \* target, symlink

FileDest(o, i) == AbsOf(o, InstallDir(o, i)) \o FileRel(i)

\* permissions of an installed file / copied directory whose origin has mode srcm
DefaultPerm(o, srcm) ==
    IF o.umask >= 0 THEN AndNot(IF HasX(srcm) THEN 511 ELSE 438, o.umask)   \* 0777 / 0666 masked by install_umask
    ELSE srcm                                                                \* 'preserve': copied from the origin
\* install_mode of a rule that installs files: the declared bits, set-user-ID and set-group-ID included; "the sticky
\* bit on a file does not do anything and will be ignored" (release notes of 0.64.0: every function but install_emptydir)
ModeOf(o, i, srcm) == IF i.mode >= 0 THEN ClearBit(i.mode, StickyBit) ELSE DefaultPerm(o, srcm)
\* owner and group of what the rule installs: as declared, else ("false" = the default) whoever runs the installation
OwnerOf(o, i) == IF i.own >= 0 THEN i.own ELSE o.uid
GroupOf(o, i) == IF i.grp >= 0 THEN i.grp ELSE o.gid
\* a directory made on the way (no origin): default permissions under the effective umask
NewDirMode(o) == AndNot(511, IF o.umask >= 0 THEN o.umask ELSE o.eumask)
NewDir(o)     == Dir(NewDirMode(o), o.uid, o.gid)

\* ---- install_subdir -------------------------------------------------------------
SubBase(o, i) == AbsOf(o, i.dir) \o (IF i.strip THEN <<>> ELSE <<LastOf(i.src)>>)
Excluded(i, e) ==
    IF e.t # "dir"
    THEN e.p \in Rng(i.exf) \/ \E a \in Ancestors(e.p) \ {<<>>} : a \in Rng(i.exd)
    ELSE \E a \in SelfAndAnc(e.p) \ {<<>>} : a \in Rng(i.exd)
Kept(i) == { e \in Rng(i.st) : ~Excluded(i, e) }

\* ---- what one rule puts into the tree ----------------------------------------------
\* what one source entry becomes.  A source that is a symbolic link (t = "link": l = its text, r = "file" / "fixed" when
\* it resolves to a regular file whose mode/content are m/c, "none" when it dangles) is dereferenced and copied unless
\* follow_symlinks is false (i.fl = "false"; the default still follows); a dangling link is replicated as it is.
\* A copied link has no permissions of its own but it has an owner and a group, and installing it changes nothing else.
\* LAW (install_mode): the installed entry has exactly the declared mode, owner and group - each of the three where the
\* rule declares it, otherwise the umask-sanitised mode of the origin / the ids of the installing process.
EntryNode(o, i, e) ==
    IF e.t = "link" /\ (e.r = "none" \/ i.fl = "false") THEN Link(e.l, OwnerOf(o, i), GroupOf(o, i))
    ELSE File(ModeOf(o, i, e.m), e.c, OwnerOf(o, i), GroupOf(o, i), e.mt)
\* leaves: files and links, [p |-> path, n |-> node]
Leaves(o, i) ==
    CASE i.kind \in {"data", "header", "man", "target"} ->
           { [p |-> FileDest(o, i), n |-> EntryNode(o, i, i.st[1])] }
      [] i.kind = "subdir" ->
           { [p |-> SubBase(o, i) \o e.p, n |-> EntryNode(o, i, e)] : e \in { x \in Kept(i) : x.t # "dir" } }
      [] i.kind = "symlink" ->
           { [p |-> AbsOf(o, i.dir) \o <<LastOf(i.src)>>, n |-> Link(i.to, o.uid, o.gid)] }
      [] OTHER -> {}
\* directories copied from a source directory (install_subdir), [p, m]: install_mode is "for the installed files", the
\* directories get default permissions and belong to the installing process
InnerDirs(o, i) ==
    IF i.kind = "subdir"
    THEN { [p |-> SubBase(o, i) \o e.p, m |-> DefaultPerm(o, e.m)] : e \in { x \in Kept(i) : x.t = "dir" } }
    ELSE {}
\* directories whose permissions the rule dictates (install_emptydir), [p, m, u, g]; -1: leave as is / default.
\* The declared bits are taken as they are (set-user-ID, set-group-ID and sticky included).
ForcedDirs(o, i) ==
    IF i.kind = "emptydir"
    THEN { [p |-> AbsOf(o, i.dir), m |-> IF i.mode >= 0 THEN i.mode ELSE IF o.umask >= 0 THEN AndNot(511, o.umask) ELSE -1,
            u |-> i.own, g |-> i.grp] }
    ELSE {}
\* what a directory the rules dictate becomes: n = what is there already, or a directory just made
Forced(n, f) == Dir(IF f.m >= 0 THEN f.m ELSE n.m, IF f.u >= 0 THEN f.u ELSE n.u, IF f.g >= 0 THEN f.g ELSE n.g)
\* directories that must exist although nothing may be put into them
BaseDirs(o, i) ==
    CASE i.kind = "subdir"  -> { SubBase(o, i) }
      [] i.kind = "symlink" -> { AbsOf(o, i.dir) }
      [] OTHER -> {}

\* ---- tags and subprojects (Installing.md, "Installation tags") --------------------
GuessPath(o, i) ==
    CASE i.kind = "subdir"   -> AbsOf(o, i.dir) \o <<"dummy">>
      [] i.kind = "emptydir" -> AbsOf(o, i.dir)
      [] OTHER               -> FileDest(o, i)
GuessTag(o, q, ext) ==
    LET under(d) == SPfxOf(o.prefix \o d, q) IN
    IF under(o.bindir) \/ under(o.sbindir) THEN "runtime"
    ELSE IF under(o.libdir) THEN (IF ext \in {".a", ".pc"} THEN "devel" ELSE IF ext \in {".so", ".dll"} THEN "runtime" ELSE "")
    ELSE IF under(o.includedir) THEN "devel"
    ELSE IF under(o.localedir) THEN "i18n"
    ELSE IF "installed-tests" \in Rng(q) THEN "tests"
    ELSE IF "systemtap" \in Rng(q) THEN "systemtap"
    ELSE ""
TagOf(o, i) ==
    IF i.tag # "" THEN i.tag
    ELSE CASE i.kind = "header" -> "devel"
           [] i.kind = "man"    -> "man"
           [] OTHER             -> GuessTag(o, GuessPath(o, i), i.ext)

\* a = [tags |-> seq of tags (<<>> = no --tags), skip |-> seq of subproject names ("*" = all), dry, oc]
ShouldInstall(o, i, a) ==
    /\ ~(i.sub # "" /\ (i.sub \in Rng(a.skip) \/ "*" \in Rng(a.skip)))
    /\ (a.tags = <<>> \/ TagOf(o, i) \in Rng(a.tags))
Selected(plan, o, a) == { i \in plan : ShouldInstall(o, i, a) }

\* ---- one `meson install` ---------------------------------------------------------------
AllLeaves(sel, o) == UNION { Leaves(o, i) : i \in sel }
AllInner(sel, o)  == UNION { InnerDirs(o, i) : i \in sel }
AllForced(sel, o) == UNION { ForcedDirs(o, i) : i \in sel }
DirPaths(sel, o)  ==
    UNION { Ancestors(x.p) : x \in AllLeaves(sel, o) }
    \cup UNION { SelfAndAnc(x.p) : x \in AllInner(sel, o) \cup AllForced(sel, o) }
    \cup UNION { SelfAndAnc(b) : b \in UNION { BaseDirs(o, i) : i \in sel } }

\* --only-changed: "Only overwrite files that are older than the copied file" - an installed file that is not older
\* than its origin stays as it is, whatever the two contain (its permissions, owner and group are set again)
Preserved(T, a, x) == a.oc /\ x.n.t = "file" /\ x.p \in DOMAIN T /\ T[x.p].t = "file" /\ T[x.p].mt >= x.n.mt
KeptNode(T, x) == [x.n EXCEPT !.c = T[x.p].c, !.mt = T[x.p].mt]

\* tree and log after installing into tree T (dry-run: the tree that *would* result is in `would`)
Install(T, plan, o, a) ==
    LET sel    == Selected(plan, o, a)
        leaves == AllLeaves(sel, o)
        inner  == AllInner(sel, o)
        forced == AllForced(sel, o)
        lp     == { x.p : x \in leaves }
        dp     == DirPaths(sel, o)
        newt   == [ p \in DOMAIN T \cup lp \cup dp |->
                     IF p \in lp THEN LET x == CHOOSE y \in leaves : y.p = p IN IF Preserved(T, a, x) THEN KeptNode(T, x) ELSE x.n
                     ELSE IF \E f \in forced : f.p = p
                          THEN Forced(IF p \in DOMAIN T THEN T[p] ELSE NewDir(o), CHOOSE f \in forced : f.p = p)
                     ELSE IF p \in DOMAIN T THEN T[p]
                     ELSE IF \E x \in inner : x.p = p THEN Dir((CHOOSE x \in inner : x.p = p).m, o.uid, o.gid)
                     ELSE NewDir(o) ]
        created == (lp \cup dp) \ DOMAIN T
        written == { x.p : x \in { y \in leaves : ~Preserved(T, a, y) } }
    IN [ tree |-> IF a.dry THEN T ELSE newt, would |-> newt, log |-> created \cup written ]

\* the plan is unambiguous: no two rules claim the same file, nothing is both a file and a directory,
\* and directories copied/forced by two rules agree on their permissions (the documentation does not
\* order the rules, so such plans have no defined outcome and are not generated)
ConflictFree(plan, o) ==
    LET leaves == AllLeaves(plan, o)
        lp     == { x.p : x \in leaves }
    IN /\ \A i, j \in plan : i # j => { x.p : x \in Leaves(o, i) } \cap { x.p : x \in Leaves(o, j) } = {}
       /\ Cardinality(lp) = Cardinality(leaves)
       /\ lp \cap DirPaths(plan, o) = {}
       /\ \A x, y \in AllForced(plan, o) : x.p = y.p => x = y
       /\ \A x \in AllForced(plan, o) : \A y \in AllInner(plan, o) : x.p # y.p
       /\ \A x, y \in AllInner(plan, o) : x.p = y.p => x.m = y.m
       \* what is created inside a set-group-ID directory inherits the directory's group (and sub-directories the bit):
       \* the outcome would depend on the order of the rules, so nothing else is installed below such a directory
       /\ \A x \in AllForced(plan, o) : (x.m >= 0 /\ Bit(x.m, SgidBit) = 1) => \A q \in lp \cup DirPaths(plan, o) : ~SPfxOf(x.p, q)

\* ---- uninstall: replay the log ------------------------------------------------------------
HasChild(T, p) == \E q \in DOMAIN T : SPfxOf(p, q)
RECURSIVE Replay(_, _)
\* log: sequence of paths in the order written (files, then directories deepest first)
Replay(T, log) ==
    IF log = <<>> THEN T
    ELSE LET p == Head(log)
             T1 == IF p \notin DOMAIN T THEN T
                   ELSE IF T[p].t = "dir" /\ HasChild(T, p) THEN T        \* a directory that is not empty stays
                   ELSE [ q \in DOMAIN T \ {p} |-> T[q] ]
         IN Replay(T1, Tail(log))
Uninstall(T, log) == Replay(T, log)

\* ---- log well-formedness (test_install_log_content; needed for uninstall to work) -----------
LogNoDup(log)   == \A j, k \in 1..Len(log) : j # k => log[j] # log[k]
\* everything inside a logged directory that is logged at all is logged before the directory
LogOrdered(log) == \A j, k \in 1..Len(log) : SPfxOf(log[j], log[k]) => k < j
=============================================================================
