------------------------------ MODULE InstallOps ------------------------------
(***************************************************************************)
(* Operational formulation of `meson install`: the rules of the plan are   *)
(* carried out one at a time, each as a sequence of file-system calls      *)
(* (make missing directories, replace a file, change its owner and group,  *)
(* set its mode, make a link)                                              *)
(* on a *whole* file system in which DESTDIR is just one directory.  Every *)
(* destination is re-rooted below DESTDIR at the moment it is used, so     *)
(* `Confined` (nothing outside DESTDIR changes) is a statement about this  *)
(* module and not true by construction.  Directories made on the way are   *)
(* remembered in creation order (parents first); the log is the installed  *)
(* files and links in installation order followed by the remembered        *)
(* directories in reverse order.  With dry-run no call changes the file    *)
(* system but the same log is produced.                                    *)
(*                                                                         *)
(* The file system is the environment: what it creates belongs to the      *)
(* installing process (o.uid, o.gid), and chown(2) on anything but a       *)
(* directory clears the set-user-ID bit and (when the group may execute)   *)
(* the set-group-ID bit - also for root, also when the ids stay the same.  *)
(* That is why a declared install_mode is applied as "owner and group      *)
(* first, permissions last" (SetMode); ChownKillsPriv below shows that the *)
(* other order loses the declared bits.                                    *)
(*                                                                         *)
(* Install_MC checks, for every processing order of the rules, that the    *)
(* result equals the declarative Install!Install.                          *)
(***************************************************************************)
EXTENDS Install

Put(fs, q, n) == [ x \in DOMAIN fs \cup {q} |-> IF x = q THEN n ELSE fs[x] ]
Del(fs, q)    == [ x \in DOMAIN fs \ {q} |-> fs[x] ]
Rev(s)        == [ k \in 1..Len(s) |-> s[Len(s) + 1 - k] ]

\* s = [fs, dirs, files]
RECURSIVE MkChain(_, _, _, _, _)
MkChain(s, p, k, o, dry) ==
    IF k > Len(p) THEN s
    ELSE LET q == SubSeq(p, 1, k) IN
         IF q \in DOMAIN s.fs \/ q \in Rng(s.dirs) THEN MkChain(s, p, k + 1, o, dry)
         ELSE MkChain([s EXCEPT !.dirs = Append(@, q),
                                !.fs = IF dry THEN @ ELSE Put(@, q, NewDir(o))], p, k + 1, o, dry)
\* make p and every missing ancestor, remembering what was made
MkdirP(s, p, o, dry) == MkChain(s, p, 0, o, dry)

\* ---- the calls that change mode, owner and group (environment: the kernel's rules) --------------------------
\* chmod(2) of the entry itself; a symbolic link has no permissions of its own (and is never followed)
Chmod(s, q, m, dry) ==
    IF dry \/ q \notin DOMAIN s.fs \/ s.fs[q].t = "link" THEN s ELSE [s EXCEPT !.fs = Put(@, q, [@[q] EXCEPT !.m = m])]
\* what chown(2) leaves of the mode of a non-directory: set-user-ID is cleared; set-group-ID is cleared when the group
\* may execute (without group execute the bit marks mandatory locking and stays for a privileged or member caller)
KillPriv(m) == LET m1 == ClearBit(m, SuidBit) IN IF Bit(m1, 3) = 1 THEN ClearBit(m1, SgidBit) ELSE m1
\* lchown(2) of the entry itself; u / g = -1 leaves that id as it is
Chown(s, q, u, g, dry) ==
    IF dry \/ q \notin DOMAIN s.fs THEN s
    ELSE [s EXCEPT !.fs = Put(@, q, [@[q] EXCEPT !.u = IF u >= 0 THEN u ELSE @, !.g = IF g >= 0 THEN g ELSE @,
                                                 !.m = IF s.fs[q].t = "file" THEN KillPriv(@) ELSE @])]
\* default permissions: 0777 / 0666 masked by install_umask, by what the entry is now; 'preserve' leaves it alone
Sanitize(s, q, o, dry) ==
    IF dry \/ q \notin DOMAIN s.fs \/ o.umask < 0 THEN s
    ELSE Chmod(s, q, AndNot(IF s.fs[q].t = "dir" \/ HasX(s.fs[q].m) THEN 511 ELSE 438, o.umask), dry)
\* install_mode [m, u, g] (-1 = not given) applied to the entry at q: owner and group first, permissions last
SetMode(s, q, m, u, g, o, dry) ==
    IF m < 0 /\ u < 0 /\ g < 0 THEN Sanitize(s, q, o, dry)
    ELSE LET s1 == IF u >= 0 \/ g >= 0 THEN Chown(s, q, u, g, dry) ELSE s
         IN IF m >= 0 THEN Chmod(s1, q, m, dry) ELSE Sanitize(s1, q, o, dry)
\* the bits a rule for files asks chmod for (the sticky bit is dropped when the build definition is read)
FileBits(i) == IF i.mode >= 0 THEN ClearBit(i.mode, StickyBit) ELSE -1

\* install one source entry e of rule i to q: a new entry (what copying makes: the origin's permissions and time, owned
\* by the installing process) replaces whatever was there, then the rule's install_mode is applied
NewEntry(o, i, e) ==
    IF e.t = "link" /\ (e.r = "none" \/ i.fl = "false") THEN Link(e.l, o.uid, o.gid) ELSE File(e.m, e.c, o.uid, o.gid, e.mt)
CopyFile(s, q, i, e, o, a) ==
    LET n   == NewEntry(o, i, e)
        put(s0) == [s0 EXCEPT !.fs = IF a.dry THEN @ ELSE Put(@, q, n), !.files = Append(@, q)]
        s1  == IF q \in DOMAIN s.fs
               THEN IF a.oc /\ n.t = "file" /\ s.fs[q].t = "file" /\ s.fs[q].mt >= n.mt
                    THEN s                                                       \* not older: preserved, not logged
                    ELSE put(s)
               ELSE put(MkdirP(s, FrontOf(q), o, a.dry))
    IN SetMode(s1, q, FileBits(i), i.own, i.grp, o, a.dry)

MakeLink(s, q, n, o, a) ==
    LET s1 == MkdirP(s, FrontOf(q), o, a.dry)
    IN [s1 EXCEPT !.fs = IF a.dry THEN @ ELSE Put(@, q, n), !.files = Append(@, q)]

RECURSIVE CopyTree(_, _, _, _, _, _, _)
\* entries of the source directory in walk order (a directory before what it contains)
CopyTree(s, D, i, k, base, o, a) ==
    IF k > Len(i.st) THEN s
    ELSE LET e == i.st[k]
             q == base \o e.p
         IN IF Excluded(i, e) THEN CopyTree(s, D, i, k + 1, base, o, a)
            ELSE IF e.t = "dir"
            THEN IF q \in DOMAIN s.fs THEN CopyTree(s, D, i, k + 1, base, o, a)
                 ELSE CopyTree(Chmod(MkdirP(s, q, o, a.dry), q, DefaultPerm(o, e.m), a.dry), D, i, k + 1, base, o, a)
            ELSE CopyTree(CopyFile(s, q, i, e, o, a), D, i, k + 1, base, o, a)

\* one rule; D = DESTDIR (a path of the whole file system)
DoItem(s, D, i, o, a) ==
    CASE i.kind \in {"data", "header", "man", "target"} ->
           CopyFile(s, D \o FileDest(o, i), i, i.st[1], o, a)
      [] i.kind = "subdir" ->
           CopyTree(MkdirP(s, D \o SubBase(o, i), o, a.dry), D, i, 1, D \o SubBase(o, i), o, a)
      [] i.kind = "emptydir" ->
           LET q  == D \o AbsOf(o, i.dir)
               s1 == MkdirP(s, q, o, a.dry)
           IN SetMode(s1, q, i.mode, i.own, i.grp, o, a.dry)
      [] i.kind = "symlink" ->
           MakeLink(s, D \o AbsOf(o, i.dir) \o <<LastOf(i.src)>>, Link(i.to, o.uid, o.gid), o, a)   \* pointing_to is taken as written
      [] OTHER -> s

RECURSIVE DoItems(_, _, _, _, _)
DoItems(s, D, items, o, a) ==
    IF items = <<>> THEN s ELSE DoItems(DoItem(s, D, Head(items), o, a), D, Tail(items), o, a)

\* `order`: the selected rules as a sequence
OpInstall(fs, D, order, o, a) ==
    LET s == DoItems([fs |-> fs, dirs |-> <<>>, files |-> <<>>], D, order, o, a)
    IN [fs |-> s.fs, log |-> s.files \o Rev(s.dirs)]

\* the part of a whole file system below D as a tree, and the rest
TreeOf(fs, D)  == [ p \in { SubSeq(q, Len(D) + 1, Len(q)) : q \in { x \in DOMAIN fs : PfxOf(D, x) } } |-> fs[D \o p] ]
Outside(fs, D) == [ q \in { x \in DOMAIN fs : ~PfxOf(D, x) } |-> fs[q] ]
LogRel(log, D) == [ k \in 1..Len(log) |-> SubSeq(log[k], Len(D) + 1, Len(log[k])) ]

\* uninstall on the whole file system: the log holds full paths
OpUninstall(fs, log) == Replay(fs, log)

\* the order in which the implementation happens to process the kinds
KindRank(k) == CASE k = "subdir" -> 1 [] k = "target" -> 2 [] k = "header" -> 3 [] k = "man" -> 4
                 [] k = "emptydir" -> 5 [] k = "data" -> 6 [] k = "symlink" -> 7 [] OTHER -> 8
=============================================================================
