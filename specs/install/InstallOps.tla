------------------------------ MODULE InstallOps ------------------------------
(***************************************************************************)
(* Operational formulation of `meson install`: the rules of the plan are   *)
(* carried out one at a time, each as a sequence of file-system calls      *)
(* (make missing directories, replace a file, set its mode, make a link)   *)
(* on a *whole* file system in which DESTDIR is just one directory.  Every *)
(* destination is re-rooted below DESTDIR at the moment it is used, so     *)
(* `Confined` (nothing outside DESTDIR changes) is a statement about this  *)
(* module and not true by construction.  Directories made on the way are   *)
(* remembered in creation order (parents first); the log is the installed  *)
(* files and links in installation order followed by the remembered        *)
(* directories in reverse order.  With dry-run no call changes the file    *)
(* system but the same log is produced.                                    *)
(*                                                                         *)
(* Install_MC checks, for every processing order of the rules, that the    *)
(* result equals the declarative Install!Install.                          *)
(***************************************************************************)
EXTENDS Install

Put(fs, q, n) == [ x \in DOMAIN fs \cup {q} |-> IF x = q THEN n ELSE fs[x] ]
Del(fs, q)    == [ x \in DOMAIN fs \ {q} |-> fs[x] ]
Rev(s)        == [ k \in 1..Len(s) |-> s[Len(s) + 1 - k] ]

\* s = [fs, dirs, files]
RECURSIVE MkChain(_, _, _, _, _)
MkChain(s, p, k, o, dry) ==
    IF k > Len(p) THEN s
    ELSE LET q == SubSeq(p, 1, k) IN
         IF q \in DOMAIN s.fs \/ q \in Rng(s.dirs) THEN MkChain(s, p, k + 1, o, dry)
         ELSE MkChain([s EXCEPT !.dirs = Append(@, q),
                                !.fs = IF dry THEN @ ELSE Put(@, q, Dir(NewDirMode(o)))], p, k + 1, o, dry)
\* make p and every missing ancestor, remembering what was made
MkdirP(s, p, o, dry) == MkChain(s, p, 0, o, dry)

Chmod(s, q, m, dry) == IF dry \/ q \notin DOMAIN s.fs THEN s ELSE [s EXCEPT !.fs = Put(@, q, [@[q] EXCEPT !.m = m])]

\* install one file to q (node n carries the final permissions)
CopyFile(s, q, n, o, a) ==
    IF q \in DOMAIN s.fs
    THEN IF a.oc /\ s.fs[q].t = "file" /\ s.fs[q].c = n.c
         THEN Chmod(s, q, n.m, a.dry)                                           \* preserved, not logged
         ELSE [s EXCEPT !.fs = IF a.dry THEN @ ELSE Put(@, q, n), !.files = Append(@, q)]
    ELSE LET s1 == MkdirP(s, FrontOf(q), o, a.dry)
         IN [s1 EXCEPT !.fs = IF a.dry THEN @ ELSE Put(@, q, n), !.files = Append(@, q)]

MakeLink(s, q, n, o, a) ==
    LET s1 == MkdirP(s, FrontOf(q), o, a.dry)
    IN [s1 EXCEPT !.fs = IF a.dry THEN @ ELSE Put(@, q, n), !.files = Append(@, q)]

RECURSIVE CopyTree(_, _, _, _, _, _, _)
\* entries of the source directory in walk order (a directory before what it contains)
CopyTree(s, D, i, k, base, o, a) ==
    IF k > Len(i.st) THEN s
    ELSE LET e == i.st[k]
             q == base \o e.p
         IN IF Excluded(i, e) THEN CopyTree(s, D, i, k + 1, base, o, a)
            ELSE IF e.t = "dir"
            THEN IF q \in DOMAIN s.fs THEN CopyTree(s, D, i, k + 1, base, o, a)
                 ELSE CopyTree(Chmod(MkdirP(s, q, o, a.dry), q, DefaultPerm(o, e.m), a.dry), D, i, k + 1, base, o, a)
            ELSE CopyTree(CopyFile(s, q, EntryNode(o, i, e), o, a), D, i, k + 1, base, o, a)

\* one rule; D = DESTDIR (a path of the whole file system)
DoItem(s, D, i, o, a) ==
    CASE i.kind \in {"data", "header", "man", "target"} ->
           CopyFile(s, D \o FileDest(o, i), EntryNode(o, i, i.st[1]), o, a)
      [] i.kind = "subdir" ->
           CopyTree(MkdirP(s, D \o SubBase(o, i), o, a.dry), D, i, 1, D \o SubBase(o, i), o, a)
      [] i.kind = "emptydir" ->
           LET q  == D \o AbsOf(o, i.dir)
               s1 == MkdirP(s, q, o, a.dry)
               f  == CHOOSE f \in ForcedDirs(o, i) : TRUE
           IN IF f.m >= 0 THEN Chmod(s1, q, f.m, a.dry) ELSE s1
      [] i.kind = "symlink" ->
           MakeLink(s, D \o AbsOf(o, i.dir) \o <<LastOf(i.src)>>, Link(i.to), o, a)   \* pointing_to is taken as written
      [] OTHER -> s

RECURSIVE DoItems(_, _, _, _, _)
DoItems(s, D, items, o, a) ==
    IF items = <<>> THEN s ELSE DoItems(DoItem(s, D, Head(items), o, a), D, Tail(items), o, a)

\* `order`: the selected rules as a sequence
OpInstall(fs, D, order, o, a) ==
    LET s == DoItems([fs |-> fs, dirs |-> <<>>, files |-> <<>>], D, order, o, a)
    IN [fs |-> s.fs, log |-> s.files \o Rev(s.dirs)]

\* the part of a whole file system below D as a tree, and the rest
TreeOf(fs, D)  == [ p \in { SubSeq(q, Len(D) + 1, Len(q)) : q \in { x \in DOMAIN fs : PfxOf(D, x) } } |-> fs[D \o p] ]
Outside(fs, D) == [ q \in { x \in DOMAIN fs : ~PfxOf(D, x) } |-> fs[q] ]
LogRel(log, D) == [ k \in 1..Len(log) |-> SubSeq(log[k], Len(D) + 1, Len(log[k])) ]

\* uninstall on the whole file system: the log holds full paths
OpUninstall(fs, log) == Replay(fs, log)

\* the order in which the implementation happens to process the kinds
KindRank(k) == CASE k = "subdir" -> 1 [] k = "target" -> 2 [] k = "header" -> 3 [] k = "man" -> 4
                 [] k = "emptydir" -> 5 [] k = "data" -> 6 [] k = "symlink" -> 7 [] OTHER -> 8
=============================================================================
