SPECIFICATION Spec
CONSTANTS MaxPlan = 2
 CatalogName = "small"
 OptsName = "two"
INVARIANT Confined
INVARIANT Exact
INVARIANT DryRunNoop
INVARIANT Idempotent
INVARIANT LogNamesCreated
INVARIANT UninstallRemovesExactlyLog
INVARIANT OrderIndependent
INVARIANT ReversibleWhenFresh
INVARIANT OutsideUntouched
INVARIANT ForeignKept
CHECK_DEADLOCK FALSE
POSTCONDITION EmitModel
