SPECIFICATION Spec
CONSTANTS MaxPlan = 2
 CatalogName = "small"
 OptsName = "two"
 TimesName = "one"
INVARIANT Confined
INVARIANT Exact
INVARIANT DryRunNoop
INVARIANT Idempotent
INVARIANT OnlyChangedByTime
INVARIANT LogNamesCreated
INVARIANT UninstallRemovesExactlyLog
INVARIANT OrderIndependent
INVARIANT ReversibleWhenFresh
INVARIANT OutsideUntouched
INVARIANT ForeignKept
CHECK_DEADLOCK FALSE
POSTCONDITION EmitModel
