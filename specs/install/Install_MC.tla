------------------------------ MODULE Install_MC ------------------------------
(***************************************************************************)
(* Model: every conflict-free plan of at most MaxPlan rules out of a small *)
(* catalog (all seven kinds, overlapping directories, absolute and         *)
(* relative destinations, a subproject, tags, modes, excludes,             *)
(* strip_directory), four umask configurations, DESTDIR existing or not;   *)
(* every history of install (full, --dry-run, --only-changed, --tags,      *)
(* --skip-subprojects), uninstall, changing the sources (edited; content   *)
(* and time stamp apart) and planting a foreign file - the complete        *)
(* reachable state space, no depth bound.  Modes are st_mode & 07777 with  *)
(* owner and group; the file system applies the kernel's chown rule.       *)
(*                                                                         *)
(* The state is a whole file system in which DESTDIR is one directory; the *)
(* transition is made by the operational InstallOps and each law is        *)
(* evaluated on the transition (names of broken laws are collected in      *)
(* `bad`, one invariant per law).                                          *)
(***************************************************************************)
EXTENDS InstallOps, TLC, Json, IOUtils
CONSTANTS MaxPlan, CatalogName, OptsName, TimesName

VARIABLES plan, o, fs, log, ver, bad
vars == <<plan, o, fs, log, ver, bad>>

\* ---- catalog ------------------------------------------------------------------
Item(id, kind, sub, dir, src) ==
    [id |-> id, kind |-> kind, sub |-> sub, dir |-> dir, src |-> src, rename |-> <<>>, pp |-> FALSE, hsub |-> <<>>,
     stem |-> "", locale |-> "", sect |-> "", strip |-> FALSE, exf |-> <<>>, exd |-> <<>>, st |-> <<>>,
     mode |-> -1, own |-> -1, grp |-> -1, tag |-> "", ext |-> "", to |-> "", fl |-> ""]
E(p, t, m, c) == [p |-> p, t |-> t, m |-> m, c |-> c, l |-> "", r |-> "", mt |-> 0]
\* a source that is a symbolic link with text l, resolving to a file of mode m and content c (r = "file": a source of
\* the project, edited with it; "fixed": somebody else's file) or dangling (r = "none")
L(p, l, r, m, c) == [p |-> p, t |-> "link", m |-> m, c |-> c, l |-> l, r |-> r, mt |-> 0]
None == [k |-> "none", p |-> <<>>]
AbsD(p) == [k |-> "abs", p |-> p]

\* install_mode: C1 [false, false, 2]; C2 ['rw-------']; C3 [false, 1]; C10 ['rwsr-xr-x', 1, 2]; C17 ['rwxr-x--T', 1, 2] on a
\* directory other rules install into; C20 ['rwsr-s---', 1, 1] on a tree with a link that is copied as a link
C1  == [Item("c1", "data", "", Rel(<<"share", "x">>), <<"a.dat">>) EXCEPT !.grp = 2, !.tag = "t1", !.ext = ".dat", !.st = <<E(<<>>, "file", 420, "c1")>>]
C2  == [Item("c2", "data", "", AbsD(<<"etc", "x">>), <<"b.dat">>) EXCEPT !.mode = 384, !.ext = ".dat", !.st = <<E(<<>>, "file", 493, "c2")>>]
C3  == [Item("c3", "header", "sp1", None, <<"h.h">>) EXCEPT !.own = 1, !.ext = ".h", !.st = <<E(<<>>, "file", 420, "c3")>>]
C4  == [Item("c4", "man", "", None, <<"m.1">>) EXCEPT !.stem = "m", !.sect = "1", !.ext = ".1", !.st = <<E(<<>>, "file", 420, "c4")>>]
C5  == [Item("c5", "subdir", "", Rel(<<"share">>), <<"S">>) EXCEPT !.tag = "t2", !.exd = << <<"ex">> >>, !.exf = << <<"in", "f2">> >>,
            !.st = <<E(<<"f1">>, "file", 493, "c5a"), E(<<"in">>, "dir", 488, ""), E(<<"in", "f2">>, "file", 420, "c5b"),
                     E(<<"in", "f4">>, "file", 416, "c5d"), E(<<"ex">>, "dir", 448, ""), E(<<"ex", "f3">>, "file", 420, "c5c")>>]
C6  == [Item("c6", "subdir", "", Rel(<<"share", "x">>), <<"T">>) EXCEPT !.strip = TRUE, !.mode = 292,
            !.st = <<E(<<"g">>, "file", 416, "c6")>>]
C7  == [Item("c7", "emptydir", "", Rel(<<"var", "e">>), <<>>) EXCEPT !.mode = 448]
C8  == [Item("c8", "emptydir", "", Rel(<<"share", "x">>), <<>>) EXCEPT !.tag = "t1"]
C9  == [Item("c9", "symlink", "", Rel(<<"share", "x">>), <<"lnk">>) EXCEPT !.tag = "t1", !.to = "a.dat"]
C10 == [Item("c10", "target", "", Rel(<<"lib", "g">>), <<"out.bin">>) EXCEPT !.mode = 2541, !.own = 1, !.grp = 2, !.ext = ".bin", !.st = <<E(<<>>, "file", 420, "c10")>>]
C11 == [Item("c11", "data", "", Rel(<<"bin">>), <<"tool">>) EXCEPT !.st = <<E(<<>>, "file", 493, "c11")>>]
C12 == [Item("c12", "data", "sp1", AbsD(<<"etc", "x">>), <<"c.dat">>) EXCEPT !.ext = ".dat", !.st = <<E(<<>>, "file", 420, "c12")>>]
C13 == [Item("c13", "data", "", None, <<"d", "e.dat">>) EXCEPT !.pp = TRUE, !.ext = ".dat", !.st = <<E(<<>>, "file", 420, "c13")>>]
C14 == [Item("c14", "man", "", None, <<"n.fr.3">>) EXCEPT !.stem = "n", !.locale = "fr", !.sect = "3", !.ext = ".3", !.st = <<E(<<>>, "file", 420, "c14")>>]
C15 == [Item("c15", "data", "", Rel(<<"share", "x">>), <<"r.dat">>) EXCEPT !.rename = <<"sub", "renamed">>, !.st = <<E(<<>>, "file", 420, "c15")>>]
C16 == [Item("c16", "symlink", "sp1", AbsD(<<"etc", "x">>), <<"abs lnk">>) EXCEPT !.to = "/usr/share/x/a.dat"]
\* directories with a declared mode that other rules also install into / below / above
C17 == [Item("c17", "emptydir", "", Rel(<<"share", "x">>), <<>>) EXCEPT !.mode = 1000, !.own = 1, !.grp = 2]       \* where C1, C6, C9, C15 install to
C18 == [Item("c18", "emptydir", "", Rel(<<"var">>), <<>>) EXCEPT !.mode = 489]                \* parent of C7
C19 == [Item("c19", "emptydir", "sp1", Rel(<<"share", "S">>), <<>>) EXCEPT !.mode = 448]     \* top directory copied by C5
\* sources that are symbolic links: copied as links (to a sibling of the same tree; absolute, to a file outside DESTDIR)
\* or dereferenced
C20 == [Item("c20", "subdir", "", Rel(<<"share">>), <<"L">>) EXCEPT !.fl = "false", !.tag = "t1", !.mode = 3560, !.own = 1, !.grp = 1,
            !.st = <<E(<<"f">>, "file", 384, "c20"), L(<<"lnk">>, "f", "file", 384, "c20")>>]
C21 == [Item("c21", "subdir", "", Rel(<<"share">>), <<"M">>) EXCEPT !.fl = "true",
            !.st = <<E(<<"f">>, "file", 493, "c21"), L(<<"lnk">>, "f", "file", 493, "c21")>>]
C22 == [Item("c22", "data", "", Rel(<<"share", "x">>), <<"k.lnk">>) EXCEPT !.fl = "false", !.mode = 420,
            !.st = <<L(<<>>, "/usr/keep", "fixed", 384, "keep")>>]
C23 == [Item("c23", "header", "sp1", None, <<"k.h">>) EXCEPT !.ext = ".h", !.st = <<L(<<>>, "/usr/keep", "fixed", 384, "keep")>>]
\* the full install_mode - special bits with and without owner / group - for every kind of rule that takes one
C24 == [Item("c24", "data", "", Rel(<<"libexec">>), <<"suid">>) EXCEPT !.mode = 2541, !.own = 0, !.grp = 0, !.st = <<E(<<>>, "file", 493, "c24")>>]      \* rwsr-xr-x, the ids it has anyway
C25 == [Item("c25", "header", "", None, <<"sgid.h">>) EXCEPT !.mode = 1517, !.grp = 1, !.ext = ".h", !.st = <<E(<<>>, "file", 420, "c25")>>]             \* rwxr-sr-x, group only
C26 == [Item("c26", "man", "", None, <<"o.5">>) EXCEPT !.stem = "o", !.sect = "5", !.ext = ".5", !.mode = 3565, !.own = 2, !.st = <<E(<<>>, "file", 420, "c26")>>]  \* rwsr-sr-x
C27 == [Item("c27", "data", "sp1", Rel(<<"libexec">>), <<"lock">>) EXCEPT !.mode = 1509, !.own = 1, !.grp = 1, !.st = <<E(<<>>, "file", 420, "c27")>>]  \* rwxr-Sr-x
C28 == [Item("c28", "data", "", Rel(<<"libexec">>), <<"sticky">>) EXCEPT !.mode = 1005, !.grp = 2, !.st = <<E(<<>>, "file", 493, "c28")>>]               \* rwxr-xr-t on a file: ignored
C29 == [Item("c29", "emptydir", "", Rel(<<"var", "g">>), <<>>) EXCEPT !.mode = 2045, !.own = 1, !.grp = 2]                                             \* rwxrwsr-t, nothing below
C30 == [Item("c30", "emptydir", "", Rel(<<"var", "h">>), <<>>) EXCEPT !.own = 2]                                                                        \* [false, 2]
C31 == [Item("c31", "data", "", Rel(<<"libexec">>), <<"plain-suid">>) EXCEPT !.mode = 2469, !.st = <<E(<<>>, "file", 420, "c31")>>]                      \* rwSr--r-x, no owner
C32 == [Item("c32", "subdir", "", Rel(<<"libexec">>), <<"U">>) EXCEPT !.own = 2, !.grp = 1,
            !.st = <<E(<<"f">>, "file", 493, "c32a"), E(<<"in">>, "dir", 488, ""), E(<<"in", "g">>, "file", 416, "c32b")>>]                            \* [false, 2, 1]: directories stay

Catalog == IF CatalogName = "small" THEN {C1, C2, C3, C5, C8, C9, C10, C17, C20}
           ELSE {C1, C2, C3, C4, C5, C6, C7, C8, C9, C10, C11, C12, C13, C14, C15, C16, C17, C18, C19, C20, C21, C22, C23,
                 C24, C25, C26, C27, C28, C29, C30, C31, C32}

BaseOpts == [prefix |-> <<"usr">>, bindir |-> <<"bin">>, sbindir |-> <<"sbin">>, libdir |-> <<"lib">>,
             includedir |-> <<"include">>, localedir |-> <<"share", "locale">>, datadir |-> <<"share">>,
             mandir |-> <<"share", "man">>, proj |-> "pm", umask |-> 18, eumask |-> 18, uid |-> 0, gid |-> 0]
OptsSet == IF OptsName = "two" THEN { [BaseOpts EXCEPT !.umask = 23, !.eumask = 63], [BaseOpts EXCEPT !.umask = -1, !.eumask = 23] }
           ELSE { BaseOpts, [BaseOpts EXCEPT !.umask = 23, !.eumask = 63], [BaseOpts EXCEPT !.umask = -1],
                  [BaseOpts EXCEPT !.umask = -1, !.eumask = 23] }

A(tags, skip, dry, oc) == [tags |-> tags, skip |-> skip, dry |-> dry, oc |-> oc]
ArgSet == { A(<<>>, <<>>, FALSE, FALSE), A(<<>>, <<>>, TRUE, FALSE), A(<<>>, <<>>, FALSE, TRUE),
            A(<<"t1">>, <<>>, FALSE, FALSE), A(<<"devel", "man", "runtime">>, <<>>, FALSE, FALSE),
            A(<<>>, <<"*">>, FALSE, FALSE), A(<<>>, <<"sp1">>, FALSE, FALSE),
            A(<<"t1">>, <<>>, TRUE, FALSE), A(<<"t2", "t1">>, <<"sp1">>, FALSE, TRUE) }

Plans == { P \in SUBSET Catalog : Cardinality(P) >= 1 /\ Cardinality(P) <= MaxPlan /\ \A op \in OptsSet : ConflictFree(P, op) }

\* the kernel rule is what makes the order matter: permissions first, owner second would lose the special bits
ASSUME ChownKillsPriv ==
    LET q  == <<"f">>
        s0 == [fs |-> (q :> File(420, "c", 0, 0, 0)), dirs |-> <<>>, files |-> <<>>]
        o0 == [umask |-> 18]
    IN /\ SetMode(s0, q, 2541, 1, 1, o0, FALSE).fs[q] = File(2541, "c", 1, 1, 0)                   \* rwsr-xr-x daemon daemon
       /\ Chown(Chmod(s0, q, 2541, FALSE), q, 1, 1, FALSE).fs[q] = File(493, "c", 1, 1, 0)         \* the other order: rwxr-xr-x
       /\ Chown(Chmod(s0, q, 1517, FALSE), q, -1, 0, FALSE).fs[q].m = 493                         \* rwxr-sr-x, same ids: still lost
       /\ Chown(Chmod(s0, q, 1509, FALSE), q, 0, 0, FALSE).fs[q].m = 1509                         \* rwxr-Sr-x stays
       /\ LET d0 == [s0 EXCEPT !.fs = (q :> Dir(493, 0, 0))]
          IN Chown(Chmod(d0, q, 1533, FALSE), q, 1, 1, FALSE).fs[q] = Dir(1533, 1, 1)              \* directories keep their bits


\* ---- the world ------------------------------------------------------------------------
D == <<"w", "D">>
World0 == (<<>> :> Dir(493, 0, 0)) @@ (<<"w">> :> Dir(493, 0, 0)) @@ (<<"usr">> :> Dir(493, 0, 0)) @@ (<<"usr", "keep">> :> File(420, "keep", 0, 0, 0))
           @@ (<<"etc">> :> Dir(493, 0, 0))
\* DESTDIR exists and already holds a directory some rules install to (with permissions nobody declared)
WorldPre == World0 @@ (D :> Dir(448, 0, 0)) @@ (D \o <<"usr">> :> Dir(493, 0, 0)) @@ (D \o <<"usr", "share">> :> Dir(493, 0, 0))
            @@ (D \o <<"usr", "share", "x">> :> Dir(511, 0, 0))
PlantPaths == { D \o <<"zz">>, D \o <<"usr", "share", "x", "zz">> }

\* the rule with its sources as they are now.  ver = 1: edited (new content, newer time stamp);  2: new content under
\* the old time stamp (put back from an archive);  3: the old content with a newer time stamp (touched)
Cur(i) == IF ver = 0 THEN i
          ELSE [i EXCEPT !.st = [k \in 1..Len(i.st) |->
                    IF i.st[k].t = "file" \/ (i.st[k].t = "link" /\ i.st[k].r = "file")
                    THEN [i.st[k] EXCEPT !.c = IF ver \in {1, 2} THEN @ \o "#1" ELSE @, !.mt = IF ver \in {1, 3} THEN 1 ELSE @]
                    ELSE i.st[k]]]
CurPlan == { Cur(i) : i \in plan }

Perms(S) == { f \in [1..Cardinality(S) -> S] : \A j, k \in 1..Cardinality(S) : j # k => f[j] # f[k] }
Canonical(f) == \A j, k \in 1..Len(f) : j < k => KindRank(f[j].kind) <= KindRank(f[k].kind)
SubdirsFirst(f) == \A j, k \in 1..Len(f) : (f[k].kind = "subdir" /\ f[j].kind # "subdir") => k < j
\* with a numeric umask every order gives the same result; with 'preserve' a directory keeps the
\* permissions of whichever rule made it first, so only orders that copy directories first are claimed
Orders(sel) == IF o.umask >= 0 THEN Perms(sel) ELSE { f \in Perms(sel) : SubdirsFirst(f) }
CanonOrder(sel) == CHOOSE f \in Perms(sel) : Canonical(f)

Init == /\ plan \in Plans
        /\ o \in OptsSet
        /\ fs \in IF CatalogName = "small" THEN { World0, WorldPre } ELSE { World0, World0 @@ (D :> Dir(448, 0, 0)), WorldPre }
        /\ log = <<>>
        /\ ver = 0
        /\ bad = {}

InstallLaws(a, r, e, sel) ==
    LET T   == TreeOf(fs, D)
        r2  == OpInstall(r.fs, D, CanonOrder(sel), o, a)
        rd  == OpInstall(fs, D, CanonOrder(sel), o, [a EXCEPT !.dry = ~a.dry])
        fresh == \A x \in AllLeaves(sel, o) \cup AllForced(sel, o) : x.p \notin DOMAIN T
    IN (IF Outside(r.fs, D) # Outside(fs, D) \/ \E k \in 1..Len(r.log) : ~PfxOf(D, r.log[k]) THEN {"Confined"} ELSE {})
       \cup (IF TreeOf(r.fs, D) # e.tree THEN {"Exact"} ELSE {})
       \cup (IF a.dry /\ r.fs # fs THEN {"DryRunNoop"} ELSE {})
       \cup (IF Rng(LogRel(r.log, D)) # e.log \/ ~LogNoDup(r.log) \/ ~LogOrdered(r.log) THEN {"LogNamesCreated"} ELSE {})
       \cup (IF ~a.dry /\ r2.fs # r.fs THEN {"Idempotent"} ELSE {})
       \cup (IF ~a.dry /\ Install(e.tree, CurPlan, o, a).tree # e.tree THEN {"Idempotent"} ELSE {})
       \cup (IF Rng(rd.log) # Rng(r.log) THEN {"DryRunSameLog"} ELSE {})
       \* --only-changed as the manual words it: an installed file is overwritten (and logged) exactly when it is older
       \* than the file that would be copied over it - whatever the two contain
       \cup (IF a.oc /\ ~a.dry /\ \E x \in AllLeaves(sel, o) :
                   /\ x.n.t = "file" /\ x.p \in DOMAIN T /\ T[x.p].t = "file"
                   /\ LET n == TreeOf(r.fs, D)[x.p] IN
                      IF T[x.p].mt >= x.n.mt THEN n.c # T[x.p].c \/ n.mt # T[x.p].mt \/ x.p \in Rng(LogRel(r.log, D))
                      ELSE n.c # x.n.c \/ n.mt < x.n.mt \/ x.p \notin Rng(LogRel(r.log, D))
             THEN {"OnlyChangedByTime"} ELSE {})
       \cup (IF \E f \in Orders(sel) : LET rf == OpInstall(fs, D, f, o, a) IN rf.fs # r.fs \/ Rng(rf.log) # Rng(r.log)
             THEN {"OrderIndependent"} ELSE {})
       \cup (IF ~a.dry /\ fresh /\ OpUninstall(r.fs, r.log) # fs THEN {"ReversibleWhenFresh"} ELSE {})
       \cup (IF \E p \in PlantPaths \cap DOMAIN fs : p \notin DOMAIN r.fs \/ r.fs[p] # fs[p] THEN {"ForeignKept"} ELSE {})

DoInstall(a) ==
    LET sel == Selected(CurPlan, o, a)
        r   == OpInstall(fs, D, CanonOrder(sel), o, a)
        e   == Install(TreeOf(fs, D), CurPlan, o, a)
    IN /\ fs' = r.fs
       /\ log' = r.log
       /\ bad' = bad \cup InstallLaws(a, r, e, sel)
       /\ UNCHANGED <<plan, o, ver>>

UninstallLaws(fs2) ==
    LET gone == DOMAIN fs \ DOMAIN fs2 IN
    (IF /\ gone \subseteq Rng(log)
        /\ \A p \in DOMAIN fs2 : p \in DOMAIN fs /\ fs2[p] = fs[p]
        /\ \A p \in Rng(log) \cap DOMAIN fs : p \in gone \/ (fs[p].t = "dir" /\ HasChild(fs2, p))
     THEN {} ELSE {"UninstallRemovesExactlyLog"})
    \cup (IF Outside(fs2, D) # Outside(fs, D) THEN {"Confined"} ELSE {})
    \cup (IF \E p \in PlantPaths \cap DOMAIN fs : p \notin DOMAIN fs2 \/ fs2[p] # fs[p] THEN {"ForeignKept"} ELSE {})

DoUninstall ==
    LET fs2 == OpUninstall(fs, log) IN
    /\ fs' = fs2
    /\ bad' = bad \cup UninstallLaws(fs2)
    /\ UNCHANGED <<plan, o, ver, log>>

\* every source of the project is changed (once): edited, or - TimesName = "all" - content and time stamp apart
Touch == /\ ver = 0
         /\ ver' \in IF TimesName = "all" THEN {1, 2, 3} ELSE {1}
         /\ UNCHANGED <<plan, o, fs, log, bad>>

\* somebody else puts one file below DESTDIR
Plant(p) == /\ PlantPaths \cap DOMAIN fs = {}
            /\ FrontOf(p) \in DOMAIN fs /\ fs[FrontOf(p)].t = "dir"
            /\ fs' = Put(fs, p, File(420, "foreign", 0, 0, 0))
            /\ UNCHANGED <<plan, o, ver, log, bad>>

Next == \/ \E a \in ArgSet : DoInstall(a)
        \/ DoUninstall
        \/ Touch
        \/ \E p \in PlantPaths : Plant(p)
Spec == Init /\ [][Next]_vars
\* configuration used only to export the input space (EmitModel) without exploring it
NoNext == FALSE /\ UNCHANGED vars

\* ---- the laws (one invariant each) -----------------------------------------------------
Confined                   == "Confined" \notin bad
Exact                      == "Exact" \notin bad
DryRunNoop                 == "DryRunNoop" \notin bad /\ "DryRunSameLog" \notin bad
Idempotent                 == "Idempotent" \notin bad
OnlyChangedByTime          == "OnlyChangedByTime" \notin bad
LogNamesCreated            == "LogNamesCreated" \notin bad
UninstallRemovesExactlyLog == "UninstallRemovesExactlyLog" \notin bad
OrderIndependent           == "OrderIndependent" \notin bad
ReversibleWhenFresh        == "ReversibleWhenFresh" \notin bad
\* what is outside DESTDIR never changes at all (state form of Confined)
OutsideUntouched           == Outside(fs, D) = Outside(World0, D)
\* nothing planted by somebody else is ever removed or altered
ForeignKept                == "ForeignKept" \notin bad

\* the input space is exported so that the implementation harness replays exactly the model's plans and arguments
EmitModel == TLCGet("stats").diameter >= 0
             /\ JsonSerialize("install_model.json",
                    [catalog |-> Catalog, opts |-> OptsSet, args |-> ArgSet,
                     plans |-> { { i.id : i \in P } : P \in Plans }])
=============================================================================
