----------------------------- MODULE TraceInstall -----------------------------
(***************************************************************************)
(* Trace validation for C11.  One case = one recorded history of the real  *)
(* commands on one generated project:                                      *)
(*   o     options of the configured build (prefix, directories, umasks)   *)
(*         and the effective ids of the installing process                 *)
(*   plan  the install rules the generator wrote into the build files      *)
(*   setuprc  exit status of `meson setup` on them                         *)
(*   t0    listing of DESTDIR before the first command, out0 listing of    *)
(*         everything else the commands could write                        *)
(*   ev    events; after each one the observed listing of DESTDIR (`tree`; *)
(*         per entry: type, st_mode & 07777, st_uid, st_gid, link text,    *)
(*         content), of the outside (`out`), the install log (`log`, one   *)
(*         entry per line: inside DESTDIR or not, path) and the exit status*)
(* Every step is judged from the state observed before it: the tree and    *)
(* log the rule book (Install!Install, Install!Uninstall) prescribes are   *)
(* computed from the abstract plan and compared with what was observed.    *)
(* `touch` (sources changed), `plant` (a foreign file put below DESTDIR)   *)
(* and `age` (an installed file given an old time stamp) are actions of    *)
(* the harness; a disagreement there is reported with an "env:" clause     *)
(* (machinery trouble, not a violation).  The time of an installed file is *)
(* observed (it decides what --only-changed keeps) but never judged.       *)
(***************************************************************************)
EXTENDS Install, TLC, Json, IOUtils

Cases == JsonDeserialize(IOEnv.TRACE_FILE)

VARIABLES i, done
vars == <<i, done>>

NodeOf(e) == [t |-> e.t, m |-> e.m, l |-> e.l, c |-> e.c, u |-> e.u, g |-> e.g, mt |-> e.mt]
TreeFrom(s) == [ p \in { s[k].p : k \in 1..Len(s) } |-> NodeOf(CHOOSE e \in Rng(s) : e.p = p) ]
PutT(T, q, n) == [ x \in DOMAIN T \cup {q} |-> IF x = q THEN n ELSE T[x] ]

\* a rule whose sources have been changed (touched: set of [id, how, mt]): how = "newer" - edited, new content and the
\* newer time stamp mt;  "sametime" - new content under the old time stamp;  "bump" - old content, newer time stamp
CurOf(it, touched) ==
    IF \A x \in touched : x.id # it.id THEN it
    ELSE LET x == CHOOSE y \in touched : y.id = it.id IN
         [it EXCEPT !.st = [k \in 1..Len(it.st) |->
             IF it.st[k].t = "file" \/ (it.st[k].t = "link" /\ it.st[k].r = "file")
             THEN [it.st[k] EXCEPT !.c = IF x.how # "bump" THEN @ \o "#1" ELSE @, !.mt = IF x.how # "sametime" THEN x.mt ELSE @]
             ELSE it.st[k]]]

RECURSIVE SetSeq(_)
SetSeq(S) == IF S = {} THEN <<>> ELSE LET x == CHOOSE x \in S : TRUE IN <<x>> \o SetSeq(S \ {x})

\* difference between the prescribed tree E and the observed tree O
TreeDiff(E, O) ==
    [missing |-> SetSeq(DOMAIN E \ DOMAIN O),
     extra   |-> SetSeq(DOMAIN O \ DOMAIN E),
     changed |-> SetSeq({ [p |-> p, want |-> E[p], got |-> O[p]] : p \in { q \in DOMAIN E \cap DOMAIN O : E[q] # O[q] } })]
Fail(step, clause, d) == [step |-> step, clause |-> clause, missing |-> d.missing, extra |-> d.extra, changed |-> d.changed, owners |-> <<>>]
\* which rule owns the files/links named in a difference (for the report)
Owners(o, sel, ps) ==
    SetSeq(UNION { { [p |-> y.p, id |-> it.id] : y \in { z \in Leaves(o, it) : z.p \in ps } }
                   \cup { [p |-> f.p, id |-> it.id] : f \in { z \in ForcedDirs(o, it) : z.p \in ps } } : it \in sel })
DiffPaths(d) == Rng(d.missing) \cup { ch.p : ch \in Rng(d.changed) }
NoDiff == [missing |-> <<>>, extra |-> <<>>, changed |-> <<>>]
SetDiff(E, O) == [missing |-> SetSeq(E \ O), extra |-> SetSeq(O \ E), changed |-> <<>>]

InLog(log)  == [ k \in 1..Len(log) |-> log[k].p ]
LogInside(log) == SelectSeq(log, LAMBDA x : x.inside)

ArgsOf(ev) == [tags |-> ev.tags, skip |-> ev.skip, dry |-> ev.dry, oc |-> ev.oc]

\* st = [tree, out, log, touched, lasta]   (lasta: arguments of the directly preceding install, or <<>>)
JudgeInstall(c, st, ev, k) ==
    LET a    == ArgsOf(ev)
        plan == { CurOf(c.plan[j], st.touched) : j \in 1..Len(c.plan) }
        e    == Install(st.tree, plan, c.o, a)
        O    == TreeFrom(ev.tree)
        ins  == LogInside(ev.log)
        lp   == InLog(ins)
    IN (IF ev.rc # 0 THEN <<Fail(k, "CommandSucceeds", NoDiff)>> ELSE <<>>)
       \o (IF Rng(ev.out) # Rng(st.out) THEN <<Fail(k, "Confined", SetDiff(Rng(st.out), Rng(ev.out)))>> ELSE <<>>)
       \o (IF Obs(O) # Obs(e.tree) THEN <<[Fail(k, IF a.dry THEN "DryRunNoop" ELSE "Exact", TreeDiff(Obs(e.tree), Obs(O)))
                                   EXCEPT !.owners = Owners(c.o, plan, DiffPaths(TreeDiff(Obs(e.tree), Obs(O))))]>> ELSE <<>>)
       \o (IF Rng(lp) # e.log \/ Len(ins) # Len(ev.log)
           THEN <<[Fail(k, "LogNamesCreated", [SetDiff(e.log, Rng(lp)) EXCEPT !.changed = SetSeq({ x.p : x \in { y \in Rng(ev.log) : ~y.inside } })])
                   EXCEPT !.owners = Owners(c.o, plan, e.log \ Rng(lp))]>>
           ELSE IF ~LogNoDup(lp) \/ ~LogOrdered(lp) THEN <<Fail(k, "LogWellFormed", NoDiff)>> ELSE <<>>)
       \o (IF ~a.dry /\ st.lasta = <<a>> /\ Obs(O) # Obs(st.tree) THEN <<Fail(k, "Idempotent", TreeDiff(Obs(st.tree), Obs(O)))>> ELSE <<>>)

JudgeUninstall(c, st, ev, k) ==
    LET E == Uninstall(st.tree, InLog(LogInside(st.log)))
        O == TreeFrom(ev.tree)
    IN (IF ev.rc # 0 THEN <<Fail(k, "CommandSucceeds", NoDiff)>> ELSE <<>>)
       \o (IF Rng(ev.out) # Rng(st.out) THEN <<Fail(k, "Confined", SetDiff(Rng(st.out), Rng(ev.out)))>> ELSE <<>>)
       \o (IF Obs(O) # Obs(E) THEN <<Fail(k, "UninstallRemovesExactlyLog", TreeDiff(Obs(E), Obs(O)))>> ELSE <<>>)

JudgeEnv(c, st, ev, k) ==
    LET O == TreeFrom(ev.tree)
        E == IF ev.op = "plant" THEN PutT(st.tree, ev.p, File(ev.m, ev.c, c.o.uid, c.o.gid, 0)) ELSE st.tree
    IN IF Obs(O) # Obs(E) THEN <<Fail(k, "env:" \o ev.op, TreeDiff(Obs(E), Obs(O)))>> ELSE <<>>

RECURSIVE Run(_, _, _, _)
Run(c, st, k, acc) ==
    IF k > Len(c.ev) THEN acc
    ELSE LET ev == c.ev[k]
             f  == CASE ev.op = "install"   -> JudgeInstall(c, st, ev, k)
                     [] ev.op = "uninstall" -> JudgeUninstall(c, st, ev, k)
                     [] OTHER               -> JudgeEnv(c, st, ev, k)
             st2 == [tree    |-> TreeFrom(ev.tree),
                     out     |-> ev.out,
                     log     |-> IF ev.op = "install" THEN ev.log ELSE st.log,
                     touched |-> IF ev.op = "touch" THEN st.touched \cup { [id |-> x, how |-> ev.how, mt |-> ev.mt] : x \in Rng(ev.ids) } ELSE st.touched,
                     lasta   |-> IF ev.op = "install" /\ ~ev.dry THEN <<ArgsOf(ev)>> ELSE <<>>]
         IN Run(c, st2, k + 1, acc \o f)

\* what intro-install_plan.json must say about the rules it lists: destination (placeholders resolved), tag, subproject
IntroOf(o, it) == [kind |-> it.kind,
                   p    |-> IF it.kind = "subdir" THEN SubBase(o, it) ELSE FileDest(o, it),
                   tag  |-> TagOf(o, it), sub |-> it.sub]
JudgeIntro(c) ==
    LET want == { IntroOf(c.o, c.plan[j]) : j \in { x \in 1..Len(c.plan) : c.plan[x].kind \notin {"emptydir", "symlink"} } }
        got  == Rng(c.intro)
        ids  == { [p |-> IntroOf(c.o, c.plan[j]).p, id |-> c.plan[j].id] :
                      j \in { x \in 1..Len(c.plan) : c.plan[x].kind \notin {"emptydir", "symlink"} /\ IntroOf(c.o, c.plan[x]) \notin got } }
    IN IF c.checkintro /\ want # got THEN <<[Fail(0, "PlanDescribes", SetDiff(want, got)) EXCEPT !.owners = SetSeq(ids)]>> ELSE <<>>

Judge(c) ==
    LET plan == { c.plan[j] : j \in 1..Len(c.plan) }
        st0  == [tree |-> TreeFrom(c.t0), out |-> c.out0, log |-> <<>>, touched |-> {}, lasta |-> <<>>]
        fails == IF Cardinality(plan) # Len(c.plan) \/ ~ConflictFree(plan, c.o)
                 THEN <<Fail(0, "env:conflicting-plan", NoDiff)>>
                 \* every conflict-free plan of the rule book is a build definition `meson setup` has to accept (an
                 \* install_mode is a permission string or false, then owners / groups as names or numbers - any number)
                 ELSE IF c.setuprc # 0 THEN <<Fail(0, "DefinitionAccepted", NoDiff)>>
                 ELSE JudgeIntro(c) \o Run(c, st0, 1, <<>>)
    IN [id |-> c.id, clause |-> IF fails = <<>> THEN "ok" ELSE fails[1].clause, fails |-> fails]

Init == i \in 1..Len(Cases) /\ done = FALSE
Next == /\ ~done
        /\ done' = TRUE
        /\ i' = i
        /\ LET v == Judge(Cases[i]) IN v.clause = "ok" \/ PrintT(ToJson(v))
Spec == Init /\ [][Next]_vars
=============================================================================
