------------------------------ MODULE MesonEval ------------------------------
(***************************************************************************)
(* Reference evaluator of the Meson core language over the trees of        *)
(* MesonGrammar (property C01).  Eval(node, env) gives the value of an      *)
(* expression; Exec(block, env) runs statements and returns the variable    *)
(* store with a control signal.  An `err` value with reason 1 means the     *)
(* reference demands failure, reason 2 failure by strict typing (bool used  *)
(* as int), reason 3 that the reference does not determine the outcome.    *)
(***************************************************************************)
EXTENDS MesonGrammar, MesonValues

\* ---- variable store: sequence of <<name (code points), value>> ---------------------------------
EnvHas(env, cs) == \E i \in 1..Len(env) : env[i][1] = cs
EnvGet(env, cs) == env[CHOOSE i \in 1..Len(env) : env[i][1] = cs][2]
SetVar(env, cs, v) == IF EnvHas(env, cs) THEN [i \in 1..Len(env) |-> IF env[i][1] = cs THEN <<cs, v>> ELSE env[i]]
                      ELSE Append(env, <<cs, v>>)
EnvDel(env, cs) == SelectSeq(env, LAMBDA p : p[1] # cs)
EnvAsSet(env) == { env[i] : i \in 1..Len(env) }

\* identifiers inside format strings
IsIdStart(c) == IsUpper(c) \/ IsLower(c) \/ c = 95
IsIdChar(c) == IsIdStart(c) \/ IsDigit(c)

RECURSIVE ScanDigits(_, _), ScanIdent(_, _)
ScanDigits(s, i) == IF i <= Len(s) /\ IsDigit(s[i]) THEN ScanDigits(s, i + 1) ELSE i
ScanIdent(s, i) == IF i <= Len(s) /\ IsIdChar(s[i]) THEN ScanIdent(s, i + 1) ELSE i

\* 'text @0@ @1@'.format(a, b)
RECURSIVE FormatFrom(_, _, _)
FormatFrom(s, i, args) ==
    IF i > Len(s) THEN VStr(<<>>)
    ELSE IF s[i] = 64 /\ i + 1 <= Len(s) /\ IsDigit(s[i + 1]) THEN
         LET j == ScanDigits(s, i + 1) IN
         IF j <= Len(s) /\ s[j] = 64 THEN
              LET numv == IF j - i - 1 > 4 THEN -1 ELSE ParseBase(SubSeq(s, i + 1, j - 1), 10, 0) IN
              IF numv < 0 \/ numv >= Len(args) THEN Err
              ELSE LET a == Stringify(args[numv + 1])
                       rest == FormatFrom(s, j + 1, args)
                   IN IF IsErr(a) \/ IsErr(rest) THEN FirstErr(<<a, rest>>) ELSE VStr(a.s \o rest.s)
         ELSE LET rest == FormatFrom(s, i + 1, args) IN IF IsErr(rest) THEN rest ELSE VStr(<<s[i]>> \o rest.s)
    ELSE LET rest == FormatFrom(s, i + 1, args) IN IF IsErr(rest) THEN rest ELSE VStr(<<s[i]>> \o rest.s)

\* f'text @name@'
RECURSIVE FStringFrom(_, _, _)
FStringFrom(s, i, env) ==
    IF i > Len(s) THEN VStr(<<>>)
    ELSE IF s[i] = 64 /\ i + 1 <= Len(s) /\ IsIdStart(s[i + 1]) THEN
         LET j == ScanIdent(s, i + 1) IN
         IF j <= Len(s) /\ s[j] = 64 THEN
              LET name == SubSeq(s, i + 1, j - 1)
              IN IF ~EnvHas(env, name) THEN Err
                 ELSE LET a == Stringify(EnvGet(env, name))
                          rest == FStringFrom(s, j + 1, env)
                      IN IF IsErr(a) \/ IsErr(rest) THEN FirstErr(<<a, rest>>) ELSE VStr(a.s \o rest.s)
         ELSE LET rest == FStringFrom(s, i + 1, env) IN IF IsErr(rest) THEN rest ELSE VStr(<<s[i]>> \o rest.s)
    ELSE LET rest == FStringFrom(s, i + 1, env) IN IF IsErr(rest) THEN rest ELSE VStr(<<s[i]>> \o rest.s)

\* ---- substitution is ONE left-to-right pass over the LITERAL -------------------------------------------
\* Declarative reading of both substitutions (Syntax.md "String formatting": "the formatting works by replacing
\* placeholders of type `@number@` with the corresponding argument"; "Format strings" are the "non-positional
\* alternative", `s = f'int: @n@, string: @m@'`; str.format in docs/yaml/elementary/str.yml).  The placeholders are
\* those of the string that is formatted.  The literal ALONE decides where its placeholders are: it is cut, left to right,
\* into pieces that are either a reference (`@name@` for kind "f", `@digits@` for kind "n") or one character of plain
\* text; the result is the concatenation of the texts of the pieces.  What a reference contributes is data: it is
\* never looked at again - not for the name that was just replaced, not for another name of the same literal, and it
\* cannot combine with the `@` characters that stand next to the placeholder in the literal.
RECURSIVE PiecesFrom(_, _, _)
PiecesFrom(s, i, kind) ==
    IF i > Len(s) THEN <<>>
    ELSE LET startOk == i + 1 <= Len(s) /\ (IF kind = "f" THEN IsIdStart(s[i + 1]) ELSE IsDigit(s[i + 1]))
             j == IF kind = "f" THEN ScanIdent(s, i + 1) ELSE ScanDigits(s, i + 1)
         IN IF s[i] = 64 /\ startOk /\ j <= Len(s) /\ s[j] = 64
            THEN <<[ref |-> TRUE, cs |-> SubSeq(s, i + 1, j - 1)]>> \o PiecesFrom(s, j + 1, kind)
            ELSE <<[ref |-> FALSE, cs |-> <<s[i]>>]>> \o PiecesFrom(s, i + 1, kind)
Pieces(s, kind) == PiecesFrom(s, 1, kind)

RECURSIVE ConcatStrs(_)
ConcatStrs(vs) == IF vs = <<>> THEN <<>> ELSE vs[1].s \o ConcatStrs(Tail(vs))
\* the written form of the pieces: nothing of the literal is lost or duplicated by cutting it
RECURSIVE PiecesSource(_)
PiecesSource(ps) == IF ps = <<>> THEN <<>>
                    ELSE (IF ps[1].ref THEN <<64>> \o ps[1].cs \o <<64>> ELSE ps[1].cs) \o PiecesSource(Tail(ps))

SubstPieces(ps, Look(_)) ==
    LET texts == [p \in 1..Len(ps) |-> IF ps[p].ref THEN Look(ps[p].cs) ELSE VStr(ps[p].cs)]
    IN IF AnyErr(texts) THEN FirstErr(texts) ELSE VStr(ConcatStrs(texts))

FStringLook(env, name) == IF EnvHas(env, name) THEN Stringify(EnvGet(env, name)) ELSE Err
FormatLook(args, ds) ==
    LET numv == IF Len(ds) > 4 THEN -1 ELSE ParseBase(ds, 10, 0)
    IN IF numv < 0 \/ numv >= Len(args) THEN Err ELSE Stringify(args[numv + 1])
FStringDecl(s, env) == SubstPieces(Pieces(s, "f"), LAMBDA name : FStringLook(env, name))
FormatDecl(s, args) == SubstPieces(Pieces(s, "n"), LAMBDA ds : FormatLook(args, ds))
\* the same value, or failure on both sides (which of several failing pieces is reported is not part of the reference)
SameOutcome(a, b) == a = b \/ (IsErr(a) /\ IsErr(b))

\* ---- operators ---------------------------------------------------------------------------------------
BoolAsInt(l, r) == l.k = "int" /\ r.k = "bool"

\* floor division and the matching modulo (result has the sign of the divisor); TLC's \div needs a positive divisor
FloorDiv(a, b) == IF b > 0 THEN a \div b ELSE (-a) \div (-b)
FloorMod(a, b) == a - b * FloorDiv(a, b)

Arith(op, l, r) ==
    IF BoolAsInt(l, r) THEN ErrBoolInt
    ELSE CASE op = "+" ->
           CASE l.k = "int" /\ r.k = "int" -> VInt(l.n + r.n)
             [] l.k = "str" /\ r.k = "str" -> VStr(l.s \o r.s)
             [] l.k = "arr" -> IF r.k = "arr" THEN VArr(l.e \o r.e) ELSE IF r.k \in {"void", "range"} THEN Unspec ELSE VArr(Append(l.e, r))
             [] l.k = "dict" /\ r.k = "dict" -> DictMerge(l, r)
             [] OTHER -> Err
      [] op = "-" -> IF l.k = "int" /\ r.k = "int" THEN VInt(l.n - r.n) ELSE Err
      [] op = "*" -> IF l.k = "int" /\ r.k = "int"
                     THEN (IF Abs(l.n) > Big \/ Abs(r.n) > Big THEN Unspec ELSE VInt(l.n * r.n)) ELSE Err
      [] op = "/" ->
           CASE l.k = "int" /\ r.k = "int" -> IF r.n = 0 THEN Err ELSE VInt(l.n \div r.n)    \* floor division
             [] l.k = "str" /\ r.k = "str" -> IF PathPortable(l.s, r.s) THEN VStr(PathJoin(l.s, r.s)) ELSE Unspec
             [] OTHER -> Err
      [] op = "%" -> IF l.k = "int" /\ r.k = "int" THEN (IF r.n = 0 THEN Err ELSE VInt(FloorMod(l.n, r.n))) ELSE Err
Compare(op, l, r) ==
    IF op \in {"in", "not in"} THEN
         \* `x in container`
         LET res == CASE r.k = "arr" -> MemberOf(l, r.e)
                      [] r.k = "dict" -> IF l.k = "str" THEN VBool(DictHas(r, l.s)) ELSE Err
                      [] r.k = "str" -> IF l.k = "str" THEN VBool(HasSub(r.s, l.s)) ELSE Err
                      [] OTHER -> Err
         IN IF IsErr(res) THEN res ELSE IF op = "in" THEN res ELSE VBool(~Truth(res))
    ELSE IF BoolAsInt(l, r) THEN ErrBoolInt
    ELSE IF op \in {"==", "!="} THEN
         IF l.k # r.k \/ l.k \in {"void", "range"} THEN (IF l.k = "range" \/ r.k = "range" THEN Unspec ELSE Err)
         ELSE LET d == DeepEq(l, r) IN
              IF d = "unspec" THEN Unspec ELSE VBool((d = "same") = (op = "=="))
    ELSE \* ordering
         CASE l.k = "int" /\ r.k = "int" ->
                VBool(CASE op = "<" -> l.n < r.n [] op = "<=" -> l.n <= r.n [] op = ">" -> l.n > r.n [] op = ">=" -> l.n >= r.n)
           [] l.k = "str" /\ r.k = "str" ->
                VBool(CASE op = "<" -> SeqLess(l.s, r.s) [] op = "<=" -> ~SeqLess(r.s, l.s)
                        [] op = ">" -> SeqLess(r.s, l.s) [] op = ">=" -> ~SeqLess(l.s, r.s))
           [] OTHER -> Err

Index(o, ix) ==
    CASE o.k \in {"arr", "range", "str"} ->
           IF ix.k = "bool" THEN ErrBoolInt
           ELSE IF ix.k # "int" THEN Err
           ELSE LET len == IF o.k = "str" THEN Len(o.s) ELSE Len(o.e)
                    p == IF ix.n < 0 THEN ix.n + len ELSE ix.n
                IN IF p < 0 \/ p >= len THEN Err
                   ELSE IF o.k = "str" THEN VStr(<<o.s[p + 1]>>) ELSE o.e[p + 1]
      [] o.k = "dict" -> IF ix.k # "str" THEN Err ELSE DictGet(o, ix.s)
      [] OTHER -> Err

\* ---- methods ------------------------------------------------------------------------------------------
AllStr(vs) == \A i \in 1..Len(vs) : vs[i].k = "str"
NArgs(args, lo, hi) == Len(args) >= lo /\ Len(args) <= hi
StrSeq(vs) == [i \in 1..Len(vs) |-> vs[i].s]
\* an int-typed argument given as a bool
IntArg(v) == IF v.k = "int" THEN "ok" ELSE IF v.k = "bool" THEN "bool" ELSE "bad"

RECURSIVE FlattenStrs(_)
\* str.join flattens its arguments (a single array of strings is the classic form)
FlattenStrs(vs) == IF vs = <<>> THEN <<>>
                   ELSE (IF vs[1].k = "arr" THEN FlattenStrs(vs[1].e) ELSE <<vs[1]>>) \o FlattenStrs(Tail(vs))

StrMethod(o, m, args) ==
    CASE m = "contains" -> IF NArgs(args, 1, 1) /\ AllStr(args) THEN VBool(HasSub(o.s, args[1].s)) ELSE Err
      [] m = "startswith" -> IF NArgs(args, 1, 1) /\ AllStr(args) THEN VBool(StartsWith(o.s, args[1].s)) ELSE Err
      [] m = "endswith" -> IF NArgs(args, 1, 1) /\ AllStr(args) THEN VBool(EndsWith(o.s, args[1].s)) ELSE Err
      [] m = "to_upper" -> IF args # <<>> THEN Err ELSE IF Ascii(o.s) THEN VStr(ToUpper(o.s)) ELSE Unspec
      [] m = "to_lower" -> IF args # <<>> THEN Err ELSE IF Ascii(o.s) THEN VStr(ToLower(o.s)) ELSE Unspec
      [] m = "underscorify" -> IF args # <<>> THEN Err ELSE IF Ascii(o.s) THEN VStr(Underscorify(o.s)) ELSE Unspec
      [] m = "to_int" -> IF args # <<>> THEN Err ELSE StrToInt(o.s)
      [] m = "strip" ->
           IF ~NArgs(args, 0, 1) \/ ~AllStr(args) THEN Err
           ELSE IF args = <<>> \/ args[1].s = <<>> THEN (IF Ascii(o.s) THEN VStr(Strip(o.s, WsChars)) ELSE Unspec)
           ELSE VStr(Strip(o.s, SeqSet(args[1].s)))
      [] m = "split" ->
           IF ~NArgs(args, 0, 1) \/ ~AllStr(args) THEN Err
           ELSE IF args = <<>> THEN
                \* whitespace splitting: runs of whitespace separate, none at the ends produce empty fields
                (IF ~Ascii(o.s) THEN Unspec
                 ELSE LET norm == [i \in 1..Len(o.s) |-> IF o.s[i] \in WsChars THEN 32 ELSE o.s[i]]
                          parts == SelectSeq(Split(norm, <<32>>), LAMBDA p : p # <<>>)
                      IN VArr([i \in 1..Len(parts) |-> VStr(parts[i])]))
           ELSE IF args[1].s = <<>> THEN Err
           ELSE LET parts == Split(o.s, args[1].s) IN VArr([i \in 1..Len(parts) |-> VStr(parts[i])])
      [] m = "join" ->
           LET flat == FlattenStrs(args) IN
           IF ~AllStr(flat) THEN Err ELSE VStr(JoinSeq(o.s, StrSeq(flat)))
      [] m = "replace" ->
           IF ~NArgs(args, 2, 2) \/ ~AllStr(args) THEN Err
           ELSE IF args[1].s = <<>> THEN Unspec ELSE VStr(Replace(o.s, args[1].s, args[2].s))
      [] m = "substring" ->
           IF ~NArgs(args, 0, 2) THEN Err
           ELSE IF \E i \in 1..Len(args) : IntArg(args[i]) = "bad" THEN Err
           ELSE IF \E i \in 1..Len(args) : IntArg(args[i]) = "bool" THEN ErrBoolInt
           ELSE VStr(Substring(o.s, IF Len(args) >= 1 THEN args[1].n ELSE 0, IF Len(args) = 2 THEN args[2].n ELSE Len(o.s)))
      [] m = "format" -> FormatFrom(o.s, 1, args)
      [] m = "splitlines" ->
           IF args # <<>> THEN Err
           ELSE IF SeqSet(o.s) \cap OtherLineBreaks # {} THEN Unspec
           ELSE LET ls == TextLines(o.s) IN VArr([i \in 1..Len(ls) |-> VStr(ls[i])])
      [] m = "version_compare" -> Unspec
      [] OTHER -> Err

KwValsOf(kv) == [i \in 1..Len(kv) |-> kv[i][2]]
RECURSIVE HasNested(_)
HasNested(es) == \E i \in 1..Len(es) : es[i].k = "arr"

ArrMethod(o, m, args) ==
    CASE m = "length" -> IF args # <<>> THEN Err ELSE VInt(Len(o.e))
      [] m = "contains" ->
           IF ~NArgs(args, 1, 1) THEN Err
           ELSE LET r == MemberOf(args[1], o.e) IN
                IF ~IsErr(r) /\ ~Truth(r) /\ HasNested(o.e) THEN Unspec ELSE r    \* search inside nested arrays is not documented
      [] m = "get" ->
           IF ~NArgs(args, 1, 2) THEN Err
           ELSE IF IntArg(args[1]) = "bad" THEN Err
           ELSE IF IntArg(args[1]) = "bool" THEN ErrBoolInt
           ELSE LET len == Len(o.e)
                    ix == args[1].n
                IN IF ix < -len \/ ix >= len THEN (IF Len(args) = 2 THEN args[2] ELSE Err)
                   ELSE o.e[(IF ix < 0 THEN ix + len ELSE ix) + 1]
      [] m = "flatten" ->
           IF args # <<>> THEN Err ELSE VArr(FlattenVals(o.e))
      [] OTHER -> Err

\* array.slice(start, stop, step : n) - array.yml: start and stop are given both or not at all, negative indices count from
\* the back, the step is not zero; with a negative step and no bounds the selection runs from the end to the beginning.
\* Bounds outside the array are cut to it (test cases/common/56 array methods: slice(-9876543, 2), slice(1, 12, step : 2)).
\* Explicit bounds together with a negative step have neither a worked example nor a pinned test: not determined.
ArrSlice(o, args, kws) ==
    LET ints == args \o KwValsOf(kws) IN
    IF Len(kws) > 1 \/ (Len(kws) = 1 /\ kws[1][1] # "step") THEN Err
    ELSE IF Len(args) > 2 THEN Err
    ELSE IF \E i \in 1..Len(ints) : IntArg(ints[i]) = "bad" THEN Err
    ELSE IF \E i \in 1..Len(ints) : IntArg(ints[i]) = "bool" THEN ErrBoolInt
    ELSE IF Len(args) = 1 THEN Err
    ELSE LET step == IF kws = <<>> THEN 1 ELSE kws[1][2].n
             len == Len(o.e)
         IN IF step = 0 THEN Err
            ELSE IF step < 0 THEN (IF args # <<>> THEN Unspec ELSE VArr(StrideDown(o.e, len - 1, step)))
            ELSE IF args = <<>> THEN VArr(StrideUp(o.e, 0, len, step))
            ELSE VArr(StrideUp(o.e, ClampIdx(args[1].n, len), ClampIdx(args[2].n, len), step))

DictMethod(o, m, args) ==
    CASE m = "has_key" -> IF NArgs(args, 1, 1) /\ AllStr(args) THEN VBool(DictHas(o, args[1].s)) ELSE Err
      [] m = "get" ->
           IF ~NArgs(args, 1, 2) \/ args[1].k # "str" THEN Err
           ELSE IF DictHas(o, args[1].s) THEN DictGet(o, args[1].s)
           ELSE IF Len(args) = 2 THEN args[2] ELSE Err
      [] m = "keys" ->
           IF args # <<>> THEN Err
           ELSE LET ks == SortKeys({ o.e[i].s : i \in 1..Len(o.e) }) IN VArr([i \in 1..Len(ks) |-> VStr(ks[i])])
      [] m = "values" ->                                    \* "sorted by the corresponding keys in ascending order"
           IF args # <<>> THEN Err
           ELSE LET ks == SortKeys({ o.e[i].s : i \in 1..Len(o.e) }) IN VArr([i \in 1..Len(ks) |-> DictGet(o, ks[i])])
      [] OTHER -> Err

IntMethod(o, m, args, kws) ==
    CASE m = "is_even" -> IF args # <<>> THEN Err ELSE VBool(o.n % 2 = 0)
      [] m = "is_odd" -> IF args # <<>> THEN Err ELSE VBool(o.n % 2 = 1)
      [] m = "to_string" ->
           IF args # <<>> THEN Err
           ELSE IF kws = <<>> THEN VStr(IntToStr(o.n))
           ELSE IF Len(kws) = 1 /\ kws[1][1] = "fill" THEN
                (IF IntArg(kws[1][2]) = "bad" THEN Err
                 ELSE IF IntArg(kws[1][2]) = "bool" THEN ErrBoolInt
                 ELSE IF kws[1][2].n > 64 THEN Unspec ELSE VStr(IntToStrFill(o.n, kws[1][2].n)))
           ELSE Unspec
      [] OTHER -> Err

BoolMethod(o, m, args) ==
    CASE m = "to_int" -> IF args # <<>> THEN Err ELSE VInt(o.n)
      [] m = "to_string" ->
           IF args = <<>> THEN Stringify(o)
           ELSE IF Len(args) = 2 /\ AllStr(args) THEN (IF Truth(o) THEN args[1] ELSE args[2])
           ELSE Err
      [] OTHER -> Err

\* the object returned by subproject(): its variables are reachable only through get_variable()
SubprojMethod(o, m, args) ==
    CASE m = "get_variable" ->
           IF ~NArgs(args, 1, 2) \/ args[1].k # "str" THEN Err
           ELSE IF DictHas(o.e[1], args[1].s) THEN DictGet(o.e[1], args[1].s)
           ELSE IF Len(args) = 2 THEN args[2] ELSE Err
      [] m = "found" -> IF args = <<>> THEN VBool(TRUE) ELSE Err
      [] OTHER -> Unspec

\* Syntax.md "Argument flattening": "Meson takes the list of arguments and flattens all nested lists into one big
\* list" - positional arguments that are arrays are flattened into the argument list (the default of the reference
\* manual) except for the methods the reference marks `arg_flattening: false`: array.contains, array.get,
\* dict.get, str.format (and get_variable of a subproject object).
NoFlatten(o, m) == \/ o.k = "arr" /\ m \in {"contains", "get"}
                   \/ o.k = "dict" /\ m = "get"
                   \/ o.k = "str" /\ m = "format"
                   \/ o.k = "subproj"
MethodOn(o, m, args, kws) ==
    IF o.k = "int" THEN IntMethod(o, m, args, kws)
    ELSE IF o.k = "subproj" THEN (IF kws # <<>> THEN Err ELSE SubprojMethod(o, m, args))
    ELSE IF o.k = "arr" /\ m = "slice" THEN ArrSlice(o, args, kws)
    ELSE IF kws # <<>> THEN Err
    ELSE CASE o.k = "str" -> StrMethod(o, m, args)
           [] o.k = "arr" -> ArrMethod(o, m, args)
           [] o.k = "dict" -> DictMethod(o, m, args)
           [] o.k = "bool" -> BoolMethod(o, m, args)
           [] OTHER -> Err
Method(o, m, args, kws) == MethodOn(o, m, IF NoFlatten(o, m) THEN args ELSE FlattenVals(args), kws)

\* ---- built-in functions that are part of the core language -------------------------------------------
RECURSIVE RangeElems(_, _, _)
RangeElems(a, b, st) == IF a >= b THEN <<>> ELSE <<VInt(a)>> \o RangeElems(a + st, b, st)

IsIdentifier(cs) == cs # <<>> /\ IsIdStart(cs[1]) /\ \A i \in 1..Len(cs) : IsIdChar(cs[i])

Function(name, args, kws, env) ==
    IF kws # <<>> THEN Err
    ELSE CASE name = "get_variable" ->
                IF ~NArgs(args, 1, 2) \/ args[1].k # "str" THEN Err
                ELSE IF EnvHas(env, args[1].s) THEN EnvGet(env, args[1].s)
                ELSE IF Len(args) = 2 THEN args[2] ELSE Err
           [] name = "is_variable" ->
                IF \E i \in 1..Len(args) : args[i].k = "arr" THEN Unspec          \* argument flattening
                ELSE IF ~NArgs(args, 1, 1) \/ args[1].k # "str" THEN Err
                ELSE VBool(EnvHas(env, args[1].s))
           [] name = "range" ->
                IF \E i \in 1..Len(args) : args[i].k = "arr" THEN Unspec
                ELSE IF ~NArgs(args, 1, 3) THEN Err
                ELSE IF \E i \in 1..Len(args) : IntArg(args[i]) = "bad" THEN Err
                ELSE IF \E i \in 1..Len(args) : IntArg(args[i]) = "bool" THEN ErrBoolInt
                ELSE LET start == IF Len(args) = 1 THEN 0 ELSE args[1].n
                         stop == IF Len(args) = 1 THEN args[1].n ELSE args[2].n
                         step == IF Len(args) = 3 THEN args[3].n ELSE 1
                     IN IF start < 0 \/ stop < start \/ step < 1 THEN Err
                        ELSE IF stop - start > 64 THEN Unspec
                        ELSE VRange(RangeElems(start, stop, step))
           [] name = "message" ->
                IF args = <<>> THEN Unspec
                ELSE LET strs == [i \in 1..Len(args) |-> Stringify(args[i])] IN
                     IF AnyErr(strs) THEN FirstErr(strs) ELSE VVoid
           [] name \in {"set_variable", "unset_variable", "subdir"} -> Unspec       \* side effect in expression position
           [] name = "subproject" ->
                \* only reached when the pre-pass found no such subproject (see Inline): a required subproject that does not exist
                IF Len(args) = 1 /\ args[1].k = "str" THEN Err ELSE Unspec
           [] OTHER -> Err

\* ---- expressions ---------------------------------------------------------------------------------------
RECURSIVE Eval(_, _), EvalSeq(_, _), EvalKws(_, _), EvalDict(_, _, _), RunSub(_)

\* values of positional arguments; a void or failing argument fails the list
EvalSeq(nodes, env) == [i \in 1..Len(nodes) |-> LET v == Eval(nodes[i], env) IN IF v.k = "void" THEN Err ELSE v]
\* keyword arguments as <<name, value>>
EvalKws(kws, env) == [i \in 1..Len(kws) |-> <<kws[i].c[1].v, LET v == Eval(kws[i].c[2], env) IN IF v.k = "void" THEN Err ELSE v>>]
KwVals(kv) == [i \in 1..Len(kv) |-> kv[i][2]]
DupKw(kv) == \E i, j \in 1..Len(kv) : i < j /\ kv[i][1] = kv[j][1]

EvalDict(kws, env, acc) ==
    IF kws = <<>> THEN VDict(acc)
    ELSE LET key == Eval(kws[1].c[1], env)
             val == Eval(kws[1].c[2], env)
         IN IF IsErr(key) THEN key
            ELSE IF key.k # "str" THEN Err
            ELSE IF IsErr(val) THEN val
            ELSE IF val.k = "void" THEN Err
            ELSE IF \E i \in 1..Len(acc) : acc[i].s = key.s THEN Err       \* keys must be unique
            ELSE EvalDict(Tail(kws), env, Append(acc, VEnt(key.s, val)))

Eval(node, env) ==
    LET k == node.k IN
    CASE k = "num" -> VInt(node.n)
      [] k = "bool" -> VBool(node.n = 1)
      [] k = "str" ->
           LET raw == node.cs
               dec == IF node.v \in {"s", "fs"} THEN Unescape(raw) ELSE <<"ok", raw>>
           IN IF dec[1] = "err" THEN Err
              ELSE IF dec[1] = "unspec" THEN Unspec
              ELSE IF node.v \in {"fs", "mfs"} THEN FStringFrom(dec[2], 1, env) ELSE VStr(dec[2])
      [] k = "id" -> IF EnvHas(env, node.cs) THEN EnvGet(env, node.cs) ELSE Err
      [] k = "paren" -> Eval(node.c[1], env)
      [] k = "arr" ->
           LET a == node.c[1] IN
           IF a.n = 1 THEN Err
           ELSE LET vs == EvalSeq(a.c, env) IN
                IF AnyErr(vs) THEN FirstErr(vs)
                ELSE IF a.d # <<>> THEN (LET kv == EvalKws(a.d, env) IN IF AnyErr(KwVals(kv)) /\ FirstErr(KwVals(kv)).n = 3 THEN Unspec ELSE Err)
                ELSE VArr(vs)
      [] k = "dict" -> EvalDict(node.c[1].d, env, <<>>)
      [] k = "not" ->
           LET v == Eval(node.c[1], env) IN
           IF IsErr(v) THEN v ELSE IF v.k = "bool" THEN VBool(~Truth(v)) ELSE Err
      [] k = "neg" ->
           LET v == Eval(node.c[1], env) IN
           IF IsErr(v) THEN v ELSE IF v.k = "int" THEN VInt(-v.n) ELSE Err
      [] k = "and" ->
           LET l == Eval(node.c[1], env) IN
           IF IsErr(l) THEN l
           ELSE IF l.k # "bool" THEN Err
           ELSE IF ~Truth(l) THEN VBool(FALSE)                       \* right operand is not evaluated
           ELSE LET r == Eval(node.c[2], env) IN IF IsErr(r) THEN r ELSE IF r.k = "bool" THEN r ELSE Err
      [] k = "or" ->
           LET l == Eval(node.c[1], env) IN
           IF IsErr(l) THEN l
           ELSE IF l.k # "bool" THEN Err
           ELSE IF Truth(l) THEN VBool(TRUE)
           ELSE LET r == Eval(node.c[2], env) IN IF IsErr(r) THEN r ELSE IF r.k = "bool" THEN r ELSE Err
      [] k = "cmp" ->
           LET l == Eval(node.c[1], env)
               r == Eval(node.c[2], env)
           IN IF IsErr(l) THEN l ELSE IF IsErr(r) THEN r ELSE Compare(node.v, l, r)
      [] k = "arith" ->
           LET l == Eval(node.c[1], env)
               r == Eval(node.c[2], env)
           IN IF IsErr(l) THEN l ELSE IF IsErr(r) THEN r ELSE Arith(node.v, l, r)
      [] k = "ternary" ->
           LET c == Eval(node.c[1], env) IN
           IF IsErr(c) THEN c
           ELSE IF c.k # "bool" THEN Err
           ELSE Eval(IF Truth(c) THEN node.c[2] ELSE node.c[3], env)
      [] k = "idx" ->
           LET o == Eval(node.c[1], env)
               ix == Eval(node.c[2], env)
           IN IF IsErr(o) THEN o ELSE IF IsErr(ix) THEN ix ELSE Index(o, ix)
      [] k = "method" ->
           LET o == Eval(node.c[1], env)
               a == node.c[2]
           IN IF IsErr(o) THEN o
              ELSE IF a.n = 1 THEN Err
              ELSE LET vs == EvalSeq(a.c, env)
                       kv == EvalKws(a.d, env)
                   IN IF AnyErr(vs \o KwVals(kv)) THEN FirstErr(vs \o KwVals(kv))
                      ELSE IF DupKw(kv) \/ \E i \in 1..Len(kv) : kv[i][1] = "kwargs" THEN Unspec
                      ELSE Method(o, node.v, vs, kv)
      [] k = "call" ->
           LET a == node.c[1] IN
           IF a.n = 1 THEN Err
           ELSE LET vs == EvalSeq(a.c, env)
                    kv == EvalKws(a.d, env)
                IN IF AnyErr(vs \o KwVals(kv)) THEN FirstErr(vs \o KwVals(kv))
                   ELSE IF DupKw(kv) \/ \E i \in 1..Len(kv) : kv[i][1] = "kwargs" THEN Unspec
                   ELSE Function(node.v, vs, kv, env)
      [] k = "subproj" -> RunSub(node)
      [] k \in {"assign", "plusassign"} -> Unspec         \* assignment in expression position: outside the reference
      [] OTHER -> Err                                        \* empty operand, statement keywords

\* ---- statements ------------------------------------------------------------------------------------------
\* result of running statements: the store, a signal "next" | "break" | "continue" | "err", and the error reason
R(env, sig, code) == [env |-> env, sig |-> sig, code |-> code]

RECURSIVE Exec(_, _), ExecLines(_, _, _), ExecIf(_, _, _), ExecLoop(_, _, _, _)

ExecLines(lines, i, env) ==
    IF i > Len(lines) THEN R(env, "next", 0)
    ELSE LET r == Exec(lines[i], env) IN
         IF r.sig # "next" THEN r ELSE ExecLines(lines, i + 1, r.env)

ExecIf(node, j, env) ==
    IF 2 * j > Len(node.c) THEN (IF node.d = <<>> THEN R(env, "next", 0) ELSE ExecLines(node.d[1].c, 1, env))
    ELSE LET c == Eval(node.c[2 * j - 1], env) IN
         IF IsErr(c) THEN R(env, "err", c.n)
         ELSE IF c.k # "bool" THEN R(env, "err", 1)
         ELSE IF Truth(c) THEN ExecLines(node.c[2 * j].c, 1, env)
         ELSE ExecIf(node, j + 1, env)

\* items: sequence of bindings (each a sequence of values, one per loop variable)
ExecLoop(node, items, j, env) ==
    IF j > Len(items) THEN R(env, "next", 0)
    ELSE LET vars == node.d
             bound == IF Len(vars) = 1 THEN SetVar(env, vars[1].cs, items[j][1])
                      ELSE SetVar(SetVar(env, vars[1].cs, items[j][1]), vars[2].cs, items[j][2])
             r == ExecLines(node.c[2].c, 1, bound)
         IN IF r.sig = "err" THEN r
            ELSE IF r.sig = "break" THEN R(r.env, "next", 0)
            ELSE ExecLoop(node, items, j + 1, r.env)

Exec(node, env) ==
    LET k == node.k IN
    CASE k = "assign" ->
           LET v == Eval(node.c[1], env) IN
           IF IsErr(v) THEN R(env, "err", v.n)
           ELSE IF v.k = "void" THEN R(env, "err", 1)
           ELSE R(SetVar(env, node.cs, v), "next", 0)
      [] k = "plusassign" ->
           LET v == Eval(node.c[1], env) IN
           IF IsErr(v) THEN R(env, "err", v.n)
           ELSE IF v.k = "void" \/ ~EnvHas(env, node.cs) THEN R(env, "err", 1)
           ELSE LET nv == Arith("+", EnvGet(env, node.cs), v) IN
                IF IsErr(nv) THEN R(env, "err", nv.n) ELSE R(SetVar(env, node.cs, nv), "next", 0)
      [] k = "if" -> ExecIf(node, 1, env)
      [] k = "foreach" ->
           LET it == Eval(node.c[1], env)
               nv == Len(node.d)
           IN IF IsErr(it) THEN R(env, "err", it.n)
              ELSE IF it.k \in {"arr", "range"} THEN
                   (IF nv # 1 THEN R(env, "err", 1) ELSE ExecLoop(node, [i \in 1..Len(it.e) |-> <<it.e[i]>>], 1, env))
              ELSE IF it.k = "dict" THEN
                   (IF nv # 2 THEN R(env, "err", 1) ELSE ExecLoop(node, [i \in 1..Len(it.e) |-> <<VStr(it.e[i].s), it.e[i].e[1]>>], 1, env))
              ELSE R(env, "err", 1)
      [] k = "continue" -> R(env, "continue", 0)
      [] k = "break" -> R(env, "break", 0)
      [] k = "call" /\ node.v \in {"set_variable", "unset_variable"} ->
           LET a == node.c[1]
               vs == EvalSeq(a.c, env)
           IN IF a.n = 1 THEN R(env, "err", 1)
              ELSE IF AnyErr(vs) THEN R(env, "err", FirstErr(vs).n)
              ELSE IF a.d # <<>> THEN R(env, "err", IF AnyErr(KwVals(EvalKws(a.d, env))) /\ FirstErr(KwVals(EvalKws(a.d, env))).n = 3 THEN 3 ELSE 1)
              ELSE IF node.v = "set_variable" THEN
                   (IF Len(vs) # 2 \/ vs[1].k # "str" THEN R(env, "err", 1)
                    ELSE IF ~IsIdentifier(vs[1].s) THEN R(env, "err", 1)
                    ELSE IF vs[2].k = "range" THEN R(env, "err", 3)
                    ELSE R(SetVar(env, vs[1].s, vs[2]), "next", 0))
              ELSE (IF \E i \in 1..Len(vs) : vs[i].k = "arr" THEN R(env, "err", 3)
                    ELSE IF Len(vs) # 1 \/ vs[1].k # "str" THEN R(env, "err", 1)
                    ELSE IF ~EnvHas(env, vs[1].s) THEN R(env, "err", 1)
                    ELSE R(EnvDel(env, vs[1].s), "next", 0))
      [] OTHER ->
           \* expression statement: evaluated, value discarded
           LET v == Eval(node, env) IN IF IsErr(v) THEN R(env, "err", v.n) ELSE R(env, "next", 0)

\* subproject('name') (node produced by Inline): the subproject's file runs in a store of its own; the result gives
\* access to its final variables through get_variable() only.  A failing subproject fails the lookup.
RunSub(node) ==
    LET r == ExecLines(node.c[1].c, 1, <<>>) IN
    IF r.sig = "err" THEN Val("err", r.code, <<>>, <<>>)
    ELSE IF r.sig # "next" THEN Err
    ELSE Val("subproj", 0, node.cs, <<VDict([i \in 1..Len(r.env) |-> VEnt(r.env[i][1], r.env[i][2])])>>)

\* ---- subdir() and subproject() ---------------------------------------------------------------------------------
\* files: sequence of <<path (code points), block tree>> for the build files of sub-directories;
\* subs : sequence of <<name (code points), block tree>> for subprojects.
\* subdir('d') as a statement is replaced by the statements of d's build file ("runs as if written in place, sharing
\* all variables"); nested directories are looked up relative to the including directory.  subproject('s') becomes a
\* "subproj" node holding the subproject's program.
Lookup(tbl, key) == LET ix == { i \in 1..Len(tbl) : tbl[i][1] = key } IN IF ix = {} THEN Nil ELSE tbl[CHOOSE i \in ix : TRUE][2]
PlainLiteral(n) == n.k = "str" /\ n.v = "s" /\ n.cs # <<>> /\ \A i \in 1..Len(n.cs) : IsIdChar(n.cs[i])
OneLiteralArg(call) == Len(call.c[1].c) = 1 /\ call.c[1].d = <<>> /\ call.c[1].n = 0 /\ PlainLiteral(call.c[1].c[1])
Missing == Node("call", "__missing_build_file__", 0, <<>>, <<Node("args", "", 0, <<>>, <<>>, <<>>, 0, 0)>>, <<>>, 0, 0)

RECURSIVE InlineLines(_, _, _, _), InlineExpr(_, _)
\* replace subproject('s') inside an expression
InlineExpr(node, subs) ==
    IF node.k = "call" /\ node.v = "subproject" /\ OneLiteralArg(node) /\ Lookup(subs, node.c[1].c[1].cs) # Nil
    THEN Node("subproj", "", 0, node.c[1].c[1].cs, <<Lookup(subs, node.c[1].c[1].cs)>>, <<>>, node.a, node.b)
    ELSE [node EXCEPT !.c = [i \in 1..Len(node.c) |-> InlineExpr(node.c[i], subs)],
                      !.d = [i \in 1..Len(node.d) |-> InlineExpr(node.d[i], subs)]]

InlineLines(lines, prefix, files, subs) ==
    IF lines = <<>> THEN <<>>
    ELSE LET ln == lines[1]
             rest == InlineLines(Tail(lines), prefix, files, subs)
         IN IF ln.k = "call" /\ ln.v = "subdir" /\ OneLiteralArg(ln) THEN
                 LET path == prefix \o ln.c[1].c[1].cs
                     sub == Lookup(files, path)
                 IN IF sub = Nil THEN <<Missing>> \o rest
                    ELSE InlineLines(sub.c, path \o <<47>>, files, subs) \o rest
            ELSE IF ln.k = "if" THEN
                 <<[ln EXCEPT !.c = [i \in 1..Len(ln.c) |->
                                       IF i % 2 = 0 THEN [ln.c[i] EXCEPT !.c = InlineLines(ln.c[i].c, prefix, files, subs)]
                                       ELSE InlineExpr(ln.c[i], subs)],
                              !.d = [i \in 1..Len(ln.d) |-> [ln.d[i] EXCEPT !.c = InlineLines(ln.d[i].c, prefix, files, subs)]]]>> \o rest
            ELSE <<InlineExpr(ln, subs)>> \o rest

Inline(block, files, subs) == [block EXCEPT !.c = InlineLines(block.c, <<>>, files, subs)]

\* a whole program: break / continue outside a loop is a failure
Run(block, env) ==
    LET r == ExecLines(block.c, 1, env) IN
    IF r.sig \in {"break", "continue"} THEN R(r.env, "err", 1) ELSE r

=============================================================================
