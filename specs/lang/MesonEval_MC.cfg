SPECIFICATION Spec
CONSTANTS MaxLen = 3
 AlphabetName = "evalexpr"
INVARIANT Total
INVARIANT PredefinedUntouched
INVARIANT ComparisonIsBool
CHECK_DEADLOCK FALSE
POSTCONDITION EmitAlphabet
