----------------------------- MODULE MesonEval_MC -----------------------------
(* Every token sequence up to MaxLen over an alphabet of literals, operators and  *)
(* statement keywords is parsed and run by the reference evaluator; the laws the  *)
(* language reference states are invariants.                                      *)
EXTENDS MesonEval, TLC, Json, SequencesExt
CONSTANTS MaxLen, AlphabetName
VARIABLES ts
vars == <<ts>>

Id(x, cs) == Token("id", x, 0, cs)
Num(k) == Token("number", "", k, <<>>)
Str(fl, cs) == Token("string", fl, 0, cs)
X == Id("x", <<120>>)
Y == Id("y", <<121>>)

\* x is predefined as [7, 'a'], y is undefined
Env0 == << <<<<120>>, VArr(<<VInt(7), VStr(<<97>>)>>)>> >>

ExprAlphabet ==
    { Num(7), Num(2), Sym("true"), Sym("false"), Str("s", <<97>>), X, Sym("plus"), Sym("dash"), Sym("star"), Sym("fslash"),
      Sym("percent"), Sym("equal"), Sym("lt"), Sym("and"), Sym("or"), Sym("not"), Sym("in"), Sym("lparen"), Sym("rparen"),
      Sym("questionmark"), Sym("colon"), Sym("lbracket"), Sym("rbracket"), Sym("comma") }
StmtAlphabet ==
    { X, Y, Sym("assign"), Sym("plusassign"), Num(7), Str("s", <<97>>), Sym("lbracket"), Sym("rbracket"), Sym("eol"),
      Sym("if"), Sym("else"), Sym("endif"), Sym("foreach"), Sym("colon"), Sym("endforeach"), Sym("break"), Sym("continue"),
      Sym("true"), Sym("plus"), Sym("equal") }
MethodAlphabet ==
    { X, Str("s", <<97>>), Str("s", <<>>), Num(1), Num(-1 + 1), Sym("true"), Sym("dot"), Sym("lparen"), Sym("rparen"), Sym("comma"),
      Id("length", <<108,101,110,103,116,104>>), Id("get", <<103,101,116>>), Id("contains", <<99,111,110,116,97,105,110,115>>),
      Id("to_int", <<116,111,95,105,110,116>>), Id("to_string", <<116,111,95,115,116,114,105,110,103>>),
      Id("join", <<106,111,105,110>>), Sym("lbracket"), Sym("rbracket"), Sym("dash") }

Alphabet == CASE AlphabetName = "evalexpr" -> ExprAlphabet
              [] AlphabetName = "evalstmt" -> StmtAlphabet
              [] AlphabetName = "evalmethod" -> MethodAlphabet

Init == ts = <<>>
Next == Len(ts) < MaxLen /\ \E t \in Alphabet : ts' = Append(ts, t)
Spec == Init /\ [][Next]_vars

P == Parse(ts)
Res == IF P.ok THEN Run(P.node, Env0) ELSE R(Env0, "err", 1)

\* the evaluator is total and its result is well formed
Total == /\ Res.sig \in {"next", "err"}
         /\ Res.code \in 0..3
         /\ \A j \in 1..Len(Res.env) : Res.env[j][2].k \in {"int", "bool", "str", "arr", "dict", "range"}
\* values are immutable: no statement changes what another name holds - a name's value only changes when it is assigned
\* (checked on single assignments: `y = x` followed by anything not mentioning x leaves x as it was)
PredefinedUntouched ==
    (Res.sig = "next" /\ ~\E j \in 1..Len(ts) : ts[j] = X /\ j < Len(ts) /\ ts[j + 1].t \in {"assign", "plusassign"})
    /\ ~(\E j \in 1..Len(ts) : ts[j].t = "foreach")
        => EnvHas(Res.env, <<120>>) /\ EnvGet(Res.env, <<120>>) = EnvGet(Env0, <<120>>)
\* typed results: a successful comparison or logical operation is a bool, arithmetic on ints is an int
TopExpr == IF P.ok /\ Len(P.node.c) = 1 THEN P.node.c[1] ELSE Nil
ComparisonIsBool ==
    (TopExpr.k \in {"cmp", "and", "or", "not"}) => LET v == Eval(TopExpr, Env0) IN IsErr(v) \/ v.k = "bool"

\* reference facts, independent of the ladder
ASSUME FloorDiv(-7, 2) = -4 /\ FloorMod(-7, 2) = 1 /\ FloorDiv(7, -2) = -4 /\ FloorMod(7, -2) = -1 /\ FloorDiv(7, 2) = 3
ASSUME Unescape(<<92, 110, 92, 120, 52, 49, 92, 113>>) = <<"ok", <<10, 65, 92, 113>>>>
ASSUME StrToInt(<<32, 48, 52, 50>>) = VInt(42) /\ StrToInt(<<48, 120, 70, 70>>) = VInt(255) /\ StrToInt(<<97>>) = Err
ASSUME IntToStrFill(-7, 4) = <<45, 48, 48, 55>> /\ IntToStrFill(123, 2) = <<49, 50, 51>>
ASSUME Substring(<<102,111,111,98,97,114>>, -5, -3) = <<111, 111>> /\ Substring(<<102,111,111,98,97,114>>, 1, -1) = <<111,111,98,97>>
ASSUME Split(<<97,32,98,32,32,99>>, <<32>>) = <<<<97>>, <<98>>, <<>>, <<99>>>>
ASSUME PathJoin(<<47,117>>, <<47,101>>) = <<47,101>> /\ PathJoin(<<97>>, <<98>>) = <<97,47,98>>
ASSUME SortKeys({<<98>>, <<97, 98>>, <<97>>}) = <<<<97>>, <<97, 98>>, <<98>>>>
\* short circuit: the right operand of a decided and/or is not evaluated (here it would fail)
ASSUME Eval(Node("and", "", 0, <<>>, <<Leaf("bool", "", 0, <<>>, 1), Leaf("id", "nope", 0, <<110>>, 1)>>, <<>>, 0, 0), <<>>) = VBool(FALSE)
ASSUME Eval(Node("or", "", 0, <<>>, <<Leaf("bool", "", 1, <<>>, 1), Leaf("id", "nope", 0, <<110>>, 1)>>, <<>>, 0, 0), <<>>) = VBool(TRUE)
ASSUME IsErr(Eval(Node("and", "", 0, <<>>, <<Leaf("bool", "", 1, <<>>, 1), Leaf("id", "nope", 0, <<110>>, 1)>>, <<>>, 0, 0), <<>>))
\* ... and it is type-checked exactly when it is evaluated: a non-boolean right operand fails an undecided and/or, and is
\* not even looked at by a decided one
ASSUME IsErr(Eval(Node("and", "", 0, <<>>, <<Leaf("bool", "", 1, <<>>, 1), Leaf("num", "", 7, <<>>, 1)>>, <<>>, 0, 0), <<>>))
ASSUME IsErr(Eval(Node("or", "", 0, <<>>, <<Leaf("bool", "", 0, <<>>, 1), Leaf("num", "", 7, <<>>, 1)>>, <<>>, 0, 0), <<>>))
ASSUME Eval(Node("and", "", 0, <<>>, <<Leaf("bool", "", 0, <<>>, 1), Leaf("num", "", 7, <<>>, 1)>>, <<>>, 0, 0), <<>>) = VBool(FALSE)
ASSUME Eval(Node("or", "", 0, <<>>, <<Leaf("bool", "", 1, <<>>, 1), Leaf("num", "", 7, <<>>, 1)>>, <<>>, 0, 0), <<>>) = VBool(TRUE)

EmitAlphabet == TLCGet("stats").diameter >= 0 /\ JsonSerialize("alphabet.json", [alphabet |-> SetToSeq(Alphabet), env0 |-> Env0])
=============================================================================
