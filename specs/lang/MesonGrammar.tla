----------------------------- MODULE MesonGrammar -----------------------------
(***************************************************************************)
(* Reference grammar of the Meson build-definition language over abstract  *)
(* tokens (properties C01, C02, C16, C17).                                  *)
(*                                                                          *)
(* Parse(ts) maps a token sequence to [ok, node, p]: either an abstract     *)
(* syntax tree whose nodes carry the token-index extent <<a, b>> of the     *)
(* construct, or a rejection.  The precedence ladder is the one of the      *)
(* language reference (Syntax.md): assignment/ternary < or < and <          *)
(* comparison (single, no chaining) < + - < * / % < unary not/- (no         *)
(* stacking) < call / method / index < parentheses, literals.               *)
(* The grammar is lenient in the same places as the tool (an operand may    *)
(* be missing: the tree then holds an "empty" node, which evaluation        *)
(* rejects) so that acceptance can be compared exactly; the documented      *)
(* laws (precedence, associativity, no chaining, no nested ternary, no      *)
(* dropped token) are theorems checked by TLC in MesonGrammar_MC.           *)
(***************************************************************************)
EXTENDS Integers, Sequences, FiniteSets

\* ---- tokens ---------------------------------------------------------------
\* t : token kind; s : identifier name / string flavour ("s" plain, "ms" ''' ''', "fs" f'', "mfs" f''' ''')
\* n : numeric value; cs : raw characters of a string literal, or the name of an identifier (code points)
Token(t, s, n, cs) == [t |-> t, s |-> s, n |-> n, cs |-> cs]
Sym(t) == Token(t, "", 0, <<>>)

CmpTok == {"equal", "nequal", "lt", "le", "gt", "ge", "in"}
CmpOp(t) == CASE t = "equal" -> "==" [] t = "nequal" -> "!=" [] t = "lt" -> "<" [] t = "le" -> "<="
              [] t = "gt" -> ">" [] t = "ge" -> ">=" [] t = "in" -> "in"
AddTok == {"plus", "dash"}
MulTok == {"star", "fslash", "percent"}
ArithOp(t) == CASE t = "plus" -> "+" [] t = "dash" -> "-" [] t = "star" -> "*" [] t = "fslash" -> "/" [] t = "percent" -> "%"

\* A newline inside an open (, [ or { is whitespace, not a statement separator (the three counters are
\* independent and may go negative, exactly as in the lexer).
RECURSIVE DropNestedEolFrom(_, _, _, _, _, _)
DropNestedEolFrom(ts, i, par, brk, crl, acc) ==
    IF i > Len(ts) THEN acc
    ELSE LET t == ts[i].t IN
         CASE t = "lparen" -> DropNestedEolFrom(ts, i + 1, par + 1, brk, crl, Append(acc, i))
           [] t = "rparen" -> DropNestedEolFrom(ts, i + 1, par - 1, brk, crl, Append(acc, i))
           [] t = "lbracket" -> DropNestedEolFrom(ts, i + 1, par, brk + 1, crl, Append(acc, i))
           [] t = "rbracket" -> DropNestedEolFrom(ts, i + 1, par, brk - 1, crl, Append(acc, i))
           [] t = "lcurl" -> DropNestedEolFrom(ts, i + 1, par, brk, crl + 1, Append(acc, i))
           [] t = "rcurl" -> DropNestedEolFrom(ts, i + 1, par, brk, crl - 1, Append(acc, i))
           [] t = "eol" -> IF par > 0 \/ brk > 0 \/ crl > 0
                           THEN DropNestedEolFrom(ts, i + 1, par, brk, crl, acc)
                           ELSE DropNestedEolFrom(ts, i + 1, par, brk, crl, Append(acc, i))
           [] OTHER -> DropNestedEolFrom(ts, i + 1, par, brk, crl, Append(acc, i))
\* indices (into ts) of the tokens the parser sees
Significant(ts) == DropNestedEolFrom(ts, 1, 0, 0, 0, <<>>)

\* ---- tree nodes -------------------------------------------------------------
\* k kind; v operator / name / string flavour; n number / flag; cs characters; c, d children; a..b token extent
Node(k, v, n, cs, c, d, a, b) == [k |-> k, v |-> v, n |-> n, cs |-> cs, c |-> c, d |-> d, a |-> a, b |-> b]
Nil == Node("nil", "", 0, <<>>, <<>>, <<>>, 0, 0)
Empty(p) == Node("empty", "", 0, <<>>, <<>>, <<>>, p, p - 1)
Leaf(k, v, n, cs, p) == Node(k, v, n, cs, <<>>, <<>>, p, p)

Ok(node, p) == [ok |-> TRUE, node |-> node, p |-> p]
Fail(p) == [ok |-> FALSE, node |-> Nil, p |-> p]

Tk(ts, p) == IF p <= Len(ts) THEN ts[p].t ELSE "eof"
\* end of a node that may be empty: an empty operand does not extend the parent
EndOf(left, r, lastTok) == IF r.k = "empty" THEN lastTok ELSE r.b

RECURSIVE E1(_, _, _), E2(_, _, _), E2Loop(_, _, _, _), E3(_, _, _), E3Loop(_, _, _, _), E4(_, _, _), E5(_, _, _),
          E5Loop(_, _, _, _), E6(_, _, _), E6Loop(_, _, _, _), E7(_, _, _), E8(_, _, _), Postfix(_, _, _, _),
          E9(_, _, _), Args(_, _, _), ArgsLoop(_, _, _, _, _, _, _), KeyValues(_, _, _), KeyValuesLoop(_, _, _, _, _),
          MethodCall(_, _, _, _), CodeBlock(_, _), CodeBlockLoop(_, _, _, _), LineP(_, _), IfTail(_, _, _, _, _), ForeachP(_, _)

\* plain token (never fails; yields an empty node when no operand is present)
E10(ts, p) ==
    LET t == Tk(ts, p) IN
    CASE t = "true" -> Ok(Leaf("bool", "", 1, <<>>, p), p + 1)
      [] t = "false" -> Ok(Leaf("bool", "", 0, <<>>, p), p + 1)
      [] t = "id" -> Ok(Leaf("id", ts[p].s, 0, ts[p].cs, p), p + 1)
      [] t = "number" -> Ok(Leaf("num", "", ts[p].n, <<>>, p), p + 1)
      [] t = "string" -> Ok(Leaf("str", ts[p].s, 0, ts[p].cs, p), p + 1)
      [] OTHER -> Ok(Empty(p), p)

E1(ts, p, tern) ==
    LET l == E2(ts, p, tern) IN
    IF ~l.ok THEN l
    ELSE LET t == Tk(ts, l.p) IN
         CASE t \in {"plusassign", "assign"} ->
                LET r == E1(ts, l.p + 1, tern) IN
                IF ~r.ok THEN r
                ELSE IF l.node.k # "id" THEN Fail(p)
                ELSE Ok(Node(IF t = "assign" THEN "assign" ELSE "plusassign", l.node.v, l.p, l.node.cs, <<r.node>>, <<>>,
                             p, EndOf(l.node, r.node, l.p)), r.p)
           [] t = "questionmark" ->
                IF tern THEN Fail(p)
                ELSE LET tb == E1(ts, l.p + 1, TRUE) IN
                     IF ~tb.ok THEN tb
                     ELSE IF Tk(ts, tb.p) # "colon" THEN Fail(tb.p)
                     ELSE LET fb == E1(ts, tb.p + 1, TRUE) IN
                          IF ~fb.ok THEN fb
                          ELSE Ok(Node("ternary", "", l.p, <<>>, <<l.node, tb.node, fb.node>>, <<>>,
                                       l.node.a, EndOf(l.node, fb.node, tb.p)), fb.p)
           [] OTHER -> l

E2(ts, p, tern) == LET l == E3(ts, p, tern) IN IF ~l.ok THEN l ELSE E2Loop(ts, l.node, l.p, tern)
E2Loop(ts, left, p, tern) ==
    IF Tk(ts, p) # "or" THEN Ok(left, p)
    ELSE IF left.k = "empty" THEN Fail(p)
    ELSE LET r == E3(ts, p + 1, tern) IN
         IF ~r.ok THEN r
         ELSE E2Loop(ts, Node("or", "", p, <<>>, <<left, r.node>>, <<>>, left.a, EndOf(left, r.node, p)), r.p, tern)

E3(ts, p, tern) == LET l == E4(ts, p, tern) IN IF ~l.ok THEN l ELSE E3Loop(ts, l.node, l.p, tern)
E3Loop(ts, left, p, tern) ==
    IF Tk(ts, p) # "and" THEN Ok(left, p)
    ELSE IF left.k = "empty" THEN Fail(p)
    ELSE LET r == E4(ts, p + 1, tern) IN
         IF ~r.ok THEN r
         ELSE E3Loop(ts, Node("and", "", p, <<>>, <<left, r.node>>, <<>>, left.a, EndOf(left, r.node, p)), r.p, tern)

\* a single comparison: the result is not compared again (no chaining)
E4(ts, p, tern) ==
    LET l == E5(ts, p, tern) IN
    IF ~l.ok THEN l
    ELSE LET t == Tk(ts, l.p) IN
         IF t \in CmpTok THEN
              LET r == E5(ts, l.p + 1, tern) IN
              IF ~r.ok THEN r
              ELSE Ok(Node("cmp", CmpOp(t), l.p, <<>>, <<l.node, r.node>>, <<>>,
                           IF l.node.k = "empty" THEN l.p ELSE l.node.a, EndOf(l.node, r.node, l.p)), r.p)
         ELSE IF t = "not" THEN
              \* `not` after an operand is only legal as the first half of `not in`
              IF Tk(ts, l.p + 1) = "in" THEN
                   LET r == E5(ts, l.p + 2, tern) IN
                   IF ~r.ok THEN r
                   ELSE Ok(Node("cmp", "not in", l.p, <<>>, <<l.node, r.node>>, <<>>,
                                IF l.node.k = "empty" THEN l.p ELSE l.node.a, EndOf(l.node, r.node, l.p + 1)), r.p)
              ELSE Fail(l.p)
         ELSE l

E5(ts, p, tern) == LET l == E6(ts, p, tern) IN IF ~l.ok THEN l ELSE E5Loop(ts, l.node, l.p, tern)
E5Loop(ts, left, p, tern) ==
    IF Tk(ts, p) \notin AddTok THEN Ok(left, p)
    ELSE LET r == E6(ts, p + 1, tern) IN
         IF ~r.ok THEN r
         ELSE E5Loop(ts, Node("arith", ArithOp(Tk(ts, p)), p, <<>>, <<left, r.node>>, <<>>,
                              IF left.k = "empty" THEN p ELSE left.a, EndOf(left, r.node, p)), r.p, tern)

E6(ts, p, tern) == LET l == E7(ts, p, tern) IN IF ~l.ok THEN l ELSE E6Loop(ts, l.node, l.p, tern)
E6Loop(ts, left, p, tern) ==
    IF Tk(ts, p) \notin MulTok THEN Ok(left, p)
    ELSE LET r == E7(ts, p + 1, tern) IN
         IF ~r.ok THEN r
         ELSE E6Loop(ts, Node("arith", ArithOp(Tk(ts, p)), p, <<>>, <<left, r.node>>, <<>>,
                              IF left.k = "empty" THEN p ELSE left.a, EndOf(left, r.node, p)), r.p, tern)

\* unary operators take a postfix expression, not another unary expression (no stacking)
E7(ts, p, tern) ==
    LET t == Tk(ts, p) IN
    IF t \in {"not", "dash"} THEN
         LET r == E8(ts, p + 1, tern) IN
         IF ~r.ok THEN r
         ELSE Ok(Node(IF t = "not" THEN "not" ELSE "neg", "", p, <<>>, <<r.node>>, <<>>, p, EndOf(Nil, r.node, p)), r.p)
    ELSE E8(ts, p, tern)

E8(ts, p, tern) ==
    LET l == E9(ts, p, tern) IN
    IF ~l.ok THEN l
    ELSE IF Tk(ts, l.p) = "lparen" THEN
         LET ar == Args(ts, l.p + 1, tern) IN
         IF ~ar.ok THEN ar
         ELSE IF Tk(ts, ar.p) # "rparen" THEN Fail(ar.p)
         ELSE IF l.node.k # "id" THEN Fail(p)
         ELSE Postfix(ts, Node("call", l.node.v, 0, <<>>, <<ar.node>>, <<>>, l.node.a, ar.p), ar.p + 1, tern)
    ELSE Postfix(ts, l.node, l.p, tern)

Postfix(ts, left, p, tern) ==
    LET t == Tk(ts, p) IN
    IF t = "dot" THEN
         LET m == MethodCall(ts, left, p, tern) IN IF ~m.ok THEN m ELSE Postfix(ts, m.node, m.p, tern)
    ELSE IF t = "lbracket" THEN
         LET ix == E1(ts, p + 1, tern) IN
         IF ~ix.ok THEN ix
         ELSE IF Tk(ts, ix.p) # "rbracket" THEN Fail(ix.p)
         ELSE Postfix(ts, Node("idx", "", p, <<>>, <<left, ix.node>>, <<>>, IF left.k = "empty" THEN p ELSE left.a, ix.p),
                      ix.p + 1, tern)
    ELSE Ok(left, p)

\* p is the position of the dot
MethodCall(ts, obj, p, tern) ==
    IF Tk(ts, p + 1) # "id" THEN Fail(p + 1)
    ELSE IF Tk(ts, p + 2) # "lparen" THEN Fail(p + 2)
    ELSE LET ar == Args(ts, p + 3, tern) IN
         IF ~ar.ok THEN ar
         ELSE IF Tk(ts, ar.p) # "rparen" THEN Fail(ar.p)
         ELSE Ok(Node("method", ts[p + 1].s, p, <<>>, <<obj, ar.node>>, <<>>, IF obj.k = "empty" THEN p ELSE obj.a, ar.p),
                 ar.p + 1)

E9(ts, p, tern) ==
    LET t == Tk(ts, p) IN
    CASE t = "lparen" ->
           LET e == E1(ts, p + 1, tern) IN
           IF ~e.ok THEN e
           ELSE IF Tk(ts, e.p) # "rparen" THEN Fail(e.p)
           ELSE Ok(Node("paren", "", 0, <<>>, <<e.node>>, <<>>, p, e.p), e.p + 1)
      [] t = "lbracket" ->
           LET ar == Args(ts, p + 1, tern) IN
           IF ~ar.ok THEN ar
           ELSE IF Tk(ts, ar.p) # "rbracket" THEN Fail(ar.p)
           ELSE Ok(Node("arr", "", 0, <<>>, <<ar.node>>, <<>>, p, ar.p), ar.p + 1)
      [] t = "lcurl" ->
           LET kv == KeyValues(ts, p + 1, tern) IN
           IF ~kv.ok THEN kv
           ELSE IF Tk(ts, kv.p) # "rcurl" THEN Fail(kv.p)
           ELSE Ok(Node("dict", "", 0, <<>>, <<kv.node>>, <<>>, p, kv.p), kv.p + 1)
      [] OTHER -> E10(ts, p)

\* argument list: positional items in c, keyword items ("kw" nodes: key, value) in d;
\* n = 1 when a positional argument follows a keyword argument
ArgsNode(pos, kws, bad, a, b) == Node("args", "", IF bad THEN 1 ELSE 0, <<>>, pos, kws, a, b)
Args(ts, p, tern) ==
    LET s == E1(ts, p, tern) IN
    IF ~s.ok THEN s ELSE ArgsLoop(ts, s, <<>>, <<>>, FALSE, p, tern)
ArgsLoop(ts, s, pos, kws, bad, start, tern) ==
    IF s.node.k = "empty" THEN Ok(ArgsNode(pos, kws, bad, start, s.p - 1), s.p)
    ELSE LET t == Tk(ts, s.p) IN
         IF t = "comma" THEN
              LET nx == E1(ts, s.p + 1, tern) IN
              IF ~nx.ok THEN nx
              ELSE ArgsLoop(ts, nx, Append(pos, s.node), kws, bad \/ kws # <<>>, start, tern)
         ELSE IF t = "colon" THEN
              IF s.node.k # "id" THEN Fail(s.p)
              ELSE LET val == E1(ts, s.p + 1, tern) IN
                   IF ~val.ok THEN val
                   ELSE LET kw == Node("kw", "", s.p, <<>>, <<s.node, val.node>>, <<>>, s.node.a, EndOf(Nil, val.node, s.p))
                            kws2 == Append(kws, kw)
                        IN IF Tk(ts, val.p) # "comma" THEN Ok(ArgsNode(pos, kws2, bad, start, val.p - 1), val.p)
                           ELSE LET nx == E1(ts, val.p + 1, tern) IN
                                IF ~nx.ok THEN nx ELSE ArgsLoop(ts, nx, pos, kws2, bad, start, tern)
         ELSE Ok(ArgsNode(Append(pos, s.node), kws, bad \/ kws # <<>>, start, s.p - 1), s.p)

KeyValues(ts, p, tern) ==
    LET s == E1(ts, p, tern) IN
    IF ~s.ok THEN s ELSE KeyValuesLoop(ts, s, <<>>, p, tern)
KeyValuesLoop(ts, s, kws, start, tern) ==
    IF s.node.k = "empty" THEN Ok(ArgsNode(<<>>, kws, FALSE, start, s.p - 1), s.p)
    ELSE IF Tk(ts, s.p) # "colon" THEN Fail(s.p)
    ELSE LET val == E1(ts, s.p + 1, tern) IN
         IF ~val.ok THEN val
         ELSE LET kw == Node("kw", "", s.p, <<>>, <<s.node, val.node>>, <<>>, s.node.a, EndOf(Nil, val.node, s.p))
                  kws2 == Append(kws, kw)
              IN IF Tk(ts, val.p) # "comma" THEN Ok(ArgsNode(<<>>, kws2, FALSE, start, val.p - 1), val.p)
                 ELSE LET nx == E1(ts, val.p + 1, tern) IN
                      IF ~nx.ok THEN nx ELSE KeyValuesLoop(ts, nx, kws2, start, tern)

\* ---- statements ---------------------------------------------------------------
BlockNode(lines, a, b) == Node("block", "", 0, <<>>, lines, <<>>, a, b)

CodeBlock(ts, p) == CodeBlockLoop(ts, p, <<>>, p)
CodeBlockLoop(ts, p, lines, start) ==
    LET ln == LineP(ts, p) IN
    IF ~ln.ok THEN ln
    ELSE LET lines2 == IF ln.node.k = "empty" THEN lines ELSE Append(lines, ln.node) IN
         IF Tk(ts, ln.p) = "eol" THEN CodeBlockLoop(ts, ln.p + 1, lines2, start)
         ELSE Ok(BlockNode(lines2, start, ln.p - 1), ln.p)

LineP(ts, p) ==
    LET t == Tk(ts, p) IN
    CASE t = "eol" -> Ok(Empty(p), p)
      [] t = "if" ->
           LET cond == E1(ts, p + 1, FALSE) IN
           IF ~cond.ok THEN cond
           ELSE IF Tk(ts, cond.p) # "eol" THEN Fail(cond.p)
           ELSE LET blk == CodeBlock(ts, cond.p + 1) IN
                IF ~blk.ok THEN blk ELSE IfTail(ts, blk.p, <<cond.node, blk.node>>, <<>>, p)
      [] t = "foreach" -> ForeachP(ts, p)
      [] t = "continue" -> Ok(Leaf("continue", "", 0, <<>>, p), p + 1)
      [] t = "break" -> Ok(Leaf("break", "", 0, <<>>, p), p + 1)
      [] OTHER -> E1(ts, p, FALSE)

\* after an if/elif block: more elif, an else, then endif.  c = <<cond1, block1, cond2, block2, ...>>, d = <<else block>> or <<>>
IfTail(ts, p, arms, els, start) ==
    LET t == Tk(ts, p) IN
    IF t = "elif" /\ els = <<>> THEN
         LET cond == E1(ts, p + 1, FALSE) IN
         IF ~cond.ok THEN cond
         ELSE IF Tk(ts, cond.p) # "eol" THEN Fail(cond.p)
         ELSE LET blk == CodeBlock(ts, cond.p + 1) IN
              IF ~blk.ok THEN blk ELSE IfTail(ts, blk.p, arms \o <<cond.node, blk.node>>, <<>>, start)
    ELSE IF t = "else" /\ els = <<>> THEN
         IF Tk(ts, p + 1) # "eol" THEN Fail(p + 1)
         ELSE LET blk == CodeBlock(ts, p + 2) IN
              IF ~blk.ok THEN blk
              ELSE IF Tk(ts, blk.p) # "endif" THEN Fail(blk.p)
              ELSE Ok(Node("if", "", 0, <<>>, arms, <<blk.node>>, start, blk.p), blk.p + 1)
    ELSE IF t = "endif" THEN Ok(Node("if", "", 0, <<>>, arms, <<>>, start, p), p + 1)
    ELSE Fail(p)

\* foreach v [, w] : items <block> endforeach ; c = <<items, block>>, d = variable id nodes
ForeachP(ts, p) ==
    IF Tk(ts, p + 1) # "id" THEN Fail(p + 1)
    ELSE LET two == Tk(ts, p + 2) = "comma"
             q == IF two THEN p + 4 ELSE p + 2
             vars == IF two THEN <<Leaf("id", ts[p + 1].s, 0, ts[p + 1].cs, p + 1), Leaf("id", ts[p + 3].s, 0, ts[p + 3].cs, p + 3)>>
                     ELSE <<Leaf("id", ts[p + 1].s, 0, ts[p + 1].cs, p + 1)>>
         IN IF two /\ Tk(ts, p + 3) # "id" THEN Fail(p + 3)
            ELSE IF Tk(ts, q) # "colon" THEN Fail(q)
            ELSE LET items == E1(ts, q + 1, FALSE) IN
                 IF ~items.ok THEN items
                 ELSE LET blk == CodeBlock(ts, items.p) IN
                      IF ~blk.ok THEN blk
                      ELSE IF Tk(ts, blk.p) # "endforeach" THEN Fail(blk.p)
                      ELSE Ok(Node("foreach", "", 0, <<>>, <<items.node, blk.node>>, vars, p, blk.p), blk.p + 1)

\* ts: the tokens the parser sees (newlines inside brackets already dropped)
ParseSig(ts) ==
    LET b == CodeBlock(ts, 1) IN
    IF ~b.ok THEN b
    ELSE IF b.p # Len(ts) + 1 THEN Fail(b.p)
    ELSE b

\* node kinds whose n field is the token index of their operator
OpPosKinds == {"assign", "plusassign", "ternary", "or", "and", "cmp", "arith", "not", "neg", "idx", "method", "kw"}

\* Parse of a raw token sequence; extents are re-expressed as indices into the raw sequence
RECURSIVE Remap(_, _)
MapSeq(f(_), s) == [i \in 1..Len(s) |-> f(s[i])]
Remap(node, idx) ==
    LET ra == IF node.a >= 1 /\ node.a <= Len(idx) THEN idx[node.a] ELSE IF Len(idx) = 0 THEN 1 ELSE idx[Len(idx)] + 1
        rb == IF node.b >= 1 /\ node.b <= Len(idx) THEN idx[node.b] ELSE ra - 1
        R(x) == Remap(x, idx)
        rn == IF node.k \in OpPosKinds THEN idx[node.n] ELSE node.n
    IN [node EXCEPT !.a = ra, !.b = rb, !.n = rn, !.c = MapSeq(R, node.c), !.d = MapSeq(R, node.d)]

Parse(raw) ==
    LET idx == Significant(raw)
        ts == [i \in 1..Len(idx) |-> raw[idx[i]]]
        r == ParseSig(ts)
    IN IF r.ok THEN Ok(Remap(r.node, idx), r.p) ELSE r

\* ---- derived views ----------------------------------------------------------------
\* erase extents (tree shape only)
RECURSIVE Shape(_)
Shape(node) == [node EXCEPT !.a = 0, !.b = 0, !.n = IF node.k \in OpPosKinds THEN 0 ELSE node.n, !.c = MapSeq(Shape, node.c), !.d = MapSeq(Shape, node.d)]

\* extents of all call / array / method / dict / paren constructs: set of <<kind, a, b>>
RECURSIVE Extents(_)
Extents(node) ==
    LET sub == UNION ({Extents(node.c[i]) : i \in 1..Len(node.c)} \cup {Extents(node.d[i]) : i \in 1..Len(node.d)}) IN
    IF node.k \in {"call", "arr", "dict", "paren"} THEN sub \cup {<<node.k, node.a, node.b>>} ELSE sub

\* ---- no token is dropped --------------------------------------------------------------
\* The token indices a tree accounts for: every leaf, operator, bracket and keyword it was built from.
\* Separators (commas, statement-separating newlines) are the only tokens a tree does not own.
RECURSIVE Owned(_)
SeqUnion(f(_), s) == UNION {f(s[i]) : i \in 1..Len(s)}
EndPos(x, dflt) == IF x.k = "empty" THEN dflt ELSE x.b
Owned(node) ==
    LET kids == SeqUnion(Owned, node.c) \cup SeqUnion(Owned, node.d)
        k == node.k
    IN CASE k \in {"empty", "nil"} -> {}
         [] k \in {"id", "num", "str", "bool", "continue", "break"} -> {node.a}
         [] k \in {"or", "and", "arith", "not", "neg", "kw"} -> {node.n} \cup kids
         [] k = "cmp" -> (IF node.v = "not in" THEN {node.n, node.n + 1} ELSE {node.n}) \cup kids
         [] k \in {"assign", "plusassign"} -> {node.a, node.n} \cup kids
         [] k = "ternary" -> {node.n, EndPos(node.c[2], node.n) + 1} \cup kids
         [] k \in {"paren", "arr", "dict"} -> {node.a, node.b} \cup kids
         [] k = "idx" -> {node.n, node.b} \cup kids
         [] k = "call" -> {node.a, node.a + 1, node.b} \cup kids
         [] k = "method" -> {node.n, node.n + 1, node.n + 2, node.b} \cup kids
         [] k = "if" -> kids \cup {node.a, node.b}
                        \cup { node.c[2 * j].b + 1 : j \in 1..((Len(node.c) \div 2) - 1) }       \* elif keywords
                        \cup (IF node.d = <<>> THEN {} ELSE {node.c[Len(node.c)].b + 1})          \* else keyword
         [] k = "foreach" -> kids \cup {node.a, node.b}
                        \cup (IF Len(node.d) = 2 THEN {node.a + 2, node.a + 4} ELSE {node.a + 2})  \* comma, colon
         [] OTHER -> kids

=============================================================================
