SPECIFICATION Spec
CONSTANTS MaxLen = 3
 AlphabetName = "full"
INVARIANT Total
INVARIANT NoTokenDropped
INVARIANT ExtentsNest
INVARIANT CallAndArrayExtents
INVARIANT NoComparisonChain
INVARIANT NoUnaryStack
INVARIANT NoNestedTernary
INVARIANT PrecedenceRespected
INVARIANT PostfixTight
CHECK_DEADLOCK FALSE
POSTCONDITION EmitAlphabet
