--------------------------- MODULE MesonGrammar_MC ---------------------------
(* Every token sequence up to MaxLen over Alphabet is parsed; the documented   *)
(* laws of the grammar are invariants.                                         *)
EXTENDS MesonGrammar, TLC, Json, SequencesExt
CONSTANTS MaxLen, AlphabetName
VARIABLES ts
vars == <<ts>>

Id(x) == Token("id", x, 0, IF x = "a" THEN <<97>> ELSE <<102>>)
Num(k) == Token("number", "", k, <<>>)
Str(fl, cs) == Token("string", fl, 0, cs)

FullAlphabet ==
    { Id("a"), Id("f"), Num(7), Str("s", <<97>>), Sym("true"),
      Sym("if"), Sym("elif"), Sym("else"), Sym("endif"), Sym("foreach"), Sym("endforeach"),
      Sym("and"), Sym("or"), Sym("not"), Sym("in"), Sym("continue"), Sym("break"),
      Sym("lparen"), Sym("rparen"), Sym("lbracket"), Sym("rbracket"), Sym("lcurl"), Sym("rcurl"),
      Sym("comma"), Sym("dot"), Sym("plus"), Sym("dash"), Sym("star"), Sym("colon"), Sym("assign"),
      Sym("plusassign"), Sym("equal"), Sym("lt"), Sym("questionmark"), Sym("eol") }
\* expression core: deeper sequences over the operators whose interplay the reference fixes
ExprAlphabet ==
    { Id("a"), Num(7), Sym("not"), Sym("in"), Sym("and"), Sym("or"), Sym("lparen"), Sym("rparen"),
      Sym("dash"), Sym("star"), Sym("lt"), Sym("questionmark"), Sym("colon"), Sym("eol") }
\* block structure
BlockAlphabet ==
    { Id("a"), Sym("if"), Sym("elif"), Sym("else"), Sym("endif"), Sym("foreach"), Sym("endforeach"),
      Sym("colon"), Sym("comma"), Sym("eol"), Sym("break"), Sym("lparen"), Sym("rparen") }
\* calls, containers, methods
CallAlphabet ==
    { Id("a"), Id("f"), Num(7), Sym("lparen"), Sym("rparen"), Sym("lbracket"), Sym("rbracket"), Sym("lcurl"), Sym("rcurl"),
      Sym("comma"), Sym("colon"), Sym("dot"), Sym("eol"), Sym("assign"),
      Str("s", <<97, 10, 98>>) }          \* a plain string with a raw line break (deprecated but accepted): positions after it

Alphabet == CASE AlphabetName = "full" -> FullAlphabet
              [] AlphabetName = "expr" -> ExprAlphabet
              [] AlphabetName = "block" -> BlockAlphabet
              [] AlphabetName = "call" -> CallAlphabet

Init == ts = <<>>
Next == Len(ts) < MaxLen /\ \E t \in Alphabet : ts' = Append(ts, t)
Spec == Init /\ [][Next]_vars

Sig == LET idx == Significant(ts) IN [i \in 1..Len(idx) |-> ts[idx[i]]]
P == ParseSig(Sig)

RECURSIVE AllNodes(_)
AllNodes(node) == {node} \cup UNION ({AllNodes(node.c[i]) : i \in 1..Len(node.c)} \cup {AllNodes(node.d[i]) : i \in 1..Len(node.d)})
Unparen(x) == x        \* a parenthesised operand is a "paren" node, so it never has an operator kind itself

\* the parser is total: it answers accept or reject (TLC reports an error if an operator is undefined)
Total == P.ok \in BOOLEAN
\* no accepted token is dropped: every token is owned by a node, or is a separator
NoTokenDropped ==
    P.ok => LET owned == Owned(P.node)
                seps == { i \in 1..Len(Sig) : Sig[i].t \in {"comma", "eol"} }
            IN /\ owned \cup seps = 1..Len(Sig)
               /\ owned \cap seps = {}
\* extents nest and children lie within their parents
ExtentsNest ==
    P.ok => \A x \in AllNodes(P.node) :
               /\ x.a <= x.b + 1
               /\ \A i \in 1..Len(x.c) : x.c[i].k # "empty" => x.a <= x.c[i].a /\ x.c[i].b <= x.b
\* a call / array extent starts at its name / bracket and ends at the matching closer
CallAndArrayExtents ==
    P.ok => \A x \in AllNodes(P.node) :
               /\ x.k = "call" => Sig[x.a].t = "id" /\ Sig[x.a + 1].t = "lparen" /\ Sig[x.b].t = "rparen"
               /\ x.k = "arr" => Sig[x.a].t = "lbracket" /\ Sig[x.b].t = "rbracket"
\* comparisons do not chain
NoComparisonChain ==
    P.ok => \A x \in AllNodes(P.node) : x.k = "cmp" => x.c[1].k # "cmp" /\ x.c[2].k # "cmp"
\* unary operators do not stack
NoUnaryStack ==
    P.ok => \A x \in AllNodes(P.node) : x.k \in {"not", "neg"} => x.c[1].k \notin {"not", "neg"}
\* a ternary inside a ternary is rejected, wherever it occurs
NoNestedTernary ==
    P.ok => \A x \in AllNodes(P.node) : x.k = "ternary" =>
               \A y \in AllNodes(x.c[2]) \cup AllNodes(x.c[3]) : y.k # "ternary"
\* precedence: an operand of a tighter-binding operator is never a looser-binding operator (without parentheses)
Level(x) == CASE x.k \in {"assign", "plusassign", "ternary"} -> 1
              [] x.k = "or" -> 2 [] x.k = "and" -> 3 [] x.k = "cmp" -> 4
              [] x.k = "arith" /\ x.v \in {"+", "-"} -> 5
              [] x.k = "arith" -> 6
              [] x.k \in {"not", "neg"} -> 7
              [] OTHER -> 9
PrecedenceRespected ==
    P.ok => \A x \in AllNodes(P.node) :
               x.k \in {"or", "and", "cmp", "arith", "not", "neg"} =>
                  /\ \A i \in 1..Len(x.c) : Level(x.c[i]) >= Level(x)
                  \* left associativity of the binary operators: the right operand binds strictly tighter
                  /\ x.k \in {"or", "and", "arith"} => Level(x.c[2]) > Level(x)
\* object of a method call / index binds tightest
PostfixTight ==
    P.ok => \A x \in AllNodes(P.node) : x.k \in {"method", "idx"} => Level(x.c[1]) = 9

\* fixed theorems of the reference (evaluated on constant token sequences)
TS(s) == LET r == ParseSig(s) IN IF r.ok /\ Len(r.node.c) = 1 THEN Shape(r.node.c[1]) ELSE Nil
A == Id("a")
L(x) == Shape(Leaf("id", "a", 0, <<97>>, 1))
Bin(k, v, x, y) == Node(k, v, 0, <<>>, <<x, y>>, <<>>, 0, 0)
Un(k, x) == Node(k, "", 0, <<>>, <<x>>, <<>>, 0, 0)
ASSUME TS(<<A, Sym("plus"), A, Sym("star"), A>>) = Bin("arith", "+", L(0), Bin("arith", "*", L(0), L(0)))
ASSUME TS(<<A, Sym("dash"), A, Sym("dash"), A>>) = Bin("arith", "-", Bin("arith", "-", L(0), L(0)), L(0))
ASSUME TS(<<Sym("not"), A, Sym("equal"), A>>) = Bin("cmp", "==", Un("not", L(0)), L(0))
ASSUME TS(<<A, Sym("or"), A, Sym("and"), A>>) = Bin("or", "", L(0), Bin("and", "", L(0), L(0)))
ASSUME TS(<<A, Sym("lt"), A, Sym("lt"), A>>) = Nil
ASSUME TS(<<Sym("dash"), Sym("dash"), A>>) # Un("neg", Un("neg", L(0)))
ASSUME TS(<<A, Sym("not"), Sym("eol")>>) = Nil
ASSUME TS(<<A, Sym("questionmark"), A, Sym("colon"), A, Sym("questionmark"), A, Sym("colon"), A>>) = Nil
ASSUME TS(<<A, Sym("not"), Sym("in"), A>>) = Bin("cmp", "not in", L(0), L(0))
ASSUME TS(<<Sym("dash"), A, Sym("star"), A>>) = Bin("arith", "*", Un("neg", L(0)), L(0))

EmitAlphabet == TLCGet("stats").diameter >= 0 /\ JsonSerialize("alphabet.json", SetToSeq(Alphabet))
=============================================================================
