------------------------------ MODULE MesonLexer ------------------------------
(***************************************************************************)
(* Character-level reference lexer of the Meson language (property C02:    *)
(* "every input text is either rejected with a located syntax error or      *)
(* parsed ..." starts with the lexer).  Input: a sequence of code points.   *)
(* Output: <<"ok", tokens>> with tokens as <<kind, first, last>> (1-based   *)
(* character positions, whitespace and comments included so that the        *)
(* tokens tile the text) or <<"reject", position>>.                          *)
(*                                                                          *)
(* Token classes and their priority follow the language reference: blanks,  *)
(* f-strings, identifiers/keywords, numbers (0b / 0o / 0x / decimal without *)
(* leading zeros), backslash line continuation, ''' strings, comments,      *)
(* '...' strings with backslash pairs, two-character operators, single      *)
(* characters.  A newline inside (, [ or { is whitespace.                   *)
(***************************************************************************)
EXTENDS Integers, Sequences, FiniteSets

Ch(s, i) == IF i >= 1 /\ i <= Len(s) THEN s[i] ELSE -1
IsAlpha(c) == (c >= 65 /\ c <= 90) \/ (c >= 97 /\ c <= 122) \/ c = 95
IsDig(c) == c >= 48 /\ c <= 57
IsBlank(c) == c = 32 \/ c = 9
Quote == 39
Backslash == 92
Hash == 35
NL == 10

IsBin(c) == c = 48 \/ c = 49
IsOctD(c) == c >= 48 /\ c <= 55
IsHexD(c) == IsDig(c) \/ (c >= 97 /\ c <= 102) \/ (c >= 65 /\ c <= 70)
InClass(cls, c) == CASE cls = "blank" -> IsBlank(c) [] cls = "digit" -> IsDig(c) [] cls = "bin" -> IsBin(c)
                     [] cls = "oct" -> IsOctD(c) [] cls = "hex" -> IsHexD(c) [] cls = "notnl" -> c # NL
                     [] cls = "idchar" -> IsAlpha(c) \/ IsDig(c)
RECURSIVE SpanWhile(_, _, _)
\* first index >= i whose character is not in the class
SpanWhile(s, i, cls) == IF i <= Len(s) /\ InClass(cls, s[i]) THEN SpanWhile(s, i + 1, cls) ELSE i

\* ''' ... ''' : the text ends at the first ''' after the opening one.  Returns the index after the token, or 0.
RECURSIVE FindTriple(_, _)
FindTriple(s, i) == IF i + 2 > Len(s) THEN 0
                    ELSE IF s[i] = Quote /\ s[i + 1] = Quote /\ s[i + 2] = Quote THEN i + 3
                    ELSE FindTriple(s, i + 1)
TripleAt(s, i) == Ch(s, i) = Quote /\ Ch(s, i + 1) = Quote /\ Ch(s, i + 2) = Quote
MultilineEnd(s, i) == IF TripleAt(s, i) THEN FindTriple(s, i + 3) ELSE 0

\* ' ... ' : a backslash takes the next character with it (but not a newline); ends at the first free quote
RECURSIVE PlainBody(_, _)
PlainBody(s, i) == IF i > Len(s) THEN 0
                   ELSE IF s[i] = Quote THEN i + 1
                   ELSE IF s[i] = Backslash THEN (IF i + 1 <= Len(s) /\ s[i + 1] # NL THEN PlainBody(s, i + 2) ELSE 0)
                   ELSE PlainBody(s, i + 1)
PlainEnd(s, i) == IF Ch(s, i) = Quote THEN PlainBody(s, i + 1) ELSE 0

NumberEnd(s, i) ==
    LET c == Ch(s, i)
        d == Ch(s, i + 1)
    IN IF c = 48 THEN
            (IF d \in {98, 66} /\ IsBin(Ch(s, i + 2)) THEN SpanWhile(s, i + 2, "bin")
             ELSE IF d \in {111, 79} /\ IsOctD(Ch(s, i + 2)) THEN SpanWhile(s, i + 2, "oct")
             ELSE IF d \in {120, 88} /\ IsHexD(Ch(s, i + 2)) THEN SpanWhile(s, i + 2, "hex")
             ELSE i + 1)
       ELSE IF IsDig(c) THEN SpanWhile(s, i, "digit")
       ELSE 0

\* backslash, blanks, optional comment, newline
ContEnd(s, i) ==
    IF Ch(s, i) # Backslash THEN 0
    ELSE LET j == SpanWhile(s, i + 1, "blank")
             k == IF Ch(s, j) = Hash THEN SpanWhile(s, j, "notnl") ELSE j
         IN IF Ch(s, k) = NL THEN k + 1 ELSE 0

Keywords == { <<116,114,117,101>>, <<102,97,108,115,101>>, <<105,102>>, <<101,108,115,101>>, <<101,108,105,102>>,
              <<101,110,100,105,102>>, <<97,110,100>>, <<111,114>>, <<110,111,116>>, <<102,111,114,101,97,99,104>>,
              <<101,110,100,102,111,114,101,97,99,104>>, <<105,110>>, <<99,111,110,116,105,110,117,101>>, <<98,114,101,97,107>> }

TwoChar(c, d) == CASE c = 43 /\ d = 61 -> "plusassign" [] c = 61 /\ d = 61 -> "equal" [] c = 33 /\ d = 61 -> "nequal"
                   [] c = 60 /\ d = 61 -> "le" [] c = 62 /\ d = 61 -> "ge" [] OTHER -> ""
OneChar(c) == CASE c = NL -> "eol" [] c = 40 -> "lparen" [] c = 41 -> "rparen" [] c = 91 -> "lbracket" [] c = 93 -> "rbracket"
                [] c = 123 -> "lcurl" [] c = 125 -> "rcurl" [] c = 44 -> "comma" [] c = 46 -> "dot" [] c = 43 -> "plus"
                [] c = 45 -> "dash" [] c = 42 -> "star" [] c = 37 -> "percent" [] c = 47 -> "fslash" [] c = 58 -> "colon"
                [] c = 61 -> "assign" [] c = 60 -> "lt" [] c = 62 -> "gt" [] c = 63 -> "questionmark" [] OTHER -> ""

\* the token starting at i: <<kind, index after it>> ; kind "" = no token can start here (reject)
TokenAt(s, i) ==
    LET c == s[i] IN
    IF IsBlank(c) THEN <<"whitespace", SpanWhile(s, i, "blank")>>
    ELSE IF c = 102 /\ MultilineEnd(s, i + 1) # 0 THEN <<"multiline_fstring", MultilineEnd(s, i + 1)>>
    ELSE IF c = 102 /\ PlainEnd(s, i + 1) # 0 THEN <<"fstring", PlainEnd(s, i + 1)>>
    ELSE IF IsAlpha(c) THEN
         LET e == SpanWhile(s, i, "idchar") IN
         <<IF SubSeq(s, i, e - 1) \in Keywords THEN "keyword" ELSE "id", e>>
    ELSE IF NumberEnd(s, i) # 0 THEN <<"number", NumberEnd(s, i)>>
    ELSE IF ContEnd(s, i) # 0 THEN <<"whitespace", ContEnd(s, i)>>
    ELSE IF MultilineEnd(s, i) # 0 THEN <<"multiline_string", MultilineEnd(s, i)>>
    ELSE IF c = Hash THEN <<"comment", SpanWhile(s, i, "notnl")>>
    ELSE IF PlainEnd(s, i) # 0 THEN <<"string", PlainEnd(s, i)>>
    ELSE IF TwoChar(c, Ch(s, i + 1)) # "" THEN <<TwoChar(c, Ch(s, i + 1)), i + 2>>
    ELSE IF OneChar(c) # "" THEN <<OneChar(c), i + 1>>
    ELSE <<"", i>>

RECURSIVE LexFrom(_, _, _, _, _, _)
LexFrom(s, i, par, brk, crl, acc) ==
    IF i > Len(s) THEN <<"ok", acc>>
    ELSE LET t == TokenAt(s, i)
             k == t[1]
         IN IF k = "" THEN <<"reject", i>>
            ELSE LET kind == IF k = "eol" /\ (par > 0 \/ brk > 0 \/ crl > 0) THEN "whitespace" ELSE k
                     par2 == par + (IF k = "lparen" THEN 1 ELSE IF k = "rparen" THEN -1 ELSE 0)
                     brk2 == brk + (IF k = "lbracket" THEN 1 ELSE IF k = "rbracket" THEN -1 ELSE 0)
                     crl2 == crl + (IF k = "lcurl" THEN 1 ELSE IF k = "rcurl" THEN -1 ELSE 0)
                 IN LexFrom(s, t[2], par2, brk2, crl2, Append(acc, <<kind, i, t[2] - 1>>))

Lex(s) == LexFrom(s, 1, 0, 0, 0, <<>>)

=============================================================================
