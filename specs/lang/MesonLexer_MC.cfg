SPECIFICATION Spec
CONSTANTS MaxLen = 4
INVARIANT Total
INVARIANT Tiles
INVARIANT RejectLocated
INVARIANT QuoteFree
INVARIANT DoubleQuoteRejects
CHECK_DEADLOCK FALSE
POSTCONDITION EmitAlphabet
