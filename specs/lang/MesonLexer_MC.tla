---------------------------- MODULE MesonLexer_MC ----------------------------
(* Every string up to MaxLen over a small alphabet of characters that exercise  *)
(* all token classes is lexed; the tokens must tile the text.                    *)
EXTENDS MesonLexer, TLC, Json, SequencesExt
CONSTANTS MaxLen
VARIABLES txt
vars == <<txt>>
\*          a   f    0   1   x    '   \   #   sp  nl  (   )   +   =   "   .
Alphabet == {97, 102, 48, 49, 120, 39, 92, 35, 32, 10, 40, 41, 43, 61, 34, 46}
Init == txt = <<>>
Next == Len(txt) < MaxLen /\ \E c \in Alphabet : txt' = Append(txt, c)
Spec == Init /\ [][Next]_vars

R == Lex(txt)
Total == R[1] \in {"ok", "reject"}
\* tokens are non-empty, contiguous and cover the whole text
Tiles == R[1] = "ok" =>
            LET ts == R[2] IN
            /\ (ts = <<>>) = (txt = <<>>)
            /\ \A j \in 1..Len(ts) : ts[j][2] <= ts[j][3]
            /\ (ts # <<>> => ts[1][2] = 1 /\ ts[Len(ts)][3] = Len(txt))
            /\ \A j \in 1..(Len(ts) - 1) : ts[j + 1][2] = ts[j][3] + 1
\* the rejected position is inside the text
RejectLocated == R[1] = "reject" => R[2] >= 1 /\ R[2] <= Len(txt)
\* a double quote (never legal) and a lone backslash always reject; text without quotes, backslashes and double quotes never does
QuoteFree == (\A j \in 1..Len(txt) : txt[j] \notin {39, 92, 34}) => R[1] = "ok"
DoubleQuoteRejects == (\E j \in 1..Len(txt) : txt[j] = 34) /\ (\A j \in 1..Len(txt) : txt[j] \notin {39, 35}) => R[1] = "reject"
EmitAlphabet == TLCGet("stats").diameter >= 0 /\ JsonSerialize("alphabet.json", SetToSeq(Alphabet))
=============================================================================
