SPECIFICATION Spec
CONSTANTS MaxLen = 4
INVARIANT FlattenLaws
INVARIANT SliceLaws
INVARIANT ValuesLaws
INVARIANT SplitLinesLaws
CHECK_DEADLOCK FALSE
POSTCONDITION Emit
