---------------------------- MODULE MesonMethods_MC ----------------------------
(* Laws of the container / line methods of the reference evaluator (C01):               *)
(* array.flatten(), array.slice(), dict.values(), str.splitlines().                      *)
(* The state is a word w over 1..5 up to MaxLen; it denotes at the same time             *)
(*   an array    (letter k -> Elems[k]: an int, a string, an empty array, nested arrays), *)
(*   a dictionary (the same values under the keys of Keys, inserted in non-sorted order), *)
(*   a string    (letter k -> LineChars[k]: letters, LF, CR, blank).                      *)
EXTENDS MesonEval, TLC, Json, SequencesExt
CONSTANTS MaxLen
VARIABLES w
vars == <<w>>

Elems == << VInt(1), VStr(<<97>>), VArr(<<>>), VArr(<<VInt(2), VArr(<<VStr(<<98>>)>>)>>), VArr(<<VArr(<<>>), VInt(3)>>) >>
Keys == << <<109>>, <<98>>, <<122>>, <<97>>, <<107, 49>>, <<99>> >>                 \* m b z a k1 c
LineChars == <<97, 10, 13, 98, 32>>
\* the same characters as they are written inside a '...' literal
LineSource == << <<97>>, <<92, 110>>, <<92, 114>>, <<98>>, <<32>> >>

Init == w = <<>>
Next == Len(w) < MaxLen /\ \E k \in 1..5 : w' = Append(w, k)
Spec == Init /\ [][Next]_vars

Arr == VArr([i \in 1..Len(w) |-> Elems[w[i]]])
Dict == VDict([i \in 1..Len(w) |-> VEnt(Keys[i], Elems[w[i]])])
Text == [i \in 1..Len(w) |-> LineChars[w[i]]]
N == Len(w)
Call(o, m, args, kws) == Method(o, m, args, kws)
Slice(a, b, st) == Call(Arr, "slice", <<VInt(a), VInt(b)>>, << <<"step", VInt(st)>> >>)
Bounds == (0 - N - 1)..(N + 1)

RECURSIVE Rev(_)
Rev(s) == IF s = <<>> THEN <<>> ELSE Append(Rev(Tail(s)), s[1])
RECURSIVE Leaves(_)
Leaves(v) == IF v.k # "arr" THEN 1 ELSE IF v.e = <<>> THEN 0 ELSE Leaves(v.e[1]) + Leaves(VArr(Tail(v.e)))
Norm(i) == ClampIdx(i, N)

\* flatten: no array is left, nothing but arrays is removed, order kept; flat arrays are fixed points
FlattenLaws ==
    LET f == Call(Arr, "flatten", <<>>, <<>>) IN
    /\ f.k = "arr" /\ \A i \in 1..Len(f.e) : f.e[i].k # "arr"
    /\ Len(f.e) = Leaves(Arr)
    /\ Call(f, "flatten", <<>>, <<>>) = f
    /\ ((\A i \in 1..N : Arr.e[i].k # "arr") => f = Arr)
    /\ Call(VArr(Arr.e \o Arr.e), "flatten", <<>>, <<>>) = VArr(f.e \o f.e)
    /\ Call(VArr(<<Arr>>), "flatten", <<>>, <<>>) = f
    /\ IsErr(Call(Arr, "flatten", <<VInt(1)>>, <<>>))

\* slice: agrees with indexing, splits and joins at any cut, bounds outside the array are cut to it, steps stride
SliceLaws ==
    /\ Call(Arr, "slice", <<>>, <<>>) = Arr
    /\ Call(Arr, "slice", <<>>, << <<"step", VInt(-1)>> >>) = VArr(Rev(Arr.e))
    /\ Call(Arr, "slice", <<VInt(0), VInt(N)>>, <<>>) = Arr
    /\ \A a, b \in Bounds :
         LET s == Call(Arr, "slice", <<VInt(a), VInt(b)>>, <<>>) IN
         /\ s.k = "arr"
         /\ Len(s.e) = (IF Norm(b) > Norm(a) THEN Norm(b) - Norm(a) ELSE 0)
         /\ \A j \in 1..Len(s.e) : s.e[j] = Index(Arr, VInt(Norm(a) + j - 1))
         /\ (Norm(a) <= Norm(b) => VArr(Call(Arr, "slice", <<VInt(0), VInt(a)>>, <<>>).e \o s.e \o Call(Arr, "slice", <<VInt(b), VInt(N)>>, <<>>).e) = Arr)
         /\ \A st \in 1..3 :
              LET t == Slice(a, b, st) IN
              /\ Len(t.e) = (Len(s.e) + st - 1) \div st
              /\ \A j \in 1..Len(t.e) : t.e[j] = s.e[(j - 1) * st + 1]
    /\ \A st \in 1..3 :
         /\ Call(Arr, "slice", <<>>, << <<"step", VInt(st)>> >>) = Slice(0, N, st)
         /\ Call(Arr, "slice", <<>>, << <<"step", VInt(0 - st)>> >>) = Call(VArr(Rev(Arr.e)), "slice", <<>>, << <<"step", VInt(st)>> >>)
    /\ IsErr(Slice(0, N, 0)) /\ Slice(0, N, 0).n = 1
    /\ IsErr(Call(Arr, "slice", <<VInt(0)>>, <<>>))
    /\ IsErr(Call(Arr, "slice", <<VInt(0), VStr(<<97>>)>>, <<>>))
    /\ IsErr(Call(Arr, "slice", <<>>, << <<"stride", VInt(1)>> >>))

\* values: one value per key, in the order of keys() (ascending), each the value stored under that key
ValuesLaws ==
    LET ks == Call(Dict, "keys", <<>>, <<>>)
        vs == Call(Dict, "values", <<>>, <<>>)
    IN /\ vs.k = "arr" /\ Len(vs.e) = Len(ks.e) /\ Len(vs.e) = N
       /\ \A i \in 1..Len(ks.e) : vs.e[i] = Call(Dict, "get", <<ks.e[i]>>, <<>>)
       /\ \A i \in 1..(Len(ks.e) - 1) : SeqLess(ks.e[i].s, ks.e[i + 1].s)
       /\ IsErr(Call(Dict, "values", <<VInt(1)>>, <<>>))

\* splitlines: lines hold no newline; CR LF and CR count as LF; apart from the empty string and one final newline it is
\* split('\n') of the text with its newlines normalised
SplitLinesLaws ==
    LET ls == Call(VStr(Text), "splitlines", <<>>, <<>>)
        lf == Replace(Replace(Text, <<13, 10>>, <<10>>), <<13>>, <<10>>)
        cut == IF lf # <<>> /\ lf[Len(lf)] = 10 THEN SubSeq(lf, 1, Len(lf) - 1) ELSE lf
    IN /\ ls.k = "arr" /\ \A i \in 1..Len(ls.e) : ls.e[i].k = "str" /\ 10 \notin SeqSet(ls.e[i].s) /\ 13 \notin SeqSet(ls.e[i].s)
       /\ ls = Call(VStr(lf), "splitlines", <<>>, <<>>)
       /\ (Text = <<>> => ls = VArr(<<>>))
       /\ (Text # <<>> => ls = Call(VStr(cut), "split", <<VStr(<<10>>)>>, <<>>))

\* the worked examples of the reference and of the project's own test cases
Sq(x) == [i \in 1..Len(x) |-> VStr(<<x[i]>>)]
ABC == VArr(Sq(<<97, 98, 99>>))
ASSUME Call(ABC, "slice", <<>>, << <<"step", VInt(2)>> >>) = VArr(Sq(<<97, 99>>))
ASSUME Call(ABC, "slice", <<>>, << <<"step", VInt(-2)>> >>) = VArr(Sq(<<99, 97>>))
ASSUME Call(ABC, "slice", <<VInt(1), VInt(2)>>, <<>>) = VArr(Sq(<<98>>))
ASSUME Call(ABC, "slice", <<VInt(2), VInt(-2)>>, <<>>) = VArr(<<>>)
ASSUME Call(ABC, "slice", <<VInt(-9876543), VInt(2)>>, <<>>) = VArr(Sq(<<97, 98>>))
ASSUME Call(VArr(Sq(<<97, 98, 99, 100, 101>>)), "slice", <<VInt(1), VInt(12)>>, << <<"step", VInt(2)>> >>) = VArr(Sq(<<98, 100>>))
ASSUME Call(VArr(<<VStr(<<97>>), VArr(Sq(<<98, 99>>))>>), "flatten", <<>>, <<>>) = ABC
ASSUME Call(VStr(<<102, 13, 98, 10, 122, 10>>), "splitlines", <<>>, <<>>) = VArr(Sq(<<102, 98, 122>>))
ASSUME Call(VStr(<<10, 13, 10, 13>>), "splitlines", <<>>, <<>>) = VArr(<<VStr(<<>>), VStr(<<>>), VStr(<<>>)>>)
ASSUME Call(VStr(<<104, 13, 10, 119>>), "splitlines", <<>>, <<>>) = VArr(Sq(<<104, 119>>))
ASSUME Call(VDict(<<VEnt(<<122>>, VInt(1)), VEnt(<<97>>, VInt(2))>>), "values", <<>>, <<>>) = VArr(<<VInt(2), VInt(1)>>)

Emit == TLCGet("stats").diameter >= 0
        /\ JsonSerialize("methods.json", [maxlen |-> MaxLen, elems |-> Elems, keys |-> Keys, linesource |-> LineSource])
=============================================================================
