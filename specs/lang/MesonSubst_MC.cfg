SPECIFICATION Spec
CONSTANTS MaxLen = 6
INVARIANT OnePassF
INVARIANT OnePassN
INVARIANT NeverRescannedF
INVARIANT NeverRescannedN
INVARIANT PiecesLossless
INVARIANT PlainTextUntouched
CHECK_DEADLOCK FALSE
POSTCONDITION Emit
