----------------------------- MODULE MesonSubst_MC -----------------------------
(* Substitution laws of the reference evaluator (C01): f-strings and .format().          *)
(* Every template (string literal body) up to MaxLen over a small character set - the     *)
(* placeholder delimiter, two identifier letters that name variables in scope, two digits *)
(* that name positional arguments - is substituted under every store / argument list      *)
(* whose values are drawn from a pool of texts that themselves look like placeholders     *)
(* (`@b@`, `@a@`, `@1@`, `@0@`, a lone `@`, text ending or starting with `@`).             *)
(*                                                                                        *)
(* Laws (invariants):                                                                     *)
(*   OnePassF / OnePassN   the operational scan (FStringFrom / FormatFrom, used by Eval)  *)
(*        equals the declarative reading: cut the LITERAL into pieces, replace each       *)
(*        reference piece, concatenate                                                    *)
(*   NeverRescannedF / NeverRescannedN   substituted text is never scanned again: the     *)
(*        result is what one gets by substituting opaque markers (code points that occur  *)
(*        in no template and in no placeholder syntax) and expanding the markers to the   *)
(*        values afterwards - so no value can complete, extend or create a placeholder,   *)
(*        whatever it contains and wherever it lands                                      *)
(*   PiecesLossless   cutting loses / duplicates nothing of the literal                   *)
(*   PlainTextUntouched   a template without a complete placeholder is returned as is     *)
EXTENDS MesonEval, TLC, Json, SequencesExt
CONSTANTS MaxLen
VARIABLES tpl
vars == <<tpl>>

At == 64
Chars == {At, 97, 98, 48, 49}                        \* @ a b 0 1
NameA == <<97>>
NameB == <<98>>
\* '@b@' '@a@' '@1@' '@0@' '@' 'B' ''   (a lone '@' completes a placeholder with the literal's own text: f'@a@b@')
Pool == << <<At, 98, At>>, <<At, 97, At>>, <<At, 49, At>>, <<At, 48, At>>, <<At>>, <<66>>, <<>> >>
PoolIx == 1..Len(Pool)
\* every pair of values is used for the never-rescanned laws; the equality of the two formulations is checked on the
\* marker store and on the cyclic pairs (value k with value k+1), which contain the mutually referring ones:
\* a = '@b@', b = '@a@' and argument 0 = '@1@', argument 1 = '@0@'
Cyclic == { <<i, (i % Len(Pool)) + 1>> : i \in PoolIx }
MutualF == <<1, 2>>
MutualN == <<3, 4>>
ASSUME MutualF \in Cyclic /\ MutualN \in Cyclic

EnvOf(va, vb) == << <<NameA, VStr(va)>>, <<NameB, VStr(vb)>> >>
ArgsOf(va, vb) == <<VStr(va), VStr(vb)>>
\* opaque markers
MarkA == <<1>>
MarkB == <<2>>
RECURSIVE Expand(_, _, _)
Expand(s, va, vb) == IF s = <<>> THEN <<>>
                     ELSE (IF s[1] = 1 THEN va ELSE IF s[1] = 2 THEN vb ELSE <<s[1]>>) \o Expand(Tail(s), va, vb)

Init == tpl = <<>>
Next == Len(tpl) < MaxLen /\ \E c \in Chars : tpl' = Append(tpl, c)
Spec == Init /\ [][Next]_vars

OnePassF == /\ SameOutcome(FStringFrom(tpl, 1, EnvOf(MarkA, MarkB)), FStringDecl(tpl, EnvOf(MarkA, MarkB)))
            /\ \A p \in Cyclic : SameOutcome(FStringFrom(tpl, 1, EnvOf(Pool[p[1]], Pool[p[2]])), FStringDecl(tpl, EnvOf(Pool[p[1]], Pool[p[2]])))
OnePassN == /\ SameOutcome(FormatFrom(tpl, 1, ArgsOf(MarkA, MarkB)), FormatDecl(tpl, ArgsOf(MarkA, MarkB)))
            /\ \A p \in Cyclic : SameOutcome(FormatFrom(tpl, 1, ArgsOf(Pool[p[1]], Pool[p[2]])), FormatDecl(tpl, ArgsOf(Pool[p[1]], Pool[p[2]])))

NeverRescannedF ==
    LET m == FStringFrom(tpl, 1, EnvOf(MarkA, MarkB)) IN
    \A i, j \in PoolIx :
        LET r == FStringFrom(tpl, 1, EnvOf(Pool[i], Pool[j])) IN
        IF IsErr(m) THEN IsErr(r) ELSE r = VStr(Expand(m.s, Pool[i], Pool[j]))
NeverRescannedN ==
    LET m == FormatFrom(tpl, 1, ArgsOf(MarkA, MarkB)) IN
    \A i, j \in PoolIx :
        LET r == FormatFrom(tpl, 1, ArgsOf(Pool[i], Pool[j])) IN
        IF IsErr(m) THEN IsErr(r) ELSE r = VStr(Expand(m.s, Pool[i], Pool[j]))

PiecesLossless == PiecesSource(Pieces(tpl, "f")) = tpl /\ PiecesSource(Pieces(tpl, "n")) = tpl
PlainTextUntouched ==
    /\ (\A p \in 1..Len(Pieces(tpl, "f")) : ~Pieces(tpl, "f")[p].ref) => \A p \in Cyclic : FStringFrom(tpl, 1, EnvOf(Pool[p[1]], Pool[p[2]])) = VStr(tpl)
    /\ (\A p \in 1..Len(Pieces(tpl, "n")) : ~Pieces(tpl, "n")[p].ref) => \A p \in Cyclic : FormatFrom(tpl, 1, ArgsOf(Pool[p[1]], Pool[p[2]])) = VStr(tpl)

\* reference facts: a value that spells another placeholder of the same literal stays as it is
ASSUME FStringFrom(<<At,97,At,32,47,32,At,98,At>>, 1, EnvOf(<<115,101,101,32,At,98,At>>, <<66>>))          \* f'@a@ / @b@', a = 'see @b@', b = 'B'
         = VStr(<<115,101,101,32,At,98,At,32,47,32,66>>)                                                     \* 'see @b@ / B'
ASSUME FStringFrom(<<At,At,97,At,At,32,At,98,At>>, 1, EnvOf(<<98>>, <<66>>)) = VStr(<<At,98,At,32,66>>)    \* f'@@a@@ @b@', a = 'b': '@b@ B'
ASSUME FStringFrom(<<At,97,At,At,98,At>>, 1, EnvOf(<<At,98,At>>, <<At,97,At>>)) = VStr(<<At,98,At,At,97,At>>) \* each names the other
ASSUME FStringFrom(<<At,97,At,98,At>>, 1, EnvOf(<<At>>, <<66>>)) = VStr(<<At,98,At>>)                       \* f'@a@b@', a = '@': '@b@'
ASSUME FormatFrom(<<At,48,At,At,49,At>>, 1, ArgsOf(<<At,49,At>>, <<At,48,At>>)) = VStr(<<At,49,At,At,48,At>>)
ASSUME FormatFrom(<<At,At,48,At,At,32,At,49,At>>, 1, ArgsOf(<<49>>, <<66>>)) = VStr(<<At,49,At,32,66>>)     \* '@@0@@ @1@'.format('1','B'): '@1@ B'
\* .format() does not look at names, f-strings do not look at numbers
ASSUME FormatFrom(<<At,97,At>>, 1, ArgsOf(<<66>>, <<66>>)) = VStr(<<At,97,At>>)
ASSUME FStringFrom(<<At,48,At>>, 1, EnvOf(<<66>>, <<66>>)) = VStr(<<At,48,At>>)

Emit == TLCGet("stats").diameter >= 0
        /\ JsonSerialize("subst.json", [chars |-> SetToSeq(Chars), pool |-> Pool, names |-> <<NameA, NameB>>, maxlen |-> MaxLen,
                                     mutual_f |-> MutualF, mutual_n |-> MutualN])
=============================================================================
