----------------------------- MODULE MesonValues -----------------------------
(***************************************************************************)
(* Values of the Meson language and the operations the language reference  *)
(* defines on them (Syntax.md, docs/yaml/elementary).  Strings are          *)
(* sequences of code points.  Every value is a record [k, n, s, e]:         *)
(*   int   n          bool  n in {0,1}      str   s (code points)           *)
(*   arr   e (elements)     dict  e (entries "ent": s key, e = <<value>>,   *)
(*   insertion ordered)     range e (its integers)      void               *)
(*   err   n = reason: 1 the reference demands failure; 2 failure demanded  *)
(*         by strict typing where a bool is used as an int; 3 the reference *)
(*         does not say (any outcome is allowed)                            *)
(***************************************************************************)
EXTENDS Integers, Sequences, FiniteSets

Val(k, n, s, e) == [k |-> k, n |-> n, s |-> s, e |-> e]
VInt(n) == Val("int", n, <<>>, <<>>)
VBool(b) == Val("bool", IF b THEN 1 ELSE 0, <<>>, <<>>)
VStr(cs) == Val("str", 0, cs, <<>>)
VArr(es) == Val("arr", 0, <<>>, es)
VEnt(key, v) == Val("ent", 0, key, <<v>>)
VDict(ents) == Val("dict", 0, <<>>, ents)
VRange(es) == Val("range", 0, <<>>, es)
VVoid == Val("void", 0, <<>>, <<>>)
Err == Val("err", 1, <<>>, <<>>)
ErrBoolInt == Val("err", 2, <<>>, <<>>)
Unspec == Val("err", 3, <<>>, <<>>)

IsErr(v) == v.k = "err"
Truth(v) == v.n = 1
\* first error among a sequence of values, reason 3 (unspecified) dominating
FirstErr(vs) ==
    IF \E i \in 1..Len(vs) : IsErr(vs[i]) /\ vs[i].n = 3 THEN Unspec
    ELSE vs[CHOOSE i \in 1..Len(vs) : IsErr(vs[i]) /\ \A j \in 1..(i - 1) : ~IsErr(vs[j])]
AnyErr(vs) == \E i \in 1..Len(vs) : IsErr(vs[i])

Big == 30000
Abs(n) == IF n < 0 THEN -n ELSE n

\* ---- strings ----------------------------------------------------------------------
SubSeqFrom(s, i) == SubSeq(s, i, Len(s))
StartsAt(s, i, p) == i + Len(p) - 1 <= Len(s) /\ \A j \in 1..Len(p) : s[i + j - 1] = p[j]
StartsWith(s, p) == StartsAt(s, 1, p)
EndsWith(s, p) == Len(p) <= Len(s) /\ StartsAt(s, Len(s) - Len(p) + 1, p)
HasSub(s, p) == \E i \in 1..(Len(s) + 1) : StartsAt(s, i, p)

RECURSIVE SplitFrom(_, _, _, _)
\* split s at non-overlapping occurrences of the non-empty delimiter d, scanning left to right
SplitFrom(s, d, i, cur) ==
    IF i > Len(s) THEN <<cur>>
    ELSE IF StartsAt(s, i, d) THEN <<cur>> \o SplitFrom(s, d, i + Len(d), <<>>)
    ELSE SplitFrom(s, d, i + 1, Append(cur, s[i]))
Split(s, d) == SplitFrom(s, d, 1, <<>>)

RECURSIVE JoinSeq(_, _)
JoinSeq(sep, parts) == IF parts = <<>> THEN <<>>
                       ELSE IF Len(parts) = 1 THEN parts[1]
                       ELSE parts[1] \o sep \o JoinSeq(sep, Tail(parts))

RECURSIVE ReplaceFrom(_, _, _, _)
ReplaceFrom(s, old, new, i) ==
    IF i > Len(s) THEN <<>>
    ELSE IF StartsAt(s, i, old) THEN new \o ReplaceFrom(s, old, new, i + Len(old))
    ELSE <<s[i]>> \o ReplaceFrom(s, old, new, i + 1)
Replace(s, old, new) == ReplaceFrom(s, old, new, 1)

\* str.splitlines(): '\n', '\r' and '\r\n' are the newlines; the empty string has no lines and a final newline does not open
\* another line (str.yml; test cases/common/35 string operations)
RECURSIVE TextLinesFrom(_, _, _)
TextLinesFrom(s, i, cur) ==
    IF i > Len(s) THEN (IF cur = <<>> THEN <<>> ELSE <<cur>>)
    ELSE IF s[i] = 13 /\ i + 1 <= Len(s) /\ s[i + 1] = 10 THEN <<cur>> \o TextLinesFrom(s, i + 2, <<>>)
    ELSE IF s[i] \in {10, 13} THEN <<cur>> \o TextLinesFrom(s, i + 1, <<>>)
    ELSE TextLinesFrom(s, i + 1, Append(cur, s[i]))
TextLines(s) == TextLinesFrom(s, 1, <<>>)
\* other characters that some text tools treat as line boundaries: the reference names only the three above
OtherLineBreaks == {11, 12, 28, 29, 30, 133, 8232, 8233}

WsChars == {32, 10, 9, 13, 11, 12}
RECURSIVE LStrip(_, _), RStrip(_, _)
LStrip(s, set) == IF s # <<>> /\ s[1] \in set THEN LStrip(Tail(s), set) ELSE s
RStrip(s, set) == IF s # <<>> /\ s[Len(s)] \in set THEN RStrip(SubSeq(s, 1, Len(s) - 1), set) ELSE s
Strip(s, set) == RStrip(LStrip(s, set), set)
SeqSet(s) == { s[i] : i \in 1..Len(s) }

IsUpper(c) == c >= 65 /\ c <= 90
IsLower(c) == c >= 97 /\ c <= 122
IsDigit(c) == c >= 48 /\ c <= 57
IsAlnum(c) == IsUpper(c) \/ IsLower(c) \/ IsDigit(c)
Ascii(s) == \A i \in 1..Len(s) : s[i] < 128
ToUpper(s) == [i \in 1..Len(s) |-> IF IsLower(s[i]) THEN s[i] - 32 ELSE s[i]]
ToLower(s) == [i \in 1..Len(s) |-> IF IsUpper(s[i]) THEN s[i] + 32 ELSE s[i]]
Underscorify(s) == [i \in 1..Len(s) |-> IF IsAlnum(s[i]) THEN s[i] ELSE 95]

RECURSIVE DigitsOf(_)
DigitsOf(n) == IF n < 10 THEN <<48 + n>> ELSE Append(DigitsOf(n \div 10), 48 + (n % 10))
IntToStr(n) == IF n < 0 THEN <<45>> \o DigitsOf(-n) ELSE DigitsOf(n)
Zeros(k) == [i \in 1..k |-> 48]
\* zero fill to a total width; the padding goes after a minus sign
IntToStrFill(n, fill) ==
    LET d == DigitsOf(Abs(n))
        signLen == IF n < 0 THEN 1 ELSE 0
        pad == IF fill > Len(d) + signLen THEN Zeros(fill - Len(d) - signLen) ELSE <<>>
    IN (IF n < 0 THEN <<45>> ELSE <<>>) \o pad \o d

HexVal(c) == IF IsDigit(c) THEN c - 48 ELSE IF c >= 97 /\ c <= 102 THEN c - 87 ELSE IF c >= 65 /\ c <= 70 THEN c - 55 ELSE -1
RECURSIVE ParseBase(_, _, _)
\* value of digit string ds in the given base, -1 if a digit is invalid or the number is too big for the model
ParseBase(ds, base, acc) ==
    IF ds = <<>> THEN acc
    ELSE LET v == HexVal(ds[1]) IN
         IF v < 0 \/ v >= base THEN -1
         ELSE IF acc > 60000000 THEN -2
         ELSE ParseBase(Tail(ds), base, acc * base + v)
\* str.to_int(): surrounding whitespace ignored, optional sign, decimal digits (leading zeros allowed) or 0x / 0o / 0b prefix
StrToInt(s0) ==
    LET s == Strip(s0, WsChars)
        neg == s # <<>> /\ s[1] = 45
        body == IF s # <<>> /\ s[1] \in {43, 45} THEN Tail(s) ELSE s
        pre == IF Len(body) >= 2 /\ body[1] = 48 THEN body[2] ELSE 0
        base == CASE pre \in {120, 88} -> 16 [] pre \in {111, 79} -> 8 [] pre \in {98, 66} -> 2 [] OTHER -> 10
        digits == IF base = 10 THEN body ELSE SubSeqFrom(body, 3)
        v == IF digits = <<>> THEN -1 ELSE ParseBase(digits, base, 0)
    IN IF 95 \in SeqSet(s) \/ ~Ascii(s0) THEN Unspec       \* digit separators / non-ASCII digits: the reference is silent
       ELSE IF v = -2 THEN Unspec
       ELSE IF v = -1 THEN Err
       ELSE VInt(IF neg THEN -v ELSE v)

\* Python-style slice bounds as documented for str.substring
ClampIdx(i, len) == IF i < 0 THEN (IF i + len < 0 THEN 0 ELSE i + len) ELSE (IF i > len THEN len ELSE i)
Substring(s, start, end) ==
    LET a == ClampIdx(start, Len(s))
        b == ClampIdx(end, Len(s))
    IN IF a >= b THEN <<>> ELSE SubSeq(s, a + 1, b)

\* str / str : path building, always with "/" as separator; an absolute right-hand side replaces the left
PathJoin(l, r) ==
    LET j == IF r # <<>> /\ r[1] = 47 THEN r
             ELSE IF l = <<>> \/ l[Len(l)] = 47 THEN l \o r
             ELSE l \o <<47>> \o r
    IN [i \in 1..Len(j) |-> IF j[i] = 92 THEN 47 ELSE j[i]]
\* drive letters and backslash-rooted paths have platform dependent meaning: outside the model
PathPortable(l, r) == ~(\E i \in 1..Len(r) : r[i] \in {92, 58}) /\ ~(\E i \in 1..Len(l) : l[i] = 58)

\* lexicographic order of code point sequences
RECURSIVE SeqLess(_, _)
SeqLess(a, b) == IF b = <<>> THEN FALSE
                 ELSE IF a = <<>> THEN TRUE
                 ELSE IF a[1] # b[1] THEN a[1] < b[1]
                 ELSE SeqLess(Tail(a), Tail(b))

\* ---- escape decoding of '...' literals (never applied to '''...''') ----------------------
IsOct(c) == c >= 48 /\ c <= 55
SimpleEsc(c) == CASE c = 92 -> 92 [] c = 39 -> 39 [] c = 97 -> 7 [] c = 98 -> 8 [] c = 102 -> 12
                  [] c = 110 -> 10 [] c = 114 -> 13 [] c = 116 -> 9 [] c = 118 -> 11 [] OTHER -> -1
AllHex(s, i, k) == i + k - 1 <= Len(s) /\ \A j \in i..(i + k - 1) : HexVal(s[j]) >= 0
RECURSIVE HexNum(_, _, _, _)
HexNum(s, i, k, acc) == IF k = 0 THEN acc ELSE HexNum(s, i + 1, k - 1, acc * 16 + HexVal(s[i]))
RECURSIVE UnescapeFrom(_, _)
\* returns <<status, chars>> with status "ok" | "err" (invalid code point) | "unspec" (\N{name})
UnescapeFrom(s, i) ==
    IF i > Len(s) THEN <<"ok", <<>>>>
    ELSE IF s[i] # 92 \/ i = Len(s) THEN
         LET r == UnescapeFrom(s, i + 1) IN <<r[1], <<s[i]>> \o r[2]>>
    ELSE LET c == s[i + 1] IN
         IF SimpleEsc(c) >= 0 THEN LET r == UnescapeFrom(s, i + 2) IN <<r[1], <<SimpleEsc(c)>> \o r[2]>>
         ELSE IF IsOct(c) THEN
              LET n == IF i + 2 <= Len(s) /\ IsOct(s[i + 2]) THEN (IF i + 3 <= Len(s) /\ IsOct(s[i + 3]) THEN 3 ELSE 2) ELSE 1
                  v == IF n = 1 THEN c - 48
                       ELSE IF n = 2 THEN (c - 48) * 8 + (s[i + 2] - 48)
                       ELSE (c - 48) * 64 + (s[i + 2] - 48) * 8 + (s[i + 3] - 48)
                  r == UnescapeFrom(s, i + 1 + n)
              IN <<r[1], <<v>> \o r[2]>>
         ELSE IF c = 120 /\ AllHex(s, i + 2, 2) THEN
              LET r == UnescapeFrom(s, i + 4) IN <<r[1], <<HexNum(s, i + 2, 2, 0)>> \o r[2]>>
         ELSE IF c = 117 /\ AllHex(s, i + 2, 4) THEN
              LET v == HexNum(s, i + 2, 4, 0)
                  r == UnescapeFrom(s, i + 6)
              IN IF v >= 55296 /\ v <= 57343 THEN <<"unspec", <<>>>> ELSE <<r[1], <<v>> \o r[2]>>
         ELSE IF c = 85 /\ AllHex(s, i + 2, 8) THEN
              IF HexNum(s, i + 2, 3, 0) # 0 THEN <<"err", <<>>>>                     \* beyond U+10FFFF for sure
              ELSE LET v == HexNum(s, i + 5, 5, 0)
                       r == UnescapeFrom(s, i + 10)
                   IN IF v > 1114111 THEN <<"err", <<>>>>
                      ELSE IF v >= 55296 /\ v <= 57343 THEN <<"unspec", <<>>>>
                      ELSE <<r[1], <<v>> \o r[2]>>
         ELSE IF c = 78 /\ i + 2 <= Len(s) /\ s[i + 2] = 123 THEN <<"unspec", <<>>>>   \* \N{name}: needs the Unicode name table
         ELSE LET r == UnescapeFrom(s, i + 1) IN <<r[1], <<92>> \o r[2]>>              \* unknown escape: kept as written
Unescape(s) == UnescapeFrom(s, 1)

\* ---- equality ---------------------------------------------------------------------------
\* "same" | "diff" | "unspec" : structural equality with exact types; an int against a bool inside a
\* container is a case the reference does not settle
RECURSIVE DeepEq(_, _)
Worst(rs) == IF "unspec" \in rs THEN "unspec" ELSE IF "diff" \in rs THEN "diff" ELSE "same"
DictGet(d, key) == LET ix == { i \in 1..Len(d.e) : d.e[i].s = key } IN
                   IF ix = {} THEN Err ELSE d.e[CHOOSE i \in ix : TRUE].e[1]
DictHas(d, key) == \E i \in 1..Len(d.e) : d.e[i].s = key
DeepEq(a, b) ==
    IF a.k # b.k THEN (IF {a.k, b.k} = {"int", "bool"} THEN "unspec" ELSE "diff")
    ELSE CASE a.k = "arr" ->
                IF Len(a.e) # Len(b.e) THEN "diff" ELSE Worst({ DeepEq(a.e[i], b.e[i]) : i \in 1..Len(a.e) })
           [] a.k = "dict" ->
                IF Len(a.e) # Len(b.e) \/ \E i \in 1..Len(a.e) : ~DictHas(b, a.e[i].s) THEN "diff"
                ELSE Worst({ DeepEq(a.e[i].e[1], DictGet(b, a.e[i].s)) : i \in 1..Len(a.e) })
           [] a.k = "range" -> "unspec"
           [] OTHER -> IF a = b THEN "same" ELSE "diff"

\* membership of x among elements es
MemberOf(x, es) ==
    LET rs == { DeepEq(x, es[i]) : i \in 1..Len(es) } IN
    IF "same" \in rs THEN VBool(TRUE) ELSE IF "unspec" \in rs THEN Unspec ELSE VBool(FALSE)

\* dict + dict: entries of the left in order with values overridden by the right, then the new keys of the right in order
DictMerge(a, b) ==
    LET left == [i \in 1..Len(a.e) |-> IF DictHas(b, a.e[i].s) THEN VEnt(a.e[i].s, DictGet(b, a.e[i].s)) ELSE a.e[i]]
        newIdx == { i \in 1..Len(b.e) : ~DictHas(a, b.e[i].s) }
        RECURSIVE pick(_)
        pick(i) == IF i > Len(b.e) THEN <<>> ELSE (IF i \in newIdx THEN <<b.e[i]>> ELSE <<>>) \o pick(i + 1)
    IN VDict(left \o pick(1))

\* sorted keys (ascending code point order) - by selection
RECURSIVE SortKeys(_)
SortKeys(keys) ==
    IF keys = {} THEN <<>>
    ELSE LET m == CHOOSE x \in keys : \A y \in keys : x = y \/ SeqLess(x, y) IN <<m>> \o SortKeys(keys \ {m})

\* array.flatten(): "a flattened copy of the array, with all nested arrays removed" - the non-array elements in order
RECURSIVE FlattenVals(_)
FlattenVals(es) == IF es = <<>> THEN <<>>
                   ELSE (IF es[1].k = "arr" THEN FlattenVals(es[1].e) ELSE <<es[1]>>) \o FlattenVals(Tail(es))
\* array.slice(): the elements at start, start+step, ... below stop (step > 0), resp. from the last element downwards
RECURSIVE StrideUp(_, _, _, _), StrideDown(_, _, _)
StrideUp(es, i, stop, st) == IF i >= stop THEN <<>> ELSE <<es[i + 1]>> \o StrideUp(es, i + st, stop, st)
StrideDown(es, i, st) == IF i < 0 THEN <<>> ELSE <<es[i + 1]>> \o StrideDown(es, i + st, st)

\* textual form used by .format() and f-strings; containers have no documented form
Stringify(v) ==
    CASE v.k = "str" -> v
      [] v.k = "int" -> VStr(IntToStr(v.n))
      [] v.k = "bool" -> VStr(IF Truth(v) THEN <<116, 114, 117, 101>> ELSE <<102, 97, 108, 115, 101>>)
      [] v.k \in {"arr", "dict"} -> Unspec
      [] IsErr(v) -> v
      [] OTHER -> Err

=============================================================================
