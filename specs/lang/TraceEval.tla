------------------------------- MODULE TraceEval -------------------------------
(***************************************************************************)
(* Trace validation for C01: one case = one program (token sequence) run   *)
(* by the real parser + interpreter, recorded as                            *)
(*   st    "ok" | "fail" (a MesonException / loop-control escape) |         *)
(*         "internal:<Exception>"                                            *)
(*   vars  the variable store afterwards (also after a failure), as         *)
(*         <<name code points, value>> pairs                                 *)
(* The reference outcome is Parse + Run of MesonEval from the same initial  *)
(* store; reason-3 outcomes (reference silent) accept anything.             *)
(***************************************************************************)
EXTENDS MesonEval, TLC, Json, IOUtils

Batch == JsonDeserialize(IOEnv.TRACE_FILE)
Alphabet == Batch.alphabet
Cases == Batch.cases
Env0 == Batch.env0

VARIABLES i, done
vars == <<i, done>>

V(c, clause, note) == [id |-> c.id, clause |-> clause, note |-> note]
PairSet(s) == { <<s[j][1], s[j][2]>> : j \in 1..Len(s) }

Judge(c) ==
    LET raw == [j \in 1..Len(c.t) |-> Alphabet[c.t[j] + 1]]
        p == Parse(raw)
    IN IF ~p.ok THEN (IF c.st = "ok" THEN V(c, "ValueButReferenceRejectsSyntax", "") ELSE V(c, "ok", ""))
       ELSE LET r == Run(p.node, Env0) IN
            IF r.sig = "err" /\ r.code = 3 THEN V(c, "ok", "unspecified")
            ELSE IF r.sig = "err" THEN
                 (IF c.st = "ok" THEN V(c, IF r.code = 2 THEN "ValueButReferenceFails:BoolUsedAsInt" ELSE "ValueButReferenceFails", ToString(r.env))
                  ELSE IF PairSet(c.vars) # EnvAsSet(r.env)
                       THEN V(c, IF r.code = 2 THEN "StoreAtFailureDiffers:BoolUsedAsInt" ELSE "StoreAtFailureDiffers", ToString(r.env))
                  ELSE V(c, "ok", ""))
            ELSE IF c.st # "ok" THEN V(c, "FailsButReferenceHasValue", ToString(r.env))
            ELSE IF PairSet(c.vars) # EnvAsSet(r.env) THEN V(c, "StoreDiffers", ToString(r.env))
            ELSE V(c, "ok", "")

Init == i \in 1..Len(Cases) /\ done = FALSE
Next == /\ ~done
        /\ done' = TRUE
        /\ i' = i
        /\ LET v == Judge(Cases[i]) IN v.clause = "ok" \/ PrintT(ToJson(v))
Spec == Init /\ [][Next]_vars
=============================================================================
