------------------------------- MODULE TraceEval -------------------------------
(***************************************************************************)
(* Trace validation for C01: one case = one program (token sequence) run   *)
(* by the real parser + interpreter, recorded as                            *)
(*   st    "ok" | "fail" (a MesonException / loop-control escape) |         *)
(*         "internal:<Exception>"                                            *)
(*   files, subs  build files of sub-directories / subprojects used by       *)
(*         subdir() and subproject(): <<path or name, tokens>>               *)
(*   vars  the variable store afterwards (also after a failure), as         *)
(*         <<name code points, value>> pairs                                 *)
(* The reference outcome is Parse + Run of MesonEval from the same initial  *)
(* store; reason-3 outcomes (reference silent) accept anything.             *)
(***************************************************************************)
EXTENDS MesonEval, TLC, Json, IOUtils

Batch == JsonDeserialize(IOEnv.TRACE_FILE)
Alphabet == Batch.alphabet
Cases == Batch.cases
Env0 == Batch.env0

VARIABLES i, done
vars == <<i, done>>

V(c, clause, note) == [id |-> c.id, clause |-> clause, note |-> note]
PairSet(s) == { <<s[j][1], s[j][2]>> : j \in 1..Len(s) }

Toks(ix) == [j \in 1..Len(ix) |-> Alphabet[ix[j] + 1]]
\* build files of sub-directories and subprojects of this case: <<name, token indices>>
ParsedTable(tbl) == [j \in 1..Len(tbl) |-> <<tbl[j][1], Parse(Toks(tbl[j][2]))>>]
AllOk(pt) == \A j \in 1..Len(pt) : pt[j][2].ok
Trees(pt) == [j \in 1..Len(pt) |-> <<pt[j][1], pt[j][2].node>>]

Judge(c) ==
    LET p == Parse(Toks(c.t))
        pf == ParsedTable(c.files)
        ps == ParsedTable(c.subs)
    IN IF ~p.ok THEN (IF c.st = "ok" THEN V(c, "ValueButReferenceRejectsSyntax", "") ELSE V(c, "ok", ""))
       ELSE IF ~AllOk(pf) \/ ~AllOk(ps) THEN V(c, "ok", "a sub-file does not parse: outside this model")
       ELSE LET r == Run(Inline(p.node, Trees(pf), Trees(ps)), Env0) IN
            IF r.sig = "err" /\ r.code = 3 THEN V(c, "ok", "unspecified")
            ELSE IF r.sig = "err" THEN
                 (IF c.st = "ok" THEN V(c, IF r.code = 2 THEN "ValueButReferenceFails:BoolUsedAsInt" ELSE "ValueButReferenceFails", ToString(r.env))
                  ELSE IF PairSet(c.vars) # EnvAsSet(r.env)
                       THEN V(c, IF r.code = 2 THEN "StoreAtFailureDiffers:BoolUsedAsInt" ELSE "StoreAtFailureDiffers", ToString(r.env))
                  ELSE V(c, "ok", ""))
            ELSE IF c.st # "ok" THEN V(c, "FailsButReferenceHasValue", ToString(r.env))
            ELSE IF PairSet(c.vars) # EnvAsSet(r.env) THEN V(c, "StoreDiffers", ToString(r.env))
            ELSE V(c, "ok", "")

Init == i \in 1..Len(Cases) /\ done = FALSE
Next == /\ ~done
        /\ done' = TRUE
        /\ i' = i
        /\ LET v == Judge(Cases[i]) IN v.clause = "ok" \/ PrintT(ToJson(v))
Spec == Init /\ [][Next]_vars
=============================================================================
