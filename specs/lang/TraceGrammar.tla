----------------------------- MODULE TraceGrammar -----------------------------
(***************************************************************************)
(* Trace validation of the real lexer/parser/printer (C02) and of the      *)
(* parse-level part of C01 against MesonGrammar.                            *)
(*                                                                          *)
(* One case = one input text pushed through mparser.Parser, recorded as:   *)
(*   t    token sequence (indices into Batch.alphabet)                      *)
(*   acc  the real parser accepted                                          *)
(*   ast  the real tree as nested tuples <<k, v, n, cs, c, d>> (or <<>>)    *)
(*   ext  extents of the real FunctionNode / ArrayNode constructs as        *)
(*        <<kind, firstToken, lastToken>> (token indices; -1 = the recorded *)
(*        line/column is not a token boundary)                              *)
(*   lossless  RawPrinter reproduced the text byte for byte                 *)
(*   located   the error carried a line/column inside the text              *)
(*   exc  "" or the name of a non-Meson exception that escaped             *)
(***************************************************************************)
EXTENDS MesonGrammar, TLC, Json, IOUtils

Batch == JsonDeserialize(IOEnv.TRACE_FILE)
Alphabet == Batch.alphabet
Cases == Batch.cases
\* which clauses this run judges: "C02" (totality, losslessness, extents) or "C01" (acceptance and tree shape)
Mode == IOEnv.JUDGE_MODE

VARIABLES i, done
vars == <<i, done>>

RECURSIVE ToTuple(_)
ToTuple(x) == <<x.k, x.v, IF x.k \in OpPosKinds THEN 0 ELSE x.n, x.cs,
                [j \in 1..Len(x.c) |-> ToTuple(x.c[j])], [j \in 1..Len(x.d) |-> ToTuple(x.d[j])]>>

RECURSIVE HasOrderError(_)
HasOrderError(x) == (x.k = "args" /\ x.n = 1)
                    \/ (\E j \in 1..Len(x.c) : HasOrderError(x.c[j])) \/ (\E j \in 1..Len(x.d) : HasOrderError(x.d[j]))

CallArrExtents(node) == { e \in Extents(node) : e[1] \in {"call", "arr"} }
SeqToSet(s) == { s[j] : j \in 1..Len(s) }

V(c, clause, note) == [id |-> c.id, clause |-> clause, note |-> note]

JudgeC02(c, r) ==
    IF c.exc # "" THEN V(c, "InternalError", c.exc)
    ELSE IF ~c.acc THEN (IF c.located THEN V(c, "ok", "") ELSE V(c, "NotLocated", ""))
    ELSE IF ~c.lossless THEN
         V(c, IF r.ok /\ HasOrderError(r.node) THEN "NotLossless:PositionalAfterKeyword"
              ELSE IF ~r.ok THEN "NotLossless:ReferenceRejects" ELSE "NotLossless", "")
    ELSE IF r.ok /\ CallArrExtents(r.node) # SeqToSet(c.ext) THEN V(c, "ExtentsDiffer", ToString(CallArrExtents(r.node)))
    ELSE V(c, "ok", "")

JudgeC01(c, r) ==
    IF c.exc # "" THEN V(c, "ok", "")                     \* reported by C02
    ELSE IF r.ok # c.acc THEN V(c, IF r.ok THEN "RejectedButReferenceAccepts" ELSE "AcceptedButReferenceRejects", "")
    ELSE IF r.ok /\ ToTuple(r.node) # c.ast THEN V(c, "TreeDiffers", ToString(ToTuple(r.node)))
    ELSE V(c, "ok", "")

Judge(c) ==
    LET raw == [j \in 1..Len(c.t) |-> Alphabet[c.t[j] + 1]]
        r == Parse(raw)
    IN IF Mode = "C02" THEN JudgeC02(c, r) ELSE JudgeC01(c, r)

Init == i \in 1..Len(Cases) /\ done = FALSE
Next == /\ ~done
        /\ done' = TRUE
        /\ i' = i
        /\ LET v == Judge(Cases[i]) IN v.clause = "ok" \/ PrintT(ToJson(v))
Spec == Init /\ [][Next]_vars
=============================================================================
