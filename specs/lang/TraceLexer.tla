------------------------------ MODULE TraceLexer ------------------------------
(* Trace validation of the real Lexer: case = <<text (code points), outcome>> with outcome  *)
(* acc / toks = <<tid, first, last>> of the real tokens, or the rejected offset.            *)
EXTENDS MesonLexer, TLC, Json, IOUtils
Cases == JsonDeserialize(IOEnv.TRACE_FILE)
VARIABLES i, done
vars == <<i, done>>
V(c, clause, note) == [id |-> c.id, clause |-> clause, note |-> note]
Judge(c) ==
    LET r == Lex(c.s) IN
    IF r[1] = "reject" THEN (IF c.acc THEN V(c, "AcceptedButReferenceRejects", ToString(r[2]))
                             ELSE IF c.pos # r[2] THEN V(c, "RejectPositionDiffers", ToString(r[2]))
                             ELSE V(c, "ok", ""))
    ELSE IF ~c.acc THEN V(c, "RejectedButReferenceAccepts", "")
    ELSE IF c.toks # [j \in 1..Len(r[2]) |-> <<IF r[2][j][1] = "keyword" THEN "id" ELSE r[2][j][1], r[2][j][2], r[2][j][3]>>]
         THEN V(c, "TokensDiffer", ToString(r[2]))
    ELSE V(c, "ok", "")
Init == i \in 1..Len(Cases) /\ done = FALSE
Next == /\ ~done /\ done' = TRUE /\ i' = i
        /\ LET v == Judge(Cases[i]) IN v.clause = "ok" \/ PrintT(ToJson(v))
Spec == Init /\ [][Next]_vars
=============================================================================
