------------------------------- MODULE LangObj -------------------------------
(***************************************************************************)
(* X04 - the Meson language beyond the core value language: disabler       *)
(* objects, feature objects, the mutable objects configuration_data() and  *)
(* environment(), and the path helpers.  A reference evaluator over small   *)
(* abstract programs (statements that build objects and print observations *)
(* with message()).  The core language itself (ints, bools, strings,       *)
(* arrays, dicts, operators) is specified in specs/lang (C01) and reused   *)
(* here through `Core`.                                                    *)
(*                                                                         *)
(* Sources for the disabler rules (the other areas: LangObjFeature,        *)
(* LangObjData, LangObjPaths):                                             *)
(*  [DM]  docs/markdown/Disabler.md - "The only thing you can do to a      *)
(*        disabler object is to ask if it has been found ... Any other     *)
(*        statement that uses a disabler object will immediately return a  *)
(*        disabler": d2 = some_func(d) is a disabler, `true or d2` is true *)
(*        by short-circuiting, `false or d2` is a disabler, `if d` -        *)
(*        "neither branch is evaluated".                                   *)
(*  [DY]  docs/yaml/objects/disabler.yaml - "behaves in much the same way  *)
(*        as NaN ... when used in any statement (function call, logical    *)
(*        op, etc) they will cause the statement evaluation to immediately *)
(*        short circuit to return a disabler object"; found() "Always      *)
(*        returns false".  docs/yaml/functions/is_disabler.yaml.           *)
(*  [T158] test cases/common/158 disabler - method call on a disabler,     *)
(*        function call with a disabler nested in arrays of a keyword      *)
(*        argument, ==, +, `d or true`, set_variable('v', disabler())      *)
(*        stores it, is_variable / get_variable exceptions (get_variable   *)
(*        with an existing name ignores a disabler fallback, with a        *)
(*        disabler as name yields a disabler), `if not d`, `if d == 1`,    *)
(*        array and dict literals keep a disabler as an element, foreach   *)
(*        over such an array visits it.                                    *)
(*  [T41] test cases/common/41 test args - "environment objects are copied *)
(*        on assignment and we can change the copy without affecting the   *)
(*        original"; [CM] (Configuration.md) "Copy of immutable            *)
(*        configuration_data is still immutable".                          *)
(*                                                                         *)
(* Abstract syntax: every node is [k, s, n, cs, a]                         *)
(*   k kind; s a name that is fixed in the program text (function, method, *)
(*   keyword, operator); n a number; cs code points (string literal,       *)
(*   variable name); a the children.                                       *)
(* Values: MesonValues records plus  dis | feat (n state, s option name) | *)
(*   cfg | env (LangObjData) | mod (s module name).                        *)
(* Errors: err with n = 1 (the documentation demands failure; s = the      *)
(*   error_message that must be reported, if any) or n = 3 (unspecified:   *)
(*   documentation and pinned tests leave the case open; any outcome).     *)
(***************************************************************************)
EXTENDS LangObjPaths, LangObjFeature, LangObjData

Core == INSTANCE MesonEval

\* ---- abstract syntax -----------------------------------------------------------------------
N(k, s, n, cs, a) == [k |-> k, s |-> s, n |-> n, cs |-> cs, a |-> a]
LStr(cs) == N("str", "", 0, cs, <<>>)
LInt(n) == N("int", "", n, <<>>, <<>>)
LBool(b) == N("bool", "", IF b THEN 1 ELSE 0, <<>>, <<>>)
Id(cs) == N("id", "", 0, cs, <<>>)
Arr(es) == N("arr", "", 0, <<>>, es)
DEnt(key, e) == N("ent", "", 0, key, <<e>>)
Dict(ents) == N("dict", "", 0, <<>>, ents)
Not(e) == N("not", "", 0, <<>>, <<e>>)
Neg(e) == N("neg", "", 0, <<>>, <<e>>)
And(l, r) == N("and", "", 0, <<>>, <<l, r>>)
Or(l, r) == N("or", "", 0, <<>>, <<l, r>>)
Cmp(op, l, r) == N("cmp", op, 0, <<>>, <<l, r>>)
Arith(op, l, r) == N("arith", op, 0, <<>>, <<l, r>>)
Tern(c, t, f) == N("tern", "", 0, <<>>, <<c, t, f>>)
Idx(o, i) == N("idx", "", 0, <<>>, <<o, i>>)
Kw(name, e) == N("kw", name, 0, <<>>, <<e>>)
Call(f, args) == N("call", f, 0, <<>>, args)
Meth(obj, m, args) == N("meth", m, 0, <<>>, <<obj>> \o args)
EnvGet(e, name) == N("envget", "", 0, name, <<e>>)        \* what a process run with `env: e` sees for the variable `name`
\* statements
Assign(x, e) == N("assign", "", 0, x, <<e>>)
PlusAssign(x, e) == N("plusassign", "", 0, x, <<e>>)
ExprS(e) == N("expr", "", 0, <<>>, <<e>>)
Block(ss) == N("block", "", 0, <<>>, ss)
If(pairs, els) == N("if", "", IF els = <<>> THEN 0 ELSE 1, <<>>, pairs \o (IF els = <<>> THEN <<>> ELSE <<Block(els)>>))   \* pairs = <<cond1, Block1, cond2, Block2 ...>>
Foreach(x, items, body) == N("foreach", "", 0, x, <<items, Block(body)>>)

\* ---- values -----------------------------------------------------------------------------------
VDis == Val("dis", 0, <<>>, <<>>)
VFeat(state, name) == Val("feat", state, name, <<>>)
VMod(name) == Val("mod", 0, name, <<>>)
ErrMsg(em) == Val("err", 1, em, <<>>)

RECURSIVE IsDisabledVal(_), ContainsDis(_), CoreVal(_)
\* [T158]: a disabler "among the (nested) arguments" means inside arrays (dependencies : [[dep]])
IsDisabledVal(v) == v.k = "dis" \/ (v.k = "arr" /\ \E i \in 1..Len(v.e) : IsDisabledVal(v.e[i]))
ContainsDis(v) == v.k = "dis" \/ (v.k \in {"arr", "dict", "ent"} /\ \E i \in 1..Len(v.e) : ContainsDis(v.e[i]))
CoreVal(v) == v.k \in {"int", "bool", "str"} \/ (v.k \in {"arr", "dict", "ent"} /\ \A i \in 1..Len(v.e) : CoreVal(v.e[i]))
Mutable(v) == v.k \in {"cfg", "env"}

\* ---- variable store: sequence of <<name (code points), value>> --------------------------------------
Has(vs, x) == \E i \in 1..Len(vs) : vs[i][1] = x
Get(vs, x) == vs[CHOOSE i \in 1..Len(vs) : vs[i][1] = x][2]
Put(vs, x, v) == IF Has(vs, x) THEN [i \in 1..Len(vs) |-> IF vs[i][1] = x THEN <<x, v>> ELSE vs[i]] ELSE Append(vs, <<x, v>>)
Del(vs, x) == SelectSeq(vs, LAMBDA p : p[1] # x)

\* ---- the outside world of the environment observations ----------------------------------------------
\* one variable is defined outside meson (so that append/prepend have an "old value"), all others are not
OuterName == <<88, 48, 52, 95, 79, 85, 84>>          \* X04_OUT
OuterValue == <<66, 79, 66>>                         \* BOB  ([EY] "if FOO had the value BOB")
Outer(name) == IF name = OuterName THEN OuterValue ELSE Undef
UnsetMarker == <<40, 117, 110, 115, 101, 116, 41>>   \* (unset)

\* ---- arguments ------------------------------------------------------------------------------------------
PosNodes(a) == SelectSeq(a, LAMBDA x : x.k # "kw")
KwNodes(a) == SelectSeq(a, LAMBDA x : x.k = "kw")
KwVals(kws) == [i \in 1..Len(kws) |-> kws[i][2]]
KwHas(kws, name) == \E i \in 1..Len(kws) : kws[i][1] = name
KwGet(kws, name) == kws[CHOOSE i \in 1..Len(kws) : kws[i][1] = name][2]
KwNames(kws) == { kws[i][1] : i \in 1..Len(kws) }
AllStrs(vs) == \A i \in 1..Len(vs) : vs[i].k = "str"
Strs(vs) == [i \in 1..Len(vs) |-> vs[i].s]
AnyDisabled(vs) == \E i \in 1..Len(vs) : IsDisabledVal(vs[i])
AnyContainsDis(vs) == \E i \in 1..Len(vs) : ContainsDis(vs[i])

\* ---- feature objects ([FY]) ------------------------------------------------------------------------------
FeatMethod(f, m, pos, kws) ==
    IF m \in Queries THEN (IF pos = <<>> /\ kws = <<>> THEN VBool(Query(m, f.n)) ELSE Err)
    ELSE IF m \in Transformers THEN
         IF Len(pos) # 1 \/ pos[1].k # "bool" THEN Err
         ELSE IF kws # <<>> /\ ~(TakesMessage(m) /\ Len(kws) = 1 /\ kws[1][1] = "error_message" /\ kws[1][2].k = "str") THEN Err
         ELSE LET r == Transform(m, f.n, Truth(pos[1])) IN
              IF r = ERROR THEN ErrMsg(IF kws = <<>> THEN <<>> ELSE kws[1][2].s)        \* [F101]: the error_message is reported
              ELSE VFeat(r, f.s)
    ELSE Err

\* ---- configuration_data ([CY]) ----------------------------------------------------------------------------
CfgMutators == {"set", "set10", "set_quoted", "merge_from"}
CfgPure(c, m, pos, kws) ==
    CASE m \in {"get", "get_unquoted"} ->
           IF kws # <<>> \/ Len(pos) \notin {1, 2} \/ pos[1].k # "str" THEN Err
           ELSE LET r == CfgLookup(c, pos[1].s, Len(pos) = 2, IF Len(pos) = 2 THEN pos[2] ELSE VVoid) IN
                IF IsErr(r) \/ m = "get" THEN r ELSE Unquote(r)
      [] m = "has" -> IF kws # <<>> \/ Len(pos) # 1 THEN Err ELSE IF pos[1].k # "str" THEN Unspec ELSE VBool(CfgHas(c, pos[1].s))
      [] m = "keys" -> IF kws # <<>> \/ pos # <<>> THEN Err ELSE LET ks == CfgKeys(c) IN VArr([i \in 1..Len(ks) |-> VStr(ks[i])])
      [] m \in CfgMutators -> VVoid
      [] OTHER -> Err
\* the object after the mutator, or an err
CfgMutate(c, m, pos, kws) ==
    IF m = "merge_from" THEN (IF kws # <<>> \/ Len(pos) # 1 THEN Err ELSE CfgMerge(c, pos[1]))
    ELSE IF ~(kws = <<>> \/ (Len(kws) = 1 /\ kws[1][1] = "description" /\ kws[1][2].k = "str")) THEN Err
    ELSE IF Len(pos) # 2 \/ pos[1].k # "str" THEN Err
    ELSE CASE m = "set" -> CfgSet(c, pos[1].s, pos[2])
           [] m = "set10" -> CfgSet10(c, pos[1].s, pos[2])
           [] m = "set_quoted" -> CfgSetQuoted(c, pos[1].s, pos[2])

\* ---- environment ([EY]) -------------------------------------------------------------------------------------
EnvMutators == {"set", "append", "prepend", "unset"}
MethodCode(m) == CASE m = "set" -> SET [] m = "append" -> APPEND [] m = "prepend" -> PREPEND
EnvMutate(e, m, pos, kws) ==
    IF m = "unset" THEN (IF kws # <<>> \/ Len(pos) # 1 \/ pos[1].k # "str" THEN Err ELSE EnvUnset(e, pos[1].s))
    ELSE IF ~(kws = <<>> \/ (Len(kws) = 1 /\ kws[1][1] = "separator" /\ kws[1][2].k = "str")) THEN Err
    ELSE IF pos = <<>> \/ pos[1].k # "str" THEN Err
    ELSE IF \E i \in 2..Len(pos) : pos[i].k = "arr" THEN Unspec                 \* flattening of array arguments: not documented for these methods
    ELSE IF ~AllStrs(pos) THEN Err
    ELSE EnvModify(e, MethodCode(m), pos[1].s, IF kws = <<>> THEN DefaultSep ELSE kws[1][2].s, Strs(Tail(pos)))
\* environment([init], separator:, method:)  [EY] functions/environment.yaml, [T275]
RECURSIVE EnvInit(_, _, _, _, _)
EnvInit(e, items, i, m, sep) ==       \* items: sequence of <<name, values>>
    IF i > Len(items) THEN e
    ELSE LET r == EnvModify(e, m, items[i][1], sep, items[i][2]) IN IF IsErr(r) THEN r ELSE EnvInit(r, items, i + 1, m, sep)
KeyVal(s) == LET p == EqPos(s) IN <<SubSeq(s, 1, p - 1), <<SubSeq(s, p + 1, Len(s))>>>>
EnvCreate(pos, kws) ==
    IF KwNames(kws) \ {"separator", "method"} # {} \/ Len(pos) > 1 THEN Err
    ELSE IF \E i \in 1..Len(kws) : kws[i][2].k # "str" THEN Err
    ELSE LET sep == IF KwHas(kws, "separator") THEN KwGet(kws, "separator").s ELSE DefaultSep
             mname == IF KwHas(kws, "method") THEN KwGet(kws, "method").s ELSE <<115, 101, 116>>
             m == CASE mname = <<115, 101, 116>> -> SET
                    [] mname = <<97, 112, 112, 101, 110, 100>> -> APPEND
                    [] mname = <<112, 114, 101, 112, 101, 110, 100>> -> PREPEND
                    [] OTHER -> -1
             init == IF pos = <<>> THEN VArr(<<>>) ELSE pos[1]
         IN IF m = -1 THEN Err                                                  \* "Must be one of 'set', 'prepend', or 'append'"
            ELSE CASE init.k = "str" -> IF EqPos(init.s) = 0 THEN Unspec ELSE EnvInit(VEnv(<<>>), <<KeyVal(init.s)>>, 1, m, sep)
                   [] init.k = "arr" ->
                        IF ~AllStrs(init.e) THEN Err
                        ELSE IF \E i \in 1..Len(init.e) : EqPos(init.e[i].s) = 0 THEN Unspec
                        ELSE EnvInit(VEnv(<<>>), [i \in 1..Len(init.e) |-> KeyVal(init.e[i].s)], 1, m, sep)
                   [] init.k = "dict" ->
                        IF \E i \in 1..Len(init.e) : ~(init.e[i].e[1].k = "str" \/ (init.e[i].e[1].k = "arr" /\ AllStrs(init.e[i].e[1].e))) THEN Err
                        ELSE EnvInit(VEnv(<<>>),
                                     [i \in 1..Len(init.e) |-> <<init.e[i].s, IF init.e[i].e[1].k = "str" THEN <<init.e[i].e[1].s>> ELSE Strs(init.e[i].e[1].e)>>],
                                     1, m, sep)
                   [] OTHER -> Err

\* ---- fs module ([FS]) ----------------------------------------------------------------------------------------
FsMethod(m, pos, kws) ==
    IF kws # <<>> THEN Err
    ELSE IF m \in {"name", "parent", "stem", "suffix", "is_absolute", "as_posix"} THEN
         IF Len(pos) # 1 THEN Err
         ELSE IF pos[1].k # "str" THEN Unspec                      \* files(), targets: outside this model
         ELSE LET p == pos[1].s IN
              CASE m = "name" -> IF FsPlain(p) THEN VStr(NameOf(p)) ELSE Unspec
                [] m = "parent" -> IF FsPlain(p) THEN VStr(ParentOf(p)) ELSE Unspec
                [] m = "stem" -> IF FsSuffixable(p) THEN VStr(StemOf(p)) ELSE Unspec
                [] m = "suffix" -> IF FsSuffixable(p) THEN VStr(SuffixOf(p)) ELSE Unspec
                [] m = "is_absolute" -> IF HasChar(p, BSL) \/ HasChar(p, COLON) THEN Unspec ELSE VBool(IsAbsolutePath(p))
                [] m = "as_posix" -> IF AsPosixOk(p) THEN VStr(AsPosix(p)) ELSE Unspec
    ELSE IF m \in {"replace_suffix", "relative_to"} THEN
         IF Len(pos) # 2 THEN Err
         ELSE IF ~AllStrs(pos) THEN Unspec
         ELSE IF m = "replace_suffix" THEN (IF FsSuffixable(pos[1].s) /\ GoodSuffix(pos[2].s) THEN VStr(ReplaceSuffix(pos[1].s, pos[2].s)) ELSE Unspec)
         ELSE (IF RelDomain(pos[1].s, pos[2].s) THEN VStr(RelativeTo(pos[1].s, pos[2].s)) ELSE Unspec)
    ELSE Unspec

\* ---- functions (evaluated only when no argument is disabled) --------------------------------------------------
CallFn(f, pos, kws, vs) ==
    CASE f = "disabler" -> IF pos = <<>> /\ kws = <<>> THEN VDis ELSE Err
      [] f = "is_variable" -> IF Len(pos) = 1 /\ kws = <<>> /\ pos[1].k = "str" THEN VBool(Has(vs, pos[1].s)) ELSE Err
      [] f = "configuration_data" ->
           IF kws # <<>> \/ Len(pos) > 1 THEN Err
           ELSE IF pos = <<>> THEN VCfg(0, <<>>)
           ELSE IF pos[1].k # "dict" THEN Err
           ELSE CfgFromDict(VCfg(0, <<>>), pos[1].e, 1)
      [] f = "environment" -> EnvCreate(pos, kws)
      [] f = "join_paths" ->                                           \* [JP]; [T111] "array form since people are using that too"
           LET parts == Core!FlattenStrs(pos) IN
           IF kws # <<>> \/ parts = <<>> \/ ~AllStrs(parts) THEN Err
           ELSE IF ~PortableParts(Strs(parts)) THEN Unspec
           ELSE VStr(JoinAll(Strs(parts)))
      [] OTHER -> Unspec                                               \* message/assert/configure_file/set_variable are statements; anything else is outside this model

\* ---- expressions -----------------------------------------------------------------------------------------------
RECURSIVE Eval(_, _), EvalSeq(_, _), EvalKws(_, _), EvalDict(_, _, _, _)
EvalSeq(nodes, vs) == [i \in 1..Len(nodes) |-> LET v == Eval(nodes[i], vs) IN IF v.k = "void" THEN Err ELSE v]
EvalKws(nodes, vs) == [i \in 1..Len(nodes) |-> <<nodes[i].s, LET v == Eval(nodes[i].a[1], vs) IN IF v.k = "void" THEN Err ELSE v>>]
EvalDict(ents, i, vs, acc) ==
    IF i > Len(ents) THEN VDict(acc)
    ELSE LET v == Eval(ents[i].a[1], vs) IN
         IF IsErr(v) THEN v
         ELSE IF v.k = "void" \/ (\E j \in 1..Len(acc) : acc[j].s = ents[i].cs) THEN Err
         ELSE EvalDict(ents, i + 1, vs, Append(acc, VEnt(ents[i].cs, v)))

\* the disabler rule for binary operators ([DM] d3 = (d == d2), d4 = d + 0; [DY] "immediately short circuit"):
\* the left operand is looked at first, a disabler ends the evaluation
Binary(e, vs, f(_, _)) ==
    LET l == Eval(e.a[1], vs) IN
    IF IsErr(l) THEN l ELSE IF l.k = "void" THEN Err ELSE IF l.k = "dis" THEN VDis
    ELSE LET r == Eval(e.a[2], vs) IN
         IF IsErr(r) THEN r ELSE IF r.k = "void" THEN Err ELSE IF r.k = "dis" THEN VDis
         ELSE f(l, r)

Eval(e, vs) ==
    CASE e.k = "str" -> VStr(e.cs)
      [] e.k = "int" -> VInt(e.n)
      [] e.k = "bool" -> VBool(e.n = 1)
      [] e.k = "id" -> IF Has(vs, e.cs) THEN Get(vs, e.cs) ELSE Err
      [] e.k = "arr" -> LET xs == EvalSeq(e.a, vs) IN IF AnyErr(xs) THEN FirstErr(xs) ELSE VArr(xs)       \* [T158] a disabler stays an element
      [] e.k = "dict" -> EvalDict(e.a, 1, vs, <<>>)
      [] e.k = "not" ->
           LET v == Eval(e.a[1], vs) IN
           IF IsErr(v) THEN v ELSE IF v.k = "dis" THEN VDis                                                 \* [T158] `if not disabler()`
           ELSE IF v.k = "bool" THEN VBool(~Truth(v)) ELSE Err
      [] e.k = "neg" ->
           LET v == Eval(e.a[1], vs) IN
           IF IsErr(v) THEN v ELSE IF v.k = "dis" THEN VDis ELSE IF v.k = "int" THEN VInt(0 - v.n) ELSE Err
      [] e.k \in {"and", "or"} ->                                                                            \* [DM] `true or d2` is true, `false or d2` a disabler
           LET l == Eval(e.a[1], vs) IN
           IF IsErr(l) THEN l ELSE IF l.k = "dis" THEN VDis ELSE IF l.k # "bool" THEN Err
           ELSE IF Truth(l) = (e.k = "or") THEN l
           ELSE LET r == Eval(e.a[2], vs) IN
                IF IsErr(r) THEN r ELSE IF r.k = "dis" THEN VDis ELSE IF r.k # "bool" THEN Err ELSE r
      [] e.k = "cmp" -> Binary(e, vs, LAMBDA l, r : IF CoreVal(l) /\ CoreVal(r) THEN Core!Compare(e.s, l, r) ELSE Unspec)
      [] e.k = "arith" ->
           Binary(e, vs, LAMBDA l, r :
                  IF ~(CoreVal(l) /\ CoreVal(r)) THEN Unspec
                  ELSE IF e.s = "/" /\ l.k = "str" /\ r.k = "str"
                       THEN (IF PortableParts(<<l.s, r.s>>) THEN VStr(Join2(l.s, r.s)) ELSE Unspec)               \* [SY], [JP]
                  ELSE Core!Arith(e.s, l, r))
      [] e.k = "tern" ->
           LET c == Eval(e.a[1], vs) IN
           IF IsErr(c) THEN c ELSE IF c.k = "dis" THEN VDis ELSE IF c.k # "bool" THEN Err
           ELSE Eval(e.a[IF Truth(c) THEN 2 ELSE 3], vs)
      [] e.k = "idx" ->
           Binary(e, vs, LAMBDA o, i : IF o.k \in {"arr", "str", "dict"} /\ CoreVal(i) THEN Core!Index(o, i) ELSE IF Mutable(o) \/ o.k \in {"feat", "mod"} THEN Err ELSE Unspec)
      [] e.k = "envget" ->
           LET v == Eval(e.a[1], vs) IN
           IF IsErr(v) THEN v
           ELSE IF IsDisabledVal(v) THEN VDis                 \* rendered as run_command(..., env : v).stdout(): a disabled call, then a method of a disabler
           ELSE IF v.k # "env" THEN Unspec
           ELSE LET r == EnvValue(v, e.cs, Outer(e.cs)) IN VStr(IF r = Undef THEN UnsetMarker ELSE r)
      [] e.k = "call" ->
           LET pos == EvalSeq(PosNodes(e.a), vs)
               kws == EvalKws(KwNodes(e.a), vs)
               all == pos \o KwVals(kws)
           IN IF AnyErr(all) THEN FirstErr(all)
              \* the functions that look at a disabler instead of being disabled by it ([DY] is_disabler; [T158] the variable functions)
              ELSE IF e.s = "is_disabler" THEN
                   (IF Len(pos) # 1 \/ kws # <<>> THEN Err
                    ELSE IF pos[1].k = "arr" THEN Unspec                   \* "Returns true if a variable is a disabler": an array holding one is not settled
                    ELSE VBool(pos[1].k = "dis"))
              ELSE IF e.s = "get_variable" THEN
                   (IF Len(pos) \notin {1, 2} \/ kws # <<>> THEN Err
                    ELSE IF pos[1].k = "dis" THEN VDis                     \* [T158] get_variable(disabler()), get_variable(disabler(), var_true)
                    ELSE IF pos[1].k # "str" THEN Err
                    ELSE IF Has(vs, pos[1].s) THEN Get(vs, pos[1].s)       \* [T158] "get_variable should not fallback to disabler"
                    ELSE IF Len(pos) = 2 THEN pos[2] ELSE Err)             \* [T158] "get_variable fallback should yield a disabler"
              ELSE IF e.s \in {"set_variable", "unset_variable", "message", "assert", "configure_file"} THEN Unspec   \* statements; not used as values here
              ELSE IF AnyDisabled(all) THEN VDis                           \* [DM] d2 = some_func(d)
              ELSE IF AnyContainsDis(all) THEN Unspec                      \* a disabler inside a dict argument: neither [DM] nor [T158] decide
              ELSE CallFn(e.s, pos, kws, vs)
      [] e.k = "meth" ->
           LET obj == Eval(e.a[1], vs)
               pos == EvalSeq(PosNodes(Tail(e.a)), vs)
               kws == EvalKws(KwNodes(Tail(e.a)), vs)
               all == pos \o KwVals(kws)
           IN IF IsErr(obj) THEN obj
              ELSE IF obj.k = "void" THEN Err
              ELSE IF AnyErr(all) THEN FirstErr(all)
              ELSE IF AnyDisabled(all) THEN VDis                           \* a method call is a call: a disabled argument disables it
              ELSE IF AnyContainsDis(all) THEN Unspec
              ELSE IF obj.k = "dis" THEN
                   (IF e.s = "found" THEN (IF all = <<>> THEN VBool(FALSE) ELSE Unspec)     \* [DY] found(): "Always returns false"
                    ELSE VDis)                                              \* [T158] d.full_path() is a disabler
              ELSE CASE obj.k = "feat" -> FeatMethod(obj, e.s, pos, kws)
                     [] obj.k = "cfg" -> CfgPure(obj, e.s, pos, kws)
                     [] obj.k = "env" -> IF e.s \in EnvMutators THEN VVoid ELSE Err
                     [] obj.k = "mod" -> FsMethod(e.s, pos, kws)
                     [] obj.k = "str" -> IF kws = <<>> /\ (\A i \in 1..Len(pos) : CoreVal(pos[i])) THEN Core!StrMethod(obj, e.s, pos) ELSE Unspec
                     [] obj.k = "arr" -> IF e.s = "length" /\ all = <<>> THEN VInt(Len(obj.e))
                                         ELSE IF kws = <<>> /\ CoreVal(obj) /\ (\A i \in 1..Len(pos) : CoreVal(pos[i])) THEN Core!ArrMethod(obj, e.s, pos)
                                         ELSE Unspec
                     [] OTHER -> Unspec
      [] OTHER -> Unspec

\* ---- statements ---------------------------------------------------------------------------------------------------
\* execution state: variables, the messages printed so far, and how execution went on
\*   sig "next" | "err";  code 1 failure demanded, 3 unspecified from here on;  em the error_message to be reported
\*   at the innermost statement at which execution stopped (for reports)
NoNode == N("none", "", 0, <<>>, <<>>)
R(vs, out, sig, code, em) == [vs |-> vs, out |-> out, sig |-> sig, code |-> code, em |-> em, at |-> NoNode]
NormCode(n) == IF n = 1 THEN 1 ELSE 3                     \* Core's strict bool-as-int failures (reason 2) are judged by C01, not here
Fail(r, v) == R(r.vs, r.out, "err", NormCode(v.n), v.s)
Bind(r, x, v) == R(Put(r.vs, x, v), r.out, "next", 0, <<>>)

\* textual form of the arguments of message(): documented for scalars (C01: Stringify)
Line(pos) == JoinSeq(<<32>>, [i \in 1..Len(pos) |-> Stringify(pos[i]).s])

ConfigNode(a) == LET ks == KwNodes(a) IN ks[CHOOSE i \in 1..Len(ks) : ks[i].s = "configuration"].a[1]

ExecCall(x, r) ==
    LET pos == EvalSeq(PosNodes(x.a), r.vs)
        kws == EvalKws(KwNodes(x.a), r.vs)
        all == pos \o KwVals(kws)
    IN IF AnyErr(all) THEN Fail(r, FirstErr(all))
       ELSE CASE x.s = "set_variable" ->                                                 \* [T158] stores a disabler instead of being disabled
                   IF Len(pos) # 2 \/ kws # <<>> THEN Fail(r, Err)
                   ELSE IF pos[1].k = "dis" THEN Fail(r, Unspec)
                   ELSE IF pos[1].k # "str" THEN Fail(r, Err)
                   ELSE IF Mutable(pos[2]) THEN Fail(r, Unspec)                          \* whether this copies like `=` is not documented
                   ELSE Bind(r, pos[1].s, pos[2])
              [] x.s = "unset_variable" ->
                   IF Len(pos) # 1 \/ kws # <<>> THEN Fail(r, Err)
                   ELSE IF pos[1].k = "dis" THEN Fail(r, Unspec)
                   ELSE IF pos[1].k # "str" \/ ~Has(r.vs, pos[1].s) THEN Fail(r, Err)
                   ELSE R(Del(r.vs, pos[1].s), r.out, "next", 0, <<>>)
              [] x.s \in {"message", "assert", "configure_file"} ->
                   IF AnyDisabled(all) THEN r                                            \* [T158] assert(d, ...) "did not cause this to be skipped"
                   ELSE IF AnyContainsDis(all) THEN Fail(r, Unspec)
                   ELSE IF x.s = "message" THEN
                        (IF kws # <<>> THEN Fail(r, Err)
                         ELSE IF pos = <<>> \/ \E i \in 1..Len(pos) : ~Scalar(pos[i]) THEN Fail(r, Unspec)
                         ELSE R(r.vs, Append(r.out, Line(pos)), "next", 0, <<>>))
                   ELSE IF x.s = "assert" THEN
                        (IF Len(pos) \notin {1, 2} \/ kws # <<>> \/ pos[1].k # "bool" THEN Fail(r, Err)
                         ELSE IF Len(pos) = 2 /\ pos[2].k # "str" THEN Fail(r, Err)
                         ELSE IF Truth(pos[1]) THEN r ELSE Fail(r, Err))
                   ELSE \* configure_file(output : 'name', configuration : <variable>)   [CM] "becomes immutable after being passed to"
                        (IF pos # <<>> \/ KwNames(kws) # {"output", "configuration"} THEN Fail(r, Unspec)
                         ELSE IF KwGet(kws, "output").k # "str" THEN Fail(r, Err)
                         ELSE LET c == KwGet(kws, "configuration") IN
                              IF c.k = "dict" THEN r
                              ELSE IF c.k # "cfg" THEN Fail(r, Err)
                              ELSE IF ConfigNode(x.a).k # "id" THEN Fail(r, Unspec)
                              ELSE Bind(r, ConfigNode(x.a).cs, VCfg(1, c.e)))
              [] OTHER -> LET v == Eval(x, r.vs) IN IF IsErr(v) THEN Fail(r, v) ELSE r

\* A method call statement.  The methods of cfg_data / env change the object in place: the object is the one the
\* receiver variable holds, so the change is visible through that variable afterwards and through no other
\* ([T41], [CM]: assignment copies).
ExecMeth(x, r) ==
    LET recv == x.a[1]
        obj == Eval(recv, r.vs)
        pos == EvalSeq(PosNodes(Tail(x.a)), r.vs)
        kws == EvalKws(KwNodes(Tail(x.a)), r.vs)
        all == pos \o KwVals(kws)
        isMut == (obj.k = "cfg" /\ x.s \in CfgMutators) \/ (obj.k = "env" /\ x.s \in EnvMutators)
    IN IF IsErr(obj) THEN Fail(r, obj)
       ELSE IF AnyErr(all) THEN Fail(r, FirstErr(all))
       ELSE IF ~isMut THEN (LET v == Eval(x, r.vs) IN IF IsErr(v) THEN Fail(r, v) ELSE r)
       ELSE IF AnyDisabled(all) THEN r                                                   \* the call is not made: the object is untouched
       ELSE IF AnyContainsDis(all) THEN Fail(r, Unspec)
       ELSE LET new == IF obj.k = "cfg" THEN CfgMutate(obj, x.s, pos, kws) ELSE EnvMutate(obj, x.s, pos, kws) IN
            IF IsErr(new) THEN Fail(r, new)
            ELSE IF recv.k = "id" THEN Bind(r, recv.cs, new)
            ELSE IF recv.k = "call" /\ recv.s \in {"configuration_data", "environment"} THEN r      \* a fresh object nobody else holds
            ELSE Fail(r, Unspec)                                                          \* an object reached through a container / get_variable: sharing is not documented

RECURSIVE Exec(_, _), ExecSeq(_, _, _), ExecIf(_, _, _), ExecLoop(_, _, _, _)
ExecSeq(ss, i, r) ==
    IF i > Len(ss) THEN r
    ELSE LET r1 == Exec(ss[i], r) IN
         IF r1.sig # "next" THEN (IF r1.at.k = "none" THEN [r1 EXCEPT !.at = ss[i]] ELSE r1)
         ELSE ExecSeq(ss, i + 1, r1)
ExecIf(e, j, r) ==
    IF 2 * j > Len(e.a) - e.n THEN (IF e.n = 1 THEN ExecSeq(e.a[Len(e.a)].a, 1, r) ELSE r)
    ELSE LET c == Eval(e.a[2 * j - 1], r.vs) IN
         IF IsErr(c) THEN Fail(r, c)
         ELSE IF c.k = "dis" THEN r                              \* [DM] "if d # neither branch is evaluated"; [T158] also for elif/else
         ELSE IF c.k # "bool" THEN Fail(r, Err)
         ELSE IF Truth(c) THEN ExecSeq(e.a[2 * j].a, 1, r)
         ELSE ExecIf(e, j + 1, r)
ExecLoop(e, items, j, r) ==
    IF j > Len(items) THEN r
    ELSE IF Mutable(items[j]) THEN Fail(r, Unspec)               \* whether the loop variable is a copy is not documented
    ELSE LET r1 == ExecSeq(e.a[2].a, 1, Bind(r, e.cs, items[j])) IN
         IF r1.sig # "next" THEN r1 ELSE ExecLoop(e, items, j + 1, r1)
Exec(e, r) ==
    CASE e.k = "assign" ->
           LET v == Eval(e.a[1], r.vs) IN
           IF IsErr(v) THEN Fail(r, v)
           ELSE IF v.k = "void" THEN Fail(r, Err)
           ELSE Bind(r, e.cs, v)                                 \* values are data: the name gets its own copy ([T41] for env, [CM] for cfg)
      [] e.k = "plusassign" ->
           IF ~Has(r.vs, e.cs) THEN Fail(r, Err)
           ELSE LET old == Get(r.vs, e.cs)
                    v == Eval(e.a[1], r.vs)
                IN IF IsErr(v) THEN Fail(r, v)
                   ELSE IF ~CoreVal(old) \/ ~CoreVal(v) THEN Fail(r, Unspec)       \* += with a disabler: [DM] (absorbed) and test 229 (array grows) pull apart
                   ELSE LET s == Core!Arith("+", old, v) IN IF IsErr(s) THEN Fail(r, s) ELSE Bind(r, e.cs, s)
      [] e.k = "expr" ->
           IF e.a[1].k = "call" THEN ExecCall(e.a[1], r)
           ELSE IF e.a[1].k = "meth" THEN ExecMeth(e.a[1], r)
           ELSE LET v == Eval(e.a[1], r.vs) IN IF IsErr(v) THEN Fail(r, v) ELSE r
      [] e.k = "if" -> ExecIf(e, 1, r)
      [] e.k = "foreach" ->
           LET items == Eval(e.a[1], r.vs) IN
           IF IsErr(items) THEN Fail(r, items)
           ELSE IF items.k = "dis" THEN r                        \* [DY] "when used in any statement ... short circuit": the loop is skipped
           ELSE IF items.k = "arr" THEN ExecLoop(e, items.e, 1, r)
           ELSE IF items.k \in {"dict", "range"} THEN Fail(r, Unspec)
           ELSE Fail(r, Err)
      [] OTHER -> Fail(r, Unspec)

\* ---- programs -------------------------------------------------------------------------------------------------------
\* Every program runs after the fixed prelude
\*     fe = get_option('fe')   fd = get_option('fd')   fa = get_option('fa')   fs = import('fs')
\* in a project whose options file declares fe (value enabled), fd (disabled), fa (auto) and which is configured with
\* -Dauto_features=<af>.  [BO]: an option whose value is auto reports the value of auto_features.
nFE == <<102, 101>>
nFD == <<102, 100>>
nFA == <<102, 97>>
nFS == <<102, 115>>
Vars0(af) == << <<nFE, VFeat(EN, nFE)>>, <<nFD, VFeat(DIS, nFD)>>, <<nFA, VFeat(Effective(AUTO, af), nFA)>>, <<nFS, VMod(nFS)>> >>
\* the run, and the index of the top-level statement at which it stopped (0: ran to the end)
RECURSIVE RunFrom(_, _, _)
RunFrom(prog, i, r) ==
    IF i > Len(prog) THEN [r |-> r, stop |-> 0]
    ELSE LET r1 == ExecSeq(<<prog[i]>>, 1, r) IN
         IF r1.sig # "next" THEN [r |-> r1, stop |-> i] ELSE RunFrom(prog, i + 1, r1)
RunTop(prog, af) == RunFrom(prog, 1, R(Vars0(af), <<>>, "next", 0, <<>>))
Run(prog, af) == RunTop(prog, af).r

\* what each variable holds, by kind (for reports only)
KindOf(v) == IF v.k = "cfg" /\ v.n = 1 THEN "cfg-used" ELSE v.k
Kinds(vs) == [i \in 1..Len(vs) |-> <<vs[i][1], KindOf(vs[i][2])>>]

=============================================================================
