----------------------------- MODULE LangObjData -----------------------------
(***************************************************************************)
(* X04 (c) - the two mutable objects of the language: configuration_data() *)
(* and environment().  Unlike the core values they are changed in place by *)
(* their methods; LangObj.tla decides *which* object a method call changes *)
(* (the one held by the receiver variable) and that assignment copies.     *)
(* This module holds the objects as plain data and their operations.       *)
(*                                                                         *)
(* Sources:                                                                *)
(*  [CY]  docs/yaml/objects/cfg_data.yaml (set, set10, set_quoted, get,    *)
(*        get_unquoted, has, keys, merge_from),                            *)
(*        docs/yaml/functions/configuration_data.yaml (initial dict: "as   *)
(*        if the set method was called for each of them").                 *)
(*  [CM]  docs/markdown/Configuration.md - "it becomes immutable after     *)
(*        being passed to the configure_file function ... trying to call   *)
(*        [set] causes an error. Copy of immutable configuration_data is   *)
(*        still immutable."; set10(t, b) == set(t, 1) / set(t, 0);         *)
(*        set_quoted('TOKEN', 'value') gives "value".                      *)
(*  [T14] test cases/common/14 configure file - get with default, keys()   *)
(*        == ['BE_TRUE', 'other', 'second', 'var'] (sorted).               *)
(*  [F69] test cases/failing/69 configuration immutable.                   *)
(*  [EY]  docs/yaml/objects/env.yaml (set/append/prepend with separator,   *)
(*        unset; the MY_PATH example '0:1:2:3'; append "produces           *)
(*        BOB;BAR;BAZ if FOO had the value BOB and plain BAR;BAZ if the    *)
(*        value was not defined"), docs/yaml/functions/environment.yaml    *)
(*        (initial values, separator:, method:).                           *)
(*  [T275] test cases/common/275 environment - set/append/prepend of a     *)
(*        variable that was unset fails, unset of a variable that has an   *)
(*        operation fails; initial value forms 'K=V', ['K=V'], {'K': 'V'}. *)
(*                                                                         *)
(* Representation (MesonValues records [k, n, s, e]):                      *)
(*   cfg   n = 1 iff used by configure_file, e = entries "ent" (key, value)*)
(*   env   e = operations "eop": n = 0 set | 1 append | 2 prepend | 3 unset,*)
(*         s = variable name, e = <<separator, value1, value2, ...>>       *)
(***************************************************************************)
EXTENDS MesonValues

VCfg(used, ents) == Val("cfg", used, <<>>, ents)
VEnv(ops) == Val("env", 0, <<>>, ops)
EOp(m, name, sep, vals) == Val("eop", m, name, <<VStr(sep)>> \o [i \in 1..Len(vals) |-> VStr(vals[i])])
OpSep(op) == op.e[1].s
OpVals(op) == [i \in 1..(Len(op.e) - 1) |-> op.e[i + 1].s]

QUOTE == 34
BACKSL == 92

\* ---- configuration_data -----------------------------------------------------------------
CfgHas(c, key) == \E i \in 1..Len(c.e) : c.e[i].s = key
CfgGet(c, key) == c.e[CHOOSE i \in 1..Len(c.e) : c.e[i].s = key].e[1]
CfgPut(c, key, v) ==
    VCfg(c.n, IF CfgHas(c, key) THEN [i \in 1..Len(c.e) |-> IF c.e[i].s = key THEN VEnt(key, v) ELSE c.e[i]]
              ELSE Append(c.e, VEnt(key, v)))
CfgKeys(c) == SortKeys({ c.e[i].s : i \in 1..Len(c.e) })           \* [T14] sorted
Scalar(v) == v.k \in {"str", "int", "bool"}

\* every mutator on a used object fails and leaves it as it was ([CM] "becomes immutable")
CfgSet(c, key, v) ==                                                 \* [CY] set: value str | int | bool
    IF c.n = 1 THEN Err
    ELSE IF v.k \in {"arr", "dict"} THEN Unspec                      \* argument flattening of containers: not documented
    ELSE IF ~Scalar(v) THEN Err
    ELSE CfgPut(c, key, v)
CfgSet10(c, key, v) ==                                               \* [CY],[CM] set10: true/false written as 1/0
    IF c.n = 1 THEN Err
    ELSE IF v.k = "int" THEN Unspec                                  \* [CY] "Passing numbers was never intended to work" (deprecated)
    ELSE IF v.k # "bool" THEN Err
    ELSE CfgPut(c, key, VInt(v.n))
CfgSetQuoted(c, key, v) ==                                           \* [CY],[CM] set_quoted: the value in double quotes
    IF c.n = 1 THEN Err
    ELSE IF v.k # "str" THEN Unspec                                  \* [CY] lists str | int | bool for the value, nothing says how a number is quoted
    ELSE IF QUOTE \in SeqSet(v.s) \/ BACKSL \in SeqSet(v.s) THEN Unspec   \* escaping of quotes inside the value: not documented
    ELSE CfgPut(c, key, VStr(<<QUOTE>> \o v.s \o <<QUOTE>>))
RECURSIVE PutAll(_, _, _)
PutAll(c, ents, i) == IF i > Len(ents) THEN c ELSE PutAll(CfgPut(c, ents[i].s, ents[i].e[1]), ents, i + 1)
CfgMerge(c, other) ==                                                \* [CY] merge_from: "copies all entries from that object to the current"
    IF other.k # "cfg" THEN Err
    ELSE IF c.n = 1 THEN Err
    ELSE PutAll(c, other.e, 1)
\* configuration_data(dict): "as if the set method was called for each of them"
RECURSIVE CfgFromDict(_, _, _)
CfgFromDict(c, ents, i) ==
    IF i > Len(ents) THEN c
    ELSE LET r == CfgSet(c, ents[i].s, ents[i].e[1]) IN IF IsErr(r) THEN r ELSE CfgFromDict(r, ents, i + 1)

Unquote(v) ==                                                        \* [CY] get_unquoted: "without surrounding double quotes"
    IF v.k = "str" /\ Len(v.s) >= 2 /\ v.s[1] = QUOTE /\ v.s[Len(v.s)] = QUOTE THEN VStr(SubSeq(v.s, 2, Len(v.s) - 1)) ELSE v
\* get(varname[, default]): the value; the default if unset and a default is given; an error otherwise
CfgLookup(c, key, hasDefault, default) ==
    IF CfgHas(c, key) THEN CfgGet(c, key)
    ELSE IF hasDefault THEN (IF Scalar(default) THEN default ELSE Unspec)
    ELSE Err

\* ---- environment ------------------------------------------------------------------------
SET == 0
APPEND == 1
PREPEND == 2
UNSET == 3
DefaultSep == <<58>>                                                  \* [EY] ':' on UNIX/POSIX hosts

NamesWith(e, ms) == { e.e[i].s : i \in { j \in 1..Len(e.e) : e.e[j].n \in ms } }
UnsetNames(e) == NamesWith(e, {UNSET})
TouchedNames(e) == NamesWith(e, {SET, APPEND, PREPEND})

\* set / append / prepend (m) of `name` to `vals` joined by `sep`
EnvModify(e, m, name, sep, vals) ==
    IF vals = <<>> THEN Err                                           \* [EY] the value list has at least one entry
    ELSE IF name \in UnsetNames(e) THEN Err                           \* [T275]
    ELSE VEnv(Append(e.e, EOp(m, name, sep, vals)))
EnvUnset(e, name) ==
    IF name \in TouchedNames(e) THEN Err                              \* [T275]
    ELSE IF name \in UnsetNames(e) THEN e                             \* [EY] "If this variable does not exist, nothing happens"
    ELSE VEnv(Append(e.e, EOp(UNSET, name, <<>>, <<>>)))

\* the value a process started with this object sees for `name`, given the value `outer` it would see without
\* it; Undef stands for "not defined".  Operations apply in the order they were made ([EY] MY_PATH example).
Undef == <<0>>
ApplyOp(op, cur) ==
    LET vals == OpVals(op)
        sep == OpSep(op)
    IN CASE op.n = SET -> JoinSeq(sep, vals)
         [] op.n = APPEND -> JoinSeq(sep, IF cur = Undef THEN vals ELSE <<cur>> \o vals)        \* [EY] "BOB;BAR;BAZ" / "plain BAR;BAZ"
         [] op.n = PREPEND -> JoinSeq(sep, IF cur = Undef THEN vals ELSE vals \o <<cur>>)
         [] op.n = UNSET -> Undef
RECURSIVE EnvFold(_, _, _, _)
EnvFold(ops, i, name, cur) ==
    IF i > Len(ops) THEN cur
    ELSE EnvFold(ops, i + 1, name, IF ops[i].s = name THEN ApplyOp(ops[i], cur) ELSE cur)
EnvValue(e, name, outer) == EnvFold(e.e, 1, name, outer)

\* 'NAME=value' of the string forms of environment(): split at the first '='
EqPos(s) == IF 61 \in SeqSet(s) THEN CHOOSE i \in 1..Len(s) : s[i] = 61 /\ \A j \in 1..(i - 1) : s[j] # 61 ELSE 0

=============================================================================
