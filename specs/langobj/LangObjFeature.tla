--------------------------- MODULE LangObjFeature ---------------------------
(***************************************************************************)
(* X04 (b) - feature options as objects.                                   *)
(*                                                                         *)
(* Sources:                                                                *)
(*  [FY]  docs/yaml/objects/feature.yaml - enabled/disabled/auto/allowed   *)
(*        and, for require / disable_if / enable_if / disable_auto_if /    *)
(*        enable_auto_if, BOTH a prose rule ("Returns the object itself if *)
(*        the value is true; an error if the object is 'enabled' and the   *)
(*        value is false; a disabled feature if ...") and a 3x2 table.     *)
(*        The two are transcribed separately below (…Prose / …Table) and   *)
(*        LangObjFeature_MC proves them equal.                             *)
(*  [BO]  docs/markdown/Build-options.md "Features" - "If the value of a   *)
(*        feature option is set to auto, that value is overridden by the   *)
(*        global auto_features option (which defaults to auto)".           *)
(*  [T192] test cases/common/192 feature option, [T193] 193 feature option *)
(*        disabled (auto_features=disabled makes an auto option report     *)
(*        disabled() and not auto()), [F101]/[F102] test cases/failing/    *)
(*        101,102 feature require ("Feature <name> cannot be enabled[:     *)
(*        <error_message>]").                                              *)
(*                                                                         *)
(* A state is DIS, AUTO or EN; a method result is a state or ERROR.        *)
(***************************************************************************)
EXTENDS Integers

DIS == 0
AUTO == 1
EN == 2
ERROR == -1
States == {DIS, AUTO, EN}

\* [BO]: what get_option() hands out for an option whose configured value is `v` under auto_features = `af`
Effective(v, af) == IF v = AUTO THEN af ELSE v

\* ---- queries ([FY]) ---------------------------------------------------------------------
IsEnabled(s) == s = EN
IsDisabled(s) == s = DIS
IsAuto(s) == s = AUTO
IsAllowed(s) == s = EN \/ s = AUTO          \* "Returns whether the feature was set to 'enabled' or 'auto'"

\* ---- the tables of [FY], row by row --------------------------------------------------------
RequireTable(s, v) ==
    CASE s = AUTO /\ v -> AUTO   [] s = AUTO /\ ~v -> DIS
      [] s = EN /\ v -> EN       [] s = EN /\ ~v -> ERROR
      [] s = DIS /\ v -> DIS     [] s = DIS /\ ~v -> DIS
EnableIfTable(s, v) ==
    CASE s = AUTO /\ v -> EN     [] s = AUTO /\ ~v -> AUTO
      [] s = EN /\ v -> EN       [] s = EN /\ ~v -> EN
      [] s = DIS /\ v -> ERROR   [] s = DIS /\ ~v -> DIS
DisableIfTable(s, v) ==
    CASE s = AUTO /\ v -> DIS    [] s = AUTO /\ ~v -> AUTO
      [] s = EN /\ v -> ERROR    [] s = EN /\ ~v -> EN
      [] s = DIS /\ v -> DIS     [] s = DIS /\ ~v -> DIS
DisableAutoIfTable(s, v) ==
    CASE s = AUTO /\ v -> DIS    [] s = AUTO /\ ~v -> AUTO
      [] s = EN /\ v -> EN       [] s = EN /\ ~v -> EN
      [] s = DIS /\ v -> DIS     [] s = DIS /\ ~v -> DIS
EnableAutoIfTable(s, v) ==
    CASE s = AUTO /\ v -> EN     [] s = AUTO /\ ~v -> AUTO
      [] s = EN /\ v -> EN       [] s = EN /\ ~v -> EN
      [] s = DIS /\ v -> DIS     [] s = DIS /\ ~v -> DIS

\* ---- the prose of [FY] -----------------------------------------------------------------------
\* require: "Returns the object itself if the value is true; an error if the object is 'enabled' and the
\* value is false; a disabled feature if the object is 'auto' or 'disabled' and the value is false."
RequireProse(s, v) == IF v THEN s ELSE IF s = EN THEN ERROR ELSE DIS
\* enable_if: "Returns the object itself if the value is false; an error if the object is 'disabled' and
\* the value is true; an enabled feature if the object is 'auto' or 'enabled' and the value is true."
EnableIfProse(s, v) == IF ~v THEN s ELSE IF s = DIS THEN ERROR ELSE EN
\* disable_if: "Returns the object itself if the value is false; an error if the object is 'enabled' and
\* the value is true; a disabled feature if the object is 'auto' or 'disabled' and the value is true."
DisableIfProse(s, v) == IF ~v THEN s ELSE IF s = EN THEN ERROR ELSE DIS
\* disable_auto_if: "Returns the feature, with 'auto' converted to 'disabled' if value is true."
DisableAutoIfProse(s, v) == IF s = AUTO /\ v THEN DIS ELSE s
\* enable_auto_if: "Returns the feature, with 'auto' converted to 'enabled' if value is true."
EnableAutoIfProse(s, v) == IF s = AUTO /\ v THEN EN ELSE s

Transformers == {"require", "enable_if", "disable_if", "disable_auto_if", "enable_auto_if"}
Queries == {"enabled", "disabled", "auto", "allowed"}
TakesMessage(m) == m \in {"require", "enable_if", "disable_if"}          \* the `error_message` keyword exists on these only

Transform(m, s, v) ==
    CASE m = "require" -> RequireTable(s, v)
      [] m = "enable_if" -> EnableIfTable(s, v)
      [] m = "disable_if" -> DisableIfTable(s, v)
      [] m = "disable_auto_if" -> DisableAutoIfTable(s, v)
      [] m = "enable_auto_if" -> EnableAutoIfTable(s, v)
TransformProse(m, s, v) ==
    CASE m = "require" -> RequireProse(s, v)
      [] m = "enable_if" -> EnableIfProse(s, v)
      [] m = "disable_if" -> DisableIfProse(s, v)
      [] m = "disable_auto_if" -> DisableAutoIfProse(s, v)
      [] m = "enable_auto_if" -> EnableAutoIfProse(s, v)
Query(m, s) ==
    CASE m = "enabled" -> IsEnabled(s)
      [] m = "disabled" -> IsDisabled(s)
      [] m = "auto" -> IsAuto(s)
      [] m = "allowed" -> IsAllowed(s)

=============================================================================
