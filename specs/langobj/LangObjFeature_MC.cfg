SPECIFICATION Spec
CONSTANTS MaxChain = 4
INVARIANT TypeOK
INVARIANT TableEqualsProse
INVARIANT OneOfThree
INVARIANT AutoFeaturesOverride
INVARIANT Algebra
INVARIANT DecidedStaysDecided
INVARIANT ChainSettles
CHECK_DEADLOCK FALSE
