-------------------------- MODULE LangObjFeature_MC --------------------------
(* Exhaustive model of the feature object: configured value x auto_features  *)
(* x every chain of up to MaxChain transforming calls.  The tables and the   *)
(* prose of feature.yaml are two formulations; the lattice laws are          *)
(* invariants.                                                               *)
EXTENDS LangObjFeature, Sequences, TLC
CONSTANT MaxChain
VARIABLES conf,    \* configured value of the option
          af,      \* auto_features
          s,       \* current state, ERROR once a call failed
          chain    \* the calls made: <<method, value>>
vars == <<conf, af, s, chain>>

Init == conf \in States /\ af \in States /\ s = Effective(conf, af) /\ chain = <<>>
Next == /\ s # ERROR
        /\ Len(chain) < MaxChain
        /\ \E m \in Transformers, v \in BOOLEAN :
              /\ s' = Transform(m, s, v)
              /\ chain' = Append(chain, <<m, v>>)
        /\ UNCHANGED <<conf, af>>
Spec == Init /\ [][Next]_vars

TypeOK == s \in States \cup {ERROR}
\* [FY]: table and prose say the same
TableEqualsProse == \A m \in Transformers, st \in States, v \in BOOLEAN : Transform(m, st, v) = TransformProse(m, st, v)
\* exactly one of enabled / disabled / auto; allowed == not disabled
OneOfThree == s # ERROR => /\ (IF IsEnabled(s) THEN 1 ELSE 0) + (IF IsDisabled(s) THEN 1 ELSE 0) + (IF IsAuto(s) THEN 1 ELSE 0) = 1
                           /\ IsAllowed(s) = ~IsDisabled(s)
\* [BO]: with auto_features decided, no object is ever `auto`; a configured enabled/disabled is not touched by auto_features
AutoFeaturesOverride == /\ (af # AUTO /\ s # ERROR => ~IsAuto(s))
                        /\ (chain = <<>> /\ conf # AUTO => s = conf)
                        /\ (chain = <<>> /\ conf = AUTO => s = af)
\* algebra of the methods
Algebra == \A st \in States, v \in BOOLEAN :
    /\ Transform("require", st, TRUE) = st                                               \* require(true) is the identity
    /\ Transform("enable_if", st, FALSE) = st /\ Transform("disable_if", st, FALSE) = st
    /\ Transform("disable_auto_if", st, FALSE) = st /\ Transform("enable_auto_if", st, FALSE) = st
    /\ Transform("disable_if", st, v) = Transform("require", st, ~v)                      \* [FY] "equivalent to feature_opt.require(not condition)"
    /\ Transform("disable_auto_if", st, v) = (IF st = AUTO THEN Transform("disable_if", st, v) ELSE st)
    /\ Transform("enable_auto_if", st, v) = (IF st = AUTO THEN Transform("enable_if", st, v) ELSE st)
    /\ Transform("disable_auto_if", st, v) # ERROR /\ Transform("enable_auto_if", st, v) # ERROR     \* the *_auto_if methods never fail
    /\ (Transform("require", st, v) = ERROR) = (st = EN /\ ~v)                            \* the only failures
    /\ (Transform("enable_if", st, v) = ERROR) = (st = DIS /\ v)
\* a decided feature stays decided: no method turns enabled/disabled back into auto, or into the opposite
DecidedStaysDecided ==
    \A st \in {EN, DIS}, m \in Transformers, v \in BOOLEAN : Transform(m, st, v) \in {st, ERROR}
\* along a chain: once the state left auto it never changes again
ChainSettles == (s # ERROR /\ chain # <<>> /\ Effective(conf, af) # AUTO) => s = Effective(conf, af)
=============================================================================
