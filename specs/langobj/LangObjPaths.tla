---------------------------- MODULE LangObjPaths ----------------------------
(***************************************************************************)
(* X04 (d) - path helpers of the Meson language: join_paths(), the `/`     *)
(* operator on strings and the pure-string functions of the fs module.     *)
(* Strings are sequences of code points (MesonValues).                     *)
(*                                                                         *)
(* Sources (documentation, not the Python):                                *)
(*  [JP]  docs/yaml/functions/join_paths.yaml - "Joins the given strings   *)
(*        into a file system path segment ... If any one of the individual *)
(*        segments is an absolute path, all segments before it are         *)
(*        dropped"; "`/` on strings is equivalent to calling join_paths".  *)
(*  [SY]  docs/markdown/Syntax.md "String path building" - always `/` as   *)
(*        separator; 'C:\\foo\\bar' / 'builddir' => C:/foo/bar/builddir    *)
(*        (backslashes of the operands come out as `/`).                   *)
(*  [T111] test cases/common/111 pathjoin - single argument is returned,   *)
(*        '/foo' / '' == '/foo/' ("Trailing / on path"), array form.       *)
(*  [FS]  docs/markdown/Fs-module.md - name (basename), stem, parent       *)
(*        (dirname), suffix, replace_suffix, is_absolute, as_posix,        *)
(*        relative_to, each with its examples.                             *)
(*  [T220] test cases/common/220 fs module - pinned examples, notably      *)
(*        suffix('baz.') == '.', parent of a bare name == '.', and that    *)
(*        as_posix('\\\\') may be '/' or '//'.                             *)
(*                                                                         *)
(* Nothing in [JP]/[SY] speaks of normalisation: the operands are used as  *)
(* written ('.', '..' and doubled '/' inside an operand stay).             *)
(*                                                                         *)
(* Outside the documented ground (=> the evaluator answers "unspecified"): *)
(*  - drive letters, operands that start or end with a backslash, a        *)
(*    backslash in a right-hand operand (meaning depends on the platform); *)
(*  - for the fs functions: empty paths, a backslash anywhere, doubled or  *)
(*    trailing '/', and for stem/suffix/replace_suffix a last component    *)
(*    that starts with '.' (dot files, '.', '..');                         *)
(*  - replace_suffix with a suffix that is neither empty nor starts with   *)
(*    '.', or contains '/';                                                *)
(*  - relative_to with '.'/'..' components, one absolute and one relative  *)
(*    argument (depends on the source directory) or two equal paths;       *)
(*  - as_posix of two adjacent backslashes ([FS] says '/', [T220] accepts  *)
(*    '/' and '//').                                                       *)
(***************************************************************************)
EXTENDS MesonValues

SLASH == 47
BSL == 92
DOT == 46
COLON == 58

IsAbs(p) == p # <<>> /\ p[1] = SLASH
BackToSlash(p) == [i \in 1..Len(p) |-> IF p[i] = BSL THEN SLASH ELSE p[i]]
HasChar(p, c) == \E i \in 1..Len(p) : p[i] = c

\* ---- join -------------------------------------------------------------------------------
\* [JP],[SY]: a platform independent meaning exists for these operands only
PortableFirst(p) == ~HasChar(p, COLON) /\ (p = <<>> \/ (p[1] # BSL /\ p[Len(p)] # BSL))
PortableRest(p) == ~HasChar(p, COLON) /\ ~HasChar(p, BSL)
PortableParts(parts) == /\ parts # <<>>
                        /\ PortableFirst(parts[1])
                        /\ \A i \in 2..Len(parts) : PortableRest(parts[i])

\* operational: l / r
Join2(l, r) ==
    BackToSlash(IF IsAbs(r) THEN r                                     \* [JP] absolute right operand wins
                ELSE IF l = <<>> \/ l[Len(l)] = SLASH THEN l \o r       \* [T111] '/foo' / '' == '/foo/': one separator, never two
                ELSE l \o <<SLASH>> \o r)
RECURSIVE JoinFold(_, _)
JoinFold(acc, parts) == IF parts = <<>> THEN acc ELSE JoinFold(Join2(acc, parts[1]), Tail(parts))
\* join_paths(p1, ..., pn) == p1 / ... / pn ([JP] "equivalent"); a single part is returned ([T111]) with `/` separators ([SY])
JoinAll(parts) == JoinFold(BackToSlash(parts[1]), Tail(parts))

\* declarative: drop everything before the last absolute part; every remaining part but the last is
\* terminated by one '/', unless it is empty or already ends with one
LastAbs(parts) == IF \E i \in 1..Len(parts) : IsAbs(parts[i])
                  THEN CHOOSE i \in 1..Len(parts) : IsAbs(parts[i]) /\ \A j \in (i + 1)..Len(parts) : ~IsAbs(parts[j])
                  ELSE 1
Terminated(p) == IF p = <<>> \/ p[Len(p)] = SLASH THEN p ELSE Append(p, SLASH)
RECURSIVE ConcatAll(_)
ConcatAll(ss) == IF ss = <<>> THEN <<>> ELSE ss[1] \o ConcatAll(Tail(ss))
JoinDecl(parts) ==
    LET k == LastAbs(parts)
        n == Len(parts)
    IN BackToSlash(ConcatAll([i \in 1..(n - k + 1) |-> IF k + i - 1 < n THEN Terminated(parts[k + i - 1]) ELSE parts[n]]))

\* ---- components -------------------------------------------------------------------------
LastIndexOf(p, c) == IF HasChar(p, c) THEN CHOOSE i \in 1..Len(p) : p[i] = c /\ \A j \in (i + 1)..Len(p) : p[j] # c ELSE 0
DoubleSlash(p) == \E i \in 1..(Len(p) - 1) : p[i] = SLASH /\ p[i + 1] = SLASH
\* paths on which "last component" / "dirname" have one reading in [FS]
FsPlain(p) == /\ p # <<>>
              /\ ~HasChar(p, BSL)
              /\ ~DoubleSlash(p)
              /\ p[Len(p)] # SLASH
NameOf(p) == SubSeq(p, LastIndexOf(p, SLASH) + 1, Len(p))                   \* [FS] name: "last component of the path (i.e., basename)"
ParentOf(p) == LET k == LastIndexOf(p, SLASH) IN                            \* [FS] parent: "(i.e., dirname)"
               IF k = 0 THEN <<DOT>>                                        \* [T220] parent of a bare name is '.'
               ELSE IF k = 1 THEN <<SLASH>>
               ELSE SubSeq(p, 1, k - 1)
\* suffix questions have one reading when the last component does not start with a dot
FsSuffixable(p) == FsPlain(p) /\ NameOf(p)[1] # DOT
SuffixOfName(n) == LET k == LastIndexOf(n, DOT) IN IF k = 0 THEN <<>> ELSE SubSeq(n, k, Len(n))   \* [FS] suffix: "last dot-separated portion ... including the dot, if any"; [T220] 'baz.' -> '.'
SuffixOf(p) == SuffixOfName(NameOf(p))
StemOf(p) == LET n == NameOf(p) IN SubSeq(n, 1, Len(n) - Len(SuffixOfName(n)))                    \* [FS] stem: last component "dropping the last part of the suffix"
GoodSuffix(s) == (s = <<>> \/ s[1] = DOT) /\ ~HasChar(s, SLASH) /\ ~HasChar(s, BSL)
ReplaceSuffix(p, s) == SubSeq(p, 1, Len(p) - Len(SuffixOf(p))) \o s         \* [FS] swap / add / compound swap / delete

IsAbsolutePath(p) == IsAbs(p)                                              \* [FS] is_absolute (POSIX build machine), "WITHOUT expanding ~"
AsPosixOk(p) == ~(\E i \in 1..(Len(p) - 1) : p[i] = BSL /\ p[i + 1] = BSL)
AsPosix(p) == BackToSlash(p)                                                \* [FS] all '\' are turned to '/'

\* ---- relative_to ------------------------------------------------------------------------
\* [FS] "Return a relative filepath"; [T220]: ('/prefix/lib/foo','/prefix') -> 'lib/foo',
\* ('/prefix/lib','/prefix/bin') -> '../lib', and the same without the leading '/'.
Comps(p) == IF p = <<SLASH>> THEN <<>> ELSE Split(IF IsAbs(p) THEN Tail(p) ELSE p, <<SLASH>>)
RelPlain(p) == /\ (FsPlain(p) \/ p = <<SLASH>>)
               /\ \A i \in 1..Len(Comps(p)) : Comps(p)[i] \notin {<<DOT>>, <<DOT, DOT>>}
RelDomain(to, from) == RelPlain(to) /\ RelPlain(from) /\ IsAbs(to) = IsAbs(from) /\ Comps(to) # Comps(from)
CommonLen(a, b) == LET m == IF Len(a) < Len(b) THEN Len(a) ELSE Len(b)
                       ks == { k \in 0..m : \A i \in 1..k : a[i] = b[i] }
                   IN CHOOSE k \in ks : \A j \in ks : j <= k
RelativeTo(to, from) ==
    LET tc == Comps(to)
        fc == Comps(from)
        c == CommonLen(tc, fc)
    IN JoinSeq(<<SLASH>>, [i \in 1..(Len(fc) - c) |-> <<DOT, DOT>>] \o SubSeq(tc, c + 1, Len(tc)))

\* lexical resolution of '.' and '..' (used only to state the round-trip law of relative_to)
RECURSIVE Resolve(_, _)
Resolve(cs, acc) ==
    IF cs = <<>> THEN acc
    ELSE IF cs[1] = <<DOT>> \/ cs[1] = <<>> THEN Resolve(Tail(cs), acc)
    ELSE IF cs[1] = <<DOT, DOT>> /\ acc # <<>> /\ acc[Len(acc)] # <<DOT, DOT>> THEN Resolve(Tail(cs), SubSeq(acc, 1, Len(acc) - 1))
    ELSE Resolve(Tail(cs), Append(acc, cs[1]))

=============================================================================
