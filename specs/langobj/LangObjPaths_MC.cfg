SPECIFICATION Spec
CONSTANTS MaxLen = 3
 WithBackslash = FALSE
 Explore = TRUE
INVARIANT FoldEqualsDeclarative
INVARIANT JoinAssociative
INVARIANT AbsoluteWins
INVARIANT OnlySlashes
INVARIANT NothingLost
INVARIANT AgreesWithCoreSpec
INVARIANT ParentNameRoundTrip
INVARIANT StemPlusSuffix
INVARIANT ReplaceSuffixLaws
INVARIANT RelativeRoundTrip
INVARIANT AsPosixIdempotent
CHECK_DEADLOCK FALSE
POSTCONDITION EmitSpace
