-------------------------- MODULE LangObjPaths_MC --------------------------
(* Bounded exhaustive model for the path helpers: every triple of strings   *)
(* up to MaxLen over a small alphabet of path characters.  The laws are     *)
(* invariants; the string set is exported so that the harness replays the   *)
(* same space through the real interpreter.                                 *)
EXTENDS LangObjPaths, TLC, Json, SequencesExt
CONSTANTS MaxLen,        \* longest string
          WithBackslash, \* TRUE: the alphabet also has '\'
          Explore        \* FALSE: only export the string set
VARIABLES a, b, c
vars == <<a, b, c>>

Chars == {97, DOT, SLASH} \cup (IF WithBackslash THEN {BSL} ELSE {})
RECURSIVE StrsOfLen(_)
StrsOfLen(n) == IF n = 0 THEN {<<>>} ELSE { Append(s, ch) : s \in StrsOfLen(n - 1), ch \in Chars }
AllStrs == UNION { StrsOfLen(n) : n \in 0..MaxLen }

\* a is chosen first, (b, c) in one step: the successor computation is what TLC spreads over its workers
None == <<0>>
Init == a \in AllStrs /\ b = None /\ c = None
Next == Explore /\ b = None /\ a' = a /\ b' \in AllStrs /\ c' \in AllStrs
Spec == Init /\ [][Next]_vars

Chosen == b # None
P3 == Chosen /\ PortableParts(<<a, b, c>>)
P2 == Chosen /\ PortableParts(<<a, b>>)

\* the operational fold and the declarative "last absolute part wins, one separator between parts" agree
FoldEqualsDeclarative == P3 => /\ JoinAll(<<a, b, c>>) = JoinDecl(<<a, b, c>>)
                               /\ JoinAll(<<a, b>>) = JoinDecl(<<a, b>>)
                               /\ JoinAll(<<a>>) = JoinDecl(<<a>>)
\* a / b / c means the same however it is bracketed
JoinAssociative == (P3 /\ PortableParts(<<b, c>>)) => Join2(Join2(a, b), c) = Join2(a, Join2(b, c))
\* [JP] "If any one of the individual segments is an absolute path, all segments before it are dropped"
AbsoluteWins == P3 => /\ (IsAbs(c) => JoinAll(<<a, b, c>>) = c)
                      /\ (IsAbs(b) /\ ~IsAbs(c) => JoinAll(<<a, b, c>>) = Join2(b, c))
                      /\ (~IsAbs(b) /\ ~IsAbs(c) => IsAbs(JoinAll(<<a, b, c>>)) = IsAbs(a))
\* the result has `/` separators only, and no character is invented or lost apart from separators
OnlySlashes == P3 => ~HasChar(JoinAll(<<a, b, c>>), BSL)
NothingLost == (P2 /\ ~IsAbs(b)) => LET j == Join2(a, b) IN
                   /\ Len(j) \in {Len(a) + Len(b), Len(a) + Len(b) + 1}
                   /\ SubSeq(j, 1, Len(a)) = BackToSlash(a)
                   /\ SubSeq(j, Len(j) - Len(b) + 1, Len(j)) = b
\* the `/` of the core language specification (C01, MesonValues.PathJoin) is the same function where both are defined
AgreesWithCoreSpec == (P2 /\ PathPortable(a, b)) => Join2(a, b) = PathJoin(a, b)

\* name / parent / stem / suffix take a path apart without losing anything
ParentNameRoundTrip == (FsPlain(a) /\ LastIndexOf(a, SLASH) > 0) => Join2(ParentOf(a), NameOf(a)) = a
StemPlusSuffix == FsSuffixable(a) => /\ StemOf(a) \o SuffixOf(a) = NameOf(a)
                                     /\ ~HasChar(NameOf(a), SLASH)
                                     /\ (SuffixOf(a) = <<>> \/ (SuffixOf(a)[1] = DOT /\ ~HasChar(Tail(SuffixOf(a)), DOT)))
                                     /\ StemOf(a) # <<>>
ReplaceSuffixLaws == (Chosen /\ FsSuffixable(a)) =>
    /\ ReplaceSuffix(a, SuffixOf(a)) = a                                                  \* putting the own suffix back changes nothing
    /\ (GoodSuffix(b) /\ b # <<>> /\ ~HasChar(Tail(b), DOT) /\ Len(b) > 1 =>
            /\ SuffixOf(ReplaceSuffix(a, b)) = b                                           \* the new suffix is the suffix
            /\ ReplaceSuffix(ReplaceSuffix(a, b), b) = ReplaceSuffix(a, b)                 \* idempotent
            /\ ParentOf(ReplaceSuffix(a, b)) = ParentOf(a)                                 \* only the last component changes
            /\ StemOf(ReplaceSuffix(a, b)) = StemOf(a))
\* going from `b` along relative_to(a, b) arrives at `a`
RelativeRoundTrip == (Chosen /\ RelDomain(a, b)) =>
    LET rel == RelativeTo(a, b) IN
    /\ ~IsAbs(rel)
    /\ Resolve(Comps(b) \o Comps(rel), <<>>) = Comps(a)
AsPosixIdempotent == AsPosix(AsPosix(a)) = AsPosix(a) /\ ~HasChar(AsPosix(a), BSL)

\* the examples of the documentation and of the pinned tests
ASSUME JoinAll(<<<<102,111,111>>>>) = <<102,111,111>>                                                      \* [T111] join_paths('foo') == 'foo'
ASSUME JoinAll(<<<<102,111,111>>, <<98,97,114>>, <<98,97,122>>>>) = <<102,111,111,47,98,97,114,47,98,97,122>>   \* foo/bar/baz
ASSUME JoinAll(<<<<47,102,111,111>>, <<98,97,114>>>>) = <<47,102,111,111,47,98,97,114>>                   \* '/foo','bar' -> /foo/bar
ASSUME JoinAll(<<<<102,111,111>>, <<47,98,97,114>>>>) = <<47,98,97,114>>                                  \* 'foo','/bar' -> /bar
ASSUME JoinAll(<<<<47,102,111,111>>, <<47,98,97,114>>>>) = <<47,98,97,114>>
ASSUME JoinAll(<<<<47,102,111,111>>, <<>>>>) = <<47,102,111,111,47>>                                      \* '/foo','' -> '/foo/'
ASSUME Join2(<<67,92,102,111,111,92,98,97,114>>, <<98>>) = <<67,47,102,111,111,47,98,97,114,47,98>>       \* [SY] backslashes of the left operand
ASSUME NameOf(<<102,111,111,47,98,97,114,47,98,97,122,46,100,108,108,46,97>>) = <<98,97,122,46,100,108,108,46,97>>   \* [FS] baz.dll.a
ASSUME StemOf(<<102,111,111,47,98,97,114,47,98,97,122,46,100,108,108,46,97>>) = <<98,97,122,46,100,108,108>>          \* baz.dll
ASSUME StemOf(<<102,111,111,47,98,97,114,47,98,97,122,46,100,108,108>>) = <<98,97,122>>                              \* baz
ASSUME SuffixOf(<<98,97,122,46>>) = <<46>> /\ SuffixOf(<<98,97,122>>) = <<>> /\ SuffixOf(<<98,97,122,46,100,46,97>>) = <<46,97>>   \* [T220]
ASSUME ParentOf(<<102,111,111,47,98,97,114>>) = <<102,111,111>> /\ ParentOf(<<98,116,103,116>>) = <<46>>            \* [FS] foo ; [T220] '.'
ASSUME ParentOf(<<102,111,111,47,98,97,114,47,98,97,122,46,100,108,108>>) = <<102,111,111,47,98,97,114>>
ASSUME ReplaceSuffix(<<47,111,112,116,47,102,111,111,46,105,110,105>>, <<46,116,120,116>>) = <<47,111,112,116,47,102,111,111,46,116,120,116>>   \* swap
ASSUME ReplaceSuffix(<<47,111,112,116,47,102,111,111>>, <<46,116,120,116>>) = <<47,111,112,116,47,102,111,111,46,116,120,116>>                  \* add
ASSUME ReplaceSuffix(<<102,111,111,46,100,108,108,46,97>>, <<46,115,111>>) = <<102,111,111,46,100,108,108,46,115,111>>                          \* compound swap
ASSUME ReplaceSuffix(<<102,111,111,46,100,108,108,46,97>>, <<>>) = <<102,111,111,46,100,108,108>>                                              \* delete
ASSUME RelativeTo(<<47,112,47,108,105,98,47,102,111,111>>, <<47,112>>) = <<108,105,98,47,102,111,111>>                                         \* [T220] lib/foo
ASSUME RelativeTo(<<47,112,47,108,105,98>>, <<47,112,47,98,105,110>>) = <<46,46,47,108,105,98>>                                                \* ../lib
ASSUME RelativeTo(<<112,47,108,105,98>>, <<112,47,98,105,110>>) = <<46,46,47,108,105,98>>
ASSUME AsPosix(<<102,111,111,92,98,97,114,47,98,97,122>>) = <<102,111,111,47,98,97,114,47,98,97,122>>                                           \* [FS]
ASSUME ~IsAbsolutePath(<<126>>) /\ ~IsAbsolutePath(<<102,111,111,47,98,97,114>>) /\ IsAbsolutePath(<<47,102,111,111>>)                         \* [FS], [T220]

EmitSpace == TLCGet("stats").diameter >= 0 /\ JsonSerialize("space.json", [strings |-> SetToSeq(AllStrs)])
=============================================================================
