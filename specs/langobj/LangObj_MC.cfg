SPECIFICATION Spec
CONSTANTS MaxLen = 2
 Area = "dis"
INVARIANT Total
INVARIANT RunIsIncremental
INVARIANT OutputGrows
INVARIANT DisabledCallHasNoEffect
INVARIANT IfOnDisablerSkips
INVARIANT AbsorptionIsSyntactic
INVARIANT FoundIsFalse
INVARIANT MutationIsLocal
INVARIANT UsedIsFrozen
INVARIANT GetAfterSet
INVARIANT KeysSorted
INVARIANT MergeOverrides
INVARIANT EnvLaws
INVARIANT SetForgets
CHECK_DEADLOCK FALSE
POSTCONDITION EmitSpace
