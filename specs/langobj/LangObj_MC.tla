------------------------------ MODULE LangObj_MC ------------------------------
(***************************************************************************)
(* Bounded exhaustive model of X04: every program made of a fixed prefix   *)
(* followed by up to MaxLen statements of one of four statement alphabets  *)
(* (disabler / feature / configuration_data / environment) is run by the   *)
(* reference evaluator; the laws below are invariants.  The alphabets are  *)
(* exported so that the harness runs exactly this program space through    *)
(* the real interpreter.                                                   *)
(***************************************************************************)
EXTENDS LangObj, TLC, Json, SequencesExt
CONSTANTS MaxLen, Area
VARIABLES prog,    \* the statements after the prefix
          af,      \* auto_features
          before,  \* execution state before the last statement
          after    \* ... and after it (the run is kept incrementally: one Exec per state)
vars == <<prog, af, before, after>>

\* ---- names and literals (code points) ----------------------------------------------------------
nX == <<120>>   nY == <<121>>   nD == <<100>>   nC == <<99>>   nO == <<111>>
nE == <<101>>   nG == <<103>>   nF == <<102>>   nI == <<105>>
sA == <<97>>    sK == <<107>>   sJ == <<106>>   sM == <<109>>  sQ == <<113>>   sE == <<101>>
sV == <<118>>   sW == <<119>>   sZ == <<122>>   sP == <<112>>  sR == <<114>>   sS == <<115>>
sXX == <<120>>  sYY == <<121>>  sN == <<110>>   sU == <<117>>  sO == <<111>>
sDflt == <<100, 102, 108, 116>>                       \* dflt
sNone == <<110, 111, 110, 101>>                       \* none
sH == <<120, 48, 52, 46, 104>>                        \* x04.h
sBar == <<124>>
eA == <<88, 48, 52, 95, 65>>                          \* X04_A   (not defined outside)
eOUT == OuterName                                     \* X04_OUT (defined outside: BOB)
sE1 == <<69, 49>>   sE2 == <<69, 50>>   sE3 == <<69, 51>>
sSemi == <<59>>     sComma == <<44>>    sPlus == <<43>>
sAppend == <<97, 112, 112, 101, 110, 100>>
sPrepend == <<112, 114, 101, 112, 101, 110, 100>>

Msg(tag, args) == ExprS(Call("message", <<LInt(tag)>> \o args))
IsDis(e) == Call("is_disabler", <<e>>)

\* ---- disabler ----------------------------------------------------------------------------------------
DisPrefix == << Assign(nD, Call("disabler", <<>>)), Assign(nX, LInt(1)), Assign(nC, Call("configuration_data", <<>>)) >>
DisAlphabet == {
    Assign(nX, Id(nD)),                                                         \* assignment keeps it
    Assign(nX, LInt(1)),
    Assign(nX, LBool(TRUE)),
    Assign(nX, Call("join_paths", <<LStr(sA), Id(nX)>>)),                        \* d2 = some_func(d)
    Assign(nX, Call("join_paths", <<LStr(sA), Arr(<<Arr(<<Id(nD)>>)>>)>>)),      \* nested in arrays
    Assign(nX, Arr(<<LInt(1), Id(nD)>>)),                                        \* an array literal keeps it as an element
    Assign(nX, Not(Id(nX))),
    Assign(nX, Neg(Id(nX))),
    Assign(nX, Cmp("==", Id(nX), LInt(1))),
    Assign(nX, Arith("+", LInt(1), Id(nX))),
    Assign(nX, Or(LBool(TRUE), Id(nD))),                                         \* short circuit wins
    Assign(nX, Or(LBool(FALSE), Id(nX))),
    Assign(nX, And(LBool(FALSE), Id(nD))),
    Assign(nX, And(Id(nX), LBool(TRUE))),
    Assign(nX, Tern(Id(nX), LInt(1), LInt(2))),
    Assign(nX, Idx(Arr(<<LInt(5), LInt(6)>>), Id(nX))),
    Assign(nX, Meth(Id(nX), "found", <<>>)),
    Assign(nX, Meth(Id(nD), "full_path", <<LInt(1)>>)),
    Assign(nX, Call("is_variable", <<Id(nD)>>)),
    Assign(nX, Call("get_variable", <<LStr(nY), LInt(7)>>)),
    Assign(nX, Call("get_variable", <<Id(nD), LInt(7)>>)),
    Assign(nX, Call("get_variable", <<LStr(nX), Id(nD)>>)),
    ExprS(Call("set_variable", <<LStr(nY), Id(nD)>>)),
    ExprS(Call("assert", <<Id(nX), LStr(sM)>>)),
    ExprS(Meth(Id(nC), "set", <<LStr(sK), Id(nX)>>)),
    ExprS(Meth(Id(nC), "set", <<LStr(sK), LInt(3), Kw("description", Id(nX))>>)),  \* a disabler as keyword argument
    Msg(1, <<Id(nX)>>),
    Msg(2, <<IsDis(Id(nX))>>),
    Msg(3, <<Meth(Id(nC), "has", <<LStr(sK)>>)>>),
    If(<<Id(nX), Block(<<Msg(4, <<>>)>>)>>, <<Msg(5, <<>>)>>),
    If(<<LBool(FALSE), Block(<<Msg(4, <<>>)>>), Id(nX), Block(<<Msg(5, <<>>)>>)>>, <<Msg(6, <<>>)>>),
    Foreach(nI, Arr(<<LInt(1), Id(nX)>>), <<Msg(7, <<IsDis(Id(nI))>>)>>),
    Foreach(nI, Id(nX), <<Msg(8, <<>>)>>) }

\* ---- feature -------------------------------------------------------------------------------------------
FeatPrefix == << Assign(nF, Id(nFA)) >>
FeatAlphabet ==
    { Assign(nF, Id(o)) : o \in {nFE, nFD, nFA} }
    \cup { Assign(nF, Meth(Id(nF), m, <<LBool(v)>>)) : m \in Transformers, v \in BOOLEAN }
    \cup { Assign(nF, Meth(Id(nF), "require", <<LBool(FALSE), Kw("error_message", LStr(sE1))>>)),
           Assign(nF, Meth(Id(nF), "enable_if", <<LBool(TRUE), Kw("error_message", LStr(sE2))>>)),
           Assign(nF, Meth(Id(nF), "disable_if", <<LBool(TRUE), Kw("error_message", LStr(sE3))>>)),
           Assign(nG, Id(nF)),
           Msg(1, <<Meth(Id(nF), "enabled", <<>>), Meth(Id(nF), "disabled", <<>>), Meth(Id(nF), "auto", <<>>), Meth(Id(nF), "allowed", <<>>)>>),
           Msg(2, <<Meth(Id(nG), "enabled", <<>>), Meth(Id(nG), "disabled", <<>>)>>) }

\* ---- configuration_data --------------------------------------------------------------------------------------
CfgPrefix == << Assign(nC, Call("configuration_data", <<>>)),
                Assign(nO, Call("configuration_data", <<Dict(<<DEnt(sK, LStr(sW)), DEnt(sM, LInt(2))>>)>>)) >>
CSet(x, m, key, v) == ExprS(Meth(Id(x), m, <<LStr(key), v>>))
CfgAlphabet == {
    CSet(nC, "set", sK, LStr(sV)),
    CSet(nC, "set", sK, LInt(1)),
    CSet(nC, "set", sJ, LBool(TRUE)),
    CSet(nC, "set", sK, LStr(<<34, 113, 34>>)),                   \* '"q"'
    CSet(nC, "set", sE, LStr(<<>>)),                              \* the empty string
    CSet(nC, "set", sQ, LStr(<<34>>)),                            \* a lone double quote
    CSet(nC, "set10", sJ, LBool(TRUE)),
    CSet(nC, "set10", sJ, LBool(FALSE)),
    CSet(nC, "set_quoted", sJ, LStr(sV)),
    CSet(nO, "set", sK, LStr(sZ)),
    Assign(nO, Id(nC)),
    Assign(nC, Id(nO)),
    ExprS(Meth(Id(nC), "merge_from", <<Id(nO)>>)),
    ExprS(Meth(Id(nO), "merge_from", <<Id(nC)>>)),
    ExprS(Call("configure_file", <<Kw("output", LStr(sH)), Kw("configuration", Id(nC))>>)),
    Msg(1, <<Meth(Id(nC), "get", <<LStr(sK), LStr(sDflt)>>)>>),
    Msg(2, <<Meth(Id(nC), "get_unquoted", <<LStr(sJ), LStr(sDflt)>>)>>),
    Msg(3, <<Meth(Id(nC), "get", <<LStr(sJ)>>)>>),
    Msg(4, <<Meth(Id(nC), "has", <<LStr(sM)>>)>>),
    Msg(5, <<Meth(LStr(sBar), "join", <<Meth(Id(nC), "keys", <<>>)>>)>>),
    Msg(6, <<Meth(Id(nO), "get", <<LStr(sK), LStr(sNone)>>)>>),
    Msg(7, <<Meth(Id(nC), "get_unquoted", <<LStr(sE), LStr(sDflt)>>)>>),
    Msg(8, <<Meth(Id(nC), "get_unquoted", <<LStr(sQ), LStr(sDflt)>>)>>),
    Msg(9, <<Meth(Id(nC), "get_unquoted", <<LStr(sK), LStr(<<34, 100, 34>>)>>)>>) }

\* ---- environment ------------------------------------------------------------------------------------------------
EnvPrefix == << Assign(nE, Call("environment", <<>>)) >>
EMod(x, m, name, vals, kw) == ExprS(Meth(Id(x), m, <<LStr(name)>> \o vals \o kw))
EnvAlphabet == {
    EMod(nE, "set", eA, <<LStr(sXX)>>, <<>>),
    EMod(nE, "set", eA, <<LStr(sXX), LStr(sYY)>>, <<Kw("separator", LStr(sSemi))>>),
    EMod(nE, "append", eA, <<LStr(sZ)>>, <<>>),
    EMod(nE, "prepend", eA, <<LStr(sP)>>, <<Kw("separator", LStr(sComma))>>),
    EMod(nE, "append", eOUT, <<LStr(sQ), LStr(sR)>>, <<Kw("separator", LStr(sSemi))>>),
    EMod(nE, "prepend", eOUT, <<LStr(sP)>>, <<>>),
    EMod(nE, "set", eOUT, <<LStr(sS)>>, <<>>),
    ExprS(Meth(Id(nE), "unset", <<LStr(eA)>>)),
    ExprS(Meth(Id(nE), "unset", <<LStr(eOUT)>>)),
    Assign(nG, Id(nE)),
    Assign(nE, Id(nG)),
    EMod(nG, "set", eA, <<LStr(sN)>>, <<>>),
    Assign(nE, Call("environment", <<Dict(<<DEnt(eA, Arr(<<LStr(sXX), LStr(sYY)>>)), DEnt(eOUT, LStr(sO))>>), Kw("separator", LStr(sPlus)), Kw("method", LStr(sAppend))>>)),
    Assign(nE, Call("environment", <<LStr(eA \o <<61, 49, 61, 50>>)>>)),                                             \* 'X04_A=1=2'
    Assign(nE, Call("environment", <<Arr(<<LStr(eA \o <<61>> \o sU), LStr(eOUT \o <<61>> \o sV)>>), Kw("method", LStr(sPrepend))>>)),
    Msg(1, <<EnvGet(Id(nE), eA)>>),
    Msg(2, <<EnvGet(Id(nE), eOUT)>>),
    Msg(3, <<EnvGet(Id(nG), eA)>>) }

Prefix == CASE Area = "dis" -> DisPrefix [] Area = "feat" -> FeatPrefix [] Area = "cfg" -> CfgPrefix [] Area = "env" -> EnvPrefix
Alphabet == CASE Area = "dis" -> DisAlphabet [] Area = "feat" -> FeatAlphabet [] Area = "cfg" -> CfgAlphabet [] Area = "env" -> EnvAlphabet
AutoFeatures == IF Area = "feat" THEN States ELSE {AUTO}

Init == /\ prog = <<>>
        /\ af \in AutoFeatures
        /\ before = Run(Prefix, af)
        /\ after = before
Next == /\ Len(prog) < MaxLen
        /\ af' = af
        /\ \E s \in Alphabet : /\ prog' = Append(prog, s)
                               /\ before' = after
                               /\ after' = IF after.sig = "next" THEN ExecSeq(<<s>>, 1, after) ELSE after
Spec == Init /\ [][Next]_vars

\* ---- the run, and the run up to the last statement ---------------------------------------------------------------------
Full == after
Before == before
HasLast == prog # <<>> /\ before.sig = "next"
LastS == prog[Len(prog)]
After == after
\* the incremental run is the run of the whole program
RunIsIncremental == after = Run(Prefix \o prog, af)

IsCps(s) == \A i \in 1..Len(s) : s[i] \in 0..1114111
Total == /\ Full.sig \in {"next", "err"}
         /\ Full.code \in {0, 1, 3}
         /\ (Full.sig = "next") = (Full.code = 0)
         /\ \A i \in 1..Len(Full.out) : IsCps(Full.out[i])
\* messages are never retracted
OutputGrows == HasLast => /\ Len(After.out) >= Len(Before.out)
                          /\ SubSeq(After.out, 1, Len(Before.out)) = Before.out

\* ---- disabler laws -------------------------------------------------------------------------------------------------------
Exceptions == {"is_disabler", "get_variable", "set_variable", "unset_variable"}
ArgVals(nodes, vs) == EvalSeq(PosNodes(nodes), vs) \o KwVals(EvalKws(KwNodes(nodes), vs))
\* [DM]/[DY]: a call (function or method, as a statement) with a disabled argument does nothing at all:
\* nothing is printed, no variable and no object changes
DisabledCallHasNoEffect ==
    (HasLast /\ LastS.k = "expr" /\ LastS.a[1].k \in {"call", "meth"}) =>
        LET x == LastS.a[1]
            args == ArgVals(IF x.k = "meth" THEN Tail(x.a) ELSE x.a, Before.vs)
            recvOk == x.k = "call" \/ ~IsErr(Eval(x.a[1], Before.vs))
        IN (recvOk /\ ~AnyErr(args) /\ AnyDisabled(args) /\ ~(x.k = "call" /\ x.s \in Exceptions)) => After = Before
\* [DM]: `if d` - "neither branch is evaluated" (also when the disabler turns up in an elif)
IfOnDisablerSkips ==
    (HasLast /\ LastS.k = "if") =>
        LET nconds == (Len(LastS.a) - LastS.n) \div 2
            conds == [j \in 1..nconds |-> Eval(LastS.a[2 * j - 1], Before.vs)]
        IN (\E j \in 1..nconds : conds[j].k = "dis" /\ \A i \in 1..(j - 1) : conds[i] = VBool(FALSE)) => After = Before
\* A second, purely syntactic account of absorption: an expression is tainted when a variable holding a disabler is
\* reachable through operators, call arguments (also nested in array literals) and method receivers - the positions
\* that do not look at the value.  Every tainted expression that evaluates at all evaluates to a disabler.
RECURSIVE Tainted(_, _), TaintedArg(_, _)
TaintedArg(e, vs) == \/ Tainted(e, vs)
                     \/ (e.k \in {"arr", "kw"} /\ \E i \in 1..Len(e.a) : TaintedArg(e.a[i], vs))
Tainted(e, vs) ==
    CASE e.k = "id" -> Has(vs, e.cs) /\ Get(vs, e.cs).k = "dis"
      [] e.k \in {"not", "neg", "tern", "and", "or"} -> Tainted(e.a[1], vs)
      [] e.k \in {"cmp", "arith", "idx"} -> Tainted(e.a[1], vs) \/ Tainted(e.a[2], vs)
      [] e.k = "call" -> IF e.s = "get_variable" THEN Tainted(e.a[1], vs)
                         ELSE e.s \notin Exceptions /\ \E i \in 1..Len(e.a) : TaintedArg(e.a[i], vs)
      [] e.k = "meth" -> (Tainted(e.a[1], vs) /\ e.s # "found") \/ \E i \in 2..Len(e.a) : TaintedArg(e.a[i], vs)
      [] OTHER -> FALSE
AbsorptionIsSyntactic ==
    (HasLast /\ LastS.k = "assign") =>
        LET v == Eval(LastS.a[1], Before.vs) IN
        (Tainted(LastS.a[1], Before.vs) /\ ~IsErr(v)) => v = VDis
\* the only ways to get something else than a disabler out of one
FoundIsFalse == HasLast => Eval(Meth(Call("disabler", <<>>), "found", <<>>), Before.vs) = VBool(FALSE)

\* ---- mutable objects ----------------------------------------------------------------------------------------------------------
\* [T41], [CM]: assignment copies, so a method call changes the object of its receiver variable and nothing else
MutationIsLocal ==
    (HasLast /\ LastS.k = "expr" /\ LastS.a[1].k = "meth" /\ LastS.a[1].a[1].k = "id" /\ After.sig = "next") =>
        /\ After.out = Before.out
        /\ \A i \in 1..Len(Before.vs) : Before.vs[i][1] # LastS.a[1].a[1].cs => Has(After.vs, Before.vs[i][1]) /\ Get(After.vs, Before.vs[i][1]) = Before.vs[i][2]
\* [CM]: once used, every mutator fails and the object keeps its entries; a copy of a used object is used
UsedIsFrozen ==
    (HasLast /\ LastS.k = "expr" /\ LastS.a[1].k = "meth" /\ LastS.a[1].s \in CfgMutators) =>
        LET c == Eval(LastS.a[1].a[1], Before.vs) IN
        (c.k = "cfg" /\ c.n = 1 /\ ~AnyErr(ArgVals(Tail(LastS.a[1].a), Before.vs))) => (After.sig = "err" /\ After.code = 1 /\ After.vs = Before.vs)
\* [CY]: get/has after a successful set; keys() sorted without duplicates
GetAfterSet ==
    (HasLast /\ LastS.k = "expr" /\ LastS.a[1].k = "meth" /\ LastS.a[1].s \in {"set", "set10", "set_quoted"} /\ After.sig = "next") =>
        LET x == LastS.a[1]
            c == Eval(x.a[1], After.vs)
            key == x.a[2].cs
            v == Eval(x.a[3], Before.vs)
        IN (c.k = "cfg" /\ ~AnyDisabled(ArgVals(Tail(x.a), Before.vs))) =>
             /\ CfgHas(c, key)
             /\ CfgGet(c, key) = (CASE x.s = "set" -> v [] x.s = "set10" -> VInt(v.n) [] x.s = "set_quoted" -> VStr(<<34>> \o v.s \o <<34>>))
             /\ (x.s = "set_quoted" => Unquote(CfgGet(c, key)) = v)
KeysSorted ==
    \A i \in 1..Len(Full.vs) :
        Full.vs[i][2].k = "cfg" =>
            LET ks == CfgKeys(Full.vs[i][2]) IN
            /\ Len(ks) = Len(Full.vs[i][2].e)
            /\ \A j \in 1..(Len(ks) - 1) : SeqLess(ks[j], ks[j + 1])
\* [CY] merge_from: afterwards every entry of the other object is in this one with the other's value, the rest is unchanged
MergeOverrides ==
    (HasLast /\ LastS.k = "expr" /\ LastS.a[1].k = "meth" /\ LastS.a[1].s = "merge_from" /\ After.sig = "next") =>
        LET c0 == Eval(LastS.a[1].a[1], Before.vs)
            c1 == Eval(LastS.a[1].a[1], After.vs)
            o == Eval(LastS.a[1].a[2], Before.vs)
        IN /\ \A i \in 1..Len(o.e) : CfgHas(c1, o.e[i].s) /\ CfgGet(c1, o.e[i].s) = o.e[i].e[1]
           /\ \A i \in 1..Len(c0.e) : ~CfgHas(o, c0.e[i].s) => CfgGet(c1, c0.e[i].s) = c0.e[i].e[1]
           /\ \A i \in 1..Len(c1.e) : CfgHas(c0, c1.e[i].s) \/ CfgHas(o, c1.e[i].s)
\* [EY]: set forgets whatever was there, whatever the outside value; unset and the other operations exclude each other
EnvLaws ==
    \A i \in 1..Len(Full.vs) :
        Full.vs[i][2].k = "env" =>
            LET e == Full.vs[i][2] IN
            /\ UnsetNames(e) \cap TouchedNames(e) = {}
            /\ \A name \in UnsetNames(e) : EnvValue(e, name, OuterValue) = Undef
            /\ \A name \in TouchedNames(e) : EnvValue(e, name, Undef) # Undef
SetForgets ==
    (HasLast /\ LastS.k = "expr" /\ LastS.a[1].k = "meth" /\ LastS.a[1].s = "set" /\ After.sig = "next") =>
        LET e == Eval(LastS.a[1].a[1], After.vs) IN
        e.k = "env" => LET op == e.e[Len(e.e)] IN
                       /\ EnvValue(e, op.s, Undef) = JoinSeq(OpSep(op), OpVals(op))
                       /\ EnvValue(e, op.s, OuterValue) = JoinSeq(OpSep(op), OpVals(op))

\* [EY] the example of env.yaml: set 1, append 2, append 3, prepend 0 -> '0:1:2:3'
MyPath == <<77, 89>>
ASSUME LET e1 == EnvModify(VEnv(<<>>), SET, MyPath, DefaultSep, <<<<49>>>>)
           e2 == EnvModify(e1, APPEND, MyPath, DefaultSep, <<<<50>>>>)
           e3 == EnvModify(e2, APPEND, MyPath, DefaultSep, <<<<51>>>>)
           e4 == EnvModify(e3, PREPEND, MyPath, DefaultSep, <<<<48>>>>)
       IN EnvValue(e4, MyPath, Undef) = <<48, 58, 49, 58, 50, 58, 51>>
\* "env.append('FOO', 'BAR', 'BAZ', separator : ';') produces BOB;BAR;BAZ if FOO had the value BOB and plain BAR;BAZ if the value was not defined"
ASSUME LET e1 == EnvModify(VEnv(<<>>), APPEND, <<70>>, <<59>>, <<<<66, 65, 82>>, <<66, 65, 90>>>>)
       IN /\ EnvValue(e1, <<70>>, <<66, 79, 66>>) = <<66, 79, 66, 59, 66, 65, 82, 59, 66, 65, 90>>
          /\ EnvValue(e1, <<70>>, Undef) = <<66, 65, 82, 59, 66, 65, 90>>
\* [T275]
ASSUME IsErr(EnvModify(EnvUnset(VEnv(<<>>), <<70>>), SET, <<70>>, DefaultSep, <<<<66>>>>))
ASSUME IsErr(EnvUnset(EnvModify(VEnv(<<>>), APPEND, <<70>>, DefaultSep, <<<<66>>>>), <<70>>))
\* [CM] set10 == set 1 / set 0 ; set_quoted('TOKEN', 'value') -> "value"
ASSUME CfgSet10(VCfg(0, <<>>), <<84>>, VBool(TRUE)) = CfgSet(VCfg(0, <<>>), <<84>>, VInt(1))
ASSUME CfgSet10(VCfg(0, <<>>), <<84>>, VBool(FALSE)) = CfgSet(VCfg(0, <<>>), <<84>>, VInt(0))
ASSUME CfgGet(CfgSetQuoted(VCfg(0, <<>>), <<84>>, VStr(<<118>>)), <<84>>) = VStr(<<34, 118, 34>>)
\* [DM] the four lines of Disabler.md
ASSUME LET vs == << <<nD, VDis>> >> IN
       /\ Eval(Call("join_paths", <<Id(nD)>>), vs) = VDis
       /\ Eval(Or(LBool(TRUE), Id(nD)), vs) = VBool(TRUE)
       /\ Eval(Or(LBool(FALSE), Id(nD)), vs) = VDis
       /\ Eval(Meth(Id(nD), "found", <<>>), vs) = VBool(FALSE)

EmitSpace == TLCGet("stats").diameter >= 0
             /\ JsonSerialize("space.json", [area |-> Area, prefix |-> Prefix, alphabet |-> SetToSeq(Alphabet), afs |-> SetToSeq(AutoFeatures)])
=============================================================================
