----------------------------- MODULE TraceLangObj -----------------------------
(***************************************************************************)
(* Trace validation for X04.  One case = one program that was rendered to  *)
(* meson.build text and run by the real interpreter, recorded as           *)
(*   t    its top-level statements, as indices into the batch's statement  *)
(*        roots; the syntax trees are shipped hash-consed: nodes[i] =      *)
(*        <<k, s, n, cs, <<child indices>>>>                               *)
(*   af   the -Dauto_features value of the project (0 disabled, 1 auto,    *)
(*        2 enabled)                                                       *)
(*   st   "ok" | "fail" (a MesonException)                                 *)
(*   out  the texts printed by message(), in order, as code points         *)
(*   em   which of the program's error_message literals occur in the text  *)
(*        of the failure                                                   *)
(*   fi   index of the top-level statement in which it failed (0: unknown  *)
(*        or none)                                                         *)
(* The reference outcome is LangObj!Run of the same program.  After a      *)
(* point the reference calls unspecified (documentation and pinned tests   *)
(* silent) only the output printed before that point is compared.          *)
(***************************************************************************)
EXTENDS LangObj, TLC, Json, IOUtils

Batch == JsonDeserialize(IOEnv.TRACE_FILE)
Nodes == Batch.nodes
Roots == Batch.roots
Cases == Batch.cases

VARIABLES i, done
vars == <<i, done>>

RECURSIVE Build(_)
Build(j) == LET t == Nodes[j + 1] IN N(t[1], t[2], t[3], t[4], [x \in 1..Len(t[5]) |-> Build(t[5][x])])
Progr(c) == [j \in 1..Len(c.t) |-> Build(Roots[c.t[j] + 1])]

\* a verdict names the clause and carries what a report needs: the reference's output, the statement at which the
\* reference stopped, and what the variables held there / before the statement at which the implementation failed (c.fi)
V(c, clause, r) == [id |-> c.id, clause |-> clause, sig |-> r.sig, code |-> r.code, expected |-> r.out, em |-> r.em,
                    at |-> r.at, rkinds |-> Kinds(r.vs),
                    ikinds |-> IF clause # "ok" /\ c.fi > 0 THEN Kinds(Run(SubSeq(Progr(c), 1, c.fi - 1), c.af).vs) ELSE <<>>]
IsPrefixOf(p, s) == Len(p) <= Len(s) /\ SubSeq(s, 1, Len(p)) = p
InSeq(x, s) == \E j \in 1..Len(s) : s[j] = x

Judge(c) ==
    LET rr == RunTop(Progr(c), c.af)
        r == rr.r
        earlier == c.st = "fail" /\ c.fi > 0 /\ rr.stop > 0 /\ c.fi < rr.stop      \* failed in a statement the reference executes without failure
    IN IF r.sig = "err" /\ r.code = 3 THEN
            (IF earlier THEN V(c, "FailsButReferenceSucceeds", r)
             ELSE IF IsPrefixOf(r.out, c.out) THEN V(c, "ok", r)
             ELSE V(c, "OutputBeforeUnspecifiedPointDiffers", r))
       ELSE IF r.sig = "err" THEN
            (IF c.st # "fail" \/ c.fi > rr.stop THEN V(c, "SucceedsButReferenceFails", r)    \* went past the statement at which failure is demanded
             ELSE IF earlier THEN V(c, "FailsButReferenceSucceeds", r)
             ELSE IF c.out # r.out THEN V(c, "OutputBeforeFailureDiffers", r)
             ELSE IF r.em # <<>> /\ ~InSeq(r.em, c.em) THEN V(c, "ErrorMessageNotReported", r)
             ELSE V(c, "ok", r))
       ELSE IF c.st # "ok" THEN V(c, "FailsButReferenceSucceeds", r)
       ELSE IF c.out # r.out THEN V(c, "OutputDiffers", r)
       ELSE V(c, "ok", r)

Init == i \in 1..Len(Cases) /\ done = FALSE
Next == /\ ~done
        /\ done' = TRUE
        /\ i' = i
        /\ LET v == Judge(Cases[i]) IN v.clause = "ok" \/ PrintT(ToJson(v))
Spec == Init /\ [][Next]_vars
=============================================================================
