----------------------------- MODULE MachineFile -----------------------------
(***************************************************************************)
(* X01 - what a list of machine files (native / cross files) means.        *)
(*                                                                         *)
(* Rule book written from the documentation:                               *)
(*   [MF]   docs/markdown/Machine-files.md                                 *)
(*   [MF-T] ... section "Data Types"                                       *)
(*   [MF-C] ... section "constants" (operators, scope, composition notes,  *)
(*          @GLOBAL_SOURCE_ROOT@ / @DIRNAME@)                              *)
(*   [MF-L] ... section "Loading multiple machine files"                   *)
(*   [RN55] docs/markdown/Release-notes-for-0.55.0.md "Machine file        *)
(*          constants"; [RN111] Release-notes-for-1.11.0.md (`~`)          *)
(*   [JP]   docs/yaml/functions/join_paths.yaml (the `/` operator on       *)
(*          strings is join_paths)                                         *)
(*   [UT]   pinned tests: unittests/machinefiletests.py (test_option_bool  *)
(*          writes `werror=True`; test_home_variable), unittests/          *)
(*          allplatformstests.py test_cross_file_constants with            *)
(*          unittests/machinefiles/constant{1,2}.txt                       *)
(*                                                                         *)
(* Abstract syntax.  A file list is a sequence of files, a file a sequence *)
(* of sections [name, entries], an entry [key, kind, e].  An expression    *)
(* `e` is a sequence of terms joined by `+`; a term is a sequence of atoms *)
(* joined by `/` (`/` binds tighter than `+`, both associate to the left:  *)
(* Syntax.md, the operators are Meson's).  Atoms (one record shape):       *)
(*   k = "str"  s = text between the single quotes                         *)
(*   k = "int"  n = the number        k = "bool" n = 1 / 0 (true / false)  *)
(*   k = "id"   s = identifier        k = "arr"  items = sequence of exprs *)
(*   k = "bad"  s = name of a construct that is none of the above (call,   *)
(*              method, dict, comparison, `not`, `-`, `*`, ternary,        *)
(*              double-quoted text, two values in a row, ...)              *)
(* Entry kinds: "val" (`key = e`), "empty" (`key =`), "noeq" (a line that  *)
(* is not of the form `key = value`).                                      *)
(*                                                                         *)
(* Values (one record shape so that TLC can compare any two):              *)
(*   t = "str" s | "int" n | "bool" n | "arr" a | "err" s=reason | "open"  *)
(* "open" marks a spot where the documentation does not decide; it is      *)
(* contagious and the judge accepts any clean outcome for it.              *)
(***************************************************************************)
EXTENDS Integers, Sequences, FiniteSets, TLC

\* ---- values -----------------------------------------------------------------
Val(t, s, n, a) == [t |-> t, s |-> s, n |-> n, a |-> a]
VStr(s)  == Val("str", s, 0, <<>>)
VInt(n)  == Val("int", "", n, <<>>)
VBool(b) == Val("bool", "", IF b THEN 1 ELSE 0, <<>>)
VArr(a)  == Val("arr", "", 0, a)
VErr(w)  == Val("err", w, 0, <<>>)
VOpen    == Val("open", "", 0, <<>>)
IsErr(v)  == v.t = "err"
IsOpen(v) == v.t = "open"

\* ---- atoms / expressions (constructors used by the models; traces send the same records as JSON) -----
Atom(k, s, n, items) == [k |-> k, s |-> s, n |-> n, items |-> items]
AStr(s)  == Atom("str", s, 0, <<>>)
AInt(n)  == Atom("int", "", n, <<>>)
ABool(b) == Atom("bool", "", IF b THEN 1 ELSE 0, <<>>)
AId(s)   == Atom("id", s, 0, <<>>)
AArr(xs) == Atom("arr", "", 0, xs)
ABad(s)  == Atom("bad", s, 0, <<>>)
E1(a)          == << <<a>> >>                  \* a
Plus(a, b)     == << <<a>>, <<b>> >>           \* a + b
Slash(a, b)    == << <<a, b>> >>               \* a / b
Entry(key, e)  == [key |-> key, kind |-> "val", e |-> e]
EmptyEntry(key) == [key |-> key, kind |-> "empty", e |-> <<>>]
NoEqLine       == [key |-> "", kind |-> "noeq", e |-> <<>>]
Sec(name, es)  == [name |-> name, entries |-> es]

EmptyF == [x \in {} |-> VOpen]
\* TLC evaluates [i \in 1..n |-> e] lazily and again at every application; Force makes it a plain sequence once
Force(seq) == seq \o <<>>

\* ---- text substitution [MF-C, since 1.3.0]: "Some tokens are replaced in the machine file before parsing it" ----
RECURSIVE ReplaceAll(_, _, _)
ReplaceAll(s, pat, rep) ==
    IF Len(s) < Len(pat) THEN s
    ELSE IF SubSeq(s, 1, Len(pat)) = pat
         THEN rep \o ReplaceAll(SubSeq(s, Len(pat) + 1, Len(s)), pat, rep)
         ELSE SubSeq(s, 1, 1) \o ReplaceAll(SubSeq(s, 2, Len(s)), pat, rep)
HasAt(s) == \E i \in 1..Len(s) : SubSeq(s, i, i) = "@"
\* ctx.root: absolute path of the source tree; ctx.dir: parent directory of the file the text stands in
Subst(s, ctx) == IF ~HasAt(s) THEN s
                 ELSE ReplaceAll(ReplaceAll(s, "@GLOBAL_SOURCE_ROOT@", ctx.root), "@DIRNAME@", ctx.dir)

\* ---- backslashes.  The documentation never states an escape rule; it writes a backslash inside a string doubled
\* ([MF] Binaries: `sed = 'C:\\program files\\gnu\\sed.exe'`) and gives one input/output pair ([MF] CMake variables:
\* `CMAKE_CXX_COMPILER = 'C:\\usr\\bin\\g++'` arrives as `"C:/usr/bin/g++"` after "all occurrences of \ ... will be
\* replaced with a /"): so `\\` denotes one backslash.  A single backslash is never shown: open.
RECURSIVE Unesc(_)
Unesc(s) == IF Len(s) = 0 THEN [s |-> "", lone |-> FALSE]
            ELSE IF SubSeq(s, 1, 1) # "\\"
                 THEN LET r == Unesc(SubSeq(s, 2, Len(s))) IN [s |-> SubSeq(s, 1, 1) \o r.s, lone |-> r.lone]
            ELSE IF Len(s) >= 2 /\ SubSeq(s, 2, 2) = "\\"
                 THEN LET r == Unesc(SubSeq(s, 3, Len(s))) IN [s |-> "\\" \o r.s, lone |-> r.lone]
            ELSE [s |-> "", lone |-> TRUE]
HasBackslash(s) == \E i \in 1..Len(s) : SubSeq(s, i, i) = "\\"
StrVal(s, ctx) == IF ~HasBackslash(s) THEN VStr(Subst(s, ctx))
                  ELSE LET us == Unesc(Subst(s, ctx)) IN IF us.lone THEN VOpen ELSE VStr(us.s)

\* ---- operators [MF-C]: "String and list concatenation is supported using the + operator, joining paths is
\* supported using the / operator" - nothing else is; other operand types are errors ---------------------------
\* [JP]: "If any one of the individual segments is an absolute path, all segments before it are dropped";
\* [UT] constant2.txt: '/toolchain/' / 'sysroot' is '/toolchain/sysroot' (no doubled separator).
\* An empty segment is not described anywhere: open.
PathJoin(l, r) == IF SubSeq(r, 1, 1) = "/" THEN r
                  ELSE IF SubSeq(l, Len(l), Len(l)) = "/" THEN l \o r
                  ELSE l \o "/" \o r
\* a failing operand fails the operation whatever an undecided operand would have been
Lift2(l, r, v) == IF IsErr(l) THEN l ELSE IF IsErr(r) THEN r
                  ELSE IF IsOpen(l) \/ IsOpen(r) THEN VOpen ELSE v
Add(l, r) == Lift2(l, r, CASE l.t = "str" /\ r.t = "str" -> VStr(l.s \o r.s)
                           [] l.t = "arr" /\ r.t = "arr" -> VArr(l.a \o r.a)
                           [] OTHER -> VErr("operand-types"))
Join(l, r) == Lift2(l, r, IF l.t = "str" /\ r.t = "str"
                          THEN (IF l.s = "" \/ r.s = "" THEN VOpen ELSE VStr(PathJoin(l.s, r.s)))
                          ELSE VErr("operand-types"))

\* ---- identifiers [MF-C]: "Entries defined in the [constants] section can be used in any other section (they are
\* always parsed first), entries in any other section can be used only within that same section and only after it
\* has been defined."  Built in: `~` [RN111], `True` / `False` [UT test_option_bool].
\* A name that is both a constant (or built in) and an earlier entry of the section: not decided -> open.
Builtins == {"True", "False", "~"}
BuiltinVal(name, ctx) == CASE name = "True" -> VBool(TRUE) [] name = "False" -> VBool(FALSE) [] OTHER -> VStr(ctx.home)
Lookup(name, ctx) ==
    LET inLocal == name \in DOMAIN ctx.local
        inConst == name \in DOMAIN ctx.consts
        inBuilt == name \in Builtins
        n == (IF inLocal THEN 1 ELSE 0) + (IF inConst THEN 1 ELSE 0) + (IF inBuilt THEN 1 ELSE 0)
    IN IF n > 1 THEN VOpen
       ELSE IF inLocal THEN ctx.local[name]
       ELSE IF inConst THEN ctx.consts[name]
       ELSE IF inBuilt THEN BuiltinVal(name, ctx)
       ELSE VErr("undefined")

\* ---- evaluation of one expression ---------------------------------------------------------------------------
\* [MF-T]: four data types; "An array is enclosed in square brackets, and must consist of strings or booleans".
FirstBad(vs) == IF \E i \in 1..Len(vs) : IsErr(vs[i]) THEN vs[CHOOSE i \in 1..Len(vs) : IsErr(vs[i])]
                ELSE IF \E i \in 1..Len(vs) : IsOpen(vs[i]) THEN VOpen
                ELSE IF \E i \in 1..Len(vs) : vs[i].t \notin {"str", "bool"} THEN VErr("array-element")
                ELSE VArr(vs)

RECURSIVE EvalExpr(_, _), EvalTerm(_, _), EvalAtom(_, _), FoldAdd(_, _, _), FoldJoin(_, _, _)
EvalAtom(a, ctx) ==
    CASE a.k = "str"  -> StrVal(a.s, ctx)
      [] a.k = "int"  -> VInt(a.n)
      [] a.k = "bool" -> VBool(a.n = 1)
      [] a.k = "id"   -> Lookup(a.s, ctx)
      [] a.k = "arr"  -> FirstBad(Force([i \in 1..Len(a.items) |-> EvalExpr(a.items[i], ctx)]))
      [] OTHER        -> VErr("unsupported")
FoldJoin(vs, i, acc) == IF i > Len(vs) THEN acc ELSE FoldJoin(vs, i + 1, Join(acc, vs[i]))
EvalTerm(t, ctx) == IF t = <<>> THEN VErr("malformed")
                    ELSE LET vs == Force([i \in 1..Len(t) |-> EvalAtom(t[i], ctx)]) IN FoldJoin(vs, 2, vs[1])
FoldAdd(vs, i, acc) == IF i > Len(vs) THEN acc ELSE FoldAdd(vs, i + 1, Add(acc, vs[i]))
EvalExpr(e, ctx) == IF e = <<>> THEN VErr("malformed")
                    ELSE LET vs == Force([i \in 1..Len(e) |-> EvalTerm(e[i], ctx)]) IN FoldAdd(vs, 2, vs[1])

\* the same with both operators folded from the right (used by the associativity law only)
RECURSIVE FoldAddR(_, _), FoldJoinR(_, _)
FoldAddR(vs, i) == IF i = Len(vs) THEN vs[i] ELSE Add(vs[i], FoldAddR(vs, i + 1))
FoldJoinR(vs, i) == IF i = Len(vs) THEN vs[i] ELSE Join(vs[i], FoldJoinR(vs, i + 1))
EvalExprR(e, ctx) == LET ts == Force([i \in 1..Len(e) |-> LET t == e[i] IN FoldJoinR(Force([j \in 1..Len(t) |-> EvalAtom(t[j], ctx)]), 1)])
                     IN FoldAddR(ts, 1)

\* identifiers an expression reads
RECURSIVE IdsOfExpr(_)
IdsOfExpr(e) == UNION { UNION { IF e[i][j].k = "id" THEN {e[i][j].s}
                                ELSE IF e[i][j].k = "arr" THEN UNION { IdsOfExpr(e[i][j].items[m]) : m \in 1..Len(e[i][j].items) }
                                ELSE {} : j \in 1..Len(e[i]) } : i \in 1..Len(e) }

\* ---- composition [MF-L] "More than one file can be loaded, with values from a previous file being overridden
\* by the next"; [MF-C] "Note that file composition happens before the parsing of values" with its two examples:
\* the composed text of a section lists every key once, at the place where it first appeared, with the expression
\* that was given last (example 1: `b = a + 'World'` sees the overriding `a = 'Hello'`; example 2: `b` "would be
\* defined before a").  A composed entry remembers the file its expression came from (for @DIRNAME@).
\* view : Seq([name, entries : Seq([key, kind, e, file])])
Pos(seq, P(_)) == IF \E i \in 1..Len(seq) : P(seq[i]) THEN CHOOSE i \in 1..Len(seq) : P(seq[i]) /\ \A j \in 1..(i - 1) : ~P(seq[j]) ELSE 0

\* (1) operational: read file after file, entry after entry
PutEntry(entries, en) == LET j == Pos(entries, LAMBDA x : x.key = en.key)
                         IN IF j = 0 THEN Append(entries, en) ELSE [entries EXCEPT ![j] = en]
RECURSIVE PutEntries(_, _, _, _)
PutEntries(entries, es, i, f) ==
    IF i > Len(es) THEN entries
    ELSE PutEntries(PutEntry(entries, [key |-> es[i].key, kind |-> es[i].kind, e |-> es[i].e, file |-> f]), es, i + 1, f)
PutSection(view, sec, f) ==
    LET j == Pos(view, LAMBDA x : x.name = sec.name)
    IN IF j = 0 THEN Append(view, [name |-> sec.name, entries |-> PutEntries(<<>>, sec.entries, 1, f)])
       ELSE [view EXCEPT ![j] = [name |-> sec.name, entries |-> PutEntries(view[j].entries, sec.entries, 1, f)]]
RECURSIVE PutFile(_, _, _, _), ComposeFrom(_, _, _)
PutFile(view, file, i, f) == IF i > Len(file) THEN view ELSE PutFile(PutSection(view, file[i], f), file, i + 1, f)
ComposeFrom(view, files, f) == IF f > Len(files) THEN view ELSE ComposeFrom(PutFile(view, files[f], 1, f), files, f + 1)
Compose(files) == ComposeFrom(<<>>, files, 1)

\* (2) declarative: positions of first and last occurrence
LexLt(p, q) == \E i \in 1..Len(p) : p[i] < q[i] /\ \A j \in 1..(i - 1) : p[j] = q[j]
Sorted(S) == [i \in 1..Cardinality(S) |-> CHOOSE x \in S : Cardinality({y \in S : LexLt(y, x)}) = i - 1]
ComposeDecl(files) ==
    LET SecOcc == UNION { { <<f, s>> : s \in 1..Len(files[f]) } : f \in 1..Len(files) }
        NameAt(p) == files[p[1]][p[2]].name
        Names == { NameAt(p) : p \in SecOcc }
        FirstSec(n) == CHOOSE p \in SecOcc : NameAt(p) = n /\ \A q \in SecOcc : NameAt(q) = n => (q = p \/ LexLt(p, q))
        EntOcc(n) == UNION { { <<p[1], p[2], e>> : e \in 1..Len(files[p[1]][p[2]].entries) } : p \in { q \in SecOcc : NameAt(q) = n } }
        EntAt(o) == files[o[1]][o[2]].entries[o[3]]
        Keys(n) == { EntAt(o).key : o \in EntOcc(n) }
        FirstOcc(n, k) == CHOOSE o \in EntOcc(n) : EntAt(o).key = k /\ \A q \in EntOcc(n) : EntAt(q).key = k => (q = o \/ LexLt(o, q))
        LastOcc(n, k) == CHOOSE o \in EntOcc(n) : EntAt(o).key = k /\ \A q \in EntOcc(n) : EntAt(q).key = k => (q = o \/ LexLt(q, o))
        SecOrder == Sorted({ FirstSec(n) : n \in Names })
        EntriesOf(n) == LET order == Sorted({ FirstOcc(n, k) : k \in Keys(n) })
                        IN [i \in 1..Len(order) |->
                              LET k == EntAt(order[i]).key
                                  o == LastOcc(n, k)
                              IN [key |-> k, kind |-> EntAt(o).kind, e |-> EntAt(o).e, file |-> o[1]]]
    IN [i \in 1..Len(SecOrder) |-> [name |-> NameAt(SecOrder[i]), entries |-> EntriesOf(NameAt(SecOrder[i]))]]

\* ---- what is not a machine file / not decided ---------------------------------------------------------------
\* A section or key written twice in the *same* file is not described by the documentation (only layering of
\* several files is): open.  A line that is not `key = value` makes the file malformed.
NoDup(seq, F(_)) == \A i, j \in 1..Len(seq) : i # j => F(seq[i]) # F(seq[j])
WellFormedFile(file) == /\ NoDup(file, LAMBDA s : s.name)
                        /\ \A s \in 1..Len(file) : NoDup(SelectSeq(file[s].entries, LAMBDA en : en.kind # "noeq"), LAMBDA en : en.key)
HasNoEq(files) == \E f \in 1..Len(files) : \E s \in 1..Len(files[f]) : \E i \in 1..Len(files[f][s].entries) :
                     files[f][s].entries[i].kind = "noeq"

\* ---- evaluation of the composed view ------------------------------------------------------------------------
\* env: [dirs (per file), root, home]
RECURSIVE EvalEntries(_, _, _, _, _, _)
EvalEntries(es, i, consts, local, acc, env) ==
    IF i > Len(es) THEN acc
    ELSE LET en == es[i]
             ctx == [consts |-> consts, local |-> local, dir |-> env.dirs[en.file], root |-> env.root, home |-> env.home]
             v == IF en.kind = "empty" THEN VErr("malformed")        \* [MF-T] a value is one of the four types
                  ELSE EvalExpr(en.e, ctx)
         IN EvalEntries(es, i + 1, consts, (en.key :> v) @@ local, Append(acc, [key |-> en.key, v |-> v]), env)

AsFun(kvs) == [k \in { kvs[i].key : i \in 1..Len(kvs) } |-> kvs[CHOOSE i \in 1..Len(kvs) : kvs[i].key = k].v] @@ EmptyF

\* order: the order in which the sections other than [constants] are evaluated (a permutation of their indices in
\* the view).  The result does not depend on it (law OrderIrrelevant), which is why the documentation need not say.
EvalView(view, env) ==
    LET c == Pos(view, LAMBDA x : x.name = "constants")
        cres == IF c = 0 THEN <<>> ELSE EvalEntries(view[c].entries, 1, EmptyF, EmptyF, <<>>, env)
        consts == AsFun(cres)
        secres == Force([i \in 1..Len(view) |-> IF i = c THEN cres ELSE EvalEntries(view[i].entries, 1, consts, EmptyF, <<>>, env)])
        allv == UNION { { secres[i][j].v : j \in 1..Len(secres[i]) } : i \in 1..Len(view) }
        triples == UNION { { [sec |-> view[i].name, key |-> secres[i][j].key, v |-> secres[i][j].v] : j \in 1..Len(secres[i]) }
                           : i \in (1..Len(view)) \ {c} }
    IN [o |-> IF \E v \in allv : IsErr(v) THEN "error" ELSE IF \E v \in allv : IsOpen(v) THEN "open" ELSE "ok",
        vals |-> { t \in triples : ~IsOpen(t.v) /\ ~IsErr(t.v) },
        openkeys |-> { <<t.sec, t.key>> : t \in { u \in triples : IsOpen(u.v) } }]

Loose == [o |-> "open", vals |-> {}, openkeys |-> {<<"*", "*">>}]
Failed == [o |-> "error", vals |-> {}, openkeys |-> {}]

\* The meaning of a file list.  o = "ok": the sections yield exactly `vals`; "error": the tool must refuse the
\* files; "open": some spot is not decided by the documentation - refusing is acceptable, and if the tool accepts,
\* every decided entry must have the value in `vals` (entries in `openkeys` may have any value).
Eval(files, env) ==
    IF HasNoEq(files) THEN Failed
    ELSE IF \E f \in 1..Len(files) : ~WellFormedFile(files[f]) THEN Loose
    ELSE LET r == EvalView(Compose(files), env) IN IF r.o = "error" THEN Failed ELSE r

DefaultEnv(files) == [dirs |-> [f \in 1..Len(files) |-> "/d"], root |-> "/src", home |-> "/home/u"]
=============================================================================
