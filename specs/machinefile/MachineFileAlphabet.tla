------------------------- MODULE MachineFileAlphabet -------------------------
(***************************************************************************)
(* The finite alphabets of the bounded models of X01 and the coding of a   *)
(* file list as a sequence of small integers.  Shared by the model         *)
(* (MachineFile_MC, which enumerates every code) and by the trace spec     *)
(* (TraceMachineFile, which decodes the codes replayed through the real    *)
(* parser), so that both speak about literally the same inputs.            *)
(*                                                                         *)
(*   0          a new file starts                                          *)
(*   100 + s    a section header, name SecNames[s]                         *)
(*   1000*k + x an entry with key KeyNames[k] and form Forms(level)[x]     *)
(***************************************************************************)
EXTENDS MachineFile

SecNames == <<"constants", "properties", "binaries">>
KeyNames == <<"a", "b">>

Form(kind, e) == [kind |-> kind, e |-> e]
V(e) == Form("val", e)
u == AStr("u")
w == AStr("w")
a == AId("a")
b == AId("b")

\* level 1: wide alphabet (every data type, every operator with good and bad operand types, built-in names,
\* unsupported construct, malformed entries); levels 2-4: narrow alphabets for longer file lists
Forms(level) ==
    IF level = 1 THEN
    << V(E1(u)),                                   \*  1  'u'
       V(E1(AStr("/v"))),                          \*  2  '/v'
       V(E1(AInt(7))),                             \*  3  7
       V(E1(ABool(TRUE))),                         \*  4  true
       V(E1(a)),                                   \*  5  a
       V(E1(b)),                                   \*  6  b
       V(E1(AArr(<<E1(u)>>))),                     \*  7  ['u']
       V(E1(AArr(<<E1(a)>>))),                     \*  8  [a]
       V(E1(AArr(<<E1(ABool(TRUE)), E1(u)>>))),    \*  9  [true, 'u']
       V(Plus(a, u)),                              \* 10  a + 'u'
       V(Plus(u, a)),                              \* 11  'u' + a
       V(Plus(a, b)),                              \* 12  a + b
       V(Slash(a, w)),                             \* 13  a / 'w'
       V(Slash(u, a)),                             \* 14  'u' / a
       V(Plus(a, AArr(<<E1(w)>>))),                \* 15  a + ['w']
       V(<< <<u>>, <<a, w>> >>),                   \* 16  'u' + a / 'w'
       V(<< <<a, w>>, <<u>> >>),                   \* 17  a / 'w' + 'u'
       V(<< <<a>>, <<u>>, <<b>> >>),               \* 18  a + 'u' + b
       V(E1(ABad("call"))),                        \* 19  f('u')
       V(E1(AArr(<<E1(AInt(7))>>))),               \* 20  [7]
       V(Slash(AId("~"), w)),                      \* 21  ~ / 'w'
       V(E1(AId("False"))),                        \* 22  False
       V(Plus(a, a)),                              \* 23  a + a
       Form("empty", <<>>),                        \* 24  key =
       Form("noeq", <<>>) >>                       \* 25  a line without `=`
    ELSE
    LET narrow == << V(E1(u)),                     \*  1  'u'
                     V(E1(a)),                     \*  2  a
                     V(Plus(a, w)),                \*  3  a + 'w'
                     V(E1(b)),                     \*  4  b
                     V(E1(AArr(<<E1(b)>>))),       \*  5  [b]
                     V(Slash(b, a)) >>             \*  6  b / a
    IN IF level = 2 THEN SubSeq(narrow, 1, 4)      \* level 2: four forms, level 3: six, level 4: three
       ELSE IF level = 3 THEN narrow
       ELSE SubSeq(narrow, 1, 3)

MkEntry(k, x, level) == LET fm == Forms(level)[x]
                        IN [key |-> IF fm.kind = "noeq" THEN "" ELSE KeyNames[k], kind |-> fm.kind, e |-> fm.e]

RECURSIVE Dec(_, _, _, _)
Dec(code, i, files, level) ==
    IF i > Len(code) THEN files
    ELSE LET t == code[i]
             nf == Len(files)
         IN IF t = 0 THEN Dec(code, i + 1, Append(files, <<>>), level)
            ELSE IF t < 1000
                 THEN Dec(code, i + 1, [files EXCEPT ![nf] = Append(@, Sec(SecNames[t - 100], <<>>))], level)
            ELSE LET ns == Len(files[nf])
                     en == MkEntry(t \div 1000, t % 1000, level)
                 IN Dec(code, i + 1, [files EXCEPT ![nf][ns].entries = Append(@, en)], level)
Decode(code, level) == Dec(code, 1, <<>>, level)
=============================================================================
