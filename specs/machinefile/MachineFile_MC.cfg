SPECIFICATION Spec
CONSTANTS Level = 1
 MaxFiles = 2
 MaxSecs = 2
 MaxEntries = 2
INVARIANT Laws
CHECK_DEADLOCK FALSE
POSTCONDITION EmitAlphabet
