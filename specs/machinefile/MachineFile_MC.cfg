SPECIFICATION Spec
CONSTANTS Level = 1
 MaxFiles = 2
 MaxSecs = 2
 MaxEntries = 2
INVARIANT InputsWellFormed
INVARIANT ComposeAgree
INVARIANT Total
INVARIANT SectionsIndependent
INVARIANT ConstantsFirst
INVARIANT OverridePerKey
INVARIANT UntouchedSectionKeepsValues
INVARIANT UseBeforeDefIsError
INVARIANT LiteralsLoad
INVARIANT SplitLaw
INVARIANT GroupingIrrelevant
CHECK_DEADLOCK FALSE
POSTCONDITION EmitAlphabet
