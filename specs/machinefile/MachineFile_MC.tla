--------------------------- MODULE MachineFile_MC ---------------------------
(***************************************************************************)
(* Bounded exhaustive model for X01: every file list that can be written   *)
(* with at most MaxFiles files, MaxSecs sections per file and MaxEntries   *)
(* entries in total over the alphabets of MachineFileAlphabet (no section  *)
(* or key twice in one file; an empty file or section only at the very     *)
(* end).  The state is the code of the file list, so every reachable state *)
(* is one input; the laws are invariants of that state.                    *)
(***************************************************************************)
EXTENDS MachineFileAlphabet, Json
CONSTANTS Level, MaxFiles, MaxSecs, MaxEntries
VARIABLES code
vars == <<code>>

LastTok == IF code = <<>> THEN -1 ELSE code[Len(code)]
LastIdx(P(_)) == IF \E i \in 1..Len(code) : P(code[i]) THEN CHOOSE i \in 1..Len(code) : P(code[i]) /\ \A j \in (i + 1)..Len(code) : ~P(code[j]) ELSE 0
CurFile == SubSeq(code, LastIdx(LAMBDA t : t = 0) + 1, Len(code))            \* tokens of the last file
CurSec == SubSeq(code, LastIdx(LAMBDA t : t < 1000) + 1, Len(code))           \* entry tokens of the last section
Count(seq, P(_)) == Cardinality({ i \in 1..Len(seq) : P(seq[i]) })
NoEqForm == CHOOSE x \in 1..Len(Forms(Level)) : Forms(Level)[x].kind = "noeq"
HasNoEqForm == \E x \in 1..Len(Forms(Level)) : Forms(Level)[x].kind = "noeq"

Init == code = <<>>
\* a new file / section is opened only while an entry may still follow, so that the largest layer of the model
\* (MaxEntries entries) carries no empty tail
MayGrow == Count(code, LAMBDA t : t >= 1000) < MaxEntries
NewFile == /\ Count(code, LAMBDA t : t = 0) < MaxFiles
           /\ MayGrow
           /\ (code = <<>> \/ LastTok >= 1000)
           /\ code' = Append(code, 0)
NewSec(s) == /\ code # <<>>
             /\ MayGrow
             /\ (LastTok = 0 \/ LastTok >= 1000)
             /\ Count(CurFile, LAMBDA t : t >= 100 /\ t < 1000) < MaxSecs
             /\ \A i \in 1..Len(CurFile) : CurFile[i] # 100 + s
             /\ code' = Append(code, 100 + s)
NewEntry(k, x) == /\ LastTok >= 100
                  /\ Count(code, LAMBDA t : t >= 1000) < MaxEntries
                  /\ IF HasNoEqForm /\ x = NoEqForm THEN k = 1
                     ELSE \A i \in 1..Len(CurSec) : (CurSec[i] \div 1000 # k \/ (HasNoEqForm /\ CurSec[i] % 1000 = NoEqForm))
                  /\ code' = Append(code, 1000 * k + x)
Next == \/ NewFile
        \/ \E s \in 1..Len(SecNames) : NewSec(s)
        \/ \E k \in 1..Len(KeyNames), x \in 1..Len(Forms(Level)) : NewEntry(k, x)
Spec == Init /\ [][Next]_vars

\* ---- laws ---------------------------------------------------------------------------------------------------
\* Every law is an operator over (fs: the file list, vw: its composed view, rs: its meaning, raw: every entry value
\* including constants and failures); the invariant `Laws` binds these once per state (TLC re-evaluates a
\* definition at every use, a LET binding only once) and names the law that fails.

\* every entry value including constants and failures
RawVals(vw, en) ==
    LET c == Pos(vw, LAMBDA x : x.name = "constants")
        cres == IF c = 0 THEN <<>> ELSE EvalEntries(vw[c].entries, 1, EmptyF, EmptyF, <<>>, en)
        consts == AsFun(cres)
        secres == Force([i \in 1..Len(vw) |-> IF i = c THEN cres ELSE EvalEntries(vw[i].entries, 1, consts, EmptyF, <<>>, en)])
    IN UNION { { [sec |-> vw[i].name, key |-> secres[i][j].key, v |-> secres[i][j].v] : j \in 1..Len(secres[i]) } : i \in 1..Len(vw) }
Restrict(fs, names) == [f \in 1..Len(fs) |-> SelectSeq(fs[f], LAMBDA s : s.name \in names)]
SeqSet(q) == { q[i] : i \in 1..Len(q) }
SecNamesOf(vw) == { vw[i].name : i \in 1..Len(vw) }
KeySeq(vw, n) == LET i == Pos(vw, LAMBDA x : x.name = n) IN IF i = 0 THEN <<>> ELSE [j \in 1..Len(vw[i].entries) |-> vw[i].entries[j].key]
EntryOf(vw, n, k) == LET i == Pos(vw, LAMBDA x : x.name = n) IN vw[i].entries[Pos(vw[i].entries, LAMBDA en : en.key = k)]

\* the model only builds files without a section / key written twice
InputsWellFormed(fs) == \A f \in 1..Len(fs) : WellFormedFile(fs[f])

\* the two formulations of composition agree
ComposeAgree(fs, vw) == vw = ComposeDecl(fs)

\* evaluation is total: a value of one of the four types for every composed key, or an error, nothing else
\* (determinism is by construction: Eval is an operator, TLC evaluates it to one value per input)
SecKeys(vw) == UNION { { <<vw[i].name, vw[i].entries[j].key>> : j \in 1..Len(vw[i].entries) }
                       : i \in { m \in 1..Len(vw) : vw[m].name # "constants" } }
GoodScalar(v) == \/ v.t = "str" /\ v.n = 0 /\ v.a = <<>>
                 \/ v.t = "int" /\ v.s = "" /\ v.a = <<>>
                 \/ v.t = "bool" /\ v.s = "" /\ v.n \in {0, 1} /\ v.a = <<>>
GoodVal(v) == \/ GoodScalar(v)
              \/ v.t = "arr" /\ v.s = "" /\ v.n = 0 /\ \A i \in 1..Len(v.a) : v.a[i].t \in {"str", "bool"} /\ GoodScalar(v.a[i])
Total(vw, rs) ==
    /\ rs.o \in {"ok", "error", "open"}
    /\ \A t \in rs.vals : GoodVal(t.v)
    /\ \A t1, t2 \in rs.vals : (t1.sec = t2.sec /\ t1.key = t2.key) => t1 = t2
    /\ rs.o = "error" => (rs.vals = {} /\ rs.openkeys = {})
    /\ rs.o = "ok" => (rs.openkeys = {} /\ { <<t.sec, t.key>> : t \in rs.vals } = SecKeys(vw))
    /\ rs.o = "open" => (rs.openkeys # {} /\ ({ <<t.sec, t.key>> : t \in rs.vals } \cup rs.openkeys) = SecKeys(vw))

\* the meaning is a projection of the entry values: error iff some entry (constants included) fails
MeaningFromEntries(fs, rs, raw) ==
    IF HasNoEq(fs) THEN rs = Failed
    ELSE /\ (rs.o = "error") <=> (\E t \in raw : IsErr(t.v))
         /\ rs.o # "error" => rs.vals = { t \in raw : t.sec # "constants" /\ ~IsOpen(t.v) }

\* per-section scope: what a section yields depends on [constants] and on that section only, and what
\* [constants] yields depends on nothing else ("entries in any other section can be used only within that same section")
SectionsIndependent(fs, vw, raw, en) ==
    \A n \in SecNamesOf(vw) :
        RawVals(Compose(Restrict(fs, {"constants", n})), en) = { t \in raw : t.sec \in {"constants", n} }

\* "[constants] ... are always parsed first": where the section stands in a file is irrelevant
ConstLast(file) == SelectSeq(file, LAMBDA s : s.name # "constants") \o SelectSeq(file, LAMBDA s : s.name = "constants")
ConstantsFirst(fs, rs, en) == Eval([f \in 1..Len(fs) |-> ConstLast(fs[f])], en) = rs

\* overriding is per key and ordered: adding one more file replaces the expressions of exactly the keys it
\* writes, keeps every other key where and as it was, and appends its new keys in its own order
OverridePerKey(fs, vw) ==
    Len(fs) >= 2 =>
        LET nf == Len(fs)
            prev == Compose(SubSeq(fs, 1, nf - 1))
            lastv == Compose(<<fs[nf]>>)
        IN \A n \in SecNamesOf(vw) :
             /\ KeySeq(vw, n) = KeySeq(prev, n) \o SelectSeq(KeySeq(lastv, n), LAMBDA k : k \notin SeqSet(KeySeq(prev, n)))
             /\ \A k \in SeqSet(KeySeq(vw, n)) :
                  IF k \in SeqSet(KeySeq(lastv, n))
                  THEN EntryOf(vw, n, k) = [EntryOf(lastv, n, k) EXCEPT !.file = nf]
                  ELSE EntryOf(vw, n, k) = EntryOf(prev, n, k)
\* ... and a file that writes neither [constants] nor section n leaves what n yields untouched
UntouchedSectionKeepsValues(fs, raw, en) ==
    Len(fs) >= 2 =>
        LET nf == Len(fs)
            prev == Compose(SubSeq(fs, 1, nf - 1))
            praw == RawVals(prev, en)
            touched == { fs[nf][s].name : s \in 1..Len(fs[nf]) }
        IN \A n \in SecNamesOf(prev) :
             (n \notin touched /\ "constants" \notin touched) => { t \in raw : t.sec = n } = { t \in praw : t.sec = n }

\* a name used before (or without) its definition is an error
UseBeforeDefIsError(fs, vw, rs) ==
    LET c == Pos(vw, LAMBDA x : x.name = "constants")
        constKeys == SeqSet(KeySeq(vw, "constants"))
    IN (\E i \in 1..Len(vw) : \E j \in 1..Len(vw[i].entries) :
           /\ vw[i].entries[j].kind = "val"
           /\ \E x \in IdsOfExpr(vw[i].entries[j].e) :
                 /\ x \notin Builtins
                 /\ x \notin { vw[i].entries[m].key : m \in 1..(j - 1) }
                 /\ (i = c \/ x \notin constKeys))
       => rs.o = "error"

\* plain literals of the four data types always load, and mean themselves (last one written wins)
PlainAtom(at) == at.k \in {"str", "int", "bool"}
PlainExpr(e) == Len(e) = 1 /\ Len(e[1]) = 1 /\
                (PlainAtom(e[1][1]) \/ (e[1][1].k = "arr" /\ \A m \in 1..Len(e[1][1].items) :
                     LET it == e[1][1].items[m] IN Len(it) = 1 /\ Len(it[1]) = 1 /\ it[1][1].k \in {"str", "bool"}))
DenoteAtom(at) == CASE at.k = "str" -> VStr(at.s) [] at.k = "int" -> VInt(at.n) [] OTHER -> VBool(at.n = 1)
Denote(e) == IF e[1][1].k = "arr" THEN VArr([m \in 1..Len(e[1][1].items) |-> DenoteAtom(e[1][1].items[m][1][1])])
             ELSE DenoteAtom(e[1][1])
LiteralsLoad(vw, rs) ==
    (\A i \in 1..Len(vw) : \A j \in 1..Len(vw[i].entries) : vw[i].entries[j].kind = "val" /\ PlainExpr(vw[i].entries[j].e))
    => /\ rs.o = "ok"
       /\ \A i \in 1..Len(vw) : vw[i].name # "constants" =>
             \A j \in 1..Len(vw[i].entries) :
                [sec |-> vw[i].name, key |-> vw[i].entries[j].key, v |-> Denote(vw[i].entries[j].e)] \in rs.vals

\* cutting a file in two at a section boundary (and giving both halves on the command line, in order) changes nothing
SplitAt(fs, f, s) == SubSeq(fs, 1, f - 1) \o << SubSeq(fs[f], 1, s), SubSeq(fs[f], s + 1, Len(fs[f])) >> \o SubSeq(fs, f + 1, Len(fs))
SplitLaw(fs, rs) == \A f \in 1..Len(fs) : \A s \in 1..(Len(fs[f]) - 1) :
                       Eval(SplitAt(fs, f, s), DefaultEnv(SplitAt(fs, f, s))) = rs

\* both operators may be grouped either way
\* (failure reasons are not compared; an undecided value is compatible with anything)
Same(v1, v2) == IsOpen(v1) \/ IsOpen(v2) \/ (IF IsErr(v1) THEN IsErr(v2) ELSE v1 = v2)
GroupingIrrelevant(vw, raw, en) ==
    \A i \in 1..Len(vw) : \A j \in 1..Len(vw[i].entries) :
        LET ent == vw[i].entries[j]
            mine == { t \in raw : t.sec = vw[i].name /\ t.key \in { vw[i].entries[m].key : m \in 1..(j - 1) } }
            cs == IF vw[i].name = "constants" THEN {} ELSE { t \in raw : t.sec = "constants" }
            ctx == [consts |-> [k \in { t.key : t \in cs } |-> (CHOOSE t \in cs : t.key = k).v],
                    local |-> [k \in { t.key : t \in mine } |-> (CHOOSE t \in mine : t.key = k).v],
                    dir |-> "/d", root |-> en.root, home |-> en.home]
        IN ent.kind = "val" => Same(EvalExprR(ent.e, ctx), EvalExpr(ent.e, ctx))

Law(name, holds) == holds \/ ~PrintT(<<"LAW VIOLATED", name>>)
Laws ==
    LET fs == Decode(code, Level)
        en == DefaultEnv(fs)
        vw == Compose(fs)
        rs == Eval(fs, en)
        raw == RawVals(vw, en)
    IN /\ Law("InputsWellFormed", InputsWellFormed(fs))
       /\ Law("ComposeAgree", ComposeAgree(fs, vw))
       /\ Law("Total", Total(vw, rs))
       /\ Law("MeaningFromEntries", MeaningFromEntries(fs, rs, raw))
       /\ Law("SectionsIndependent", SectionsIndependent(fs, vw, raw, en))
       /\ Law("ConstantsFirst", ConstantsFirst(fs, rs, en))
       /\ Law("OverridePerKey", OverridePerKey(fs, vw))
       /\ Law("UntouchedSectionKeepsValues", UntouchedSectionKeepsValues(fs, raw, en))
       /\ Law("UseBeforeDefIsError", UseBeforeDefIsError(fs, vw, rs))
       /\ Law("LiteralsLoad", LiteralsLoad(vw, rs))
       /\ Law("SplitLaw", SplitLaw(fs, rs))
       /\ Law("GroupingIrrelevant", GroupingIrrelevant(vw, raw, en))

\* ---- facts (checked once) -------------------------------------------------------------------------------------
DV == { VStr(""), VStr("u"), VStr("/v"), VStr("w/"), VArr(<<>>), VArr(<<VStr("u")>>), VArr(<<VBool(TRUE)>>),
        VInt(7), VBool(FALSE), VErr("x"), VOpen }
ASSUME AddAssociative == \A x, y, z \in DV : Same(Add(Add(x, y), z), Add(x, Add(y, z)))
ASSUME JoinAssociative == \A x, y, z \in DV : Same(Join(Join(x, y), z), Join(x, Join(y, z)))
ASSUME AddOnlyStrArr == \A x, y \in DV : (Add(x, y).t \in {"str", "arr"}) <=> (x.t = y.t /\ x.t \in {"str", "arr"})
ASSUME JoinOnlyStr == \A x, y \in DV : (Join(x, y).t \in {"str", "open"} /\ ~IsOpen(x) /\ ~IsOpen(y)) <=> (x.t = "str" /\ y.t = "str")

\* the documentation's own examples [MF-C]
S(x) == E1(AStr(x))
OneSec(n, es) == << Sec(n, es) >>
Doc1 == << OneSec("constants", << Entry("a", S("Foo")), Entry("b", Plus(AId("a"), AStr("World"))) >>),
           OneSec("constants", << Entry("a", S("Hello")) >>) >>
Doc2a == << OneSec("constants", << Entry("b", Plus(AId("a"), AStr("World"))) >>), OneSec("constants", << Entry("a", S("Hello")) >>) >>
Doc2b == << Doc2a[2], Doc2a[1] >>
Use(fs) == fs \o << OneSec("properties", << Entry("p", E1(AId("b"))) >>) >>
ASSUME DocExample1 == Eval(Use(Doc1), DefaultEnv(Use(Doc1))).vals = {[sec |-> "properties", key |-> "p", v |-> VStr("HelloWorld")]}
ASSUME DocExample2 == Eval(Doc2a, DefaultEnv(Doc2a)).o = "error" /\ Eval(Use(Doc2b), DefaultEnv(Use(Doc2b))).vals = {[sec |-> "properties", key |-> "p", v |-> VStr("HelloWorld")]}
\* [MF-C] first example and unittests/machinefiles/constant{1,2}.txt
Doc3 == << << Sec("constants", << Entry("compiler", S("gcc")) >>) >>,
           << Sec("constants", << Entry("toolchain", S("/toolchain/")),
                                  Entry("common_flags", E1(AArr(<< << <<AStr("--sysroot=")>>, <<AId("toolchain"), AStr("sysroot")>> >> >>))) >>),
              Sec("properties", << Entry("c_args", Plus(AId("common_flags"), AArr(<<S("-DSOMETHING")>>))),
                                   Entry("cpp_args", Plus(AId("c_args"), AArr(<<S("-DSOMETHING_ELSE")>>))),
                                   Entry("rel_to_src", Slash(AStr("@GLOBAL_SOURCE_ROOT@"), AStr("tool"))),
                                   Entry("rel_to_file", Slash(AStr("@DIRNAME@"), AStr("tool"))),
                                   Entry("no_escaping", Slash(AStr("@@DIRNAME@@"), AStr("tool"))) >>),
              Sec("binaries", << Entry("c", Slash(AId("toolchain"), AId("compiler"))) >>) >> >>
ASSUME PinnedExample ==
    Eval(Doc3, [dirs |-> <<"/m", "/m">>, root |-> "/b", home |-> "/h"]) =
      [o |-> "ok", openkeys |-> {},
       vals |-> { [sec |-> "binaries", key |-> "c", v |-> VStr("/toolchain/gcc")],
                  [sec |-> "properties", key |-> "c_args", v |-> VArr(<<VStr("--sysroot=/toolchain/sysroot"), VStr("-DSOMETHING")>>)],
                  [sec |-> "properties", key |-> "cpp_args", v |-> VArr(<<VStr("--sysroot=/toolchain/sysroot"), VStr("-DSOMETHING"), VStr("-DSOMETHING_ELSE")>>)],
                  [sec |-> "properties", key |-> "rel_to_src", v |-> VStr("/b/tool")],
                  [sec |-> "properties", key |-> "rel_to_file", v |-> VStr("/m/tool")],
                  [sec |-> "properties", key |-> "no_escaping", v |-> VStr("@/m@/tool")] }]

\* ---- export of the input space (binding A) ----------------------------------------------------------------------
EmitCode == PrintT(code)
EmitAlphabet == TLCGet("stats").diameter >= 0 /\
                JsonSerialize("alphabet.json", <<[secs |-> SecNames, keys |-> KeyNames, forms |-> Forms(Level), level |-> Level]>>)
=============================================================================
