-------------------------- MODULE TraceMachineFile --------------------------
(***************************************************************************)
(* Trace validation for X01.  Every case is one execution of the real code *)
(* on a list of machine files:                                             *)
(*   m = "A"  a file list of the bounded model, given by its code (decoded *)
(*            here with the same alphabet the model enumerated), rendered  *)
(*            to text by the harness and parsed by the real                *)
(*            `parse_machine_files`;                                       *)
(*   m = "B"  a generated file list given in full (abstract syntax as      *)
(*            JSON), same observation;                                     *)
(*   m = "C"  a real `meson setup --native-file .. [--cross-file ..]` of a *)
(*            probe project that prints what get_external_property(),      *)
(*            get_option(), find_program() and host_machine report.        *)
(* Observation: o = "ok" with r = the {section, key, value} triples the    *)
(* parser returned ([constants] left out), "error" (a MesonException / a   *)
(* failed setup with an error message), or "crash" (any other exception /  *)
(* "Unhandled python exception").  The case is accepted iff that is what   *)
(* MachineFile!Eval prescribes.  One initial state per case, the verdict   *)
(* is computed in the single step.                                         *)
(***************************************************************************)
EXTENDS MachineFileAlphabet, Json, IOUtils

Cases == JsonDeserialize(IOEnv.TRACE_FILE)

VARIABLES i, done
vars == <<i, done>>

NoVal == VErr("-")
Verdict(c, clause, sec, key, exp, got) ==
    [id |-> c.id, clause |-> clause, sec |-> sec, key |-> key, expected |-> exp, got |-> got]
Ok(c) == Verdict(c, "ok", "", "", NoVal, NoVal)

SeqToSet(q) == { q[j] : j \in 1..Len(q) }
Keyed(S, sec, key) == { t \in S : t.sec = sec /\ t.key = key }
ValOf(S, sec, key) == IF Keyed(S, sec, key) = {} THEN NoVal ELSE (CHOOSE t \in Keyed(S, sec, key) : TRUE).v

\* ---- the parser (A, B) --------------------------------------------------------------------------------------
JudgeParse(c, files) ==
    LET exp == Eval(files, c.env)
        got == SeqToSet(c.r)
        loose == <<"*", "*">> \in exp.openkeys
        \* triples the tool returned although the rule book yields something else for that key (or nothing)
        wrong == { t \in got : t \notin exp.vals /\ <<t.sec, t.key>> \notin exp.openkeys }
        \* decided triples the tool did not return
        missing == { t \in exp.vals : t \notin got }
    IN IF c.o = "crash"
       THEN Verdict(c, IF exp.o = "error" THEN "CrashInsteadOfError" ELSE IF exp.o = "ok" THEN "CrashOnValidInput" ELSE "CrashOnUndecidedInput",
                    "", c.x, NoVal, NoVal)
       ELSE IF exp.o = "error"
            THEN (IF c.o = "error" THEN Ok(c) ELSE Verdict(c, "AcceptedInvalidInput", "", "", NoVal, NoVal))
       ELSE IF c.o = "error"
            THEN (IF exp.o = "open" THEN Ok(c) ELSE Verdict(c, "RejectedValidInput", "", "", NoVal, NoVal))
       ELSE IF loose THEN Ok(c)
       ELSE IF missing # {}
            THEN LET t == CHOOSE t \in missing : TRUE IN Verdict(c, "Value", t.sec, t.key, t.v, ValOf(got, t.sec, t.key))
       ELSE IF wrong # {}
            THEN LET t == CHOOSE t \in wrong : TRUE IN Verdict(c, "Value", t.sec, t.key, ValOf(exp.vals, t.sec, t.key), t.v)
       ELSE Ok(c)

\* ---- the command line (C) -------------------------------------------------------------------------------------
\* [MF] Binaries: "can be used internally by Meson, or by the find_program function"; Properties: "random key value
\* pairs accessed using the meson.get_external_property()"; "Project specific options" / "Meson built-in options";
\* Cross-compilation.md [host_machine].  A probe names the section and key it reads and what it reports when the
\* machine files say nothing (dflt).  Native files describe the build machine - and the host machine too when there
\* is no cross file; cross files describe the host machine; in a cross build project options come from the cross
\* file only ("if doing a cross build the options from the native file will be ignored").
ProgPath(v) == IF v.t = "arr" THEN (IF Len(v.a) = 0 THEN NoVal ELSE v.a[1]) ELSE v
JudgeCli(c) ==
    LET expN == Eval(c.native, c.envn)
        expC == Eval(c.cross, c.envc)
        isCross == c.cross # <<>>
        src(p) == IF p.machine = "build" \/ ~isCross THEN expN ELSE expC
        want(p) == LET v == ValOf(src(p).vals, p.sec, p.key)
                   IN IF v = NoVal THEN p.dflt ELSE IF p.kind = "prog" THEN ProgPath(v) ELSE v
        bad == { j \in 1..Len(c.probes) : want(c.probes[j]) # c.probes[j].got }
    IN IF c.o = "crash" THEN Verdict(c, "CliCrash", "", c.x, NoVal, NoVal)
       ELSE IF expN.o = "open" \/ expC.o = "open" THEN Ok(c)
       ELSE IF expN.o = "error" \/ expC.o = "error"
            THEN (IF c.o = "error" THEN Ok(c) ELSE Verdict(c, "CliAcceptedInvalidInput", "", "", NoVal, NoVal))
       ELSE IF c.o = "error" THEN Verdict(c, "CliRejectedValidInput", "", c.x, NoVal, NoVal)
       ELSE IF bad # {}
            THEN LET p == c.probes[CHOOSE j \in bad : \A k \in bad : j <= k]
                 IN Verdict(c, "Wiring:" \o p.kind \o ":" \o p.machine, p.sec, p.key, want(p), p.got)
       ELSE Ok(c)

Judge(c) == IF c.m = "A" THEN JudgeParse(c, Decode(c.code, c.level))
            ELSE IF c.m = "B" THEN JudgeParse(c, c.files)
            ELSE JudgeCli(c)

Init == i \in 1..Len(Cases) /\ done = FALSE
Next == /\ ~done
        /\ done' = TRUE
        /\ i' = i
        /\ LET v == Judge(Cases[i]) IN v.clause = "ok" \/ PrintT(ToJson(v))
Spec == Init /\ [][Next]_vars
=============================================================================
