------------------------------ MODULE MCompile ------------------------------
(***************************************************************************)
(* X03 - `meson compile`: which target a TARGET expression designates and   *)
(* which command is handed to the backend.  Rule book written from          *)
(*                                                                         *)
(*  [CMD]  docs/markdown/Commands.md, section "compile" ("Targets",         *)
(*         "Backend specific arguments", "Examples")                        *)
(*  [R055] docs/markdown/Release-notes-for-0.55.0.md  (targets, *-args)      *)
(*  [R054] docs/markdown/Release-notes-for-0.54.0.md  (-j, -l, --clean, -v)  *)
(*  [R13]  docs/markdown/Release-notes-for-1.3.0.md   (SUFFIX)               *)
(*  [IDE]  docs/markdown/IDE-integration.md (shape of intro-targets.json)    *)
(*  [T1]   unittests/allplatformstests.py test_meson_compile                *)
(*  [T2]   unittests/allplatformstests.py test_executable_names             *)
(*                                                                         *)
(* and not from mesonbuild/mcompile.py.                                      *)
(*                                                                         *)
(* Data.  A target of a build directory is a record                          *)
(*   [n  : name as the sequence of its dot separated pieces (<<"gen","h">>   *)
(*         for custom_target('gen.h')),                                      *)
(*    s  : the name_suffix: given in meson.build, "" when none was given,    *)
(*    ty : type in the spelling of [CMD] (`static_library`; [IDE] spells it  *)
(*         `static library`),                                                *)
(*    d  : directory of the defining meson.build relative to the root        *)
(*         meson.build, "." for the root ([CMD]: "relative path for a target *)
(*         specified in the root meson.build is ./"),                        *)
(*    od : directory of its first output relative to the build directory,    *)
(*    o  : its output files relative to the build directory ([IDE] filename),*)
(*    id : its id].                                                          *)
(* A TARGET expression `[PATH/]NAME.SUFFIX[:TYPE]` is a record               *)
(*   [p : PATH normalised like d, "" when omitted, g : the dot separated     *)
(*    pieces of the NAME.SUFFIX part, ty : TYPE, "" when omitted].           *)
(* The text `a.b` can be read as NAME `a.b` without SUFFIX or as NAME `a`    *)
(* with SUFFIX `b`; [CMD] does not say which, so a target matches when one   *)
(* of the readings matches.                                                  *)
(***************************************************************************)
EXTENDS Integers, Sequences, FiniteSets, TLC

\* [CMD] "TYPE: type of the target. Can be one of the following: ..."
DocTypes == {"executable", "static_library", "shared_library", "shared_module", "custom", "alias", "run", "jar"}
\* [T1] "run_target": `meson compile py3hi` runs the run target; ninja knows run and alias targets by their name.
RunLike == {"run", "alias"}

RECURSIVE JoinDots(_)
JoinDots(g) == IF Len(g) = 0 THEN "" ELSE IF Len(g) = 1 THEN g[1] ELSE g[1] \o "." \o JoinDots(Tail(g))

\* NAME.SUFFIX of a target as it has to be written in full
Q(t) == IF t.s = "" THEN t.n ELSE Append(t.n, t.s)
\* the fully qualified expression of a target
FQ(t) == [p |-> t.d, g |-> Q(t), ty |-> t.ty]

(***************************************************************************)
(* Matching.  [CMD]: "PATH, SUFFIX, and TYPE can all be omitted if the       *)
(* resulting TARGET can be used to uniquely identify the target"; [R13]:     *)
(* "[SUFFIX] is optional and TARGET_NAME remains sufficient if it uniquely   *)
(* resolves to one single target".  So an omitted part matches anything, a   *)
(* given part must be equal.                                                 *)
(***************************************************************************)
WildName(e, t) == e.g = t.n                \* text is the NAME, SUFFIX omitted
FullName(e, t) == e.g = Q(t)               \* text is NAME.SUFFIX (or NAME of a target without name_suffix)
NameMatch(e, t) == WildName(e, t) \/ FullName(e, t)
PathMatch(e, t) == e.p = "" \/ e.p = t.d
TypeMatch(e, t) == e.ty = "" \/ e.ty = t.ty
Match(e, t) == NameMatch(e, t) /\ PathMatch(e, t) /\ TypeMatch(e, t)

M(e, T) == { t \in T : Match(e, t) }

(***************************************************************************)
(* [T2] (since 1.3.0 a directory may hold executable('foo') next to          *)
(* executable('foo', name_suffix: 'bin')): `./foo` must designate one target *)
(* and `./foo.bin` the other.  Hence among targets that differ *only* in     *)
(* their name_suffix (same directory, same type, same NAME) the text NAME    *)
(* without SUFFIX designates the one without name_suffix, when there is one. *)
(* This is the smallest exception to "omitted = anything" that [T2] needs,   *)
(* and the only one under which adding PATH or TYPE can never move a         *)
(* resolved expression to a different target (law NarrowByPathOrType).       *)
(***************************************************************************)
Shadowed(e, t, C) == /\ t.s # "" /\ WildName(e, t) /\ ~FullName(e, t)
                     /\ \E u \in C : u.n = t.n /\ u.s = "" /\ u.d = t.d /\ u.ty = t.ty
Sel(e, T) == LET C == M(e, T) IN { t \in C : ~Shadowed(e, t, C) }

Ids(S) == { t.id : t \in S }

\* why nothing is found - informational (the command reports one message for all of them)
Why(e, T) == IF ~\E t \in T : NameMatch(e, t) THEN "name"
             ELSE IF ~\E t \in T : NameMatch(e, t) /\ TypeMatch(e, t) THEN "type"
             ELSE "path"

Out(k, ids, why) == [k |-> k, ids |-> ids, why |-> why]

\* The resolution result, declaratively.
Outcome(e, T) ==
    IF e.ty # "" /\ e.ty \notin DocTypes THEN Out("badtype", {}, "")
    ELSE LET S == Sel(e, T) IN
         IF S = {} THEN Out("notfound", {}, Why(e, T))
         ELSE IF Cardinality(S) = 1 THEN Out("ok", Ids(S), "")
         ELSE Out("ambiguous", Ids(S), "")

(***************************************************************************)
(* [CMD] read literally also lets the bare NAME (nothing but the name) be    *)
(* ambiguous between `foo` and `foo.bin`; [T2] only pins the form with PATH. *)
(* Both results are permitted for that one class.                            *)
(***************************************************************************)
\* [CMD] "PATH: path to the target relative to the root meson.build file" is the directory of the defining
\* meson.build ("a target specified in the root meson.build is ./").  Read as "where the target file is" it is the
\* directory of the output; the two differ only with build_subdir: (since 1.10).  The defining directory decides;
\* when nothing is found that way, the answer for the output directory is permitted as well.
ByOutDir(T) == { [t EXCEPT !.d = t.od] : t \in T }

Permitted(e, T) ==
    {Outcome(e, T)} \cup
    (IF e.p = "" /\ e.ty = "" /\ M(e, T) # Sel(e, T) THEN {Out("ambiguous", Ids(M(e, T)), "")} ELSE {}) \cup
    (IF e.p # "" /\ Outcome(e, T).k = "notfound" THEN {Outcome(e, ByOutDir(T))} ELSE {})

(***************************************************************************)
(* Second formulation, shaped like a lookup over the introspection *list*    *)
(* (order matters to an implementation, must not matter to the result):      *)
(* index by name, look the text up as NAME and as NAME.SUFFIX, filter by     *)
(* PATH and TYPE in list order, drop shadowed entries, decide.               *)
(***************************************************************************)
Sieve(L, P(_)) == SelectSeq(L, P)
Elems(L) == { L[i] : i \in 1..Len(L) }

ResolveList(e, L) ==
    IF e.ty # "" /\ e.ty \notin DocTypes THEN Out("badtype", {}, "")
    ELSE
    LET names  == { L[i].n : i \in 1..Len(L) }
        byName == [nm \in names |-> Sieve(L, LAMBDA t : t.n = nm)]
        whole  == IF e.g \in names THEN byName[e.g] ELSE <<>>                       \* reading NAME
        front  == IF Len(e.g) > 1 THEN SubSeq(e.g, 1, Len(e.g) - 1) ELSE <<>>
        split  == IF Len(e.g) > 1 /\ front \in names                               \* reading NAME.SUFFIX
                  THEN Sieve(byName[front], LAMBDA t : t.s = e.g[Len(e.g)]) ELSE <<>>
        cand   == Sieve(whole \o split, LAMBDA t : (e.p = "" \/ e.p = t.d) /\ (e.ty = "" \/ e.ty = t.ty))
        plain  == Sieve(cand, LAMBDA t : t.s = "" /\ t.n = e.g)
        keep   == Sieve(cand, LAMBDA t : ~(/\ t.s # "" /\ t.n = e.g
                                          /\ \E j \in 1..Len(plain) : plain[j].d = t.d /\ plain[j].ty = t.ty))
    IN IF Len(keep) = 0 THEN Out("notfound", {}, Why(e, Elems(L)))
       ELSE IF Cardinality(Elems(keep)) = 1 THEN Out("ok", {keep[1].id}, "")
       ELSE Out("ambiguous", Ids(Elems(keep)), "")

(***************************************************************************)
(* What the ninja backend is asked to build for a resolved target:           *)
(* its output files relative to the build directory ([IDE] `filename`,       *)
(* [T1] checks that exactly the named libraries appear), a run/alias target  *)
(* by its name ([T1] py3hi; Run-targets.md "meson compile inspector").       *)
(***************************************************************************)
Operands(t) == IF t.ty \in RunLike THEN <<JoinDots(t.n)>> ELSE t.o

\* the target of an expression that resolves (by Outcome, or by the permitted reading of PATH when Outcome finds nothing)
TargetOf(e, T) == CHOOSE t \in T : \E o \in Permitted(e, T) : o.k = "ok" /\ t.id \in o.ids

RECURSIVE OperandsOfAll(_, _)
OperandsOfAll(X, T) == IF X = <<>> THEN <<>> ELSE Operands(TargetOf(Head(X), T)) \o OperandsOfAll(Tail(X), T)

(***************************************************************************)
(* The command line.  Flags: [clean, j : jobs, l10 : load average in tenths, *)
(* v : verbose, na : the --ninja-args list].                                 *)
(*  [R054] "-j or -l value < 1 lets the backend decide ... for ninja it      *)
(*         means passing no arguments"; "meson compile -C builddir -j3 is    *)
(*         the same as ninja -C builddir -j3"; "--clean switch to clean the  *)
(*         project"; "--verbose ... more verbose compilation logs"           *)
(*  [CMD]  "--ninja-args=-n,-d,explain would add -n, -d and explain          *)
(*         arguments to ninja invocation"                                    *)
(*  usage: TARGET and --clean exclude each other.                            *)
(* The documents do not order the options; every order of the option groups  *)
(* is accepted, but the build operands (targets, `clean`) come after all     *)
(* options and option arguments (POSIX utility syntax; samu stops option     *)
(* parsing at the first operand).  ninja must work in the build directory:   *)
(* either it is started there or it gets `-C <builddir>`.                    *)
(***************************************************************************)
LoadTokens(l10) == LET i == l10 \div 10   d == l10 % 10 IN
                   IF d = 0 THEN {ToString(i), ToString(i) \o ".0"} ELSE {ToString(i) \o "." \o ToString(d)}

JobsGroup(f) == IF f.j >= 1 THEN {<<"-j", ToString(f.j)>>} ELSE {<<>>}
LoadGroup(f) == IF f.l10 >= 10 THEN { <<"-l", x>> : x \in LoadTokens(f.l10) } ELSE {<<>>}
VerbGroup(f) == IF f.v THEN {<<"-v">>} ELSE {<<>>}
DirGroup(cwd) == IF cwd = "@B" THEN {<<>>, <<"-C", "@B">>} ELSE {<<"-C", "@B">>}

RECURSIVE Flat(_)
Flat(ss) == IF ss = <<>> THEN <<>> ELSE Head(ss) \o Flat(Tail(ss))

\* all permitted option parts
OptionParts(f, cwd) ==
    { Flat([i \in 1..5 |-> <<dg, jg, lg, vg, f.na>>[pi[i]]]) :
        dg \in DirGroup(cwd), jg \in JobsGroup(f), lg \in LoadGroup(f), vg \in VerbGroup(f),
        pi \in Permutations(1..5) }

Failing(X, T) == { i \in 1..Len(X) : Outcome(X[i], T).k # "ok" }
StrictlyFailing(X, T) == { i \in 1..Len(X) : \A o \in Permitted(X[i], T) : o.k # "ok" }

\* the operand part when every expression resolves
OperandPart(f, X, T) == OperandsOfAll(X, T) \o (IF f.clean THEN <<"clean">> ELSE <<>>)

\* Plan: "usage" = TARGET together with --clean, "resolve" = some expression does not resolve, "run" = ninja runs
PlanKind(f, X, T) == IF f.clean /\ X # <<>> THEN "usage"
                     ELSE IF Failing(X, T) # {} THEN "resolve" ELSE "run"

ArgvPermitted(argv, cwd, f, X, T) ==
    LET ops == OperandPart(f, X, T)
        n   == Len(argv) - Len(ops)
    IN /\ n >= 0
       /\ SubSeq(argv, n + 1, Len(argv)) = ops
       /\ SubSeq(argv, 1, n) \in OptionParts(f, cwd)

(***************************************************************************)
(* msbuild (vs backend), as far as the documents describe it:                *)
(*  [R054] "meson compile -C builddir -j0 is the same as msbuild             *)
(*         builddir/my.sln -m"; "-l does nothing with msbuild"; "--verbose:  *)
(*         for VS backend it means that logs will be less verbose by default *)
(*         (without --verbose option)"                                       *)
(*  [R055] --vs-args are added to the msbuild invocation; [T1] passes        *)
(*         --vs-args=-t:<name>:Clean                                         *)
(*  Vs-External.md: `meson compile --clean` is the clean command             *)
(* Only these clauses are specified (the clause names are the verdicts):     *)
(*  VsSolution: msbuild is given the solution of the build directory first;  *)
(*  VsJobs: exactly one job switch, -m[:N] / -maxCpuCount[:N], with N iff    *)
(*          the value is >= 1;                                               *)
(*  VsLoad: the load average does not appear;                                *)
(*  VsQuiet: a minimal/quiet verbosity switch iff not --verbose;             *)
(*  VsArgs: the --vs-args, in order and together;                            *)
(*  VsTargets: one -target: switch per expression, different targets under   *)
(*          different names (how msbuild names a project is Microsoft's      *)
(*          documentation, not meson's), VsClean: the Clean target iff       *)
(*          --clean.                                                         *)
(* run/alias targets are not generated for this backend (their treatment is  *)
(* not documented).                                                          *)
(***************************************************************************)
HasPrefix(s, p) == Len(s) >= Len(p) /\ SubSeq(s, 1, Len(p)) = p
VsTargetPrefixes == {"-target:", "-t:", "/target:", "/t:"}
IsVsTarget(s) == \E p \in VsTargetPrefixes : HasPrefix(s, p)
VsTargetName(s) == LET p == CHOOSE p \in VsTargetPrefixes : HasPrefix(s, p) IN SubSeq(s, Len(p) + 1, Len(s))
VsJobSwitches == {"-m", "/m", "-maxCpuCount", "/maxCpuCount", "-maxcpucount", "/maxcpucount"}
IsVsJobs(s) == s \in VsJobSwitches \/ \E w \in VsJobSwitches : HasPrefix(s, w \o ":")
VsJobsOK(s, j) == IF j >= 1 THEN \E w \in VsJobSwitches : s = w \o ":" \o ToString(j) ELSE s \in VsJobSwitches
VsQuietTokens == {"-verbosity:minimal", "-verbosity:quiet", "-verbosity:m", "-verbosity:q", "-v:m", "-v:q", "-v:minimal", "-v:quiet",
                  "/verbosity:minimal", "/verbosity:quiet", "/v:m", "/v:q", "/v:minimal", "/v:quiet"}
Contains(a, b) == b = <<>> \/ \E k \in 1..(Len(a) - Len(b) + 1) : SubSeq(a, k, k + Len(b) - 1) = b

\* the first clause a msbuild command line violates, "ok" when none; every expression of X resolves
VsClause(argv, f, X, T) ==
    IF ~(Len(argv) >= 2 /\ argv[1] = "msbuild" /\ argv[2] = "@SLN") THEN "VsSolution"
    ELSE
    LET rest  == SubSeq(argv, 3, Len(argv))
        jobs  == SelectSeq(rest, IsVsJobs)
        names == LET tt == SelectSeq(rest, IsVsTarget) IN [k \in 1..Len(tt) |-> VsTargetName(tt[k])]
        built == SelectSeq(names, LAMBDA n : n # "Clean")
        want  == { TargetOf(X[k], T).id : k \in 1..Len(X) }
    IN IF ~(Len(jobs) = 1 /\ VsJobsOK(jobs[1], f.j)) THEN "VsJobs"
       ELSE IF f.l10 # 0 /\ \E k \in 1..Len(rest) : rest[k] \in LoadTokens(IF f.l10 < 0 THEN 0 - f.l10 ELSE f.l10) THEN "VsLoad"
       ELSE IF (\E k \in 1..Len(rest) : rest[k] \in VsQuietTokens) = f.v THEN "VsQuiet"
       ELSE IF ~Contains(rest, f.na) THEN "VsArgs"
       ELSE IF Cardinality({ k \in 1..Len(names) : names[k] = "Clean" }) # (IF f.clean THEN 1 ELSE 0) THEN "VsClean"
       ELSE IF ~(Len(built) = Len(X) /\ Cardinality(Elems(built)) = Cardinality(want)) THEN "VsTargets"
       ELSE "ok"
=============================================================================
