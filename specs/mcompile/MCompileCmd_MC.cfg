SPECIFICATION Spec
CONSTANTS MaxExprs = 1
INVARIANT TypeOK
INVARIANT CleanExcludesTargets
INVARIANT RunsIffAllResolve
INVARIANT NinjaUnderstands
INVARIANT SomeArgv
INVARIANT VsSatisfiable
CHECK_DEADLOCK FALSE
POSTCONDITION Export
