--------------------------- MODULE MCompileCmd_MC ---------------------------
(***************************************************************************)
(* Bounded exhaustive model of the command line `meson compile` hands to    *)
(* ninja.  A state with ph = "flags" is one invocation (flags f, expressions *)
(* X, cwd: where it is started) against a fixed build directory T0 whose    *)
(* targets need no                                                           *)
(* compiler (the harness configures exactly this project with the real      *)
(* `meson setup`).  The laws say what a POSIX reading of every permitted    *)
(* command line (NinjaReads: options with their arguments up to the first   *)
(* operand, then operands) gives ninja: the requested jobs / load / verbose *)
(* / extra arguments, the build directory, and as operands exactly the      *)
(* outputs of the designated targets (or `clean`) - whatever order the      *)
(* option groups are in.  The invocation space is exported (cmdmodel.json)  *)
(* and replayed through mesonbuild.mcompile.run.                            *)
(***************************************************************************)
EXTENDS MCompile, Json, IOUtils, SequencesExt
CONSTANT MaxExprs

VARIABLES f, X, cwd, ph
vars == <<f, X, cwd, ph>>

DirPrefix(d) == IF d = "." THEN "" ELSE d \o "/"
Cus(n, d, outs) == [n |-> n, s |-> "", ty |-> "custom", d |-> d, od |-> d,
                    o |-> [i \in 1..Len(outs) |-> DirPrefix(d) \o outs[i]], id |-> d \o ":" \o JoinDots(n) \o ":custom"]
Rn(n, d, ty) == [n |-> n, s |-> "", ty |-> ty, d |-> d, od |-> d, o |-> <<DirPrefix(d) \o JoinDots(n)>>,
                 id |-> d \o ":" \o JoinDots(n) \o ":" \o ty]
T0 == { Cus(<<"foo">>, ".", <<"foo.dat", "foo.idx">>), Cus(<<"foo">>, "sub", <<"foo.dat">>),
        Cus(<<"gen", "h">>, "sub", <<"gen.h">>), Rn(<<"rt">>, "sub", "run"), Rn(<<"bar">>, ".", "alias") }

E(p, g, ty) == [p |-> p, g |-> g, ty |-> ty]
ExprsC == { E(".", <<"foo">>, ""), E("sub", <<"foo">>, "custom"), E("", <<"foo">>, ""), E("", <<"gen", "h">>, ""),
            E("", <<"rt">>, ""), E("", <<"bar">>, "alias"), E("", <<"nosuch">>, ""), E("", <<"rt">>, "bogus") }

FlagSpace == [clean : BOOLEAN, j : {-1, 0, 1, 3}, l10 : {-10, 0, 10, 25}, v : BOOLEAN,
              na : {<<>>, <<"-n">>, <<"-d", "explain">>, <<"-k", "0", "-n">>}]

\* two levels so that TLC's workers share the space: the initial states choose the expressions, one step the flags
F0 == [clean |-> FALSE, j |-> 0, l10 |-> 0, v |-> FALSE, na |-> <<>>]
Init == /\ ph = "exprs" /\ f = F0 /\ cwd = "@B"
        /\ X \in UNION { [1..k -> ExprsC] : k \in 0..MaxExprs }
Next == /\ ph = "exprs" /\ ph' = "flags" /\ X' = X
        /\ f' \in FlagSpace /\ cwd' \in {"@B", "@O"}
Spec == Init /\ [][Next]_vars

\* all permitted command lines of the state
Argvs == IF PlanKind(f, X, T0) = "run" THEN { op \o OperandPart(f, X, T0) : op \in OptionParts(f, cwd) } ELSE {}

\* ninja's reading of a command line (ninja(1): -C DIR, -j N, -l N, -k N, -d MODE take an argument; -v, -n do not)
WithArg == {"-C", "-j", "-l", "-k", "-d"}
NoArg == {"-v", "-n"}
RECURSIVE NinjaReads(_, _, _)
NinjaReads(a, i, acc) ==
    IF i > Len(a) THEN acc
    ELSE IF a[i] \in WithArg /\ i < Len(a) THEN NinjaReads(a, i + 2, [acc EXCEPT !.opt = Append(@, <<a[i], a[i + 1]>>)])
    ELSE IF a[i] \in NoArg THEN NinjaReads(a, i + 1, [acc EXCEPT !.opt = Append(@, <<a[i]>>)])
    ELSE [acc EXCEPT !.operands = SubSeq(a, i, Len(a))]
Reads(a) == NinjaReads(a, 1, [opt |-> <<>>, operands |-> <<>>])
Has(r, o) == \E k \in 1..Len(r.opt) : r.opt[k][1] = o
ArgOf(r, o) == r.opt[CHOOSE k \in 1..Len(r.opt) : r.opt[k][1] = o][2]

TypeOK == PlanKind(f, X, T0) \in {"usage", "resolve", "run"}

\* TARGET together with --clean is refused, whatever the targets are
CleanExcludesTargets == (f.clean /\ X # <<>>) <=> PlanKind(f, X, T0) = "usage"

\* something runs iff every expression designates exactly one target
RunsIffAllResolve == PlanKind(f, X, T0) = "run" <=> (~(f.clean /\ X # <<>>) /\ \A i \in 1..Len(X) : Outcome(X[i], T0).k = "ok")

NinjaUnderstands ==
    \A a \in Argvs : LET r == Reads(a) IN
        /\ r.operands = OperandPart(f, X, T0)                                   \* operands after all options
        /\ (Has(r, "-j") <=> f.j >= 1) /\ (f.j >= 1 => ArgOf(r, "-j") = ToString(f.j))
        /\ (Has(r, "-l") <=> f.l10 >= 10) /\ (f.l10 >= 10 => ArgOf(r, "-l") \in LoadTokens(f.l10))
        /\ (Has(r, "-v") <=> f.v)
        /\ (Has(r, "-n") <=> "-n" \in Elems(f.na))
        /\ (cwd # "@B" => Has(r, "-C")) /\ (Has(r, "-C") => ArgOf(r, "-C") = "@B")
        /\ ("clean" \in Elems(r.operands) <=> f.clean)
        /\ (X = <<>> /\ ~f.clean => r.operands = <<>>)                           \* no TARGET: the default target

SomeArgv == PlanKind(f, X, T0) = "run" => Argvs # {}

\* the msbuild clauses are satisfiable: the obvious command line (solution, -maxCpuCount[:N], -verbosity:minimal,
\* the extra arguments, one -target:<id> per target, -target:Clean) passes all of them
VsCanonical ==
    <<"msbuild", "@SLN">> \o <<IF f.j >= 1 THEN "-maxCpuCount:" \o ToString(f.j) ELSE "-maxCpuCount">>
    \o (IF f.v THEN <<>> ELSE <<"-verbosity:minimal">>) \o f.na
    \o [k \in 1..Len(X) |-> "-target:" \o TargetOf(X[k], T0).id] \o (IF f.clean THEN <<"-target:Clean">> ELSE <<>>)
VsSatisfiable == (\A k \in 1..Len(X) : Outcome(X[k], T0).k = "ok") => VsClause(VsCanonical, f, X, T0) = "ok"

Export ==
    /\ TLCGet("stats").diameter >= 0
    /\ JsonSerialize("cmdmodel.json",
          [targets |-> SetToSeq(T0), exprs |-> SetToSeq(ExprsC), flags |-> SetToSeq(FlagSpace),
           maxexprs |-> MaxExprs])
=============================================================================
