SPECIFICATION Spec
CONSTANTS MaxTargets = 3
INVARIANT TypeOK
INVARIANT OrderIndependent
INVARIANT AmbiguousIff
INVARIANT SuggestionsResolve
INVARIANT FullyQualifiedAtMostOne
INVARIANT Addressable
INVARIANT PermittedSane
INVARIANT OperandsDefined
PROPERTY NarrowByPathOrType
PROPERTY AddingSuffix
PROPERTY WidenKeepsCandidate
CHECK_DEADLOCK FALSE
POSTCONDITION Export
