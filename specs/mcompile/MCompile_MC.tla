----------------------------- MODULE MCompile_MC -----------------------------
(***************************************************************************)
(* Bounded exhaustive model of target resolution.                            *)
(* A state is (T, e): a realizable set of at most MaxTargets targets out of   *)
(* a universe with deliberately clashing names / suffixes / directories /    *)
(* types, and one TARGET expression.  Initial states: every T with every     *)
(* bare NAME[.SUFFIX] text; steps add PATH, TYPE or SUFFIX to the expression.*)
(* The laws are invariants of the states and properties of the steps.        *)
(* The universe, the realizable sets and the expression space are exported   *)
(* (model.json) so that the harness replays exactly this space through       *)
(* mesonbuild.mcompile.                                                      *)
(***************************************************************************)
EXTENDS MCompile, Json, IOUtils, SequencesExt, FiniteSetsExt
CONSTANT MaxTargets

VARIABLES T, e
vars == <<T, e>>

Dirs == {".", "sub"}
DirPrefix(d) == IF d = "." THEN "" ELSE d \o "/"

OutNames(n, s, ty) ==
    CASE ty = "executable"     -> <<JoinDots(IF s = "" THEN n ELSE Append(n, s))>>
      [] ty = "static_library" -> <<"lib" \o JoinDots(n) \o "." \o (IF s = "" THEN "a" ELSE s)>>
      [] ty = "custom"         -> IF Len(n) > 1 THEN <<JoinDots(n)>> ELSE <<JoinDots(n) \o ".dat", JoinDots(n) \o ".idx">>
      [] OTHER                 -> <<JoinDots(n)>>

Tgt(n, s, ty, d) ==
    LET on == OutNames(n, s, ty) IN
    [n |-> n, s |-> s, ty |-> ty, d |-> d, od |-> d,
     o |-> [i \in 1..Len(on) |-> DirPrefix(d) \o on[i]],
     id |-> d \o ":" \o JoinDots(IF s = "" THEN n ELSE Append(n, s)) \o ":" \o ty]

Universe ==
    { Tgt(<<"foo">>, s, "executable", d) : s \in {"", "bin", "x2"}, d \in Dirs } \cup
    { Tgt(<<"foo">>, s, "static_library", d) : s \in {"", "bin"}, d \in Dirs } \cup
    { Tgt(<<"foo">>, "", ty, d) : ty \in {"custom", "run"}, d \in Dirs } \cup
    { Tgt(<<"gen", "h">>, "", "custom", d) : d \in Dirs } \cup
    { Tgt(<<"bar">>, "", ty, d) : ty \in {"executable", "alias"}, d \in Dirs }

\* what meson accepts in one build directory
IdSuffix(ty) == IF ty \in RunLike THEN "run" ELSE ty          \* run and alias targets share one id namespace
IdKey(t) == <<t.d, Q(t), IdSuffix(t.ty)>>
NinjaNames(t) == IF t.ty \in RunLike THEN {JoinDots(t.n)} ELSE Elems(t.o)
Realizable(S) ==
    /\ \A t, u \in S : t # u => /\ IdKey(t) # IdKey(u)                       \* ids are unique
                                /\ NinjaNames(t) \cap NinjaNames(u) = {}     \* "Multiple producers for Ninja target"
                                /\ ~(u.s # "" /\ t.n = Q(u))                 \* not generated: the two readings of `a.b`
                                                                              \* designating two different targets

Sets == { S \in UNION { kSubset(k, Universe) : k \in 0..MaxTargets } : Realizable(S) }

PathsE == {"", ".", "sub", "zz"}
SegsE  == {<<"foo">>, <<"foo", "bin">>, <<"foo", "x2">>, <<"foo", "a">>, <<"gen", "h">>, <<"gen">>, <<"bar">>, <<"nosuch">>}
TypesE == {"", "executable", "static_library", "custom", "run", "alias", "jar", "bogus"}
Exprs  == { [p |-> p, g |-> g, ty |-> ty] : p \in PathsE, g \in SegsE, ty \in TypesE }

Init == T \in Sets /\ e \in { x \in Exprs : x.p = "" /\ x.ty = "" }
AddPath   == e.p = "" /\ \E p \in PathsE \ {""} : e' = [e EXCEPT !.p = p]
AddType   == e.ty = "" /\ \E ty \in TypesE \ {""} : e' = [e EXCEPT !.ty = ty]
AddSuffix == Len(e.g) = 1 /\ \E g \in SegsE : Len(g) = 2 /\ g[1] = e.g[1] /\ e' = [e EXCEPT !.g = g]
Next == (AddPath \/ AddType \/ AddSuffix) /\ UNCHANGED T
Spec == Init /\ [][Next]_vars

-----------------------------------------------------------------------------
\* Laws

TypeOK == T \in Sets /\ e \in Exprs

\* the list formulation gives the declarative result for every order of the introspection list
OrderIndependent ==
    LET L == SetToSeq(T) IN
    \A pi \in Permutations(1..Len(L)) : ResolveList(e, [i \in 1..Len(L) |-> L[pi[i]]]) = Outcome(e, T)

\* ambiguity is reported iff more than one target is designated, success iff exactly one, and the candidates named
\* are exactly those targets
AmbiguousIff ==
    LET o == Outcome(e, T)   n == Cardinality(Sel(e, T)) IN
    /\ o.k \in {"ok", "notfound", "ambiguous", "badtype"}
    /\ o.k = "badtype" <=> (e.ty # "" /\ e.ty \notin DocTypes)
    /\ o.k # "badtype" => /\ (o.k = "ambiguous" <=> n > 1) /\ (o.k = "ok" <=> n = 1) /\ (o.k = "notfound" <=> n = 0)
                          /\ o.ids = Ids(Sel(e, T))

\* every candidate of an ambiguity can be reached by the fully qualified expression that names it
SuggestionsResolve ==
    Outcome(e, T).k = "ambiguous" => \A t \in Sel(e, T) : Outcome(FQ(t), T) = Out("ok", {t.id}, "")

\* PATH + NAME.SUFFIX + TYPE: at most one target
FullyQualifiedAtMostOne ==
    (e.p # "" /\ e.ty # "") => /\ Cardinality({ t \in T : Match(e, t) /\ FullName(e, t) }) <= 1
                               /\ ((\E t \in T : Match(e, t) /\ FullName(e, t)) => Outcome(e, T).k = "ok")

\* every target is addressable (evaluated once per T)
Addressable ==
    (e.p = "" /\ e.ty = "" /\ e.g = <<"nosuch">>) => \A t \in T : Outcome(FQ(t), T) = Out("ok", {t.id}, "")

\* what is resolved is one of the matching targets; the permitted alternative only ever adds an ambiguity
PermittedSane ==
    \A o \in Permitted(e, T) : o = Outcome(e, T) \/ (Outcome(e, T).k = "notfound" /\ e.p # "") \/ (o.k = "ambiguous" /\ Outcome(e, T).k \in {"ok", "ambiguous"} /\ Outcome(e, T).ids \subseteq o.ids)

\* adding PATH or TYPE never moves a resolved expression to another target (only to an error), narrows an
\* ambiguity to a subset of its candidates, and never makes something out of nothing
NarrowStep ==
    LET o == Outcome(e, T)   o2 == Outcome(e', T') IN
    (e'.g = e.g /\ o2.k # "badtype") =>
        /\ o.k = "ok" => (o2 = o \/ o2.k = "notfound")
        /\ o.k = "ambiguous" => (o2.k = "notfound" \/ o2.ids \subseteq o.ids)
        /\ o.k = "notfound" => o2.k = "notfound"
NarrowByPathOrType == [][NarrowStep]_vars

\* adding the SUFFIX: if NAME resolved to a target with that name_suffix it stays this target; a target without
\* name_suffix is never designated by NAME.SUFFIX (unless its own name is that text)
SuffixStep ==
    LET o == Outcome(e, T)   o2 == Outcome(e', T') IN
    (e'.g # e.g /\ o.k = "ok") =>
        LET t == TargetOf(e, T) IN
        /\ (t.s = e'.g[2]) => o2 = o
        /\ (t.s # e'.g[2] /\ o2.k = "ok") => TargetOf(e', T').id # t.id
AddingSuffix == [][SuffixStep]_vars

\* removing qualifiers from a resolved expression never loses the target: it stays a candidate
WidenStep ==
    LET o == Outcome(e, T)   o2 == Outcome(e', T') IN
    (e'.g = e.g /\ o2.k = "ok") => (o.k \in {"ok", "ambiguous"} /\ o2.ids \subseteq o.ids)
WidenKeepsCandidate == [][WidenStep]_vars

\* the operands handed to ninja are total and name outputs below the build directory
OperandsDefined ==
    Outcome(e, T).k = "ok" => LET ops == Operands(TargetOf(e, T)) IN Len(ops) >= 1 /\ \A i \in 1..Len(ops) : ops[i] # ""

-----------------------------------------------------------------------------
\* export of the model's input space for the implementation replay
Export ==
    LET U == SetToSeq(Universe)
        idx(t) == CHOOSE i \in 1..Len(U) : U[i] = t
        E == SetToSeq(Exprs)
    IN /\ TLCGet("stats").diameter >= 0
       /\ JsonSerialize("model.json",
              [universe |-> U, exprs |-> E,
               sets |-> SetToSeq({ SetToSortSeq({ idx(t) : t \in S }, <) : S \in Sets })])
=============================================================================
