---------------------------- MODULE TraceMCompile ----------------------------
(***************************************************************************)
(* Trace validation for X03.  TRACE_FILE holds                               *)
(*   [univ : table of targets, exprs : table of expressions, cases : ...]    *)
(* and two kinds of cases, all judged with the operators of MCompile:        *)
(*                                                                         *)
(* kind "R" - resolution: one introspection list (c.t: indices into univ,    *)
(*   in list order) and, for every expression of the table, what             *)
(*   mesonbuild.mcompile answered: c.r[x] > 0 resolved to univ[c.r[x]],      *)
(*   0 "target not found", -1 "unknown target type", -2 "ambiguous" with     *)
(*   the candidates it named in c.a (as parsed expressions), -9 anything     *)
(*   else.                                                                   *)
(* kind "C" - command: the targets of a real build directory (c.T, the       *)
(*   projection of its intro-targets.json) and a list of `meson compile`     *)
(*   invocations c.runs, each [X : expressions, f : flags, cwd, bd : "ok" when -C names a     *)
(*   configured build directory, n : how                                    *)
(*   often the backend was started, argv : what it was given, nrc : the      *)
(*   status it returned, rc : the status of meson, err : the error reported  *)
(*   [k, x : index of the expression blamed, id, c : candidates named]].     *)
(*                                                                         *)
(* An answer is accepted iff it is one of Permitted(e, T).  A rejected       *)
(* answer is attributed to a clause: the general clause "Resolve", or - when *)
(* the answer is exactly what the rule book would say after deleting one of  *)
(* its rules - the name of that rule.                                        *)
(***************************************************************************)
EXTENDS MCompile, Json, IOUtils

Data == JsonDeserialize(IOEnv.TRACE_FILE)
Cases == Data.cases

VARIABLES i, done
vars == <<i, done>>

Cands(ids, T) == { FQ(t) : t \in { u \in T : u.id \in ids } }

\* got = [k, id, c]; does it say what outcome o says (ids compared only when the observation has one)
Agree(got, o, T) ==
    /\ got.k = o.k
    /\ (got.k = "ok" /\ got.id # "") => got.id \in o.ids
    /\ got.k = "ambiguous" => Elems(got.c) = Cands(o.ids, T)

Accepted(e, T, got) == \E o \in Permitted(e, T) : Agree(got, o, T)

\* the rule book without "an omitted SUFFIX matches any name_suffix" once PATH or TYPE is given
NoWild(e, T) == IF e.p # "" \/ e.ty # "" THEN { t \in T : ~(t.s # "" /\ e.g = t.n) } ELSE T
\* the rule book with "PATH is the directory of the first output" instead of "directory of the meson.build": ByOutDir

ResolveClause(e, T, got) ==
    IF NoWild(e, T) # T /\ Agree(got, Outcome(e, NoWild(e, T)), NoWild(e, T)) THEN "OmittedSuffixIsWildcard"
    ELSE IF ByOutDir(T) # T /\ Agree(got, Outcome(e, ByOutDir(T)), ByOutDir(T)) THEN "PathIsDirOfMesonBuild"
    ELSE IF ByOutDir(T) # T /\ Agree(got, Outcome(e, NoWild(e, ByOutDir(T))), NoWild(e, ByOutDir(T)))
         THEN "OmittedSuffixIsWildcard+PathIsDirOfMesonBuild"
    ELSE "Resolve"

Shape(e) == (IF e.p # "" THEN "P" ELSE "") \o (IF Len(e.g) > 1 THEN "S" ELSE "") \o (IF e.ty # "" THEN "T" ELSE "")

Fail(x, e, T, got) == [x |-> x, clause |-> ResolveClause(e, T, got), shape |-> Shape(e),
                       spec |-> Outcome(e, T).k, impl |-> got.k]

-----------------------------------------------------------------------------
\* kind "R"
GotR(c, x) ==
    LET r == c.r[x] IN
    IF r > 0 THEN [k |-> "ok", id |-> Data.univ[r].id, c |-> <<>>]
    ELSE IF r = 0 THEN [k |-> "notfound", id |-> "", c |-> <<>>]
    ELSE IF r = -1 THEN [k |-> "badtype", id |-> "", c |-> <<>>]
    ELSE IF r = -2 THEN [k |-> "ambiguous", id |-> "", c |-> (CHOOSE a \in Elems(c.a) : a.x = x).c]
    ELSE [k |-> "other", id |-> "", c |-> <<>>]

JudgeR(c) ==
    LET T == { Data.univ[j] : j \in Elems(c.t) }
        bad == { x \in 1..Len(Data.exprs) : ~Accepted(Data.exprs[x], T, GotR(c, x)) }
        \* one witness expression per (clause, shape, spec, impl)
        \* the operands computed for a resolved target (recorded for some cases only: c.ops # <<>>)
        badops == IF c.ops = <<>> THEN {}
                  ELSE { x \in 1..Len(Data.exprs) : c.r[x] > 0 /\ c.ops[x] # Operands(Data.univ[c.r[x]]) }
        fails == { Fail(x, Data.exprs[x], T, GotR(c, x)) : x \in bad } \cup
                 { [x |-> x, clause |-> "Operands", shape |-> Shape(Data.exprs[x]), spec |-> "ok", impl |-> "ok"] : x \in badops }
        keys == { [clause |-> w.clause, shape |-> w.shape, spec |-> w.spec, impl |-> w.impl] : w \in fails }
        pick(k) == CHOOSE w \in fails : w.clause = k.clause /\ w.shape = k.shape /\ w.spec = k.spec /\ w.impl = k.impl
                                         /\ \A v \in fails : (v.clause = k.clause /\ v.shape = k.shape /\ v.spec = k.spec
                                                              /\ v.impl = k.impl) => w.x <= v.x
    IN [id |-> c.id, clause |-> IF bad \cup badops = {} THEN "ok" ELSE "Resolve", nbad |-> Cardinality(bad \cup badops),
        fails |-> { pick(k) : k \in keys }]

-----------------------------------------------------------------------------
\* kind "C"
GotErr(r) == [k |-> r.err.k, id |-> r.err.id, c |-> r.err.c]

RunClause(T, r) ==
    LET kind == PlanKind(r.f, r.X, T)
        must == StrictlyFailing(r.X, T)
    IN
    IF r.bd # "ok" THEN (IF r.n = 0 /\ r.rc # 0 /\ r.err.k = "nobuilddir" THEN "ok" ELSE "ConfiguredBuildDirRequired")
    ELSE IF kind = "usage" THEN (IF r.n = 0 /\ r.rc # 0 /\ r.err.k = "usage" THEN "ok" ELSE "TargetsAndCleanExclusive")
    ELSE IF r.n = 0 THEN
        IF r.rc = 0 THEN "ErrorExitStatus"
        ELSE IF r.err.x \in 1..Len(r.X) THEN
             LET e == r.X[r.err.x] IN
             IF \E o \in Permitted(e, T) : o.k # "ok" /\ Agree(GotErr(r), o, T) THEN "ok"
             ELSE ResolveClause(e, T, GotErr(r))
        ELSE "UnexpectedError"
    ELSE IF r.n # 1 THEN "OneBackendInvocation"
    ELSE IF must # {} THEN
        LET x == CHOOSE x \in must : \A y \in must : x <= y IN
        ResolveClause(r.X[x], T, [k |-> "ok", id |-> "", c |-> <<>>])
    ELSE IF ~(Len(r.argv) >= Len(OperandPart(r.f, r.X, T))
              /\ SubSeq(r.argv, Len(r.argv) - Len(OperandPart(r.f, r.X, T)) + 1, Len(r.argv)) = OperandPart(r.f, r.X, T))
         THEN "Operands"
    ELSE IF ~ArgvPermitted(r.argv, r.cwd, r.f, r.X, T) THEN "Options"
    ELSE IF (r.nrc = 0) # (r.rc = 0) THEN "ExitStatus"
    ELSE "ok"

\* the expression a failing run is attributed to (for the shape of the signature)
Blamed(T, r) ==
    IF r.n = 0 /\ r.err.x \in 1..Len(r.X) THEN r.err.x
    ELSE IF r.n >= 1 /\ StrictlyFailing(r.X, T) # {} THEN CHOOSE x \in StrictlyFailing(r.X, T) : \A y \in StrictlyFailing(r.X, T) : x <= y
    ELSE 0

JudgeC(c) ==
    LET T == Elems(c.T)
        bad == { k \in 1..Len(c.runs) : RunClause(T, c.runs[k]) # "ok" }
    IN [id |-> c.id, clause |-> IF bad = {} THEN "ok" ELSE "Run", nbad |-> Cardinality(bad),
        fails |-> { LET r == c.runs[k]   b == Blamed(T, r) IN
                    [x |-> k, clause |-> RunClause(T, r),
                     shape |-> IF b = 0 THEN "" ELSE Shape(r.X[b]),
                     spec |-> IF b = 0 THEN PlanKind(r.f, r.X, T) ELSE Outcome(r.X[b], T).k,
                     impl |-> IF r.n = 0 THEN r.err.k ELSE "ran"] : k \in bad }]

\* kind "V": get_parsed_args_vs on the same kind of record (argv[2] projected to "@SLN" when it is the solution file of
\* the build directory; r.n = 1 when a command line was produced, 0 when an error was raised)
RunClauseV(T, r) ==
    LET must == StrictlyFailing(r.X, T) IN
    IF r.n = 0 THEN
        IF r.err.x \in 1..Len(r.X) THEN
             LET e == r.X[r.err.x] IN
             IF \E o \in Permitted(e, T) : o.k # "ok" /\ Agree(GotErr(r), o, T) THEN "ok"
             ELSE ResolveClause(e, T, GotErr(r))
        ELSE "UnexpectedError"
    ELSE IF must # {} THEN
        LET x == CHOOSE x \in must : \A y \in must : x <= y IN
        ResolveClause(r.X[x], T, [k |-> "ok", id |-> "", c |-> <<>>])
    ELSE VsClause(r.argv, r.f, r.X, T)

JudgeV(c) ==
    LET T == Elems(c.T)
        bad == { k \in 1..Len(c.runs) : RunClauseV(T, c.runs[k]) # "ok" }
    IN [id |-> c.id, clause |-> IF bad = {} THEN "ok" ELSE "Run", nbad |-> Cardinality(bad),
        fails |-> { LET r == c.runs[k]   b == Blamed(T, r) IN
                    [x |-> k, clause |-> RunClauseV(T, r),
                     shape |-> IF b = 0 THEN "" ELSE Shape(r.X[b]),
                     spec |-> IF b = 0 THEN "run" ELSE Outcome(r.X[b], T).k,
                     impl |-> IF r.n = 0 THEN r.err.k ELSE "ran"] : k \in bad }]

Judge(c) == IF c.kind = "R" THEN JudgeR(c) ELSE IF c.kind = "V" THEN JudgeV(c) ELSE JudgeC(c)

Init == i \in 1..Len(Cases) /\ done = FALSE
Next == /\ ~done
        /\ done' = TRUE
        /\ i' = i
        /\ LET v == Judge(Cases[i]) IN v.clause = "ok" \/ PrintT(ToJson(v))
Spec == Init /\ [][Next]_vars
=============================================================================
